(* cencoding.read_bitpacked1 (np.unpackbits-like loop) = PLAIN boolean / width-1 bit packing of the
   specification, for every count and every output capacity; encoding.read_plain_boolean;
   writer.convert's np.packbits idiom. *)
From Coq Require Import NArith ZArith Arith List Lia Bool.
From Pq Require Import Base.Bytes Base.Bits Base.Err Base.ListX
  Proofs.BytesProofs Proofs.ListXProofs Proofs.CodecProofs Proofs.CVarintProofs Proofs.HybridProofs
  Codec.Bitpack Codec.Plain Impl.CBitpack Impl.PyPack.
Import ListNotations.
Open Scope N_scope.

Definition allbits (inp : bytes) : list N := concat (map (bits8 8) inp).

Lemma bits8_length k b : length (bits8 k b) = k.
Proof. revert b; induction k as [|k IH]; intros b; cbn [bits8 length]; auto. Qed.

Lemma allbits_length inp : length (allbits inp) = (8 * length inp)%nat.
Proof.
  unfold allbits. induction inp as [|b r IH]; [reflexivity|].
  cbn [map concat length]. rewrite app_length, bits8_length, IH. lia.
Qed.

Lemma bits8_firstn k b : (k <= 8)%nat -> bits8 k b = firstn k (bits8 8 b).
Proof.
  intros H. do 9 (destruct k as [|k]; [reflexivity|]). lia.
Qed.

(* one byte: the 8 bits are the width-1 digits of the byte (finite check over the 256 bytes) *)
Lemma bits8_spec b : b < 256 -> bits8 8 b = map (fun k => bp_get 1 b (N.of_nat k)) (seq 0 8).
Proof.
  intros Hb.
  apply (byte_cases (fun b => list_eqb N.eqb (bits8 8 b) (map (fun k => bp_get 1 b (N.of_nat k)) (seq 0 8)))) in Hb;
    [|vm_compute; reflexivity].
  destruct (list_eqb_spec N.eqb N.eqb_spec (bits8 8 b) (map (fun k => bp_get 1 b (N.of_nat k)) (seq 0 8))) as [E|E];
    [exact E|discriminate].
Qed.

Lemma bp_get1_low b S' k : b < 256 -> k < 8 -> bp_get 1 (b + 256 * S') k = bp_get 1 b k.
Proof.
  intros Hb Hk. unfold bp_get. rewrite !N.mul_1_r.
  assert (E : forall a, (a / 2 ^ k) mod 2 ^ 1 = (a mod 2 ^ (k + 1)) / 2 ^ k).
  { intros a. rewrite mod_pow_div by lia. f_equal. f_equal. lia. }
  rewrite !E. f_equal.
  rewrite <- (mod_mod_pow (b + 256 * S') 8 (k + 1)) by lia.
  rewrite <- (mod_mod_pow b 8 (k + 1)) by lia. f_equal.
  change (2 ^ 8) with 256. rewrite N.mul_comm, N.mod_add by lia. reflexivity.
Qed.

Lemma bp_get1_high b S' k : b < 256 -> bp_get 1 (b + 256 * S') (k + 8) = bp_get 1 S' k.
Proof.
  intros Hb. unfold bp_get. rewrite !N.mul_1_r. f_equal.
  replace (k + 8) with (8 + k) by lia. rewrite <- div_div_pow. change (2 ^ 8) with 256.
  rewrite N.mul_comm, N.div_add by lia. rewrite (N.div_small b 256) by exact Hb. reflexivity.
Qed.

Lemma seq_shift_n k : forall m, seq k m = map (fun i => (k + i)%nat) (seq 0 m).
Proof.
  intros m; revert k; induction m as [|m IH]; intros k; [reflexivity|].
  cbn [seq map]. rewrite Nat.add_0_r. f_equal.
  rewrite IH, <- seq_shift, map_map. apply map_ext. intros i. lia.
Qed.

(* decoding n width-1 values from a byte string = the first n bits of its bytes *)
Lemma bp_dec_ref1_allbits : forall inp n, bytes_ok inp -> (n <= 8 * length inp)%nat ->
  bp_dec_ref 1 n (le2n inp) = firstn n (allbits inp).
Proof.
  induction inp as [|b r IH]; intros n Hok Hn.
  - cbn [length] in Hn. assert (n = 0%nat) by lia. subst. reflexivity.
  - pose proof (Forall_inv Hok) as Hb. cbv beta in Hb. pose proof (Forall_inv_tail Hok) as Hr.
    unfold allbits. cbn [map concat]. fold (allbits r). rewrite le2n_cons.
    rewrite firstn_app, bits8_length.
    destruct (Nat.le_gt_cases n 8) as [Hle|Hgt].
    + replace (n - 8)%nat with 0%nat by lia. cbn [firstn]. rewrite app_nil_r.
      rewrite bits8_spec by exact Hb. rewrite firstn_map, firstn_seq' by lia.
      unfold bp_dec_ref. apply map_ext_in. intros k Hk. apply in_seq in Hk.
      apply bp_get1_low; [exact Hb|lia].
    + rewrite firstn_all2 by (rewrite bits8_length; lia).
      unfold bp_dec_ref. replace n with (8 + (n - 8))%nat at 1 by lia.
      rewrite seq_app, map_app. f_equal.
      * rewrite bits8_spec by exact Hb. apply map_ext_in. intros k Hk. apply in_seq in Hk.
        apply bp_get1_low; [exact Hb|lia].
      * rewrite <- IH by (try exact Hr; cbn [length] in Hn; lia).
        unfold bp_dec_ref. rewrite (seq_shift_n 8). rewrite map_map.
        apply map_ext. intros k. replace (N.of_nat (8 + k)) with (N.of_nat k + 8) by lia.
        apply bp_get1_high. exact Hb.
Qed.

Lemma allbits_app a b : allbits (a ++ b) = allbits a ++ allbits b.
Proof. unfold allbits. now rewrite map_app, concat_app. Qed.

Lemma allbits_prefix pre b rest j : (j <= 8)%nat ->
  allbits pre ++ bits8 j b = firstn (8 * length pre + j) (allbits (pre ++ b :: rest)).
Proof.
  intros Hj. rewrite allbits_app. rewrite firstn_app, allbits_length.
  rewrite firstn_all2 by (rewrite allbits_length; lia). f_equal.
  replace (8 * length pre + j - 8 * length pre)%nat with j by lia.
  unfold allbits. cbn [map concat]. rewrite firstn_app, bits8_length.
  replace (j - 8)%nat with 0%nat by lia. cbn [firstn]. rewrite app_nil_r. now apply bits8_firstn.
Qed.

Lemma rb1_bytes_ok : forall fuel inp m acc,
  (m <= length inp)%nat -> (m <= length fuel)%nat ->
  rb1_bytes inp (N.of_nat m) acc fuel = Ok (rev (allbits (firstn m inp)) ++ acc, skipn m inp).
Proof.
  induction fuel as [|f0 fuel IH]; intros inp m acc Hm Hf.
  - cbn [length] in Hf. assert (m = 0%nat) by lia. subst. destruct inp; reflexivity.
  - destruct m as [|m]; [destruct inp; reflexivity|].
    destruct inp as [|b r]; [cbn [length] in Hm; lia|].
    cbn [rb1_bytes]. destruct (N.eqb_spec (N.of_nat (S m)) 0) as [E|_]; [lia|].
    replace (N.of_nat (S m) - 1) with (N.of_nat m) by lia.
    cbn [length] in Hm, Hf. rewrite IH by lia.
    cbn [firstn skipn]. f_equal. f_equal.
    change (b :: firstn m r) with ([b] ++ firstn m r). rewrite allbits_app, rev_app_distr.
    rewrite rev_append_rev, <- app_assoc.
    assert (E : allbits [b] = bits8 8 b) by (unfold allbits; cbn [map concat]; apply app_nil_r).
    now rewrite E.
Qed.

Ltac Zify.zify_post_hook ::= Z.to_euclidean_division_equations.
Lemma div8_facts c : c = 8 * (c / 8) + c mod 8 /\ c mod 8 < 8.
Proof. lia. Qed.
Lemma bytes_needed c L : (c + 7) / 8 <= L -> c / 8 <= L /\ (c mod 8 <> 0 -> c / 8 < L) /\ c <= 8 * L.
Proof. lia. Qed.
Ltac Zify.zify_post_hook ::= idtac.

(* MAIN THEOREM: read_bitpacked1 with `count` requested values and an output of `cap` bytes, the
   ceil(min(count, cap)/8) bytes holding the values being present: exactly min(count, cap) values are
   stored - the specification's boolean decoding of the input - and the input cursor moves by
   ceil(count/8). *)
Theorem read_bitpacked1_correct inp count cap :
  bytes_ok inp -> (N.min count cap + 7) / 8 <= N.of_nat (length inp) ->
  c_read_bitpacked1 inp count cap =
  Ok {| d_vals := bool_dec (N.min count cap) inp; d_used := (count + 7) / 8; d_written := N.min count cap |}.
Proof.
  intros Hok Hlen. unfold c_read_bitpacked1.
  assert (Ec : (if cap <? count then cap else count) = N.min count cap) by (destruct (N.ltb_spec cap count); lia).
  rewrite Ec. set (c := N.min count cap) in *.
  destruct (div8_facts c) as [Hc Hj]. destruct (bytes_needed c _ Hlen) as (Hm & Hmj & Hc8).
  set (m := c / 8) in *. set (j := c mod 8) in *.
  rewrite <- (N2Nat.id m). rewrite rb1_bytes_ok by lia.
  unfold bool_dec, bp_dec. rewrite bp_unpack_ref, le2n_tr_ok.
  rewrite bp_dec_ref1_allbits by (try exact Hok; lia).
  destruct (N.eqb_spec j 0) as [Ej|Ej].
  - f_equal. f_equal. rewrite rev_append_rev, !app_nil_r, rev_involutive.
    rewrite <- (firstn_skipn (N.to_nat m) inp) at 2. rewrite allbits_app.
    rewrite firstn_app, allbits_length, firstn_length_le by lia.
    replace (N.to_nat c - 8 * N.to_nat m)%nat with 0%nat by lia. cbn [firstn]. rewrite app_nil_r.
    symmetry. apply firstn_all2. rewrite allbits_length, firstn_length_le; lia.
  - specialize (Hmj Ej).
    destruct (skipn (N.to_nat m) inp) as [|b rest] eqn:Es.
    { exfalso. pose proof (skipn_length (N.to_nat m) inp) as Hs. rewrite Es in Hs. cbn [length] in Hs. lia. }
    f_equal. f_equal. rewrite !rev_append_rev, !app_nil_r, rev_app_distr, !rev_involutive.
    rewrite <- (firstn_skipn (N.to_nat m) inp) at 2. rewrite Es.
    replace (N.to_nat c) with (8 * length (firstn (N.to_nat m) inp) + N.to_nat j)%nat
      by (rewrite firstn_length_le; lia).
    apply allbits_prefix. lia.
Qed.

(* encoding.read_plain_boolean(raw, count) returns the specification's decoding of the first count booleans *)
Theorem read_plain_boolean_correct raw count :
  bytes_ok raw -> (count + 7) / 8 <= N.of_nat (length raw) ->
  py_read_plain_boolean raw count = Ok (bool_dec count raw).
Proof.
  intros Hok Hlen. unfold py_read_plain_boolean.
  rewrite read_bitpacked1_correct by (try exact Hok; rewrite N.min_id; exact Hlen).
  cbn [d_vals]. rewrite N.min_id. f_equal.
  rewrite takeN_ok. apply firstn_all2. unfold bool_dec. rewrite bp_dec_length. lia.
Qed.

(* ---- writer.convert's boolean packing: np.pad + reshape(-1, 8)[:, ::-1] + np.packbits ---- *)
Lemma byte_lsb_step b r : b < 2 -> byte_lsb (b :: r) = b + 2 * byte_lsb r.
Proof. intros H. cbn [byte_lsb]. destruct (N.eqb_spec b 0); lia. Qed.

Lemma bits8_byte_lsb : forall row, Forall (fun b => b < 2) row -> bits8 (length row) (byte_lsb row) = row.
Proof.
  induction row as [|b r IH]; intros H; [reflexivity|].
  pose proof (Forall_inv H) as Hb. cbv beta in Hb. pose proof (Forall_inv_tail H) as Hr.
  rewrite byte_lsb_step by exact Hb. cbn [length bits8]. f_equal.
  - change 1 with (N.ones 1). rewrite N.land_ones. change (2 ^ 1) with 2.
    rewrite N.mul_comm, N.mod_add by lia. apply N.mod_small. exact Hb.
  - rewrite shiftr_div. change (2 ^ 1) with 2. rewrite N.mul_comm, N.div_add by lia.
    rewrite N.div_small by exact Hb. rewrite N.add_0_l. now rewrite IH.
Qed.

Lemma byte_lsb_bound : forall row, Forall (fun b => b < 2) row -> byte_lsb row < 2 ^ N.of_nat (length row).
Proof.
  induction row as [|b r IH]; intros H; [cbn; lia|].
  pose proof (Forall_inv H) as Hb. cbv beta in Hb. pose proof (Forall_inv_tail H) as Hr.
  rewrite byte_lsb_step by exact Hb. cbn [length]. rewrite Nat2N.inj_succ, N.pow_succ_r'. specialize (IH Hr). lia.
Qed.

Definition row_ok (row : list N) : Prop := length row = 8%nat /\ Forall (fun b => b < 2) row.

Lemma rows8_ok : forall g fuel l, length l = (8 * g)%nat -> (g <= fuel)%nat -> Forall (fun b => b < 2) l ->
  concat (rows8 fuel l) = l /\ Forall row_ok (rows8 fuel l).
Proof.
  induction g as [|g IH]; intros fuel l Hl Hf Hb.
  - destruct l; [|cbn [length] in Hl; lia]. destruct fuel; cbn; auto.
  - destruct fuel as [|fuel]; [lia|]. destruct l as [|x l']; [cbn [length] in Hl; lia|].
    cbn [rows8]. set (l := x :: l') in *.
    destruct (IH fuel (skipn 8 l)) as [Hc Hr].
    + rewrite skipn_length. lia.
    + lia.
    + rewrite <- (firstn_skipn 8 l) in Hb. apply Forall_app in Hb. tauto.
    + split.
      * cbn [concat]. rewrite Hc. apply firstn_skipn.
      * constructor; [|exact Hr]. split.
        -- rewrite firstn_length_le; lia.
        -- rewrite <- (firstn_skipn 8 l) in Hb. apply Forall_app in Hb. tauto.
Qed.

Lemma allbits_rows rows : Forall row_ok rows -> allbits (map byte_lsb rows) = concat rows /\ bytes_ok (map byte_lsb rows).
Proof.
  induction 1 as [|row rows [Hl Hb] Hrs [IH1 IH2]]; [split; [reflexivity|constructor]|].
  split.
  - unfold allbits. cbn [map concat]. fold (allbits (map byte_lsb rows)). rewrite IH1. f_equal.
    rewrite <- Hl. now apply bits8_byte_lsb.
  - cbn [map]. constructor; [|exact IH2]. pose proof (byte_lsb_bound row Hb) as B. rewrite Hl in B. exact B.
Qed.

(* MAIN THEOREM: the bytes written for a boolean column chunk decode (spec PLAIN boolean) to the
   input, whatever its length *)
Theorem packbits_is_bp1 vs : Forall (fun b => b < 2) vs ->
  bool_dec (N.of_nat (length vs)) (py_bool_pack vs) = vs.
Proof.
  intros Hb. unfold py_bool_pack.
  set (padded := vs ++ PyPack.zeros (8 - length vs mod 8)).
  assert (Hz : forall n, Forall (fun b => b < 2) (PyPack.zeros n)) by (induction n; cbn; constructor; auto; lia).
  assert (Hzl : forall n, length (PyPack.zeros n) = n) by (induction n; cbn; auto).
  pose proof (Nat.div_mod (length vs) 8 ltac:(lia)) as E.
  pose proof (Nat.mod_upper_bound (length vs) 8 ltac:(lia)) as B.
  assert (Hlen : length padded = (8 * (length vs / 8 + 1))%nat).
  { unfold padded. rewrite app_length, Hzl. lia. }
  assert (Hpb : Forall (fun b => b < 2) padded) by (apply Forall_app; split; [exact Hb|apply Hz]).
  destruct (rows8_ok _ (length padded) padded Hlen ltac:(lia) Hpb) as [Hc Hr].
  destruct (allbits_rows _ Hr) as [Ha Hok].
  unfold bool_dec, bp_dec. rewrite bp_unpack_ref, le2n_tr_ok, Nat2N.id.
  rewrite bp_dec_ref1_allbits.
  - rewrite Ha, Hc. unfold padded. rewrite firstn_app, Nat.sub_diag, firstn_all. cbn [firstn]. apply app_nil_r.
  - exact Hok.
  - rewrite map_length.
    assert (H8 : (8 * length (rows8 (length padded) padded))%nat = length padded).
    { rewrite <- (map_length byte_lsb), <- allbits_length, Ha, Hc. reflexivity. }
    rewrite H8, Hlen. lia.
Qed.
