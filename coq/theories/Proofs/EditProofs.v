(* Proofs about Dataset/Edit.v (property C09): the invariant "summary and directory agree" and the
   refinement of the plain model, for ANY _sort_part_names that keeps the invariant and the abstract
   content (section SortpGeneric); Proofs/EditRename.v shows that the repaired one does.            *)
From Coq Require Import NArith ZArith Arith List Bool Lia Permutation.
From Pq Require Import Base.Bytes Proofs.BytesProofs Dataset.FS Dataset.FsPaths Dataset.Crash Proofs.CrashProofs
  Dataset.Reject Proofs.RejectProofs Dataset.Edit.
Import ListNotations.

(* ------------------------------------------------------------------------------------------ *)
(* generic list facts                                                                         *)
(* ------------------------------------------------------------------------------------------ *)
Lemma mem_p_spec p l : mem_p p l = true <-> In p l.
Proof.
  unfold mem_p. rewrite existsb_exists. split.
  - intros [x [Hx E]]. apply bytes_eqb_true in E. now subst.
  - intros H. exists p. split; [exact H | apply bytes_eqb_refl].
Qed.

Lemma mem_p_false p l : mem_p p l = false <-> ~ In p l.
Proof. rewrite <- mem_p_spec. destruct (mem_p p l); split; congruence. Qed.

Lemma NoDup_app_intro {A} (a b : list A) :
  NoDup a -> NoDup b -> (forall x, In x a -> ~ In x b) -> NoDup (a ++ b).
Proof.
  induction a as [|x a IH]; cbn; intros Ha Hb H; [exact Hb|].
  inversion Ha; subst. constructor.
  - intros Hin. apply in_app_or in Hin. destruct Hin as [Hin|Hin]; [contradiction | exact (H x (or_introl eq_refl) Hin)].
  - apply IH; auto.
Qed.

Lemma NoDup_app_l {A} (a b : list A) : NoDup (a ++ b) -> NoDup a.
Proof. induction a as [|x a IH]; cbn; intros H; [constructor|]. inversion H; subst. constructor; [|auto]. intros Hx; apply H2, in_or_app; now left. Qed.

Lemma NoDup_app_r {A} (a b : list A) : NoDup (a ++ b) -> NoDup b.
Proof. induction a as [|x a IH]; cbn; intros H; [exact H|]. inversion H; auto. Qed.

Lemma NoDup_app_disj {A} (a b : list A) x : NoDup (a ++ b) -> In x a -> ~ In x b.
Proof.
  induction a as [|y a IH]; cbn; intros H Hx Hb; [contradiction|]. inversion H; subst.
  destruct Hx as [Hx|Hx]; [subst; apply H2, in_or_app; now right | exact (IH H3 Hx Hb)].
Qed.

Lemma NoDup_map_filter {A B} (f : A -> B) (P : A -> bool) l : NoDup (map f l) -> NoDup (map f (filter P l)).
Proof.
  induction l as [|x l IH]; cbn; intros H; [constructor|]. inversion H; subst.
  destruct (P x); cbn; [constructor; [|auto] | auto].
  intros Hin. apply H2. apply in_map_iff in Hin. destruct Hin as [y [E Hy]]. apply filter_In in Hy.
  apply in_map_iff. exists y. tauto.
Qed.

Lemma NoDup_map_inj_in {A B} (f : A -> B) l x y : NoDup (map f l) -> In x l -> In y l -> f x = f y -> x = y.
Proof.
  induction l as [|z l IH]; cbn; intros H Hx Hy E; [contradiction|]. inversion H; subst.
  destruct Hx as [Hx|Hx], Hy as [Hy|Hy]; subst; auto.
  - exfalso. apply H2. rewrite E. now apply in_map.
  - exfalso. apply H2. rewrite <- E. now apply in_map.
Qed.

Lemma Permutation_filter {A} (f : A -> bool) l l' : Permutation l l' -> Permutation (filter f l) (filter f l').
Proof.
  induction 1; cbn; auto.
  - destruct (f x); auto.
  - destruct (f x), (f y); auto. constructor.
  - etransitivity; eauto.
Qed.

(* ---- isort ---- *)
Lemma insert_perm {A} (le : A -> A -> bool) x l : Permutation (insert le x l) (x :: l).
Proof.
  induction l as [|y l IH]; cbn; [reflexivity|]. destruct (le x y); [reflexivity|].
  etransitivity; [apply perm_skip, IH | apply perm_swap].
Qed.

Lemma isort_perm {A} (le : A -> A -> bool) l : Permutation (isort le l) l.
Proof. induction l as [|x l IH]; cbn; [reflexivity|]. etransitivity; [apply insert_perm | now apply perm_skip]. Qed.

Lemma insert_map {A B} (g : A -> B) (le : A -> A -> bool) (le' : B -> B -> bool) x l :
  (forall a b, le a b = le' (g a) (g b)) -> map g (insert le x l) = insert le' (g x) (map g l).
Proof. intros H. induction l as [|y l IH]; cbn; [reflexivity|]. rewrite <- H. destruct (le x y); cbn; [reflexivity | now rewrite IH]. Qed.

Lemma isort_map {A B} (g : A -> B) (le : A -> A -> bool) (le' : B -> B -> bool) l :
  (forall a b, le a b = le' (g a) (g b)) -> map g (isort le l) = isort le' (map g l).
Proof. intros H. induction l as [|x l IH]; cbn; [reflexivity|]. now rewrite (insert_map g le le' _ _ H), IH. Qed.

Lemma isort_ext {A} (le le' : A -> A -> bool) l : (forall a b, le a b = le' a b) -> isort le l = isort le' l.
Proof.
  intros H. induction l as [|x l IH]; cbn; [reflexivity|]. rewrite IH. generalize (isort le' l). intros m.
  induction m as [|y m IHm]; cbn; [reflexivity|]. rewrite H. destruct (le' x y); [reflexivity | now rewrite IHm].
Qed.

(* a stable sort by a key commutes with filtering *)
Section KeySort.
  Context {A : Type} (k : A -> N).
  Let le (x y : A) : bool := (k x <=? k y)%N.
  Definition lb (v : N) (m : list A) : Prop := forall z, In z m -> (v <= k z)%N.
  Fixpoint sorted_k (m : list A) : Prop := match m with [] => True | y :: r => lb (k y) r /\ sorted_k r end.

  Lemma insert_front x m : lb (k x) m -> insert le x m = x :: m.
  Proof.
    destruct m as [|y m]; intros H; [reflexivity|]. cbn. unfold le.
    assert (k x <= k y)%N by (apply H; now left). apply N.leb_le in H0. now rewrite H0.
  Qed.

  Lemma insert_in x l z : In z (insert le x l) <-> z = x \/ In z l.
  Proof.
    split; intros H.
    - apply (Permutation_in _ (insert_perm le x l)) in H. destruct H; auto.
    - apply (Permutation_in _ (Permutation_sym (insert_perm le x l))). destruct H; [left; auto | now right].
  Qed.

  Lemma insert_sorted x l : sorted_k l -> sorted_k (insert le x l).
  Proof.
    induction l as [|y l IH]; cbn; intros S; [split; [intros z [] | exact I]|]. destruct S as [L S].
    unfold le at 1. destruct (N.leb_spec (k x) (k y)) as [H|H]; cbn.
    - split; [|split; assumption]. intros z [Hz|Hz]; [subst; exact H | specialize (L z Hz); lia].
    - split; [|now apply IH]. intros z Hz. apply insert_in in Hz. destruct Hz as [Hz|Hz]; [subst; lia | now apply L].
  Qed.

  Lemma isort_sorted l : sorted_k (isort le l).
  Proof. induction l as [|x l IH]; cbn; [exact I | now apply insert_sorted]. Qed.

  Lemma filter_insert_sorted (P : A -> bool) x l : sorted_k l ->
    filter P (insert le x l) = if P x then insert le x (filter P l) else filter P l.
  Proof.
    induction l as [|y l IH]; intros S; [cbn; now destruct (P x)|]. destruct S as [L S].
    cbn [insert]. unfold le at 1. destruct (N.leb_spec (k x) (k y)) as [H|H].
    - cbn [filter]. destruct (P x); [|reflexivity]. symmetry. apply insert_front.
      intros z Hz. assert (Hz' : In z (y :: l)).
      { change (In z (filter P (y :: l))) in Hz. apply filter_In in Hz. tauto. }
      destruct Hz' as [Hz'|Hz']; [subst; exact H | specialize (L z Hz'); lia].
    - assert (E : le x y = false) by (unfold le; now apply N.leb_gt).
      cbn [filter]. rewrite (IH S). destruct (P x), (P y); cbn [insert]; rewrite ?E; reflexivity.
  Qed.

  Lemma filter_isort_key (P : A -> bool) l : filter P (isort le l) = isort le (filter P l).
  Proof.
    induction l as [|x l IH]; cbn; [reflexivity|]. rewrite filter_insert_sorted by apply isort_sorted.
    rewrite IH. now destruct (P x).
  Qed.
End KeySort.

(* ---- total ---- *)
Lemma total_from z l : fold_left (fun z e => (z + Z.of_nat (length (snd e)))%Z) l z = (z + total l)%Z.
Proof.
  unfold total. revert z. induction l as [|e l IH]; intros z; cbn; [lia|].
  rewrite IH, (IH (Z.of_nat (length (snd e)))). lia.
Qed.

Lemma total_cons (e : entry) l : total (e :: l) = (Z.of_nat (length (snd e)) + total l)%Z.
Proof. unfold total at 1. cbn. rewrite total_from. reflexivity. Qed.

Lemma total_app l l' : total (l ++ l') = (total l + total l')%Z.
Proof. induction l as [|e l IH]; [reflexivity|]. rewrite <- app_comm_cons, !total_cons, IH. lia. Qed.

Lemma total_perm l l' : Permutation l l' -> total l = total l'.
Proof. induction 1; rewrite ?total_cons in *; try lia; reflexivity. Qed.

Lemma total_filter_split (P : entry -> bool) l : total l = (total (filter P l) + total (filter (fun e => negb (P e)) l))%Z.
Proof. induction l as [|e l IH]; [reflexivity|]. cbn [filter]. rewrite total_cons, IH. destruct (P e); cbn [negb]; rewrite total_cons; lia. Qed.

(* ------------------------------------------------------------------------------------------ *)
(* paths                                                                                      *)
(* ------------------------------------------------------------------------------------------ *)
Lemma join_inj_dir d d' f : join d f = join d' f -> d = d'.
Proof.
  unfold join. destruct d as [|x d], d' as [|y d']; intros H; auto.
  - exfalso. apply (f_equal (@length N)) in H. rewrite !app_length in H. cbn in H. lia.
  - exfalso. apply (f_equal (@length N)) in H. rewrite !app_length in H. cbn in H. lia.
  - now apply app_inv_tail in H.
Qed.

Lemma no_nl_spec d : no_nl d = true <-> existsb (N.eqb 10) d = false.
Proof. unfold no_nl. now rewrite negb_true_iff. Qed.

Lemma join_part_inj d d' n n' : no_nl d = true -> no_nl d' = true ->
  join d (part_name n) = join d' (part_name n') -> d = d' /\ n = n'.
Proof.
  intros Hd Hd' E. assert (n = n').
  { pose proof (part_id_join d n Hd) as A. rewrite E, (part_id_join d' n' Hd') in A. congruence. }
  subst n'. split; [now apply join_inj_dir in E | reflexivity].
Qed.

Lemma digits_no_slash ds : forallb is_digit ds = true -> existsb (N.eqb slash) ds = false.
Proof.
  induction ds as [|b ds IH]; cbn [forallb existsb]; [reflexivity|]. intros H. apply andb_true_iff in H. destruct H as [Hb Hd].
  rewrite (IH Hd), orb_false_r. destruct (N.eqb_spec slash b) as [E|E]; [subst b; discriminate | reflexivity].
Qed.

Lemma part_name_no_slash n : existsb (N.eqb slash) (part_name n) = false.
Proof.
  unfold part_name. rewrite !existsb_app. unfold dec. rewrite (digits_no_slash _ (uint_bytes_digits _)). reflexivity.
Qed.

Lemma drop_to_slash_app a b : existsb (N.eqb slash) a = false -> drop_to_slash (a ++ slash :: b) = b.
Proof.
  induction a as [|x a IH]; cbn [existsb app drop_to_slash]; intros H.
  - now rewrite N.eqb_refl.
  - apply orb_false_iff in H. destruct H as [H1 H2]. rewrite N.eqb_sym, H1. auto.
Qed.

Lemma drop_to_slash_none a : existsb (N.eqb slash) a = false -> drop_to_slash a = [].
Proof.
  induction a as [|x a IH]; cbn [existsb drop_to_slash]; intros H; [reflexivity|].
  apply orb_false_iff in H. destruct H as [H1 H2]. rewrite N.eqb_sym, H1. auto.
Qed.

Lemma existsb_rev {A} (f : A -> bool) l : existsb f (rev l) = existsb f l.
Proof. induction l as [|x l IH]; cbn; [reflexivity|]. rewrite existsb_app, IH. cbn. rewrite orb_false_r. apply orb_comm. Qed.

Lemma dir_of_join d f : existsb (N.eqb slash) f = false -> dir_of (join d f) = d.
Proof.
  intros H. unfold dir_of, join. destruct d as [|x d].
  - rewrite drop_to_slash_none by now rewrite existsb_rev. reflexivity.
  - rewrite !rev_app_distr. cbn [rev app]. rewrite <- app_assoc. cbn [app].
    rewrite drop_to_slash_app by now rewrite existsb_rev. change (rev d ++ [x]) with (rev (x :: d)). apply rev_involutive.
Qed.

Lemma dir_of_part d n : dir_of (join d (part_name n)) = d.
Proof. apply dir_of_join, part_name_no_slash. Qed.

Lemma well_named_part_id p : well_named p -> exists n, part_id p = Some n.
Proof. intros [d [n [E [H _]]]]. exists n. subst p. apply part_id_join. now apply no_nl_spec. Qed.

Lemma part_ids_some l : (forall p, In p l -> exists n, part_id p = Some n) -> exists ns, part_ids l = Some ns.
Proof.
  induction l as [|p l IH]; cbn; intros H; [now exists []|].
  destruct (H p (or_introl eq_refl)) as [n Hn]. destruct IH as [ns Hns]; [intros; apply H; now right|].
  rewrite Hn, Hns. now eexists.
Qed.

Lemma find_max_part_some l : (forall p, In p l -> exists n, part_id p = Some n) -> exists off, find_max_part l = Some off.
Proof. intros H. unfold find_max_part. destruct (part_ids_some l H) as [ns E]. rewrite E. destruct ns; now eexists. Qed.

(* ------------------------------------------------------------------------------------------ *)
(* directory updates                                                                          *)
(* ------------------------------------------------------------------------------------------ *)
Lemma put_files_other sch es d q : ~ In q (map fst es) -> lookup q (put_files sch es d) = lookup q d.
Proof.
  unfold put_files. revert d. induction es as [|e es IH]; intros d H; cbn; [reflexivity|].
  rewrite IH by (intros Hq; apply H; now right). apply lookup_set_other.
  apply bytes_eqb_false. intros E. apply H. left. exact E.
Qed.

Lemma put_files_in sch es d e : NoDup (map fst es) -> In e es -> lookup (fst e) (put_files sch es d) = Some (sch :: snd e).
Proof.
  unfold put_files. revert d. induction es as [|x es IH]; intros d N Hin; [contradiction|]. cbn in N. inversion N; subst.
  cbn. destruct Hin as [Hin|Hin].
  - subst x. change (lookup (fst e) (put_files sch es (set_file (fst e) (sch :: snd e) d)) = Some (sch :: snd e)).
    rewrite put_files_other by assumption. apply lookup_set_same.
  - now apply IH.
Qed.

Lemma put_files_some sch es d q : lookup q (put_files sch es d) <> None -> In q (map fst es) \/ lookup q d <> None.
Proof.
  intros H. destruct (mem_p q (map fst es)) eqn:M; [left; now apply mem_p_spec|].
  right. rewrite <- (put_files_other sch es d q); [exact H | now apply mem_p_false].
Qed.

Lemma lookup_drop_files ps d q : lookup q (drop_files ps d) = if mem_p q ps then None else lookup q d.
Proof. unfold drop_files. rewrite (lookup_filter_key (fun k => negb (mem_p k ps))). now destruct (mem_p q ps). Qed.

(* ------------------------------------------------------------------------------------------ *)
(* new_entries                                                                                *)
(* ------------------------------------------------------------------------------------------ *)
Definition wf_rgs (rgs : list rgroup) : Prop :=
  forall g, In g rgs -> NoDup (map fst g) /\ forall e, In e g -> no_nl (fst e) = true.

Definition wf_op (o : op) : Prop :=
  match o with
  | OWrite _ r | OAppend r | OOverwrite r | OWriteRgs r _ _ => wf_rgs r
  | ORemove _ _ => True
  end.

Lemma new_entries_in off rgs e : In e (new_entries off rgs) ->
  exists n g d, (off <= n)%N /\ In g rgs /\ In (d, snd e) g /\ fst e = join d (part_name n).
Proof.
  revert off. induction rgs as [|g rgs IH]; cbn; intros off H; [contradiction|].
  apply in_app_or in H. destruct H as [H|H].
  - apply in_map_iff in H. destruct H as [[d r] [E Hx]]. subst e. cbn.
    exists off, g, d. repeat split; auto. lia.
  - destruct (IH _ H) as [n [g' [d [Hn [Hg [Hd Hp]]]]]]. exists n, g', d. repeat split; auto. lia.
Qed.

Lemma new_entries_nodup off rgs : wf_rgs rgs -> NoDup (map fst (new_entries off rgs)).
Proof.
  revert off. induction rgs as [|g rgs IH]; cbn; intros off W; [constructor|].
  rewrite map_app. apply NoDup_app_intro.
  - destruct (W g (or_introl eq_refl)) as [N D]. rewrite map_map. cbn.
    clear IH W. induction g as [|[d r] g IHg]; cbn in *; [constructor|]. inversion N; subst. constructor.
    + intros Hin. apply in_map_iff in Hin. destruct Hin as [[d' r'] [E Hx]]. cbn in E.
      destruct (join_part_inj d' d off off) as [E1 _]; [apply (D (d', r')); now right | apply (D (d, r)); now left | exact E|].
      subst d'. apply H1. apply in_map_iff. now exists (d, r').
    + apply IHg; [assumption | intros; apply D; now right].
  - apply IH. intros g' Hg'. apply W. now right.
  - intros p Hp Hq. apply in_map_iff in Hp. destruct Hp as [e1 [E1 H1]]. apply in_map_iff in H1. destruct H1 as [[d r] [E1' H1]].
    apply in_map_iff in Hq. destruct Hq as [e2 [E2 H2]]. destruct (new_entries_in _ _ _ H2) as [n [g' [d' [Hn [Hg' [Hd' Hp']]]]]].
    subst e1 p. cbn in E2. rewrite Hp' in E2.
    destruct (join_part_inj d' d n off) as [_ En]; [| |exact E2|].
    + destruct (W g' (or_intror Hg')) as [_ D]. apply (D (d', snd e2)). exact Hd'.
    + destruct (W g (or_introl eq_refl)) as [_ D]. apply (D (d, r)). exact H1.
    + lia.
Qed.

Lemma new_entries_named off rgs e : wf_rgs rgs -> In e (new_entries off rgs) -> well_named (fst e).
Proof.
  intros W H. destruct (new_entries_in _ _ _ H) as [n [g [d [_ [Hg [Hd Hp]]]]]].
  exists d, n. split; [exact Hp|]. split; [|apply part_name_no_slash].
  apply no_nl_spec. destruct (W g Hg) as [_ D]. apply (D (d, snd e)). exact Hd.
Qed.

Lemma new_entries_fresh refs off rgs e : wf_rgs rgs -> find_max_part refs = Some off ->
  In e (new_entries off rgs) -> ~ In (fst e) refs.
Proof.
  intros W Hoff H. destruct (new_entries_in _ _ _ H) as [n [g [d [Hn [Hg [Hd Hp]]]]]]. rewrite Hp.
  apply (fresh_part_name refs off d n Hoff Hn). destruct (W g Hg) as [_ D]. apply (D (d, snd e)). exact Hd.
Qed.

Lemma new_entries_abs off rgs : map (fun e : entry => (dir_of (fst e), snd e)) (new_entries off rgs) = flat rgs.
Proof.
  unfold flat. revert off. induction rgs as [|g rgs IH]; intros off; cbn [new_entries concat map]; [reflexivity|].
  rewrite map_app, IH. f_equal. rewrite map_map. rewrite <- (map_id g) at 2. apply map_ext.
  intros [d r]. cbn [fst snd]. now rewrite dir_of_part.
Qed.

(* ------------------------------------------------------------------------------------------ *)
(* selections                                                                                 *)
(* ------------------------------------------------------------------------------------------ *)
Section Sel.
  Context {A : Type} (sel : list nat).
  Definition pick (keep : bool) (i : nat) (l : list A) : list A :=
    map snd (filter (fun ie => (if keep then negb else (fun b => b)) (existsb (Nat.eqb (fst ie)) sel)) (combine (seq i (length l)) l)).

  Lemma pick_cons keep i x l :
    pick keep i (x :: l) = if (if keep then negb else (fun b => b)) (existsb (Nat.eqb i) sel) then x :: pick keep (S i) l else pick keep (S i) l.
  Proof. unfold pick. cbn. destruct ((if keep then negb else fun b => b) (existsb (Nat.eqb i) sel)); reflexivity. Qed.

  Lemma pick_in keep i l x : In x (pick keep i l) -> In x l.
  Proof.
    revert i. induction l as [|y l IH]; intros i H; [contradiction|]. rewrite pick_cons in H.
    destruct ((if keep then negb else fun b => b) (existsb (Nat.eqb i) sel)); [destruct H as [H|H]; [now left|] |]; right; eapply IH; eauto.
  Qed.

  Lemma pick_split i l x : In x l -> In x (pick true i l) \/ In x (pick false i l).
  Proof.
    revert i. induction l as [|y l IH]; intros i H; [contradiction|]. rewrite !pick_cons.
    destruct (existsb (Nat.eqb i) sel); cbn; destruct H as [H|H]; subst; auto; destruct (IH (S i) H); auto.
  Qed.

  Lemma pick_map {B} (g : A -> B) keep i l : map g (pick keep i l) = map snd (filter (fun ie => (if keep then negb else (fun b => b)) (existsb (Nat.eqb (fst ie)) sel)) (combine (seq i (length (map g l))) (map g l))).
  Proof.
    revert i. induction l as [|y l IH]; intros i; [reflexivity|]. rewrite pick_cons. cbn.
    destruct ((if keep then negb else fun b => b) (existsb (Nat.eqb i) sel)); cbn; now rewrite IH.
  Qed.

  Lemma pick_nodup {B} (g : A -> B) keep i l : NoDup (map g l) -> NoDup (map g (pick keep i l)).
  Proof.
    revert i. induction l as [|y l IH]; intros i H; [constructor|]. rewrite pick_cons. cbn in H. inversion H; subst.
    destruct ((if keep then negb else fun b => b) (existsb (Nat.eqb i) sel)); cbn; [constructor|]; auto.
    intros Hin. apply H2. apply in_map_iff in Hin. destruct Hin as [z [E Hz]]. apply pick_in in Hz. apply in_map_iff. now exists z.
  Qed.

  Lemma pick_disj {B} (g : A -> B) i l x : NoDup (map g l) -> In x (pick true i l) -> ~ In (g x) (map g (pick false i l)).
  Proof.
    revert i. induction l as [|y l IH]; intros i N H; [contradiction|]. rewrite pick_cons in *. cbn in N. inversion N; subst.
    destruct (existsb (Nat.eqb i) sel); cbn in *.
    - intros [E|Hin]; [|exact (IH _ H3 H Hin)].
      apply H2. rewrite E. apply in_map. eapply pick_in; eauto.
    - destruct H as [H|H]; [subst y|exact (IH _ H3 H)].
      intros Hin. apply H2. apply in_map_iff in Hin. destruct Hin as [z [E Hz]]. apply pick_in in Hz. apply in_map_iff. now exists z.
  Qed.
End Sel.

Lemma remove_at_pick sel sum : remove_at sel sum = pick sel true 0 sum.
Proof. reflexivity. Qed.
Lemma selected_pick sel sum : selected sel sum = pick sel false 0 sum.
Proof. reflexivity. Qed.

Lemma total_pick sel i (l : list entry) : total l = (total (pick sel true i l) + total (pick sel false i l))%Z.
Proof.
  revert i. induction l as [|e l IH]; intros i; [reflexivity|]. rewrite !pick_cons, total_cons, (IH (S i)).
  destruct (existsb (Nat.eqb i) sel); cbn [negb]; rewrite total_cons; lia.
Qed.

(* ------------------------------------------------------------------------------------------ *)
(* the invariant and the refinement, for any _sort_part_names that keeps both                  *)
(* ------------------------------------------------------------------------------------------ *)
Lemma inv_empty : inv empty.
Proof. repeat split; cbn; try constructor; try contradiction; try congruence. Qed.

Lemma inv_perm d sum sum' n pt c : Permutation sum sum' -> inv {| st_dir := d; st_sum := sum; st_num := n; st_part := pt; st_sch := c |} ->
  inv {| st_dir := d; st_sum := sum'; st_num := n; st_part := pt; st_sch := c |}.
Proof.
  intros P [A [B [Cn [D [E F]]]]]. cbn in *. repeat split; cbn [st_dir st_sum st_num st_part st_sch].
  - intros e He. apply A. eapply Permutation_in; [symmetry; exact P | exact He].
  - intros p Hp. eapply Permutation_in; [apply Permutation_map; exact P | now apply B].
  - eapply Permutation_NoDup; [apply Permutation_map; exact P | exact Cn].
  - rewrite D. now apply total_perm.
  - intros e He. apply E. eapply Permutation_in; [symmetry; exact P | exact He].
  - intros Hn. rewrite (F Hn) in P. now apply Permutation_nil in P.
Qed.

Lemma inv_paths_part_id s : inv s -> forall p, In p (map fst (st_sum s)) -> exists n, part_id p = Some n.
Proof.
  intros [_ [_ [_ [_ [E _]]]]] p Hp. apply in_map_iff in Hp. destruct Hp as [e [Ee He]]. subst p. apply well_named_part_id, E, He.
Qed.

Lemma add_rgs_inv s rgs le s' : inv s -> st_part s <> None -> wf_rgs rgs -> add_rgs s rgs le = Some s' ->
  inv s' /\ st_part s' = st_part s /\ st_sch s' = st_sch s /\ exists off, find_max_part (map fst (st_sum s)) = Some off
                     /\ Permutation (st_sum s') (st_sum s ++ new_entries off rgs)
                     /\ st_sum s' = isort le (st_sum s ++ new_entries off rgs)
                     /\ st_dir s' = put_files (st_sch s) (new_entries off rgs) (st_dir s).
Proof.
  intros I Hpt W H. unfold add_rgs in H. destruct (find_max_part (map fst (st_sum s))) as [off|] eqn:Hoff; [|discriminate].
  inversion H; subst s'; clear H. cbn [st_dir st_sum st_num st_part st_sch].
  split; [|split; [reflexivity|]; split; [reflexivity|]; exists off; repeat split; auto; apply isort_perm].
  apply (inv_perm _ (st_sum s ++ new_entries off rgs)); [symmetry; apply isort_perm|].
  destruct I as [A [B [Cn [D [E F]]]]]. set (es := new_entries off rgs).
  assert (Fr : forall e, In e es -> ~ In (fst e) (map fst (st_sum s))) by (intros e He; now apply (new_entries_fresh _ off rgs)).
  assert (Nes : NoDup (map fst es)) by now apply new_entries_nodup.
  repeat split; cbn [st_dir st_sum st_num st_part st_sch].
  - intros e He. apply in_app_or in He. destruct He as [He|He].
    + rewrite put_files_other; [now apply A|]. intros Hin. apply in_map_iff in Hin. destruct Hin as [e' [Ee He']].
      apply (Fr e' He'). rewrite Ee. now apply in_map.
    + now apply put_files_in.
  - intros p Hp. rewrite map_app. apply in_or_app. apply put_files_some in Hp. destruct Hp as [Hp|Hp]; [now right | left; now apply B].
  - rewrite map_app. apply NoDup_app_intro; auto. intros p Hp Hq. apply in_map_iff in Hq. destruct Hq as [e [Ee He]]. subst p. exact (Fr e He Hp).
  - rewrite (total_perm _ _ (isort_perm le (st_sum s ++ es))). reflexivity.
  - intros e He. apply in_app_or in He. destruct He as [He|He]; [now apply E | now apply (new_entries_named off rgs)].
  - intros Hn. contradiction.
Qed.

Lemma add_rgs_defined s rgs le : inv s -> exists s', add_rgs s rgs le = Some s'.
Proof.
  intros I. unfold add_rgs. destruct (find_max_part_some (map fst (st_sum s)) (inv_paths_part_id s I)) as [off E].
  rewrite E. now eexists.
Qed.

Lemma remove_inv s sel : inv s -> st_part s <> None ->
  inv {| st_dir := drop_files (map fst (selected sel (st_sum s))) (st_dir s); st_sum := remove_at sel (st_sum s);
         st_num := (st_num s - total (selected sel (st_sum s)))%Z; st_part := st_part s; st_sch := st_sch s |}.
Proof.
  intros [A [B [Cn [D [E F]]]]] Hpt. rewrite remove_at_pick, selected_pick. repeat split; cbn [st_dir st_sum st_num st_part st_sch].
  - intros e He. rewrite lookup_drop_files.
    pose proof (pick_disj sel fst 0 (st_sum s) e Cn He) as Hd.
    match goal with |- (if ?b then _ else _) = _ => destruct b eqn:M end.
    + exfalso. apply Hd. apply mem_p_spec in M. exact M.
    + apply A. eapply pick_in; eauto.
  - intros p Hp. rewrite lookup_drop_files in Hp.
    match type of Hp with (if ?b then _ else _) <> _ => destruct b eqn:M end; [congruence|].
    specialize (B p Hp). apply in_map_iff in B. destruct B as [e [Ee He]]. destruct (pick_split sel 0 _ e He) as [H|H].
    + apply in_map_iff. now exists e.
    + exfalso. apply mem_p_false in M. apply M. apply in_map_iff. now exists e.
  - now apply pick_nodup.
  - rewrite D, (total_pick sel 0 (st_sum s)). lia.
  - intros e He. apply E. eapply pick_in; eauto.
  - intros Hn. contradiction.
Qed.

Section SortpGeneric.
  Variable sortp : state -> option state.
  Hypothesis sortp_ok : forall s, inv s -> exists s', sortp s = Some s' /\ inv s' /\ abs s' = abs s /\ st_part s' = st_part s.

  Lemma maybe_sortp_ok b s : inv s -> exists s', maybe_sortp sortp b s = Some s' /\ inv s' /\ abs s' = abs s /\ st_part s' = st_part s.
  Proof. intros I. destruct b; cbn; [now apply sortp_ok | now exists s]. Qed.

  (* state just before _sort_part_names in overwrite *)
  Lemma overwrite_mid s rgs s1 : inv s -> st_part s <> None -> wf_rgs rgs ->
    add_rgs s rgs (fun x y => (first_index_of (st_sum s) x <=? first_index_of (st_sum s) y)%N) = Some s1 ->
    let newdirs := map (fun e => dir_of (fst e)) (new_entries 0 rgs) in
    let gone := filter (fun e => mem_p (dir_of (fst e)) newdirs) (st_sum s) in
    let keep := filter (fun e => negb (mem_p (fst e) (map fst gone))) (st_sum s1) in
    inv {| st_dir := drop_files (map fst gone) (st_dir s1); st_sum := keep; st_num := (st_num s1 - total gone)%Z;
           st_part := st_part s1; st_sch := st_sch s1 |}.
  Proof.
    intros I Hpt W H newdirs gone keep. destruct (add_rgs_inv _ _ _ _ I Hpt W H) as [I1 [Ept [_ [off [Hoff [P [_ _]]]]]]].
    destruct I1 as [A [B [Cn [D [E F]]]]].
    assert (Gsub : forall e, In e gone -> In e (st_sum s1)).
    { intros e He. apply filter_In in He. eapply Permutation_in; [symmetry; exact P|]. apply in_or_app. now left. }
    repeat split; cbn [st_dir st_sum st_num st_part st_sch].
    - intros e He. apply filter_In in He. destruct He as [He Hk]. rewrite lookup_drop_files. apply negb_true_iff in Hk. rewrite Hk. now apply A.
    - intros p Hp. rewrite lookup_drop_files in Hp. destruct (mem_p p (map fst gone)) eqn:M; [congruence|].
      specialize (B p Hp). apply in_map_iff in B. destruct B as [e [Ee He]]. apply in_map_iff. exists e. split; [exact Ee|].
      apply filter_In. split; [exact He|]. rewrite Ee, M. reflexivity.
    - now apply NoDup_map_filter.
    - rewrite D. rewrite (total_filter_split (fun e => negb (mem_p (fst e) (map fst gone))) (st_sum s1)).
      assert (Hg : total (filter (fun e => negb (negb (mem_p (fst e) (map fst gone)))) (st_sum s1)) = total gone).
      { apply total_perm. apply NoDup_Permutation.
        - apply NoDup_filter. eapply NoDup_map_inv; exact Cn.
        - apply NoDup_filter. destruct I as [_ [_ [Cs _]]]. eapply NoDup_map_inv; exact Cs.
        - intros x. rewrite filter_In. split.
          + intros [Hx Hm]. rewrite negb_involutive in Hm. apply mem_p_spec in Hm. apply in_map_iff in Hm.
            destruct Hm as [g [Eg Hg]]. rewrite <- (NoDup_map_inj_in fst (st_sum s1) g x Cn (Gsub g Hg) Hx Eg). exact Hg.
          + intros Hx. split; [now apply Gsub|]. rewrite negb_involutive. apply mem_p_spec. now apply in_map. }
      subst keep. unfold entry in *. lia.
    - intros e He. apply filter_In in He. now apply E.
    - intros Hn. rewrite Ept in Hn. contradiction.
  Qed.
End SortpGeneric.

(* ------------------------------------------------------------------------------------------ *)
(* every operation keeps the invariant and refines the plain model                            *)
(* ------------------------------------------------------------------------------------------ *)
Lemma isort_true {A} (l : list A) : isort (fun _ _ => true) l = l.
Proof. induction l as [|x l IH]; cbn; [reflexivity|]. rewrite IH. now destruct l. Qed.

Lemma index_from_map {A B} (g : A -> B) (P : B -> bool) dflt i l :
  index_from P dflt i (map g l) = index_from (fun x => P (g x)) dflt i l.
Proof. revert i. induction l as [|x l IH]; intros i; cbn; [reflexivity|]. now rewrite IH. Qed.

Lemma map_filter_comm {A B} (g : A -> B) (P : B -> bool) l : map g (filter (fun x => P (g x)) l) = filter P (map g l).
Proof. induction l as [|x l IH]; cbn; [reflexivity|]. destruct (P (g x)); cbn; now rewrite IH. Qed.

Definition absf (e : entry) : path * rows := (dir_of (fst e), snd e).
Lemma abs_def s : abs s = map absf (st_sum s).
Proof. reflexivity. Qed.

Lemma new_entries_absf off rgs : map absf (new_entries off rgs) = flat rgs.
Proof. apply new_entries_abs. Qed.

Lemma first_index_abs old x : first_index_of old x = sfirst_index_of (map absf old) (absf x).
Proof. unfold first_index_of, sfirst_index_of. rewrite index_from_map, map_length. reflexivity. Qed.

Lemma cats_known_part s rgs : cats_known s rgs = true -> st_part s <> None.
Proof. unfold cats_known. destruct (st_part s); [discriminate | discriminate]. Qed.

Definition part_after (pt : option bool) (o : op) : option bool :=
  match o with OWrite _ rgs => Some (partitioned rgs) | _ => pt end.

Section Steps.
  Variable sortp : state -> option state.
  Hypothesis sortp_ok : forall s, inv s -> exists s', sortp s = Some s' /\ inv s' /\ abs s' = abs s /\ st_part s' = st_part s.

  (* everything one accepted step gives *)
  Theorem step_all s o s' : inv s -> wf_op o -> step sortp s o = Some s' ->
    inv s' /\ spec_step (abs s) o = Some (abs s') /\ st_part s' = part_after (st_part s) o.
  Proof.
    intros I W H. destruct o as [sch rgs|rgs|rgs|sel sp|rgs k sp]; cbn [step wf_op spec_step part_after] in *.
    - destruct (st_part s) eqn:Ep; [discriminate|]. destruct (st_dir s) eqn:Ed; [|discriminate].
      destruct (st_sum s) eqn:Es; [|discriminate]. inversion H; subst s'; clear H.
      pose proof (new_entries_nodup 0 rgs W) as Nes. split; [|split; [|reflexivity]].
      + repeat split; cbn [st_dir st_sum st_num st_part st_sch].
        * intros e He. now apply put_files_in.
        * intros p Hp. apply put_files_some in Hp. destruct Hp as [Hp|Hp]; [exact Hp | cbn in Hp; congruence].
        * exact Nes.
        * intros e He. now apply (new_entries_named 0 rgs).
        * discriminate.
      + rewrite !abs_def, Es. cbn [map st_sum]. now rewrite new_entries_absf.
    - destruct (cats_known s rgs) eqn:Ck; [|discriminate]. pose proof (cats_known_part _ _ Ck) as Hpt.
      destruct (add_rgs_inv _ _ _ _ I Hpt W H) as [I1 [Ept [_ [off [_ [_ [Es _]]]]]]]. split; [exact I1|]. split; [|exact Ept].
      rewrite !abs_def, Es, isort_true, map_app, new_entries_absf. reflexivity.
    - destruct (partitioned rgs); [|discriminate]. cbn [andb] in H.
      destruct (st_part s) as [[|]|] eqn:Ep; try discriminate.
      assert (Hpt : st_part s <> None) by (rewrite Ep; discriminate).
      destruct (add_rgs s rgs _) as [s1|] eqn:E1; [|discriminate].
      pose proof (overwrite_mid s rgs s1 I Hpt W E1) as Im. cbv zeta in Im.
      destruct (add_rgs_inv _ _ _ _ I Hpt W E1) as [I1 [Ept [_ [off [Hoff [P [Es _]]]]]]].
      destruct (sortp_ok _ Im) as [s2 [E2 [I2 [A2 P2]]]]. rewrite E2 in H. inversion H; subst s2; clear H.
      split; [exact I2|]. split; [|cbn [st_part] in P2; now rewrite P2, Ept, Ep].
      rewrite A2. rewrite !abs_def. cbn [st_sum]. f_equal. rewrite Es.
      set (old := st_sum s) in *. set (es := new_entries off rgs) in *. symmetry.
      rewrite (filter_isort_key (first_index_of old)).
      rewrite (isort_map absf _ (fun x y => (sfirst_index_of (map absf old) x <=? sfirst_index_of (map absf old) y)%N))
        by (intros a b; now rewrite !first_index_abs).
      f_equal. rewrite filter_app, map_app.
      assert (Hnd : map (fun e : entry => dir_of (fst e)) (new_entries 0 rgs) = map fst (flat rgs)).
      { rewrite <- (new_entries_abs 0 rgs), map_map. reflexivity. }
      destruct I as [_ [_ [Cn _]]]. fold old in Cn.
      f_equal.
      + rewrite <- Hnd. rewrite <- (map_filter_comm absf (fun g => negb (mem_p (fst g) (map (fun e : entry => dir_of (fst e)) (new_entries 0 rgs))))).
        f_equal. apply filter_ext_in. intros e He. cbn [absf fst]. f_equal.
        set (P0 := fun e0 : entry => mem_p (dir_of (fst e0)) (map (fun e1 : entry => dir_of (fst e1)) (new_entries 0 rgs))).
        change (mem_p (fst e) (map fst (filter P0 old)) = P0 e).
        destruct (P0 e) eqn:Pe.
        * apply mem_p_spec. apply in_map. apply filter_In. now split.
        * apply mem_p_false. intros Hin. apply in_map_iff in Hin. destruct Hin as [g [Eg Hg]]. apply filter_In in Hg. destruct Hg as [Hg Pg].
          rewrite (NoDup_map_inj_in fst old g e Cn Hg He Eg) in Pg. congruence.
      + rewrite <- (new_entries_abs off rgs). f_equal. fold es.
        rewrite <- (filter_ext_in (fun _ => true)); [clear; induction es as [|x l IH]; cbn; congruence|].
        intros e He. symmetry. apply negb_true_iff. apply mem_p_false. intros Hin.
        apply (new_entries_fresh (map fst old) off rgs e W Hoff He).
        apply in_map_iff in Hin. destruct Hin as [g [Eg Hg]]. apply filter_In in Hg. rewrite <- Eg. apply in_map. tauto.
    - destruct (st_part s) as [b|] eqn:Ep; [|discriminate].
      assert (Hpt : st_part s <> None) by (rewrite Ep; discriminate).
      pose proof (remove_inv s sel I Hpt) as Ir. rewrite Ep in Ir.
      destruct (maybe_sortp_ok sortp sortp_ok sp _ Ir) as [s2 [E2 [I2 [A2 P2]]]].
      rewrite E2 in H. inversion H; subst s2; clear H. split; [exact I2|]. split; [|exact P2].
      rewrite A2. rewrite !abs_def. cbn [st_sum]. f_equal.
      rewrite remove_at_pick. symmetry. apply (pick_map sel absf true 0 (st_sum s)).
    - destruct (cats_known s rgs) eqn:Ck; [|discriminate]. pose proof (cats_known_part _ _ Ck) as Hpt.
      destruct (add_rgs s rgs _) as [s1|] eqn:E1; [|discriminate].
      destruct (add_rgs_inv _ _ _ _ I Hpt W E1) as [I1 [Ept [_ [off [_ [_ [Es _]]]]]]].
      destruct (maybe_sortp_ok sortp sortp_ok sp _ I1) as [s2 [E2 [I2 [A2 P2]]]].
      rewrite E2 in H. inversion H; subst s2; clear H. split; [exact I2|]. split; [|now rewrite P2].
      rewrite A2. rewrite !abs_def, Es. f_equal.
      rewrite (isort_map absf _ (key_le k (fun g : path * rows => fst g) (fun g => N.of_nat (length (snd g))))) by (intros a b; destruct k; reflexivity).
      now rewrite map_app, new_entries_absf.
  Qed.

  Theorem step_inv s o s' : inv s -> wf_op o -> step sortp s o = Some s' -> inv s'.
  Proof. intros I W H. exact (proj1 (step_all s o s' I W H)). Qed.

  Theorem step_refines s o s' : inv s -> wf_op o -> step sortp s o = Some s' -> spec_step (abs s) o = Some (abs s').
  Proof. intros I W H. exact (proj1 (proj2 (step_all s o s' I W H))). Qed.

  (* the only refusals: a write where a dataset exists; append / write_row_groups / remove where none exists or with another
     partitioning than the dataset's; overwrite of anything but a partitioned dataset *)
  Theorem step_refused s o : inv s -> wf_op o -> step sortp s o = None ->
    match o with
    | OWrite _ _ => st_part s <> None
    | OAppend rgs | OWriteRgs rgs _ _ => cats_known s rgs = false
    | OOverwrite rgs => partitioned rgs = false \/ st_part s <> Some true
    | ORemove _ _ => st_part s = None
    end.
  Proof.
    intros I W H. destruct o as [sch rgs|rgs|rgs|sel sp|rgs k sp]; cbn [step wf_op] in *.
    - destruct (st_part s) eqn:Ep; [discriminate|]. exfalso.
      destruct I as [_ [B [_ [_ [_ F]]]]]. rewrite (F Ep) in *.
      destruct (st_dir s) as [|[p v] r] eqn:Ed; [discriminate|].
      assert (X : lookup p ((p, v) :: r) <> None) by (cbn; rewrite bytes_eqb_refl; discriminate). exact (B p X).
    - destruct (cats_known s rgs) eqn:Ck; [|reflexivity]. destruct (add_rgs_defined s rgs (fun _ _ => true) I) as [s1 E]. congruence.
    - destruct (partitioned rgs); [|now left]. cbn [andb] in H. right.
      destruct (st_part s) as [[|]|] eqn:Ep; try discriminate. exfalso.
      assert (Hpt : st_part s <> None) by (rewrite Ep; discriminate).
      destruct (add_rgs_defined s rgs (fun x y => (first_index_of (st_sum s) x <=? first_index_of (st_sum s) y)%N) I) as [s1 E1].
      rewrite E1 in H. pose proof (overwrite_mid s rgs s1 I Hpt W E1) as Im. cbv zeta in Im.
      destruct (sortp_ok _ Im) as [s2 [E2 _]]. congruence.
    - destruct (st_part s) as [b|] eqn:Ep; [|reflexivity]. exfalso.
      assert (Hpt : st_part s <> None) by (rewrite Ep; discriminate).
      pose proof (remove_inv s sel I Hpt) as Ir. rewrite Ep in Ir.
      destruct (maybe_sortp_ok sortp sortp_ok sp _ Ir) as [s2 [E2 _]]. congruence.
    - destruct (cats_known s rgs) eqn:Ck; [|reflexivity]. exfalso. pose proof (cats_known_part _ _ Ck) as Hpt.
      destruct (add_rgs_defined s rgs (key_le k (fun e : entry => dir_of (fst e)) (fun e => N.of_nat (length (snd e)))) I) as [s1 E1].
      rewrite E1 in H. destruct (add_rgs_inv _ _ _ _ I Hpt W E1) as [I1 _].
      destruct (maybe_sortp_ok sortp sortp_ok sp _ I1) as [s2 [E2 _]]. congruence.
  Qed.
End Steps.
