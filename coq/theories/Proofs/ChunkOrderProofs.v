(* parquet.thrift, RowGroup.columns: "this list must have the same order as the SchemaElement list".  The specification's
   scanner pairs the leaves of the schema with the column chunks of a row group POSITIONALLY and checks each chunk's
   path_in_schema against its leaf: a file the validator accepts lists its chunks in schema order.  (C02) *)
From Coq Require Import String.
From Coq Require Import NArith ZArith List Bool.
From Pq Require Import Base.Bytes Base.ListX Proofs.BytesProofs Format.Phys Format.Meta Format.Page Format.File.
Import ListNotations.

Section S.
Variable decompress : Z -> N -> bytes -> option bytes.

Lemma scan_chunk_here_path strict file fstart lf c o :
  scan_chunk decompress strict file fstart lf c = ROk (CHere o) ->
  exists m, cc_meta c = Some m /\ cm_path m = [lf_name lf].
Proof.
  unfold scan_chunk. destruct (cc_path c); [discriminate|].
  destruct (cc_meta c) as [m|]; [|discriminate]. intro H. exists m. split; [reflexivity|].
  destruct (cm_path m) as [|p [|q r]]; cbn [guard rbind] in H; try discriminate.
  destruct (bytes_eqb_spec p (lf_name lf)) as [E|E]; cbn [guard rbind] in H; [now subst|discriminate].
Qed.

(* every chunk the scanner found in the file itself sits at the position of its leaf *)
Theorem scan_cols_schema_order strict file fstart : forall lfs cs outs,
  scan_cols decompress strict file fstart lfs cs = ROk outs ->
  length lfs = length cs /\
  forall i lf c o, nth_error lfs i = Some lf -> nth_error cs i = Some c -> nth_error outs i = Some (CHere o) ->
                   exists m, cc_meta c = Some m /\ cm_path m = [lf_name lf].
Proof.
  induction lfs as [|lf lfs IH]; intros cs outs H; destruct cs as [|c cs]; cbn [scan_cols] in H; try discriminate.
  - split; [reflexivity|]. intros [|i] lf c o A; discriminate.
  - destruct (scan_chunk decompress strict file fstart lf c) as [r| |] eqn:SC; cbn [rbind] in H; try discriminate.
    destruct (scan_cols decompress strict file fstart lfs cs) as [os| |] eqn:SR; cbn [rbind] in H; try discriminate.
    injection H as <-.
    destruct (IH cs os SR) as [L R]. split; [cbn [length]; now rewrite L|].
    intros [|i] lf' c' o A B O; cbn [nth_error] in A, B, O.
    + injection A as <-. injection B as <-. injection O as ->.
      exact (scan_chunk_here_path strict file fstart lf c o SC).
    + exact (R i lf' c' o A B O).
Qed.
End S.
