(* Proofs about Impl/Paths.v and Dataset/Merge.v (property C14). *)
From Coq Require Import NArith ZArith Bool Ascii String Arith Lia List.
From Pq Require Import Base.Bytes Proofs.BytesProofs Impl.Partition Proofs.PartitionStr Impl.Paths Dataset.Merge.
Import ListNotations.
Local Open Scope nat_scope.

Definition prefix {A} (a b : list A) : Prop := exists r, b = a ++ r.

Lemma prefix_refl {A} (a : list A) : prefix a a.
Proof. exists []. now rewrite app_nil_r. Qed.

Lemma prefix_trans {A} (a b c : list A) : prefix a b -> prefix b c -> prefix a c.
Proof. intros [r ->] [s ->]. exists (r ++ s). now rewrite app_assoc. Qed.

Lemma prefix_firstn {A} n (a : list A) : prefix (firstn n a) a.
Proof. exists (skipn n a). now rewrite firstn_skipn. Qed.

Lemma prefix_length {A} (a b : list A) : prefix a b -> length a <= length b.
Proof. intros [r ->]. rewrite app_length. lia. Qed.

Lemma prefix_firstn_eq {A} (a b : list A) : prefix a b -> firstn (length a) b = a.
Proof. intros [r ->]. rewrite firstn_app, Nat.sub_diag, firstn_all. cbn. now rewrite app_nil_r. Qed.

Lemma prefix_of_firstn {A} (q a : list A) n : prefix q a -> length q <= n -> prefix q (firstn n a).
Proof.
  intros [r ->] H. rewrite firstn_app. exists (firstn (n - length q) r).
  rewrite firstn_all2 by lia. reflexivity.
Qed.

Lemma prefix_removelast {A} (a b : list A) : prefix a (removelast b) -> prefix a b.
Proof.
  intros H. apply (prefix_trans _ _ _ H). destruct b as [|x b] using rev_ind; [apply prefix_refl|].
  rewrite removelast_last. now exists [x].
Qed.

Lemma length_removelast {A} (l : list A) : length (removelast l) = length l - 1.
Proof.
  destruct l as [|x l] using rev_ind; [reflexivity|]. rewrite removelast_last, app_length. cbn. lia.
Qed.

(* ------------------------------------------------------------------ first_mismatch *)
Lemma first_mismatch_none base path k : first_mismatch base path k = None ->
  firstn (min (length base) (length path)) base = firstn (min (length base) (length path)) path.
Proof.
  revert path k. induction base as [|b bs IH]; intros [|p ps] k; cbn; try reflexivity.
  destruct (str_eqb_spec b p) as [E|E]; [|discriminate]. subst. intros H. f_equal. now apply (IH ps (S k)).
Qed.

Lemma first_mismatch_some base path k j : first_mismatch base path k = Some j ->
  k <= j /\ j - k < length base /\ j - k < length path /\
  firstn (j - k) base = firstn (j - k) path /\ nth_error base (j - k) <> nth_error path (j - k).
Proof.
  revert path k. induction base as [|b bs IH]; intros [|p ps] k; cbn; try discriminate.
  destruct (str_eqb_spec b p) as [E|E].
  - subst. intros H. destruct (IH ps (S k) H) as [H1 [H2 [H3 [H4 H5]]]].
    replace (j - k) with (S (j - S k)) by lia. cbn. repeat split; try lia; [now f_equal|exact H5].
  - intros [= <-]. rewrite Nat.sub_diag. cbn. repeat split; try lia. congruence.
Qed.

(* a common prefix of base and path is no longer than the first mismatch *)
Lemma prefix_below_mismatch (q base path : list str) j :
  prefix q base -> prefix q path -> nth_error base j <> nth_error path j -> length q <= j.
Proof.
  intros [r ->] [s ->] H. destruct (Nat.le_gt_cases (length q) j) as [L|L]; [exact L|].
  exfalso. apply H. rewrite !nth_error_app1 by exact L. reflexivity.
Qed.

(* ------------------------------------------------------------------ one loop iteration *)
Lemma shrink_prefix base path : prefix (shrink base path) base.
Proof. apply prefix_firstn. Qed.

Lemma shrink_dir base path : prefix (shrink base path) (removelast path).
Proof.
  unfold shrink. destruct (first_mismatch base path 0) as [j|] eqn:E.
  - destruct (first_mismatch_some _ _ _ _ E) as [_ [H2 [H3 [H4 _]]]]. rewrite Nat.sub_0_r in *.
    rewrite H4. destruct path as [|x path] using rev_ind; [cbn in H3; lia|].
    rewrite removelast_last. rewrite app_length in H3. cbn in H3.
    rewrite firstn_app. replace (j - length path) with 0 by lia. cbn. rewrite app_nil_r. apply prefix_firstn.
  - pose proof (first_mismatch_none _ _ _ E) as H.
    destruct path as [|x path] using rev_ind; [cbn; exists []; reflexivity|].
    rewrite removelast_last, app_length. cbn. replace (length path + 1 - 1) with (length path) by lia.
    destruct (Nat.le_gt_cases (length base) (length path)) as [L|L].
    + rewrite firstn_all2 by exact L. rewrite app_length in H. cbn in H.
      rewrite Nat.min_l in H by lia. rewrite firstn_all in H. rewrite H.
      rewrite firstn_app. replace (length base - length path) with 0 by lia. cbn. rewrite app_nil_r. apply prefix_firstn.
    + rewrite app_length in H. cbn in H. rewrite Nat.min_r in H by lia.
      assert (H' : firstn (length path) base = path).
      { apply (f_equal (firstn (length path))) in H. rewrite !firstn_firstn in H.
        rewrite Nat.min_l in H by lia. rewrite H. rewrite firstn_app, Nat.sub_diag, firstn_all. cbn. now rewrite app_nil_r. }
      rewrite H'. apply prefix_refl.
Qed.

Lemma shrink_keeps (q base path : list str) :
  prefix q base -> prefix q (removelast path) -> prefix q (shrink base path).
Proof.
  intros Hb Hp. unfold shrink. apply prefix_of_firstn; [exact Hb|].
  destruct (first_mismatch base path 0) as [j|] eqn:E.
  - destruct (first_mismatch_some _ _ _ _ E) as [_ [_ [_ [_ H5]]]]. rewrite Nat.sub_0_r in H5.
    apply (prefix_below_mismatch q base path); [exact Hb|now apply prefix_removelast|exact H5].
  - apply prefix_length in Hp. now rewrite length_removelast in Hp.
Qed.

(* ------------------------------------------------------------------ the whole loop *)
Lemma fold_shrink_prefix pl base : prefix (fold_left shrink pl base) base.
Proof.
  revert base. induction pl as [|p pl IH]; intros base; cbn; [apply prefix_refl|].
  eapply prefix_trans; [apply IH|apply shrink_prefix].
Qed.

Lemma fold_shrink_dirs pl base p : In p pl -> prefix (fold_left shrink pl base) (removelast p).
Proof.
  revert base. induction pl as [|p' pl IH]; intros base; [intros []|]. cbn. intros [<-|H].
  - eapply prefix_trans; [apply fold_shrink_prefix|apply shrink_dir].
  - now apply IH.
Qed.

Lemma fold_shrink_longest pl base q :
  prefix q base -> (forall p, In p pl -> prefix q (removelast p)) -> prefix q (fold_left shrink pl base).
Proof.
  revert base. induction pl as [|p pl IH]; intros base Hb H; cbn; [exact Hb|].
  apply IH; [|intros p' Hp'; apply H; now right]. apply shrink_keeps; [exact Hb|apply H; now left].
Qed.

(* C14_basepath on path parts *)
Theorem base_of_spec (pl : list (list str)) (p0 : list str) : In p0 pl ->
  let base := base_of pl p0 in
  (forall p, In p pl -> prefix base (removelast p)) /\
  (forall q, (forall p, In p pl -> prefix q (removelast p)) -> prefix q base) /\
  (forall p, In p pl -> base ++ skipn (length base) p = p).
Proof.
  intros H0 base. split; [|split].
  - intros p Hp. now apply fold_shrink_dirs.
  - intros q Hq. apply fold_shrink_longest; [now apply Hq|exact Hq].
  - intros p Hp. assert (H : prefix base p) by (apply prefix_removelast; now apply fold_shrink_dirs).
    rewrite <- (prefix_firstn_eq _ _ H) at 1. apply firstn_skipn.
Qed.

(* ------------------------------------------------------------------ strings *)
Lemma join_split c s : join_with c (split_on c s) = s.
Proof.
  induction s as [|a r IH]; [reflexivity|]. cbn [split_on].
  destruct (Ascii.eqb_spec a c) as [E|E].
  - subst. destruct (split_on c r) as [|h t] eqn:Es; [now apply split_on_nonnil in Es|].
    change (join_with c ([] :: h :: t)) with ([] ++ c :: join_with c (h :: t)). rewrite IH. reflexivity.
  - destruct (split_on c r) as [|h t] eqn:Es; [now apply split_on_nonnil in Es|].
    destruct t as [|h' t'].
    + cbn in IH. cbn. now rewrite IH.
    + change (join_with c ((a :: h) :: h' :: t')) with ((a :: h) ++ c :: join_with c (h' :: t')).
      change (join_with c (h :: h' :: t')) with (h ++ c :: join_with c (h' :: t')) in IH.
      rewrite <- IH. reflexivity.
Qed.

Lemma join_with_app c a b : a <> [] -> b <> [] -> join_with c (a ++ b) = join_with c a ++ c :: join_with c b.
Proof.
  intros Ha Hb. induction a as [|x a IH]; [congruence|]. destruct a as [|y a'].
  - cbn [app]. destruct b; [congruence|reflexivity].
  - change ((x :: y :: a') ++ b) with (x :: (y :: a') ++ b).
    assert (Hn : (y :: a') ++ b <> []) by discriminate.
    destruct ((y :: a') ++ b) as [|z w] eqn:E; [congruence|].
    change (join_with c (x :: z :: w)) with (x ++ c :: join_with c (z :: w)). rewrite IH by discriminate.
    change (join_with c (x :: y :: a')) with (x ++ c :: join_with c (y :: a')). now rewrite <- app_assoc.
Qed.

(* C14_basepath on strings: the base and the relative path give back the (normalised) path *)
Theorem base_rel_string (pl : list (list str)) (p0 : list str) fn : In p0 pl -> In (parts_of fn) pl ->
  let base := base_of pl p0 in
  join_with c_slash (base ++ skipn (length base) (parts_of fn)) = join_path [fn].
Proof.
  intros H0 Hp base. destruct (base_of_spec pl p0 H0) as [_ [_ H3]]. fold base in H3.
  rewrite (H3 _ Hp). unfold parts_of. apply join_split.
Qed.

(* the fast path's string slicing agrees with the relative path of analyse_paths *)
Lemma drop_while_head_ne (s : str) : (match s with a :: _ => a <> c_slash | [] => True end) -> lstrip_slash s = s.
Proof.
  destruct s as [|a r]; [reflexivity|]. intros H. unfold lstrip_slash. cbn [drop_while].
  destruct (Ascii.eqb_spec c_slash a); [congruence|reflexivity].
Qed.

Lemma join_head_ne (rest : list str) : rest <> [] -> Forall (fun s => s <> [] /\ ~ In c_slash s) rest ->
  match join_with c_slash rest with a :: _ => a <> c_slash | [] => True end.
Proof.
  destruct rest as [|r0 rest]; [congruence|]. intros _ H. inversion H as [|? ? [Hn Hs] Hr]; subst.
  destruct r0 as [|a r0']; [congruence|].
  assert (Ha : a <> c_slash) by (intros ->; apply Hs; now left).
  destruct rest; cbn; exact Ha.
Qed.

Theorem fast_rel_agrees (base rest : list str) :
  rest <> [] -> Forall (fun s => s <> [] /\ ~ In c_slash s) rest ->
  fast_rel (join_with c_slash base) (join_with c_slash (base ++ rest)) = join_with c_slash rest.
Proof.
  intros Hn Hr. unfold fast_rel. destruct base as [|b base'].
  - cbn [join_with length skipn app]. apply drop_while_head_ne. now apply join_head_ne.
  - rewrite join_with_app by (congruence || discriminate).
    rewrite skipn_app, skipn_all, Nat.sub_diag. cbn [app skipn].
    unfold lstrip_slash. cbn [drop_while]. rewrite Ascii.eqb_refl.
    apply drop_while_head_ne. now apply join_head_ne.
Qed.

(* ------------------------------------------------------------------ merging *)
Section MergeP.
  Variable S : Type.
  Variable seqb : S -> S -> bool.
  Variable slen : S -> nat.
  Variable X : Type.
  Notation rgroup := (rgroup X).
  Notation pfile := (pfile S X).
  Notation set_path := (set_path X).
  Notation repath := (repath S X).
  Notation total_rows := (total_rows X).
  Notation legacy_merge := (legacy_merge S seqb X).
  Notation fast_merge := (fast_merge S slen X).

  Definition datas (rgs : list rgroup) : list (N * X) := map (fun rg => (rg_rows X rg, rg_data X rg)) rgs.

  Lemma total_rows_app a b : total_rows (a ++ b) = (total_rows a + total_rows b)%N.
  Proof.
    induction a as [|x a IH]; [reflexivity|].
    change (total_rows ((x :: a) ++ b)) with (rg_rows X x + total_rows (a ++ b))%N.
    change (total_rows (x :: a)) with (rg_rows X x + total_rows a)%N. rewrite IH. lia.
  Qed.

  Lemma total_rows_datas rgs : total_rows rgs = fold_right (fun d a => (fst d + a)%N) 0%N (datas rgs).
  Proof.
    induction rgs as [|x r IH]; [reflexivity|].
    change (total_rows (x :: r)) with (rg_rows X x + total_rows r)%N. rewrite IH. reflexivity.
  Qed.

  Lemma repath_datas pf fn l : repath pf fn = Some l -> datas l = datas (pf_rgs S X pf).
  Proof.
    unfold Merge.repath. destruct (pf_simple S X pf).
    - intros [= <-]. unfold datas. rewrite map_map. reflexivity.
    - generalize (pf_rgs S X pf) as rgs. intros rgs. revert l. induction rgs as [|rg rgs IH]; cbn; intros l.
      + now intros [= <-].
      + destruct (rg_path X rg); [|discriminate].
        destruct (all_some _) as [l'|] eqn:E; [|discriminate]. cbn. intros [= <-]. cbn. f_equal. now apply IH.
  Qed.

  (* legacy path: the merged row groups are the row groups of the files, in the given order, and
     num_rows is their sum *)
  Theorem legacy_concat verify basepath rel pfs bp sch rgs n : length rel = length pfs ->
    legacy_merge verify basepath rel pfs = MOk S X bp sch rgs n ->
    datas rgs = concat (map (fun pf => datas (pf_rgs S X pf)) pfs) /\ n = total_rows rgs /\
    bp = basepath /\ (exists pf0 rest, pfs = pf0 :: rest /\ sch = pf_schema S X pf0).
  Proof.
    intros Hl. unfold Merge.legacy_merge. destruct pfs as [|pf0 rest]; [discriminate|].
    destruct (verify && _); [discriminate|].
    destruct (all_some _) as [l|] eqn:E; [|discriminate]. intros [= <- <- <- <-].
    split; [|split; [reflexivity|split; [reflexivity|now exists pf0, rest]]].
    revert E Hl. generalize (pf0 :: rest) as pfs. clear pf0 rest. intros pfs. revert rel l.
    induction pfs as [|pf pfs IH]; intros [|fn rel] l; cbn; try discriminate.
    - now intros [= <-].
    - destruct (repath pf fn) as [l0|] eqn:E0; [|discriminate].
      destruct (all_some _) as [l'|] eqn:E'; [|discriminate]. cbn. intros [= <-] Hl. cbn.
      unfold datas at 1. rewrite map_app. fold (datas l0). fold (datas (concat l')).
      rewrite (repath_datas _ _ _ E0). f_equal. apply (IH rel); [exact E'|now injection Hl].
  Qed.

  (* legacy path on single files: every merged row group carries the relative path of the file it came from *)
  Theorem legacy_paths_simple verify basepath rel pfs bp sch rgs n :
    Forall (fun pf => pf_simple S X pf = true) pfs ->
    legacy_merge verify basepath rel pfs = MOk S X bp sch rgs n ->
    map (rg_path X) rgs = concat (map (fun pr => map (fun _ => Some (snd pr)) (pf_rgs S X (fst pr))) (combine pfs rel)).
  Proof.
    intros Hs. unfold Merge.legacy_merge. destruct pfs as [|pf0 rest]; [discriminate|].
    destruct (verify && _); [discriminate|].
    destruct (all_some _) as [l|] eqn:E; [|discriminate]. intros [= <- <- <- <-].
    revert E Hs. generalize (pf0 :: rest) as pfs. clear pf0 rest. intros pfs. revert rel l.
    induction pfs as [|pf pfs IH]; intros [|fn rel] l; cbn [combine map all_some concat].
    - now intros [= <-].
    - now intros [= <-].
    - now intros [= <-].
    - intros E Hs. inversion Hs as [|? ? Hpf Hr]; subst. cbn [fst snd] in E.
      unfold Merge.repath in E at 1. rewrite Hpf in E.
      destruct (all_some _) as [l'|] eqn:E'; [|discriminate]. cbn in E. injection E as <-.
      cbn [concat]. rewrite map_app. f_equal; [|now apply (IH rel)].
      rewrite map_map. reflexivity.
  Qed.

  (* with verify_schema a file whose schema differs from the first one's is rejected *)
  Theorem verify_rejects basepath rel pf0 rest :
    (exists pf, In pf rest /\ seqb (pf_schema S X pf) (pf_schema S X pf0) = false) ->
    legacy_merge true basepath rel (pf0 :: rest) = MValueError S X.
  Proof.
    intros [pf [Hin Hne]]. unfold Merge.legacy_merge.
    assert (H : forallb (fun pf => seqb (pf_schema S X pf) (pf_schema S X pf0)) rest = false).
    { destruct (forallb _ rest) eqn:E; [|reflexivity]. rewrite forallb_forall in E. rewrite (E pf Hin) in Hne. discriminate. }
    rewrite H. reflexivity.
  Qed.

  (* when the comparison decides equality of schemas (every attribute of every element), verification rejects exactly
     the lists in which some file's schema is not the first file's *)
  Theorem verify_rejects_iff basepath rel pf0 rest :
    (forall a b, reflect (a = b) (seqb a b)) ->
    (legacy_merge true basepath rel (pf0 :: rest) = MValueError S X
     <-> exists pf, In pf rest /\ pf_schema S X pf <> pf_schema S X pf0).
  Proof.
    intros Hr. split.
    - unfold Merge.legacy_merge. cbn [andb].
      destruct (forallb (fun pf => seqb (pf_schema S X pf) (pf_schema S X pf0)) rest) eqn:E.
      + cbn [negb]. destruct (all_some _); discriminate.
      + intros _. assert (Hex : existsb (fun pf => negb (seqb (pf_schema S X pf) (pf_schema S X pf0))) rest = true).
        { clear - E. induction rest as [|p r IH]; cbn in *; [discriminate|].
          destruct (seqb (pf_schema S X p) (pf_schema S X pf0)); cbn in *; [now apply IH|reflexivity]. }
        apply existsb_exists in Hex. destruct Hex as [pf [Hin Hn]]. exists pf. split; [exact Hin|].
        destruct (Hr (pf_schema S X pf) (pf_schema S X pf0)); [discriminate|assumption].
    - intros [pf [Hin Hne]]. apply verify_rejects. exists pf. split; [exact Hin|].
      destruct (Hr (pf_schema S X pf) (pf_schema S X pf0)); [contradiction|reflexivity].
  Qed.

  Theorem verify_always_legacy fs pfs : is_legacy S X true fs pfs = true.
  Proof. reflexivity. Qed.

  (* single files: the two code paths produce the same row groups with the same first-chunk paths
     and the same num_rows, whenever the fast path's string slicing yields the relative paths *)
  Lemma simple_paths_agree basepath pfs : Forall (fun pf => pf_simple S X pf = true) pfs ->
    forall file_list rel, Forall2 (fun fn r => fast_rel basepath fn = r) file_list rel ->
    all_some (map (fun pr => repath (fst pr) (snd pr)) (combine pfs rel))
    = Some (map (fun pr => map (set_path (fast_rel basepath (snd pr))) (pf_rgs S X (fst pr))) (combine pfs file_list)).
  Proof.
    induction 1 as [|pf pfs Hs Hr IH]; intros file_list rel H2; [reflexivity|].
    destruct H2 as [|fn r file_list rel Hfr H2]; [reflexivity|]. cbn [combine map all_some fst snd].
    unfold Merge.repath at 1. rewrite Hs. rewrite (IH _ _ H2). cbn [option_map]. now rewrite Hfr.
  Qed.

  Theorem fast_is_legacy basepath rel file_list pf0 rest :
    Forall (fun pf => pf_simple S X pf = true) (pf0 :: rest) ->
    Forall2 (fun fn r => fast_rel basepath fn = r) file_list rel ->
    exists sch' rgs n,
      legacy_merge false basepath rel (pf0 :: rest) = MOk S X basepath (pf_schema S X pf0) rgs n /\
      fast_merge basepath file_list (pf0 :: rest) = MOk S X basepath sch' rgs n.
  Proof.
    intros Hs H2. unfold Merge.legacy_merge, Merge.fast_merge. cbn [andb].
    rewrite (simple_paths_agree basepath _ Hs _ _ H2). eexists _, _, _. split; reflexivity.
  Qed.
End MergeP.

(* ------------------------------------------------------------------ analyse_paths and the fast path's slicing *)
Lemma split_on_nochar c s : Forall (fun p => ~ In c p) (split_on c s).
Proof.
  induction s as [|a r IH]; cbn; [constructor; [tauto|constructor]|].
  destruct (Ascii.eqb_spec a c) as [E|E].
  - constructor; [tauto|exact IH].
  - destruct (split_on c r) as [|h t]; [constructor; [|constructor]; intros [H|[]]; congruence|].
    inversion IH; subst. constructor; [|assumption]. intros [H|H]; [congruence|tauto].
Qed.

(* a path list the fast path can slice: already normalised, and no empty part ("//") below the base *)
Definition sliceable (base : list str) (fn : str) : Prop :=
  join_path [fn] = fn /\ Forall (fun s => s <> []) (skipn (length base) (parts_of fn)).

Theorem analyse_fast_agree (file_list : list str) basepath rel :
  analyse_paths file_list None = AOk basepath rel ->
  (forall p0, hd_error (map parts_of file_list) = Some p0 ->
     Forall (sliceable (base_of (map parts_of file_list) p0)) file_list) ->
  Forall2 (fun fn r => fast_rel basepath fn = r) file_list rel.
Proof.
  unfold analyse_paths. destruct (map parts_of file_list) as [|p0 pl'] eqn:Epl; [discriminate|].
  intros [= <- <-] Hs. specialize (Hs p0 eq_refl). rewrite <- Epl in *.
  set (pl := map parts_of file_list) in *. set (base := base_of pl p0) in *.
  assert (H0 : In p0 pl) by (rewrite Epl; now left).
  destruct (base_of_spec pl p0 H0) as [H1 [_ H3]]. fold base in H1, H3.
  assert (G : forall fl, incl (map parts_of fl) pl -> Forall (sliceable base) fl ->
              Forall2 (fun fn r => fast_rel (join_with c_slash base) fn = r) fl (map (rel_of base) (map parts_of fl))).
  { induction fl as [|fn fl IH]; intros Hi Hsl; cbn; [constructor|].
    inversion Hsl as [|? ? [Hn Hne] Hsl']; subst.
    constructor; [|apply IH; [intros x Hx; apply Hi; now right|exact Hsl']].
    assert (Hp : In (parts_of fn) pl) by (apply Hi; now left).
    unfold rel_of. set (rest := skipn (length base) (parts_of fn)) in *.
    assert (Efn : fn = join_with c_slash (base ++ rest)).
    { unfold rest. rewrite (H3 _ Hp). unfold parts_of. rewrite join_split. now rewrite Hn. }
    rewrite Efn at 1. apply fast_rel_agrees.
    - intros E. pose proof (H1 _ Hp) as Hpre. apply prefix_length in Hpre. rewrite length_removelast in Hpre.
      assert (Hl : length rest = length (parts_of fn) - length base) by (unfold rest; apply skipn_length).
      change (rest = []) in E. rewrite E in Hl. cbn [length] in Hl.
      assert (Hpos : length (parts_of fn) <> 0).
      { unfold parts_of. intros E0. apply length_zero_iff_nil in E0. now apply split_on_nonnil in E0. }
      lia.
    - apply Forall_forall. intros s Hin. change (In s rest) in Hin. split.
      + rewrite Forall_forall in Hne. now apply Hne.
      + pose proof (split_on_nochar c_slash (join_path [fn])) as Hc. rewrite Forall_forall in Hc. apply Hc.
        change (In s (parts_of fn)). rewrite <- (H3 _ Hp). apply in_or_app. right. exact Hin. }
  change (rel_of base p0 :: map (rel_of base) pl') with (map (rel_of base) (p0 :: pl')). rewrite <- Epl.
  apply G; [apply incl_refl|exact Hs].
Qed.

Section MergeQ.
  Variable S : Type.
  Variable seqb : S -> S -> bool.
  Variable slen : S -> nat.
  Variable X : Type.

  (* C14_concat, second half: on single files the fsspec fast path (>= 3 files) and the legacy path
     return the same base path, the same row groups with the same first-chunk paths, the same num_rows *)
  Theorem mfm_fast_legacy (file_list : list str) (pf0 : pfile S X) rest :
    Forall (fun pf => pf_simple S X pf = true) (pf0 :: rest) ->
    (forall p0, hd_error (map parts_of file_list) = Some p0 ->
       Forall (sliceable (base_of (map parts_of file_list) p0)) file_list) ->
    file_list <> [] ->
    exists bp sch' rgs n,
      metadata_from_many S seqb slen X file_list (pf0 :: rest) false false None = MOk S X bp (pf_schema S X pf0) rgs n /\
      metadata_from_many S seqb slen X file_list (pf0 :: rest) false true None = MOk S X bp sch' rgs n.
  Proof.
    intros Hs Hsl Hne. unfold metadata_from_many.
    destruct (analyse_paths file_list None) as [bp rel| |] eqn:Ea.
    - pose proof (analyse_fast_agree file_list bp rel Ea Hsl) as H2.
      destruct (fast_is_legacy S seqb slen X bp rel file_list pf0 rest Hs H2) as [sch' [rgs [n [E1 E2]]]].
      exists bp. replace (is_legacy S X false false (pf0 :: rest)) with true by reflexivity. rewrite E1.
      destruct (is_legacy S X false true (pf0 :: rest)).
      + exists (pf_schema S X pf0), rgs, n. split; reflexivity.
      + exists sch', rgs, n. split; [reflexivity|exact E2].
    - exfalso. unfold analyse_paths in Ea. destruct file_list; [congruence|discriminate].
    - exfalso. unfold analyse_paths in Ea. destruct (map parts_of file_list); discriminate.
  Qed.

  (* a list whose first element is a multi-file dataset (hive/drill sub-datasets) always takes the legacy path:
     with and without an fsspec filesystem metadata_from_many returns the same *)
  Theorem subdatasets_always_legacy (file_list : list str) (pf0 : pfile S X) rest verify fs root :
    pf_simple S X pf0 = false ->
    is_legacy S X verify fs (pf0 :: rest) = true /\
    metadata_from_many S seqb slen X file_list (pf0 :: rest) verify fs root
    = metadata_from_many S seqb slen X file_list (pf0 :: rest) verify false root.
  Proof.
    intros H.
    assert (E : forall f, is_legacy S X verify f (pf0 :: rest) = true).
    { intros f. unfold is_legacy. rewrite H. cbn [negb]. now rewrite orb_true_r. }
    split; [apply E|]. unfold metadata_from_many. now rewrite !E.
  Qed.
End MergeQ.
