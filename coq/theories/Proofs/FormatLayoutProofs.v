(* Every physical table has a layout: one v1 PLAIN page per column chunk (definition levels as a single
   bit-packed run).  Together with spec_roundtrip: "for every table and every layout". *)
From Coq Require Import NArith ZArith Arith List Lia Bool.
From Pq Require Import Base.Bytes Base.ListX Proofs.ListXProofs Codec.Hybrid Format.Phys Format.Page Format.File Format.Enc
  Proofs.FormatPageProofs Proofs.RPagesProofs.
Import ListNotations.
Open Scope N_scope.

Definition level_of (c : option value) : N := match c with Some _ => 1 | None => 0 end.
Fixpoint values_of (cells : list (option value)) : list value :=
  match cells with [] => [] | Some v :: r => v :: values_of r | None :: r => values_of r end.

Definition plain_page (optional : bool) (cells : list (option value)) : lpage :=
  {| lp_v2 := false; lp_nvals := lenN cells;
     lp_def := if optional then match cells with [] => [] | _ => [BP (map level_of cells)] end else [];
     lp_store := SPlain (values_of cells); lp_iscomp := None; lp_trail := [] |}.

Definition plain_chunk (optional : bool) (cells : list (option value)) : lchunk :=
  {| lc_codec := 0%Z; lc_items := [LData (plain_page optional cells)]; lc_stats := true |}.

(* cells of a column that its leaf can hold: no NULL in a required column *)
Definition cells_fit (optional : bool) (cells : list (option value)) : Prop :=
  optional = false -> Forall (fun c => c <> None) cells.

Lemma cells_of_levels : forall cells acc,
  cells_of 1 (map level_of cells) (values_of cells) acc = Some (rev acc ++ cells).
Proof.
  induction cells as [|c r IH]; intros acc; cbn [map values_of cells_of].
  - now rewrite rev_append_rev, !app_nil_r.
  - destruct c as [v|]; cbn [level_of N.eqb Pos.eqb values_of]; rewrite IH; cbn [rev]; now rewrite <- app_assoc.
Qed.

Lemma cells_of_required : forall cells acc, Forall (fun c => c <> None) cells ->
  cells_of 0 (repeat 0 (length cells)) (values_of cells) acc = Some (rev acc ++ cells).
Proof.
  induction cells as [|c r IH]; intros acc H; cbn [length repeat values_of cells_of].
  - now rewrite rev_append_rev, !app_nil_r.
  - inversion H as [|? ? Hc Hr]; subst. destruct c as [v|]; [|now contradiction Hc].
    cbn [N.eqb values_of]. rewrite IH by exact Hr. cbn [rev]. now rewrite <- app_assoc.
Qed.

Lemma firstn_pad8 (l : list N) : firstn (length l) (pad8 l) = l.
Proof. unfold pad8. rewrite firstn_app, Nat.sub_diag, firstn_all. cbn. apply app_nil_r. Qed.

Theorem plain_page_cells optional t tlen cells : cells_fit optional cells ->
  page_cells {| cd_type := t; cd_tlen := tlen; cd_maxdef := if optional then 1 else 0 |} None (plain_page optional cells)
  = Some cells.
Proof.
  intros FIT. unfold page_cells, page_levels, plain_page. cbn [cd_maxdef lp_nvals lp_def lp_store store_values].
  destruct optional; cbn [N.eqb Pos.eqb].
  - destruct cells as [|c r] eqn:E; [reflexivity|]. rewrite <- E.
    assert (L : takeN (lenN cells) (runs_vals [BP (map level_of cells)]) = map level_of cells).
    { rewrite takeN_ok, runs_vals_ok. unfold runs_total. cbn [map List.concat run_vals]. rewrite app_nil_r.
      rewrite lenN_ok, Nat2N.id. rewrite <- (map_length level_of cells). apply firstn_pad8. }
    rewrite L. apply (cells_of_levels cells []).
  - rewrite repN_ok, app_nil_r, lenN_ok, Nat2N.id. apply (cells_of_required cells []). now apply FIT.
Qed.

Definition layout_of (leaves : list lleaf) (rgs : list (list (list (option value)))) (cb : option bytes) : lfile :=
  {| l_leaves := leaves;
     l_rgs := map (fun cols => map (fun lc => plain_chunk (ll_optional (fst lc)) (snd lc)) (combine leaves cols)) rgs;
     l_created_by := cb |}.

(* a table over the leaves: one list of cells per leaf in every row group, no NULL in a required column *)
Definition table_fits (leaves : list lleaf) (rgs : list (list (list (option value)))) : Prop :=
  Forall (fun cols => Forall2 (fun l cells => cells_fit (ll_optional l) cells) leaves cols) rgs.

Lemma chunk_cells_plain l cells : cells_fit (ll_optional l) cells ->
  items_cells (desc_of l) None (lc_items (plain_chunk (ll_optional l) cells)) = Some cells.
Proof.
  intros F. cbn [plain_chunk lc_items items_cells]. unfold desc_of.
  rewrite (plain_page_cells (ll_optional l) (ll_type l) (ll_tlen l) cells F). now rewrite app_tr_ok, app_nil_r.
Qed.

Lemma rg_cells_plain : forall leaves cols,
  Forall2 (fun l cells => cells_fit (ll_optional l) cells) leaves cols ->
  map2_opt (fun l c => items_cells (desc_of l) None (lc_items c)) leaves
           (map (fun lc => plain_chunk (ll_optional (fst lc)) (snd lc)) (combine leaves cols))
  = Some cols.
Proof.
  induction 1 as [|l cells leaves cols F _ IH]; [reflexivity|].
  cbn [combine map map2_opt fst snd]. now rewrite (chunk_cells_plain l cells F), IH.
Qed.

(* every table that fits the leaves is the denotation of a layout *)
Theorem every_table_has_a_layout leaves rgs cb : table_fits leaves rgs ->
  table_of (layout_of leaves rgs cb) = Some (map leaf_of_l leaves, rgs).
Proof.
  intros F. unfold table_of, layout_of. cbn [l_rgs l_leaves].
  assert (E : Meta.map_opt (fun rg => map2_opt (fun l c => items_cells (desc_of l) None (lc_items c)) leaves rg)
                      (map (fun cols => map (fun lc => plain_chunk (ll_optional (fst lc)) (snd lc)) (combine leaves cols)) rgs)
              = Some rgs).
  { induction F as [|cols rgs Fc _ IH]; [reflexivity|]. cbn [map Meta.map_opt]. now rewrite (rg_cells_plain leaves cols Fc), IH. }
  now rewrite E.
Qed.
