(* The reader's parse of the time-zone text is the inverse of what the writer records, for EVERY fixed
   offset of whole seconds inside (-24h, 24h) - the complete domain of datetime.timezone at that resolution.
   Finite domain: decided by evaluation (the bound is in the statement).  (C01) *)
From Coq Require Import NArith ZArith List Bool Lia.
From Pq Require Import Base.Bytes Impl.TzText.
Import ListNotations.
Open Scope Z_scope.

Lemma tz_range_ok_sound n : forall cur, tz_range_ok n cur = true ->
  forall s, cur <= s < cur + Z.of_nat n -> tz_ok_at s = true.
Proof.
  induction n as [|n IH]; intros cur H s Hs; [lia|].
  cbn [tz_range_ok] in H. destruct (tz_ok_at cur) eqn:E; [|discriminate].
  destruct (Z.eq_dec s cur) as [->|Ne]; [exact E|].
  apply (IH (cur + 1) H). lia.
Qed.

Lemma tz_range_ok_all : tz_range_ok (Z.to_nat 172799) (-86399) = true.
Proof. vm_compute. reflexivity. Qed.

Theorem tz_text_roundtrip s : -86400 < s < 86400 -> tz_roundtrip s = Some s.
Proof.
  intro H. pose proof (tz_range_ok_sound _ _ tz_range_ok_all s) as A.
  assert (B : tz_ok_at s = true) by (apply A; rewrite Z2Nat.id by lia; lia).
  unfold tz_ok_at in B. destruct (tz_roundtrip s) as [v|]; [|discriminate].
  apply Z.eqb_eq in B. subst v. reflexivity.
Qed.

(* the text always has one of the two shapes the reader distinguishes *)
Theorem tz_text_defined s : -86400 < s < 86400 -> exists t, tz_meta_text s = Some t.
Proof.
  intro H. pose proof (tz_text_roundtrip s H) as R. unfold tz_roundtrip in R.
  destruct (tz_meta_text s) as [t|]; [exists t; reflexivity|discriminate].
Qed.

(* taking the direction of the minutes from the sign of int(hours) loses the sign for offsets in (-1h, 0) *)
Theorem tz_sign_of_hours_refuted :
  exists s t, -86400 < s < 86400 /\ tz_meta_text s = Some t /\ tz_offset_of (tz_parse_sign_of_hours t) = Some (- s) /\ s <> 0.
Proof. exists (-2700), [45; 48; 48; 58; 52; 53]%N. vm_compute. repeat split; congruence. Qed.

(* the pinned reader (`hours, mins = z.split(":", 1)`) refuses every offset that is not a whole minute; model of the pinned
   rule: int() of "MM:SS" fails *)
Definition tz_parse_pinned (z : list N) : tzres :=
  if mem_ch ch_colon z then
    match split_colon [] z with
    | [h; m] =>
      let sg := if starts_minus z then -1 else 1 in
      match py_int h, py_int m with
      | Some hv, Some mv => TzFixed (hv * 3600 + sg * mv * 60)
      | _, _ => TzErr
      end
    | _ => TzErr       (* int("MM:SS") raises ValueError *)
    end
  else TzName z.

Theorem tz_pinned_subminute_refuted :
  exists s t, -86400 < s < 86400 /\ tz_meta_text s = Some t /\ tz_parse_pinned t = TzErr.
Proof. exists 30, [43; 48; 48; 58; 48; 48; 58; 51; 48]%N. vm_compute. repeat split; congruence. Qed.
