(* times='int96': the writer's INT96 value (Impl/WConvert.w_int96: nanoseconds of the day + Julian day) read by the
   reader model (Impl/RConvert.convert_model INT96) is the same instant in nanoseconds.  (C01) *)
From Coq Require Import NArith ZArith List Bool Lia.
From Pq Require Import Base.Bytes Base.ListX Format.Phys Format.Page Impl.RConvert Impl.WConvert Proofs.WConvertProofs.
Import ListNotations.
Local Open Scope Z_scope.
Ltac Zify.zify_post_hook ::= Z.to_euclidean_division_equations.

Lemma sint_wrap32 z : - 2 ^ 31 <= z < 2 ^ 31 -> sint 32 (wrap 32 z) = z.
Proof.
  unfold sint, wrap. intro H. change (2 ^ (32 - 1)) with 2147483648. change (2 ^ 31) with 2147483648 in *.
  change (2 ^ 32) with 4294967296.
  rewrite Z2N.id by (apply Z.mod_pos_bound; lia).
  destruct (Z.ltb_spec (z mod 4294967296) 2147483648) as [L|L]; lia.
Qed.

Lemma split96 (a b : N) : (a < 2 ^ 64)%N -> ((a + 2 ^ 64 * b) mod 2 ^ 64 = a /\ (a + 2 ^ 64 * b) / 2 ^ 64 = b)%N.
Proof.
  intro H. assert (P : (2 ^ 64 <> 0)%N) by discriminate. split.
  - rewrite (N.mul_comm (2 ^ 64) b), N.mod_add by exact P. apply N.mod_small. exact H.
  - rewrite (N.mul_comm (2 ^ 64) b), N.div_add by exact P.
    rewrite N.div_small by exact H. reflexivity.
Qed.

Theorem int96_roundtrip u v : in64 v -> in64 (v * ns_per u) -> v * ns_per u <> NATZ ->
  read_back INT96 None None (w_int96 u v) = Some (Some (LTimestamp TNs (v * ns_per u))).
Proof.
  intros Hv Hs Hn.
  assert (VN : (v =? NATZ) = false).
  { apply Z.eqb_neq. intro E. subst v. destruct u; cbn [ns_per] in *; unfold NATZ, in64 in *;
      change (2 ^ 63) with 9223372036854775808 in *; lia. }
  unfold read_back, w_int96. rewrite VN. unfold w64. rewrite sint_wrap64 by exact Hs.
  set (ns := v * ns_per u) in *.
  assert (D : DAY_NS = 86400000000000) by reflexivity.
  assert (R : 0 <= ns mod DAY_NS < DAY_NS) by (apply Z.mod_pos_bound; rewrite D; lia).
  assert (A : (Z.to_N (ns mod DAY_NS) < 2 ^ 64)%N).
  { change (2 ^ 64)%N with 18446744073709551616%N. rewrite D in R. lia. }
  cbn [convert_model].
  destruct (split96 (Z.to_N (ns mod DAY_NS)) (wrap 32 (ns / DAY_NS + 2440588)) A) as [M Q].
  rewrite M, Q.
  assert (DAYR : - 2 ^ 31 <= ns / DAY_NS + 2440588 < 2 ^ 31).
  { unfold in64 in Hs. rewrite D. change (2 ^ 63) with 9223372036854775808 in Hs. change (2 ^ 31) with 2147483648. lia. }
  rewrite sint_wrap32 by exact DAYR.
  assert (S64 : sint 64 (Z.to_N (ns mod DAY_NS)) = ns mod DAY_NS).
  { unfold sint. rewrite Z2N.id by lia. change (2 ^ (64 - 1)) with 9223372036854775808.
    destruct (Z.ltb_spec (ns mod DAY_NS) 9223372036854775808) as [L|L]; [reflexivity|rewrite D in R; lia]. }
  rewrite S64.
  replace ((ns / DAY_NS + 2440588 - 2440588) * DAY_NS + ns mod DAY_NS) with ns
    by (rewrite D; pose proof (Z.div_mod ns 86400000000000 ltac:(lia)); lia).
  cbn [column_of denote].
  rewrite wrap64_eq_nat by exact Hs.
  assert (NN : (ns =? NATZ) = false) by (apply Z.eqb_neq; exact Hn).
  rewrite NN. rewrite sint_wrap64 by exact Hs. reflexivity.
Qed.

(* NaT: the pattern the writer produces for a missing timestamp is read back as ... (evaluated) *)
Lemma int96_nat_value : forall u, w_int96 u NATZ = w_int96 WNs NATZ.
Proof. destruct u; reflexivity. Qed.
