(* UTF-8 preserves order: the byte-wise lexicographic order of encoded strings (the Parquet order of UTF8 columns)
   is the lexicographic order of their code points (how Python/pandas compare str). *)
From Coq Require Import NArith ZArith List Bool Lia ZifyBool.
From Pq Require Import Base.Bytes Format.Utf8 Impl.Stats.
Import ListNotations.
Open Scope N_scope.

Ltac Zify.zify_post_hook ::= Z.to_euclidean_division_equations.

Lemma lex_leb_app_same p a b : lex_leb (p ++ a) (p ++ b) = lex_leb a b.
Proof. induction p as [|x p IH]; cbn; [reflexivity|]. now rewrite N.ltb_irrefl. Qed.

Ltac split_ltb :=
  repeat match goal with
         | |- context [N.ltb ?u ?v] => destruct (N.ltb_spec u v)
         end.

(* a smaller code point encodes to a byte string that is smaller at its first differing byte, whatever follows *)
Lemma utf8_lt x y a b : x < y -> y < 0x110000 ->
  lex_leb (utf8 x ++ a) (utf8 y ++ b) = true /\ lex_leb (utf8 y ++ b) (utf8 x ++ a) = false.
Proof.
  intros Hxy Hy. unfold utf8.
  destruct (N.ltb_spec x 0x80); destruct (N.ltb_spec y 0x80);
  destruct (N.ltb_spec x 0x800); destruct (N.ltb_spec y 0x800);
  destruct (N.ltb_spec x 0x10000); destruct (N.ltb_spec y 0x10000); try lia;
  cbn [app lex_leb]; split; split_ltb; try reflexivity; try lia.
Qed.

Lemma utf8_nonempty x : utf8 x <> [].
Proof. unfold utf8. split_ltb; discriminate. Qed.

(* THE statement: on valid code points, comparing the UTF-8 bytes lexicographically (Parquet's order for UTF8 columns)
   is comparing the code point sequences lexicographically (Python's order on str) *)
Theorem utf8_order : forall a b : list N,
  Forall (fun c => c < 0x110000) a -> Forall (fun c => c < 0x110000) b ->
  lex_leb (utf8_encode a) (utf8_encode b) = lex_leb a b.
Proof.
  induction a as [|x a IH]; intros b Ha Hb.
  - destruct b; reflexivity.
  - destruct b as [|y b].
    + cbn [utf8_encode flat_map lex_leb]. destruct (utf8 x ++ flat_map utf8 a) eqn:E; [|reflexivity].
      apply app_eq_nil in E. destruct E as [E _]. now apply utf8_nonempty in E.
    + inversion Ha as [|? ? Hx Ha']; inversion Hb as [|? ? Hy Hb']; subst.
      cbn [utf8_encode flat_map]. cbn [lex_leb].
      destruct (N.ltb_spec x y) as [L|L].
      * apply (utf8_lt x y); assumption.
      * destruct (N.ltb_spec y x) as [G|G].
        -- apply (utf8_lt y x); assumption.
        -- assert (x = y) by lia. subst. rewrite lex_leb_app_same. apply IH; assumption.
Qed.

(* consequently the min/max that bound the code-point order bound the byte order: statistics of a UTF8 column computed
   on the str values and then encoded are the statistics of the stored byte strings *)
Corollary utf8_max_is_byte_max : forall (m : list N) (l : list (list N)),
  Forall (fun c => c < 0x110000) m -> Forall (Forall (fun c => c < 0x110000)) l ->
  (forall s, In s l -> lex_leb s m = true) ->
  forall s, In s l -> lex_leb (utf8_encode s) (utf8_encode m) = true.
Proof.
  intros m l Hm Hl Hb s Hs. rewrite utf8_order; [now apply Hb| |exact Hm].
  rewrite Forall_forall in Hl. now apply Hl.
Qed.
