(* When does the scratch buffer of Impl/WScratch.v hold the whole run header?  (C01) *)
From Coq Require Import NArith List Lia.
From Pq Require Import Base.Bytes Base.ListX Codec.Varint Impl.WLevels Impl.WScratch Proofs.CodecProofs.
Import ListNotations.
Open Scope N_scope.

Lemma nio_fits cap s : (length s <= cap)%nat -> nio cap s = s.
Proof. intro H. unfold nio. apply firstn_all2. exact H. Qed.

Lemma uleb_len_k n k : (1 <= k)%nat -> n < 2 ^ (7 * N.of_nat k) -> (length (uleb_enc n) <= k)%nat.
Proof. intros Hk H. unfold uleb_enc. apply uleb_enc_f_len; assumption. Qed.

Lemma uleb_len_5 n : n < 2 ^ 35 -> (length (uleb_enc n) <= 5)%nat.
Proof. intro H. apply uleb_len_k; [lia|]. change (7 * N.of_nat 5) with 35. exact H. Qed.

Lemma uleb_len_9 n : n < 2 ^ 63 -> (length (uleb_enc n) <= 9)%nat.
Proof. intro H. apply uleb_len_k; [lia|]. change (7 * N.of_nat 9) with 63. exact H. Qed.

Lemma pow31_35 n : n < 2 ^ 31 -> 2 * n + 1 < 2 ^ 35.
Proof. intro H. change (2 ^ 35) with (16 * 2 ^ 31). lia. Qed.

(* general form: the capped block is the block of Impl/WLevels.v as soon as header + level byte fit *)
Theorem defs_nonull_cap_general cap n :
  (length (uleb_enc (2 * n)) + 1 <= cap)%nat ->
  wr_defs_nonull_v2_cap cap n = wr_defs_nonull_v2 n /\ wr_defs_nonull_v1_cap cap n = wr_defs_nonull_v1 n.
Proof.
  intro H.
  assert (E : wr_defs_nonull_v2_cap cap n = wr_defs_nonull_v2 n).
  { unfold wr_defs_nonull_v2_cap, defs_nonull_stream, wr_defs_nonull_v2. apply nio_fits.
    rewrite app_length. cbn [length]. exact H. }
  split; [exact E|]. unfold wr_defs_nonull_v1_cap, wr_defs_nonull_v1. rewrite E. reflexivity.
Qed.

(* every page of fewer than 2^31 rows (num_values is an i32), any buffer of at least 6 bytes *)
Theorem defs_nonull_cap_fits cap n : (cap_needed <= cap)%nat -> n < 2 ^ 31 ->
  wr_defs_nonull_v2_cap cap n = wr_defs_nonull_v2 n /\ wr_defs_nonull_v1_cap cap n = wr_defs_nonull_v1 n.
Proof.
  intros Hc Hn. apply defs_nonull_cap_general. unfold cap_needed in Hc.
  assert (L : (length (uleb_enc (2 * n)) <= 5)%nat) by (apply uleb_len_5; pose proof (pow31_35 n Hn); lia).
  lia.
Qed.

(* the 10-byte buffer of the code: every length below 2^62 *)
Theorem defs_nonull_cap10 n : n < 2 ^ 62 ->
  wr_defs_nonull_v2_cap 10 n = wr_defs_nonull_v2 n /\ wr_defs_nonull_v1_cap 10 n = wr_defs_nonull_v1 n.
Proof.
  intro Hn. apply defs_nonull_cap_general.
  assert (L : (length (uleb_enc (2 * n)) <= 9)%nat).
  { apply uleb_len_9. change (2 ^ 63) with (2 * 2 ^ 62). lia. }
  lia.
Qed.

Theorem defs_nulls_head_fits cap outlen : (5 <= cap)%nat -> outlen < 2 ^ 31 ->
  wr_defs_nulls_head_cap cap outlen = uleb_enc (2 * outlen + 1).
Proof.
  intros Hc Hn. unfold wr_defs_nulls_head_cap, defs_nulls_head_stream. apply nio_fits.
  pose proof (uleb_len_5 (2 * outlen + 1) (pow31_35 outlen Hn)). lia.
Qed.

Theorem dict_head_fits cap k n : (cap_needed <= cap)%nat -> n < 2 ^ 31 ->
  wr_dict_head_cap cap k n = wr_dict_head k n.
Proof.
  intros Hc Hn. unfold wr_dict_head_cap, wr_dict_head, dict_head_stream. apply nio_fits.
  cbn [length]. unfold cap_needed in Hc.
  assert (G : (n + 7) / 8 < 2 ^ 31).
  { apply N.div_lt_upper_bound; [lia|]. change (2 ^ 31) with 2147483648 in *. lia. }
  pose proof (uleb_len_5 (2 * ((n + 7) / 8) + 1) (pow31_35 _ G)). lia.
Qed.

(* the head of encode_dict in Impl/WLevels.v is the uncapped stream *)
Lemma wr_dict_indices_head k codes :
  wr_dict_indices k codes = wr_dict_head k (N.of_nat (length codes)) ++ wr_codes k codes.
Proof. reflexivity. Qed.

(* a 5-byte scratch buffer (what a 32-bit varint needs, nothing more) loses the level byte at 2^27 rows *)
Theorem scratch5_nonull_refuted :
  exists n, n < 2 ^ 31 /\ wr_defs_nonull_v1_cap 5 n <> wr_defs_nonull_v1 n /\
            wr_defs_nonull_v2_cap 5 n <> wr_defs_nonull_v2 n.
Proof. exists (2 ^ 27). split; [reflexivity|]. split; vm_compute; discriminate. Qed.

Theorem scratch5_dict_refuted :
  exists n, n < 2 ^ 31 /\ wr_dict_head_cap 5 1 n <> wr_dict_head 1 n.
Proof. exists (2 ^ 30). split; [reflexivity|]. vm_compute. discriminate. Qed.
