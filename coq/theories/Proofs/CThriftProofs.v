(* Proofs about the impl model of cencoding.pyx's thrift code (Impl/CThrift.v, Impl/CThriftSpec.v). *)
From Coq Require Import NArith ZArith List Bool Lia.
From Pq Require Import Base.Bytes Thrift.Varint Thrift.Compact Proofs.CompactProofs Impl.CThrift Impl.CThriftSpec.
Import ListNotations.
Open Scope N_scope.

(* ================================================================================================
   Part 1: write_thrift is a compact-protocol writer: its bytes are the specification's encoding
   of the value tree the object denotes (t_top), for every object.
   ================================================================================================ *)
Lemma flat_app a b : flat (a ++ b) = flat a ++ flat b.
Proof.
  induction a as [|o a IH]; [reflexivity|].
  destruct o; cbn [app flat]; rewrite IH; [reflexivity|]. rewrite app_assoc. reflexivity.
Qed.

Lemma flat_wb l : flat (map WB l) = l.
Proof. induction l as [|b l IH]; [reflexivity|]. cbn [map flat]. rewrite IH. reflexivity. Qed.

Lemma lor_land_128 x : N.lor (N.land x 127) 128 = x mod 128 + 128.
Proof.
  assert (H0 : N.land (N.land x 127) 128 = 0).
  { rewrite <- N.land_assoc. change (N.land 127 128) with 0. apply N.land_0_r. }
  rewrite <- N.lxor_lor by exact H0. rewrite <- N.add_nocarry_lxor by exact H0.
  change 127 with (N.ones 7). rewrite N.land_ones. reflexivity.
Qed.

Lemma c_varint_fuel_uleb : forall f x, c_varint_fuel f x = uleb_fuel f x.
Proof.
  induction f as [|f IH]; intros x; [reflexivity|].
  cbn [c_varint_fuel uleb_fuel].
  destruct (N.leb_spec x 127) as [H|H]; destruct (N.ltb_spec x 128) as [H'|H']; try lia; [reflexivity|].
  rewrite lor_land_128, N.shiftr_div_pow2, IH. reflexivity.
Qed.

Lemma flat_wvarint x : flat (wvarint x) = uleb x.
Proof. unfold wvarint, c_varint, uleb. rewrite flat_wb. apply c_varint_fuel_uleb. Qed.

Lemma flat_w_str l : flat (w_str l) = uleb (len l) ++ l.
Proof. unfold w_str. rewrite flat_app, flat_wvarint. cbn [flat]. rewrite app_nil_r. reflexivity. Qed.

Lemma flat_list_hdr t n : flat (list_hdr t n) = list_header t n.
Proof.
  unfold list_hdr, list_header.
  destruct (N.ltb_spec 14 n) as [H|H]; destruct (N.ltb_spec n 15) as [H'|H']; try lia.
  - cbn [flat]. rewrite flat_wvarint. f_equal. lia.
  - cbn [flat]. f_equal. lia.
Qed.

Lemma t_items_len f : forall l l', t_items f l = Some l' -> length l' = length l.
Proof.
  induction l as [|x l IH]; intros l' H; cbn [t_items] in H.
  - injection H as <-. reflexivity.
  - destruct (f x); [|discriminate]. destruct (t_items f l) as [b|] eqn:E; [|discriminate].
    injection H as <-. cbn [length]. f_equal. apply IH. reflexivity.
Qed.

Lemma items_spec f g : (forall x, option_map flat (f x) = option_map wr_elem (g x)) ->
  forall l, option_map flat (w_items f l) = option_map wr_elems (t_items g l).
Proof.
  intros H. induction l as [|x l IH]; [reflexivity|].
  cbn [w_items t_items]. specialize (H x).
  destruct (f x) as [a|], (g x) as [a'|]; cbn [option_map] in H; try discriminate.
  - destruct (w_items f l) as [b|], (t_items g l) as [b'|]; cbn [option_map] in IH |- *; try discriminate.
    + injection H as H. injection IH as IH. rewrite flat_app, H, IH. reflexivity.
    + reflexivity.
  - destruct (w_items f l), (t_items g l); reflexivity.
Qed.

(* a list header followed by the items, against wr of the TList *)
Lemma list_spec ety f g l : (forall x, option_map flat (f x) = option_map wr_elem (g x)) ->
  option_map flat (option_map (app (list_hdr ety (len l))) (w_items f l))
  = option_map wr (option_map (TList ety) (t_items g l)).
Proof.
  intros H. pose proof (items_spec f g H l) as E.
  destruct (w_items f l) as [b|], (t_items g l) as [b'|] eqn:Eg; cbn [option_map] in E |- *; try discriminate; [|reflexivity].
  injection E as E. rewrite flat_app, flat_list_hdr, E, wr_list. f_equal. f_equal.
  unfold len. rewrite (t_items_len g l b' Eg). reflexivity.
Qed.

Lemma int_elem_spec x : option_map flat (w_int_elem x) = option_map wr_elem (t_int_elem x).
Proof.
  destruct x; try reflexivity.
  - cbn [w_int_elem t_int_elem option_map wr_elem wr]. rewrite flat_wvarint. reflexivity.
  - cbn [w_int_elem t_int_elem]. destruct (in_cint z); [|reflexivity].
    cbn [option_map wr_elem wr]. rewrite flat_wvarint. reflexivity.
Qed.
Lemma bytes_elem_spec x : option_map flat (w_bytes_elem x) = option_map wr_elem (t_bytes_elem x).
Proof. destruct x; try reflexivity. cbn [w_bytes_elem t_bytes_elem option_map wr_elem wr]. rewrite flat_w_str. reflexivity. Qed.
Lemma str_elem_spec x : option_map flat (w_str_elem x) = option_map wr_elem (t_str_elem x).
Proof. destruct x; try reflexivity. cbn [w_str_elem t_str_elem option_map wr_elem wr]. rewrite flat_w_str. reflexivity. Qed.

Lemma list_with_spec wd td : (forall x, option_map flat (wd x) = option_map wr_elem (td x)) ->
  forall l, option_map flat (w_list_with wd l) = option_map wr (t_list_with td l).
Proof.
  intros H l. destruct l as [|first r]; [reflexivity|].
  unfold w_list_with, t_list_with.
  destruct first; first [apply list_spec; first [exact H|exact int_elem_spec|exact bytes_elem_spec|exact str_elem_spec]].
Qed.

(* ascending field ids within the short-form range *)
Fixpoint asc (prev : Z) (ids : list Z) : Prop :=
  match ids with [] => True | i :: r => (prev < i <= 15)%Z /\ asc i r end.

Lemma asc_weaken ids : forall p q, (p <= q)%Z -> asc q ids -> asc p ids.
Proof. destruct ids as [|i r]; intros p q H Ha; [exact I|]. cbn [asc] in *. split; [lia|tauto]. Qed.

Lemma hdr_spec prev i t : (0 <= prev < i)%Z -> (i <= 15)%Z ->
  Z.to_N (i - prev) * 16 + t = (Z.to_N i - Z.to_N prev) * 16 + t /\
  (Z.to_N prev <? Z.to_N i) = true /\ (Z.to_N i - Z.to_N prev <? 16) = true.
Proof. intros H1 H2. repeat split; [f_equal; f_equal; lia| apply N.ltb_lt; lia | apply N.ltb_lt; lia]. Qed.

Lemma fields_spec wf tf :
  (forall prev i v, (0 <= prev < i)%Z -> (i <= 15)%Z -> v <> PNone ->
     option_map flat (wf (i - prev)%Z i v)
     = option_map (fun t => field_header (Z.to_N prev) (Z.to_N i) (nib t) ++ wr t) (tf i v)) ->
  forall ids prev fs, (0 <= prev)%Z -> asc prev ids ->
    option_map flat (w_fields wf ids prev fs) = option_map (wr_fields (Z.to_N prev)) (t_fields tf ids fs).
Proof.
  intros H. induction ids as [|i r IH]; intros prev fs Hp Ha; [reflexivity|].
  cbn [asc] in Ha. destruct Ha as [Hi Ha]. cbn [w_fields t_fields].
  assert (Ha' : asc prev r) by (apply (asc_weaken r prev i); [lia|exact Ha]).
  destruct (lookup i fs) as [v|]; [|apply IH; assumption].
  assert (Hv : v <> PNone -> option_map flat
      match wf (i - prev)%Z i v, w_fields wf r i fs with Some a, Some b => Some (a ++ b) | _, _ => None end
    = option_map (wr_fields (Z.to_N prev))
      match tf i v, t_fields tf r fs with Some a, Some b => Some ((Z.to_N i, a) :: b) | _, _ => None end).
  { intros Hn. specialize (H prev i v ltac:(lia) ltac:(lia) Hn). specialize (IH i fs ltac:(lia) Ha).
    destruct (wf (i - prev)%Z i v) as [a|], (tf i v) as [a'|]; cbn [option_map] in H; try discriminate.
    - destruct (w_fields wf r i fs) as [b|], (t_fields tf r fs) as [b'|]; cbn [option_map] in IH |- *; try discriminate; [|reflexivity].
      injection H as H. injection IH as IH. rewrite flat_app, H, IH. cbn [wr_fields]. rewrite <- app_assoc. reflexivity.
    - destruct (w_fields wf r i fs), (t_fields tf r fs); reflexivity. }
  destruct v; try (apply Hv; discriminate). apply IH; assumption.
Qed.

Lemma field_header_short prev i t : (0 <= prev < i)%Z -> (i <= 15)%Z ->
  field_header (Z.to_N prev) (Z.to_N i) t = [Z.to_N (i - prev) * 16 + t].
Proof.
  intros H1 H2. unfold field_header. destruct (hdr_spec prev i t H1 H2) as (E1 & E2 & E3).
  rewrite E2, E3. cbn [andb]. rewrite E1. reflexivity.
Qed.

Lemma ids13_asc : asc 0 ids13.
Proof. cbn. repeat split; lia. Qed.
Lemma ids14_asc : asc 0 ids14.
Proof. cbn. repeat split; lia. Qed.

(* from here on: any field-id list `ids` the loop may run over (ascending, within the short-form range) *)
Section Ids.
Variable fids : list Z.
Hypothesis Hasc : asc 0 fids.
Local Notation w_thrift := (CThrift.w_thrift fids).
Local Notation t_thrift := (CThriftSpec.t_thrift fids).
Local Notation w_top := (CThrift.w_top fids).
Local Notation t_top := (CThriftSpec.t_top fids).
Local Notation ser := (CThrift.ser fids).
Local Notation to_bytes := (CThrift.to_bytes fids).

Lemma field_spec wd td i32 i32l :
  (forall x, option_map flat (wd x) = option_map wr_elem (td x)) ->
  (forall x t, td x = Some t -> nib t = 12) ->
  forall prev i v, (0 <= prev < i)%Z -> (i <= 15)%Z -> v <> PNone ->
    option_map flat (w_field wd i32 i32l (i - prev)%Z i v)
    = option_map (fun t => field_header (Z.to_N prev) (Z.to_N i) (nib t) ++ wr t) (t_field td i32 i32l i v).
Proof.
  intros Hd Hn prev i v Hp Hi Hv. pose proof (field_header_short prev i) as FH.
  destruct v as [|b|z|bits|l|l|l|a b c]; cbn [t_field w_field].
  - congruence.
  - cbn [option_map flat hdr nib wr]. rewrite FH by lia. destruct b; reflexivity.
  - destruct (in_i64 z); [|reflexivity]. cbn [option_map flat hdr]. rewrite flat_wvarint.
    unfold int_nib. destruct i32l as [l|].
    + destruct (existsb (Z.eqb i) l); cbn [N.eqb Pos.eqb nib wr]; rewrite FH by lia; reflexivity.
    + destruct i32; cbn [N.eqb Pos.eqb nib wr]; rewrite FH by lia; reflexivity.
  - cbn [option_map flat hdr nib wr]. rewrite FH by lia. rewrite app_nil_r. reflexivity.
  - cbn [option_map flat hdr nib wr]. rewrite FH by lia. rewrite flat_w_str. reflexivity.
  - cbn [option_map flat hdr nib wr]. rewrite FH by lia. rewrite flat_w_str. reflexivity.
  - pose proof (list_with_spec wd td Hd l) as HL.
    destruct (w_list_with wd l) as [o|], (t_list_with td l) as [t|] eqn:Et; cbn [option_map] in HL |- *; try discriminate; [|reflexivity].
    injection HL as HL. cbn [flat hdr]. rewrite HL. f_equal.
    assert (nib t = 9) as ->.
    { destruct l as [|first r]; cbn [t_list_with] in Et; [injection Et as <-; reflexivity|].
      destruct first; match type of Et with option_map _ ?X = _ => destruct X end; try discriminate;
        injection Et as <-; reflexivity. }
    rewrite FH by lia. reflexivity.
  - pose proof (Hd (PDict a b c)) as HI. pose proof (Hn (PDict a b c)) as Hn'.
    destruct (wd (PDict a b c)) as [o|], (td (PDict a b c)) as [t|]; cbn [option_map] in HI |- *; try discriminate; [|reflexivity].
    injection HI as HI. cbn [flat hdr]. rewrite HI. pose proof (Hn' t eq_refl) as Ht. rewrite Ht.
    rewrite FH by lia. destruct t as [[]| | | | | | | |]; cbn [nib] in Ht; try discriminate Ht. reflexivity.
Qed.

Lemma t_thrift_nib d i32 i32l fs t : t_thrift d i32 i32l fs = Some t -> nib t = 12.
Proof.
  destruct d; [discriminate|]. cbn [CThriftSpec.t_thrift]. intros E.
  destruct (t_fields _ fids fs); [|discriminate]. injection E as <-. reflexivity.
Qed.

Theorem w_thrift_spec : forall d i32 i32l fs,
  option_map flat (w_thrift d i32 i32l fs) = option_map wr (t_thrift d i32 i32l fs).
Proof.
  induction d as [|d IH]; intros i32 i32l fs; [reflexivity|].
  cbn [CThrift.w_thrift CThriftSpec.t_thrift].
  set (wd := fun v : pv => match v with PDict a b c => w_thrift d a b c | _ => None end).
  set (td := fun v : pv => match v with PDict a b c => t_thrift d a b c | _ => None end).
  assert (Hn : forall x t, td x = Some t -> nib t = 12).
  { intros x t. destruct x as [| | | | | | |a b c]; try discriminate. unfold td. apply t_thrift_nib. }
  assert (Hd : forall x, option_map flat (wd x) = option_map wr_elem (td x)).
  { intros x. pose proof (Hn x) as Hx. destruct x as [| | | | | | |a b c]; try reflexivity. unfold wd, td in *. rewrite IH.
    destruct (t_thrift d a b c) as [t|]; [|reflexivity]. cbn [option_map]. f_equal.
    specialize (Hx t eq_refl). destruct t as [[]| | | | | | | |]; cbn [nib] in Hx; try discriminate Hx. reflexivity. }
  rewrite (fields_spec _ _ (field_spec wd td i32 i32l Hd Hn) fids 0%Z fs ltac:(lia) Hasc).
  destruct (t_fields (t_field td i32 i32l) fids fs) as [l|]; [|reflexivity].
  cbn [option_map]. rewrite wr_struct. reflexivity.
Qed.

(* ThriftObject.to_bytes with a large enough buffer writes the specification's encoding of t_top *)
Theorem ser_spec v : ser v = option_map wr (t_top v).
Proof. unfold CThrift.ser, CThrift.w_top, CThriftSpec.t_top. destruct v; try reflexivity. apply w_thrift_spec. Qed.

End Ids.

(* ================================================================================================
   Refutations on the faithful model (all three live in cencoding.pyx: known findings)
   ================================================================================================ *)
(* `for i in range(1, 14)`: a value under field id 14 never reaches the output *)
Definition w14 : pv := PDict false None [(1, PInt 1); (14, PInt 7)]%Z.
Lemma field14_dropped : exists b d', to_bytes ids13 500000 w14 = OBytes b /\ from_buffer b = Some (d', []) /\ obj_eq w14 d' = false.
Proof.
  exists (match to_bytes ids13 500000 w14 with OBytes b => b | _ => [] end).
  exists (match from_buffer (match to_bytes ids13 500000 w14 with OBytes b => b | _ => [] end) with Some (d, _) => d | None => PNone end).
  vm_compute. repeat split.
Qed.

(* write_byte past the end is ignored: the result is a proper prefix of the serialisation, no error *)
Fixpoint all_wb (ops : list op) : bool := match ops with [] => true | WB _ :: r => all_wb r | Raw _ :: _ => false end.

Lemma run_wb cap : forall ops s, all_wb ops = true -> loc s = len (out s) -> loc s <= cap ->
  exists s', run_ops cap ops s = Some s' /\ loc s' = len (out s') /\ loc s' <= cap /\
             rev (out s') = firstn (N.to_nat cap) (rev (out s) ++ flat ops).
Proof.
  induction ops as [|o ops IH]; intros s Ha Hl Hc.
  - exists s. cbn [run_ops flat]. rewrite app_nil_r. repeat split; try assumption.
    rewrite firstn_all2; [reflexivity|]. rewrite rev_length. unfold len in Hl. lia.
  - destruct o as [b|l]; [|discriminate]. cbn [all_wb] in Ha. cbn [run_ops flat].
    destruct (N.leb_spec cap (loc s)) as [Hf|Hf].
    + destruct (IH s Ha Hl Hc) as (s' & E & H1 & H2 & H3). exists s'. repeat split; try assumption.
      rewrite H3. assert (Hn : N.to_nat cap = length (rev (out s))) by (rewrite rev_length; unfold len in Hl; lia).
      rewrite Hn, !firstn_app, Nat.sub_diag, !firstn_O, !firstn_all. reflexivity.
    + destruct (IH (mkSt (loc s + 1) (b :: out s)) Ha) as (s' & E & H1 & H2 & H3).
      * cbn [loc out]. unfold len in *. cbn [length]. lia.
      * cbn [loc]. lia.
      * exists s'. repeat split; try assumption. rewrite H3. cbn [out rev]. rewrite <- app_assoc. reflexivity.
Qed.

Theorem silent_truncation ids cap v ops : w_top ids v = Some ops -> all_wb ops = true ->
  to_bytes ids cap v = OBytes (firstn (N.to_nat cap) (flat ops)).
Proof.
  intros E Ha. unfold to_bytes. rewrite E.
  destruct (run_wb cap ops (mkSt 0 []) Ha eq_refl (N.le_0_l cap)) as (s' & Er & _ & _ & H3).
  rewrite Er. f_equal. rewrite rev_append_rev, app_nil_r. exact H3.
Qed.

(* memcpy is not bounds-checked: a byte string that does not fit is copied past the end *)
Theorem unchecked_copy_overruns cap : forall pre l post s,
  all_wb pre = true -> loc s = len (out s) -> loc s <= cap -> cap < len l ->
  run_ops cap (pre ++ Raw l :: post) s = None.
Proof.
  induction pre as [|o pre IH]; intros l post s Ha Hl Hc Hb.
  - cbn [app run_ops]. destruct (N.leb_spec (loc s + len l) cap); [lia|reflexivity].
  - destruct o as [b|]; [|discriminate]. cbn [all_wb] in Ha. cbn [app run_ops].
    apply IH; try assumption; destruct (N.leb_spec cap (loc s)); cbn [loc out]; unfold len in *; cbn [length]; lia.
Qed.

Definition wbig (n : nat) : pv := PDict false None [(1%Z, PBytes (repeat 0 n))].
Theorem overflow_any_capacity cap : to_bytes ids13 cap (wbig (S (N.to_nat cap))) = OOob.
Proof.
  unfold to_bytes, wbig, w_top, w_depth. cbn [CThrift.w_thrift w_fields ids13 lookup Z.eqb Pos.eqb w_field].
  cbn [option_map]. unfold w_str.
  cbn [app]. rewrite <- app_assoc. cbn [app]. rewrite app_comm_cons.
  rewrite unchecked_copy_overruns; [reflexivity| |reflexivity|apply N.le_0_l|].
  - cbn [all_wb hdr]. unfold wvarint. generalize (c_varint (len (repeat 0 (S (N.to_nat cap))))).
    intros l. induction l as [|x l IHl]; [reflexivity|exact IHl].
  - unfold len. rewrite repeat_length. lia.
Qed.
