(* v2 pages, stated on the whole stream: an accepted stream cut at row boundaries into v2 pages
   that announce their rows is read back as its rows.  (pages_v2_spec assumes that every page is
   an accepted stream of its own; here this is derived: a cut of a shredding at row boundaries
   cuts the row list.) *)
From Coq Require Import NArith Arith List Bool Lia.
From Pq Require Import Format.Nested Impl.CAssemble Proofs.NestedProofs Proofs.CAssembleProofs
  Proofs.CAssemblePagesProofs Proofs.NestedInvProofs Proofs.CAssembleTightProofs.
Import ListNotations.
Open Scope N_scope.

Section S.
Variable V : Type.
Variable sh : shape.
Notation md := (max_def sh).

Definition starts0 (l : list entry) : bool := match l with (r, _) :: _ => r =? 0 | [] => false end.
Definition conts' (xs : list (elem V)) : list entry := map (fun x => (1, elem_def sh x)) xs.

Lemma count_md_app : forall a b, count_md md (a ++ b) = (count_md md a + count_md md b)%nat.
Proof.
  induction a as [|[r d] a IH]; intros b; [reflexivity|]. cbn [app count_md]. rewrite IH.
  destruct (d =? md); reflexivity.
Qed.

Lemma count_conts : forall xs : list (elem V), forallb (fun e => elem_opt sh || is_some e) xs = true ->
  length (elem_values xs) = count_md md (conts' xs).
Proof.
  induction xs as [|x xs IH]; intros H; [reflexivity|].
  cbn [forallb] in H. apply andb_prop in H. destruct H as [Hx Hxs].
  destruct (elem_def_cont V sh x Hx) as [E1 _].
  cbn [conts' map count_md]. fold (conts' xs). rewrite E1.
  destruct x; cbn [is_some elem_values length]; rewrite (IH Hxs); reflexivity.
Qed.

(* the entries of a row: one rep = 0 entry, then continuations *)
Lemma row_shape : forall r : row V, wf_row sh r = true ->
  exists d xs, row_entries sh r = (0, d) :: conts' xs /\
               length (row_values r) = count_md md ((0, d) :: conts' xs).
Proof.
  intros r W. pose proof (max_def_gt sh) as G. destruct r as [[|e es]|].
  - exists (d_empty sh), []. split; [reflexivity|]. cbn [row_values elem_values length conts' map count_md].
    assert ((d_empty sh =? md) = false) as -> by (apply N.eqb_neq; lia). reflexivity.
  - exists (elem_def sh e), es. split; [reflexivity|].
    pose proof (count_conts (e :: es) (wf_row_elems V sh _ W)) as C.
    cbn [conts' map count_md] in C. cbn [row_values count_md]. exact C.
  - exists 0, []. split; [reflexivity|]. cbn [row_values length conts' map count_md].
    assert ((0 =? md) = false) as -> by (apply N.eqb_neq; lia). reflexivity.
Qed.

Lemma prefix_conts : forall (xs : list (elem V)) (pes rest tail : list entry),
  conts' xs ++ tail = pes ++ rest -> (rest = [] \/ starts0 rest = true) ->
  exists pes', pes = conts' xs ++ pes' /\ tail = pes' ++ rest.
Proof.
  induction xs as [|x xs IH]; intros pes rest tail H Hr.
  - exists pes. split; [reflexivity|exact H].
  - cbn [conts' map app] in H. fold (conts' xs) in H. destruct pes as [|e pes].
    + cbn [app] in H. destruct Hr as [->|Hr]; [discriminate|]. rewrite <- H in Hr. cbn in Hr. discriminate.
    + cbn [app] in H. injection H as <- H. destruct (IH _ _ _ H Hr) as (pes' & -> & ->).
      exists pes'. split; reflexivity.
Qed.

Lemma app_split_len : forall {A} (a b c d : list A), a ++ b = c ++ d -> (length a <= length c)%nat ->
  exists c', c = a ++ c' /\ b = c' ++ d.
Proof.
  induction a as [|x a IH]; intros b c d H L.
  - exists c. split; [reflexivity|exact H].
  - destruct c as [|y c]; [cbn in L; lia|]. cbn [app] in H. injection H as <- H.
    cbn [length] in L. destruct (IH b c d H ltac:(lia)) as (c' & -> & ->). exists c'. split; reflexivity.
Qed.

Lemma starts0_shred : forall rows : list (row V), rows <> [] -> starts0 (shred_entries sh rows) = true.
Proof.
  intros [|r rows] Ne; [contradiction|]. unfold shred_entries. cbn [flat_map].
  destruct r as [[|e es]|]; reflexivity.
Qed.

Lemma split_rows : forall (rows : list (row V)) pes lv rest_es rest_vs,
  wf_rows sh rows = true ->
  shred_entries sh rows = pes ++ rest_es -> shred_values rows = lv ++ rest_vs ->
  length lv = count_md md pes -> starts0 pes = true -> (rest_es = [] \/ starts0 rest_es = true) ->
  exists r1 r2, rows = r1 ++ r2 /\ shred_entries sh r1 = pes /\ shred_values r1 = lv /\
                shred_entries sh r2 = rest_es /\ shred_values r2 = rest_vs.
Proof.
  induction rows as [|r rows IH]; intros pes lv rest_es rest_vs W He Hv Hl Hp Hr.
  - destruct pes; [discriminate Hp|discriminate He].
  - cbn [wf_rows forallb] in W. apply andb_prop in W. destruct W as [Wr Wrs].
    unfold shred_entries in He. cbn [flat_map] in He. fold (shred_entries sh rows) in He.
    unfold shred_values in Hv. cbn [flat_map] in Hv. fold (shred_values rows) in Hv.
    destruct (row_shape r Wr) as (d & xs & E & Cr).
    destruct pes as [|[r0 d0] pes]; [discriminate|]. rewrite E in He. cbn [app] in He.
    injection He as <- <- He.
    destruct (prefix_conts xs pes rest_es (shred_entries sh rows) He Hr) as (pes' & -> & Et).
    change ((0, d) :: conts' xs ++ pes') with (((0, d) :: conts' xs) ++ pes') in Hl.
    rewrite count_md_app in Hl.
    destruct (app_split_len _ _ _ _ Hv ltac:(lia)) as (lv' & -> & Ev).
    rewrite app_length in Hl.
    destruct pes' as [|e' pes''].
    + exists [r], rows. destruct lv' as [|v0 lv']; [|exfalso; rewrite Cr in Hl; cbn [count_md length] in Hl; lia].
      unfold shred_entries, shred_values. cbn [flat_map app]. rewrite !app_nil_r. rewrite E.
      repeat split; try reflexivity; assumption.
    + assert (Ne : rows <> []).
      { intros ->. cbn in Et. discriminate. }
      pose proof (starts0_shred rows Ne) as S0. rewrite Et in S0.
      destruct (IH (e' :: pes'') lv' rest_es rest_vs Wrs Et Ev ltac:(lia) S0 Hr) as (r1 & r2 & -> & E1 & E2 & E3 & E4).
      exists (r :: r1), r2. unfold shred_entries, shred_values. cbn [flat_map app].
      fold (shred_entries sh r1). fold (shred_values r1). rewrite E, E1, E2.
      repeat split; try reflexivity; try assumption.
Qed.

Lemma shred_entries_nil : forall rows : list (row V), shred_entries sh rows = [] -> rows = [].
Proof.
  intros [|r rows] H; [reflexivity|]. unfold shred_entries in H. cbn [flat_map] in H.
  destruct r as [[|e es]|]; discriminate.
Qed.

Lemma wf_rows_app : forall a b : list (row V), wf_rows sh (a ++ b) = wf_rows sh a && wf_rows sh b.
Proof. intros. unfold wf_rows. apply forallb_app. Qed.

Lemma spec_len_zeros : forall es (vs : list V) rows,
  assemble_spec sh es vs = Some rows -> length rows = zeros es.
Proof.
  intros es vs rows H. destruct es as [|[r d] t]; cbn [assemble_spec] in H.
  - destruct vs; [|discriminate]. injection H as <-. reflexivity.
  - cbn [zeros]. destruct (r =? 0); [|discriminate].
    destruct (open_row sh d vs) as [[c vs']|]; [|discriminate].
    exact (asm_len_zeros V sh _ _ _ _ H).
Qed.

Definition v2_cut_ok (pg : page V * nat) : bool :=
  starts0 (fst (fst pg)) && Nat.eqb (snd pg) (zeros (fst (fst pg))).

Lemma pages_rowss : forall (pages : list (page V * nat)) (rows : list (row V)),
  wf_rows sh rows = true ->
  shred_entries sh rows = concat (map fst (map fst pages)) ->
  shred_values rows = concat (map snd (map fst pages)) ->
  pages_aligned sh (map fst pages) = true -> forallb v2_cut_ok pages = true ->
  exists rowss, concat rowss = rows /\ Forall2 (v2_page_ok V sh) pages rowss.
Proof.
  induction pages as [|[[pes lv] nr] t IH]; intros rows W He Hv Al Ok.
  - cbn in He. apply shred_entries_nil in He. subst rows. exists []. split; [reflexivity|constructor].
  - cbn [map concat fst snd] in He, Hv.
    cbn [map pages_aligned forallb fst] in Al. apply andb_prop in Al. destruct Al as [Ap Al].
    unfold page_aligned in Ap. cbn [fst snd] in Ap. apply Nat.eqb_eq in Ap.
    cbn [forallb] in Ok. apply andb_prop in Ok. destruct Ok as [Okp Ok].
    unfold v2_cut_ok in Okp. cbn [fst snd] in Okp. apply andb_prop in Okp. destruct Okp as [S0 En].
    apply Nat.eqb_eq in En.
    assert (Hr : concat (map fst (map fst t)) = [] \/ starts0 (concat (map fst (map fst t))) = true).
    { destruct t as [|[[pes2 lv2] nr2] t2]; [left; reflexivity|right].
      cbn [forallb] in Ok. apply andb_prop in Ok. destruct Ok as [Ok2 _].
      unfold v2_cut_ok in Ok2. cbn [fst snd] in Ok2. apply andb_prop in Ok2. destruct Ok2 as [S2 _].
      cbn [map concat fst]. destruct pes2 as [|[r2 d2] pes2]; [discriminate|]. exact S2. }
    destruct (split_rows rows pes lv _ _ W He Hv Ap S0 Hr) as (r1 & r2 & -> & E1 & E2 & E3 & E4).
    rewrite wf_rows_app in W. apply andb_prop in W. destruct W as [W1 W2].
    destruct (IH r2 W2 E3 E4 Al Ok) as (rowss & Ec & HF).
    exists (r1 :: rowss). split; [cbn [concat]; rewrite Ec; reflexivity|].
    constructor; [|exact HF]. unfold v2_page_ok. cbn [fst snd].
    pose proof (assemble_shred V sh r1 W1) as A. unfold shred in A. cbn [fst snd] in A. rewrite E1, E2 in A.
    split; [destruct pes; [discriminate|discriminate]|]. split; [exact A|].
    rewrite (spec_len_zeros _ _ _ A). exact En.
Qed.

Theorem pages_v2_whole : forall (es : list entry) (vs : list V) rows (pages : list (page V * nat)),
  assemble_spec sh es vs = Some rows ->
  pages_stream (map fst pages) = (es, vs) ->
  pages_aligned sh (map fst pages) = true -> forallb v2_cut_ok pages = true ->
  run_v2 false sh (length rows) pages = AOk rows.
Proof.
  intros es vs rows pages Ha Hs Al Ok.
  destruct (assemble_spec_inv V sh _ _ _ Ha) as [W S]. unfold shred in S. injection S as S1 S2.
  unfold pages_stream in Hs. injection Hs as H1 H2.
  destruct (pages_rowss pages rows W ltac:(congruence) ltac:(congruence) Al Ok) as (rowss & <- & HF).
  exact (pages_v2_spec V sh pages rowss HF).
Qed.


Lemma shred_entries_app : forall a b : list (row V),
  shred_entries sh (a ++ b) = shred_entries sh a ++ shred_entries sh b.
Proof. intros. unfold shred_entries. apply flat_map_app. Qed.
Lemma shred_values_app : forall a b : list (row V),
  shred_values (a ++ b) = shred_values a ++ shred_values b.
Proof. intros. unfold shred_values. apply flat_map_app. Qed.

(* conversely: the pages of a v2 chunk, each an accepted stream of its own, make up an accepted
   stream whose rows are the rows of the pages in order - the conclusion of pages_v2_spec IS
   record assembly of the whole level/value stream of the chunk *)
Lemma v2_pages_stream : forall (pages : list (page V * nat)) (rowss : list (list (row V))),
  Forall2 (v2_page_ok V sh) pages rowss ->
  assemble_spec sh (fst (pages_stream (map fst pages))) (snd (pages_stream (map fst pages)))
  = Some (concat rowss).
Proof.
  intros pages rowss H.
  assert (G : wf_rows sh (concat rowss) = true /\
              shred sh (concat rowss) = pages_stream (map fst pages)).
  { induction H as [|pg rs pages rowss Hp HF IH].
    - split; reflexivity.
    - destruct IH as [W S]. destruct pg as [[es vs] nr]. destruct Hp as (_ & Ha & _). cbn [fst snd] in Ha.
      destruct (assemble_spec_inv V sh _ _ _ Ha) as [W1 S1].
      cbn [concat]. split.
      + rewrite wf_rows_app, W1, W. reflexivity.
      + unfold shred in *. rewrite shred_entries_app, shred_values_app.
        injection S1 as E1 E2. injection S as E3 E4.
        unfold pages_stream. cbn [map concat fst snd]. rewrite E1, E2, E3, E4. reflexivity. }
  destruct G as [W S]. rewrite <- S. apply assemble_shred. exact W.
Qed.

End S.
