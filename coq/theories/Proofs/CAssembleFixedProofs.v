(* Proofs about the model of the PROPOSED REPAIR (Impl/CAssembleFixed.v): the patched loop with
   read_col's carried row index returns the rows for EVERY cut of an accepted stream into aligned
   pages - no guard on where the cuts fall, empty pages allowed. *)
From Coq Require Import NArith Arith List Bool Lia.
From Pq Require Import Format.Nested Impl.CAssemble Impl.CAssembleFixed Proofs.NestedProofs
  Proofs.CAssembleProofs Proofs.CAssemblePagesProofs Proofs.CAssembleTightProofs.
Import ListNotations.
Open Scope N_scope.

Section Fx.
Variable V : Type.
Variable sh : shape.

Notation null := (row_opt sh).
Notation md := (max_def sh).

(* once a row has begun in the page the patched loop is the loop as it is *)
Lemma step_fx_started : forall (s : st V) e, s_started s = true -> step_fx null md s e = step null md s e.
Proof.
  intros s [r d] St. unfold step_fx, step, new_row_fx. rewrite St. reflexivity.
Qed.

Lemma steps_fx_started : forall es (s : st V), s_started s = true ->
  run_steps_fx null md s es = run_steps null md s es.
Proof.
  induction es as [|[r d] es IH]; intros s St; [reflexivity|].
  cbn [run_steps_fx run_steps]. rewrite (step_fx_started s (r, d) St).
  destruct (step null md s (r, d)) as [s1|] eqn:E; [|reflexivity].
  apply IH. destruct (step_facts V sh _ _ _ _ E) as (_ & S2 & _). rewrite S2, St. reflexivity.
Qed.

Definition run_from_fx (s : st V) (es : list entry) (later : list (page V)) : ares (arr V) :=
  match run_steps_fx null md s es with
  | AErr x => AErr x
  | AOk s' =>
    match finish_fx s' with
    | AOk (a', nxt) => read_col_v1_fx null md a' nxt later
    | AErr x => AErr x
    end
  end.

Lemma read_col_v1_fx_cons : forall a idx p t,
  read_col_v1_fx null md a idx (p :: t) = run_from_fx (mkSt idx [] false false 0 (snd p) a) (fst p) t.
Proof.
  intros. cbn [read_col_v1_fx]. unfold assemble_page_fx, run_from_fx.
  destruct (run_steps_fx null md _ (fst p)) as [s'|x]; [|reflexivity].
  destruct (finish_fx s') as [[a' n]|]; reflexivity.
Qed.

Lemma run_from_fx_cons : forall s e es later,
  run_from_fx s (e :: es) later =
  match step_fx null md s e with AOk s' => run_from_fx s' es later | AErr x => AErr x end.
Proof.
  intros. unfold run_from_fx. cbn [run_steps_fx]. destruct (step_fx null md s e); reflexivity.
Qed.

Lemma run_from_fx_started : forall (s : st V) es later, s_started s = true ->
  run_from_fx s es later = run_fromK V sh (fun a' i => read_col_v1_fx null md a' (S i) later) s es.
Proof.
  intros s es later St. unfold run_from_fx, run_fromK. rewrite (steps_fx_started es s St).
  destruct (run_steps null md s es) as [s'|] eqn:E; [|reflexivity].
  destruct (steps_facts V sh _ _ _ E) as (_ & _ & _ & L4 & _). destruct (L4 St) as [St' _].
  unfold finish_fx, finish_page. rewrite St'. destruct (write_row _ _ _); reflexivity.
Qed.

Definition Qeq' (res : ares (arr V)) (exp : arr V) : Prop := res = AOk exp.

Definition PstartFx (later : list (page V)) : Prop :=
  forall (pre : arr V) cur out,
    asm sh cur (later_entries V later) (later_vals V later) = Some out ->
    pages_aligned sh later = true ->
    read_col_v1_fx null md (pre ++ cur :: repeat None (length out - 1)) (S (length pre)) later
    = AOk (pre ++ out).

(* started = True: the lemma about the loop as it is, with the patched read as continuation *)
Lemma in_page_started_fx : forall later, PstartFx later -> pages_aligned sh later = true ->
  forall es i part hn vali lv (pre : arr V) cur out,
    i = length pre -> cell hn part = cur ->
    length lv = count_md md es ->
    asm sh cur (es ++ later_entries V later) (lv ++ later_vals V later) = Some out ->
    run_from_fx (mkSt i part true hn vali lv (pre ++ repeat None (length out))) es later = AOk (pre ++ out).
Proof.
  intros later PS Al es i part hn vali lv pre cur out Hi Hc Hl Ha.
  rewrite run_from_fx_started by reflexivity.
  apply (in_page_startedK V sh Qeq' (fun a' i => read_col_v1_fx null md a' (S i) later) later) with (cur := cur);
    try assumption.
  intros pre0 cur0 out0 Ha0. exact (PS pre0 cur0 out0 Ha0 Al).
Qed.

(* started = False: the page continues a row; no condition on what the continued part holds *)
Lemma in_page_cont_fx : forall later, PstartFx later -> pages_aligned sh later = true ->
  forall es part hn vali lv (pre : arr V) l0 out,
    length lv = count_md md es ->
    asm sh (Some (l0 ++ rev part)) (es ++ later_entries V later) (lv ++ later_vals V later) = Some out ->
    run_from_fx (mkSt (S (length pre)) part false hn vali lv (pre ++ Some l0 :: repeat None (length out - 1))) es later
    = AOk (pre ++ out).
Proof.
  intros later PS Al. induction es as [|[r d] es IH]; intros part hn vali lv pre l0 out Hl Ha.
  - (* the page held only the continuation; any page may follow *)
    destruct lv; [|discriminate]. cbn [app] in Ha.
    unfold run_from_fx. cbn [run_steps_fx]. unfold finish_fx. cbn [s_started s_arr s_i s_part].
    destruct part as [|x part].
    + cbn [rev] in Ha. rewrite app_nil_r in Ha. exact (PS pre (Some l0) out Ha Al).
    + rewrite extend_prev_app.
      pose proof (PS pre (Some (l0 ++ rev (x :: part))) out Ha Al) as P.
      pose proof (asm_length V sh _ _ _ _ Ha) as Lo.
      exact P.
  - rewrite run_from_fx_cons. cbn [app asm] in Ha. unfold step_fx.
    destruct (r =? 0) eqn:R0.
    + destruct (open_row sh d (lv ++ later_vals V later)) as [[c vs']|] eqn:Eo; [|discriminate].
      destruct (asm sh c (es ++ later_entries V later) vs') as [out'|] eqn:Ea; [|discriminate].
      injection Ha as <-.
      assert (Hv : (d =? md) = true -> lv <> []).
      { intros E. cbn [count_md] in Hl. rewrite E in Hl. destruct lv; [discriminate|discriminate]. }
      unfold new_row_fx. cbn [s_started s_arr s_i s_have_null s_part s_vali s_vals].
      cbn [length Nat.sub]. rewrite Nat.sub_0_r.
      assert (Ew : match part with
                   | [] => AOk (mkSt (S (length pre)) [] true hn vali lv (pre ++ Some l0 :: repeat None (length out')))
                   | _ :: _ =>
                     match extend_prev (pre ++ Some l0 :: repeat None (length out')) (S (length pre)) part with
                     | AOk a => AOk (mkSt (S (length pre)) [] true hn vali lv a)
                     | AErr x => AErr x
                     end
                   end
                   = AOk (mkSt (S (length pre)) [] true hn vali lv
                               (pre ++ Some (l0 ++ rev part) :: repeat None (length out')))).
      { destruct part as [|x part].
        - cbn [rev]. rewrite app_nil_r. reflexivity.
        - rewrite extend_prev_app. reflexivity. }
      rewrite Ew.
      destruct (add_level_open V sh d lv _ c vs' (S (length pre)) true hn vali
                 (pre ++ Some (l0 ++ rev part) :: repeat None (length out')) Eo Hv)
        as (part' & hn' & vali' & lv' & E1 & E2 & E3 & E4).
      rewrite E1. subst vs'.
      rewrite (app_cons_assoc pre _ (repeat None (length out'))). rewrite (app_cons_assoc pre _ out').
      apply (in_page_started_fx later PS Al es (S (length pre)) part' hn' vali' lv'
               (pre ++ [Some (l0 ++ rev part)]) c out').
      * rewrite app_length. cbn. lia.
      * exact E2.
      * cbn [count_md] in Hl. destruct (d =? md); lia.
      * exact Ea.
    + destruct (r =? 1); [|discriminate].
      destruct (cont_row sh (Some (l0 ++ rev part)) d (lv ++ later_vals V later)) as [[c vs']|] eqn:Ec; [|discriminate].
      assert (Hv : (d =? md) = true -> lv <> []).
      { intros E. cbn [count_md] in Hl. rewrite E in Hl. destruct lv; [discriminate|discriminate]. }
      destruct (add_level_cont V sh d _ lv _ c vs' (S (length pre)) part false hn vali
                 (pre ++ Some l0 :: repeat None (length out - 1)) Ec Hv)
        as (x & lv' & E1 & E2 & E3 & E4 & E5).
      rewrite E1. subst vs' c.
      apply (IH (x :: part) false _ lv' pre l0 out).
      * cbn [count_md] in Hl. destruct (d =? md); lia.
      * cbn [rev]. rewrite app_assoc. exact Ha.
Qed.

Lemma start_all_fx : forall later, PstartFx later.
Proof.
  induction later as [|p t IH]; unfold PstartFx; intros pre cur out Ha Al.
  - cbn [later_entries later_vals map concat asm] in Ha. injection Ha as <-.
    cbn [read_col_v1_fx length Nat.sub repeat]. reflexivity.
  - rewrite read_col_v1_fx_cons.
    cbn [pages_aligned forallb] in Al. apply andb_prop in Al. destruct Al as [Ap Al].
    unfold later_entries, later_vals in Ha. cbn [map concat] in Ha.
    fold (later_entries V t) in Ha. fold (later_vals V t) in Ha.
    unfold page_aligned in Ap. apply Nat.eqb_eq in Ap.
    destruct p as [es lv]. cbn [fst snd] in *.
    destruct es as [|[r d] es].
    + (* an empty page changes nothing *)
      destruct lv; [|discriminate]. cbn [app] in Ha.
      unfold run_from_fx. cbn [run_steps_fx]. unfold finish_fx. cbn [s_started s_part s_arr s_i].
      exact (IH pre cur out Ha Al).
    + destruct (r =? 0) eqn:R0.
      * (* the page starts a row *)
        rewrite run_from_fx_cons. unfold step_fx. rewrite R0. unfold new_row_fx.
        cbn [s_started s_vali s_i s_part s_have_null s_vals s_arr].
        cbn [app asm] in Ha. rewrite R0 in Ha.
        destruct (open_row sh d (lv ++ later_vals V t)) as [[c vs']|] eqn:Eo; [|discriminate].
        destruct (asm sh c (es ++ later_entries V t) vs') as [out'|] eqn:Ea; [|discriminate].
        injection Ha as <-. cbn [length Nat.sub]. rewrite Nat.sub_0_r.
        assert (Hv : (d =? md) = true -> lv <> []).
        { intros E. cbn [count_md] in Ap. rewrite E in Ap. destruct lv; [discriminate|discriminate]. }
        destruct (add_level_open V sh d lv _ c vs' (S (length pre)) true false 0
                   (pre ++ cur :: repeat None (length out')) Eo Hv)
          as (part' & hn' & vali' & lv' & E1 & E2 & E3 & E4).
        rewrite E1. subst vs'.
        rewrite (app_cons_assoc pre _ (repeat None (length out'))). rewrite (app_cons_assoc pre _ out').
        apply (in_page_started_fx t IH Al es (S (length pre)) part' hn' vali' lv' (pre ++ [cur]) c out').
        -- rewrite app_length. cbn. lia.
        -- exact E2.
        -- cbn [count_md] in Ap. destruct (d =? md); lia.
        -- exact Ea.
      * (* the page continues the row in the last written slot *)
        assert (exists l0, cur = Some l0) as [l0 ->].
        { cbn [app asm] in Ha. rewrite R0 in Ha. destruct (r =? 1); [|discriminate].
          destruct cur as [l0|]; [eauto|discriminate]. }
        apply (in_page_cont_fx t IH Al ((r, d) :: es) [] false 0 lv pre l0 out); try assumption.
        cbn [rev]. rewrite app_nil_r. exact Ha.
Qed.

Lemma first_pages_fx : forall (pages : list (page V)) es vs rows,
  assemble_spec sh es vs = Some rows ->
  pages_stream pages = (es, vs) -> pages_aligned sh pages = true ->
  read_col_v1_fx null md (empty_arr (length rows)) 0 pages = AOk rows.
Proof.
  induction pages as [|p t IH]; intros es vs rows Ha Hs Al.
  - unfold pages_stream in Hs. cbn in Hs. injection Hs as <- <-. cbn in Ha. injection Ha as <-. reflexivity.
  - rewrite read_col_v1_fx_cons.
    cbn [pages_aligned forallb] in Al. apply andb_prop in Al. destruct Al as [Ap Al].
    unfold page_aligned in Ap. apply Nat.eqb_eq in Ap.
    unfold pages_stream in Hs. destruct p as [pes lv]. cbn [fst snd map concat] in *.
    injection Hs as <- <-.
    destruct pes as [|[r d] pes].
    + (* leading empty page *)
      destruct lv; [|discriminate]. cbn [app] in Ha.
      unfold run_from_fx. cbn [run_steps_fx]. unfold finish_fx. cbn [s_started s_part s_arr s_i].
      apply (IH _ _ rows Ha); [reflexivity|exact Al].
    + cbn [app assemble_spec] in Ha.
      destruct (r =? 0) eqn:R0; [|discriminate].
      fold (later_entries V t) in Ha. fold (later_vals V t) in Ha.
      destruct (open_row sh d (lv ++ later_vals V t)) as [[c vs']|] eqn:Eo; [|discriminate].
      rewrite run_from_fx_cons. unfold step_fx. rewrite R0. unfold new_row_fx.
      cbn [s_started s_vali s_i s_part s_have_null s_vals s_arr].
      assert (Hv : (d =? md) = true -> lv <> []).
      { intros E. cbn [count_md] in Ap. rewrite E in Ap. destruct lv; [discriminate|discriminate]. }
      destruct (add_level_open V sh d lv _ c vs' 0%nat true false 0 (empty_arr (length rows)) Eo Hv)
        as (part' & hn' & vali' & lv' & E1 & E2 & E3 & E4).
      rewrite E1. subst vs'. unfold empty_arr.
      change (repeat None (length rows)) with ([] ++ repeat (@None (list (elem V))) (length rows)).
      apply (in_page_started_fx t (start_all_fx t) Al pes 0%nat part' hn' vali' lv' [] c rows); try assumption.
      * reflexivity.
      * cbn [count_md] in Ap. destruct (d =? md); lia.
Qed.

(* the FULL statement of the property's quantifier, for the patched loop *)
Theorem pages_v1_fixed : forall (es : list entry) (vs : list V) rows (pages : list (page V)),
  assemble_spec sh es vs = Some rows ->
  pages_stream pages = (es, vs) -> pages_aligned sh pages = true ->
  run_v1_fx sh (length rows) pages = AOk rows.
Proof.
  intros es vs rows pages Ha Hs Al. unfold run_v1_fx. rewrite call_null_shape, sch_max_def_shape.
  exact (first_pages_fx pages es vs rows Ha Hs Al).
Qed.

End Fx.

(* the patched loop on the two computed counterexamples of today's loop *)
Example fixed_on_witnesses :
  run_v1_fx (mkShape true true) 2 w1_pages = AOk w1_rows /\
  run_v1_fx (mkShape true true) 2 w2_pages = AOk w2_rows.
Proof. vm_compute. split; reflexivity. Qed.
