(* cencoding.encode_bitpacked (int32 accumulator `bits`, arithmetic shift) writes, for every width <= 24,
   exactly the run header followed by the specification's bit packing of the values. *)
From Coq Require Import NArith ZArith Arith List Lia Bool.
From Pq Require Import Base.Bytes Base.Bits Base.Err Base.ListX
  Proofs.BytesProofs Proofs.ListXProofs Proofs.CodecProofs Proofs.CPlainProofs
  Codec.Varint Codec.Bitpack Impl.CVarint Impl.CEnc.
Import ListNotations.
Open Scope N_scope.

(* ---- little-endian encoding facts ---- *)
Lemma le_enc_mod : forall k n, le_enc k (n mod 256 ^ N.of_nat k) = le_enc k n.
Proof.
  induction k as [|k IH]; intros n; [reflexivity|].
  cbn [le_enc]. rewrite Nat2N.inj_succ, N.pow_succ_r'.
  f_equal.
  - rewrite N.mod_mul_r by (try apply N.pow_nonzero; lia). rewrite N.mul_comm, N.mod_add by lia. apply N.mod_mod. lia.
  - rewrite <- IH. rewrite <- (IH (n / 256)). f_equal.
    rewrite N.mod_mul_r by (try apply N.pow_nonzero; lia).
    rewrite N.mul_comm, N.div_add by lia. rewrite N.div_small by (apply N.mod_upper_bound; lia).
    rewrite N.add_0_l. apply N.mod_mod. apply N.pow_nonzero. lia.
Qed.

Lemma le_enc_app : forall j k n, le_enc (j + k) n = le_enc j n ++ le_enc k (n / 256 ^ N.of_nat j).
Proof.
  induction j as [|j IH]; intros k n.
  - cbn [Nat.add le_enc app]. now rewrite N.pow_0_r, N.div_1_r.
  - cbn [Nat.add le_enc app]. f_equal. rewrite IH. f_equal. f_equal.
    rewrite Nat2N.inj_succ, N.pow_succ_r'. rewrite N.div_div by (try apply N.pow_nonzero; lia). reflexivity.
Qed.

Lemma wb_bytes_app o a b : wb_bytes o (a ++ b) = wb_bytes (wb_bytes o a) b.
Proof. revert o; induction a as [|x a IH]; intros o; [reflexivity|]. cbn [app wb_bytes]. apply IH. Qed.

(* writing bytes that fit: they are all there *)
Lemma wb_bytes_fit : forall bs o, bytes_ok bs -> N.of_nat (length bs) <= wb_room o ->
  wb_bytes o bs = {| wb_rev := rev bs ++ wb_rev o; wb_room := wb_room o - N.of_nat (length bs) |}.
Proof.
  induction bs as [|b bs IH]; intros o Hok Hroom.
  - cbn. destruct o; cbn. now rewrite N.sub_0_r.
  - pose proof (Forall_inv Hok) as Hb. cbv beta in Hb. pose proof (Forall_inv_tail Hok) as Hbs.
    cbn [wb_bytes length] in *. unfold wb_byte at 1.
    destruct (N.eqb_spec (wb_room o) 0) as [E|E]; [lia|].
    rewrite IH; [|exact Hbs|cbn [wb_room]; lia]. cbn [wb_rev wb_room rev].
    assert (Eb : N.land b 255 = b) by (change 255 with (N.ones 8); rewrite N.land_ones; apply N.mod_small; exact Hb).
    rewrite Eb, <- app_assoc. cbn [app]. f_equal. lia.
Qed.

(* ---- arithmetic helpers (euclidean hook, small contexts) ---- *)
Ltac Zify.zify_post_hook ::= Z.to_euclidean_division_equations.
Lemma div8_step bit : 8 <= bit -> bit / 8 = N.succ ((bit - 8) / 8) /\ (bit - 8) mod 8 = bit mod 8.
Proof. lia. Qed.
Lemma div8_small bit : bit < 8 -> bit / 8 = 0 /\ bit mod 8 = bit.
Proof. lia. Qed.
Lemma div8_add a b : a < 8 -> (a + b) / 8 + ((a + b) mod 8 + 0) / 8 = (a + b) / 8.
Proof. lia. Qed.
Lemma split8 t : t = 8 * (t / 8) + t mod 8 /\ t mod 8 < 8.
Proof. lia. Qed.
Lemma total_split a w l : let j := (a + w) / 8 in let a' := (a + w) mod 8 in
  (a + w * (1 + l)) / 8 = j + (a' + w * l) / 8 /\ (a + w * (1 + l)) mod 8 = (a' + w * l) mod 8.
Proof. cbv zeta. nia. Qed.
Lemma nbytes_cases t : (t + 7) / 8 = if t mod 8 =? 0 then t / 8 else t / 8 + 1.
Proof. destruct (N.eqb_spec (t mod 8) 0); lia. Qed.
Ltac Zify.zify_post_hook ::= idtac.

Lemma testbit31 x : x < 2 ^ 31 -> N.testbit x 31 = false.
Proof.
  intros H. destruct (N.eq_dec x 0) as [E|E]; [subst; reflexivity|].
  apply N.bits_above_log2. apply N.log2_lt_pow2; lia.
Qed.

Lemma flush_ok : forall fuel o bit bits,
  bits < 2 ^ bit -> bit <= 31 -> bit / 8 <= N.of_nat fuel -> bit / 8 <= wb_room o ->
  flush fuel o bit bits = (wb_bytes o (le_enc (N.to_nat (bit / 8)) bits), bit mod 8, bits / 256 ^ (bit / 8)).
Proof.
  induction fuel as [|fuel IH]; intros o bit bits Hb H31 Hf Hroom.
  - cbn [flush]. assert (E : bit / 8 = 0) by (cbn [N.of_nat] in Hf; now apply N.le_0_r in Hf).
    assert (bit < 8) by (destruct (split8 bit) as [S1 S2]; rewrite E in S1; lia).
    destruct (div8_small bit ltac:(assumption)) as [_ Em]. rewrite E, Em. cbn. now rewrite N.div_1_r.
  - cbn [flush]. destruct (N.leb_spec 8 bit) as [H8|H8].
    + destruct (div8_step bit H8) as [Ed Em].
      assert (Hlt31 : bits < 2 ^ 31) by (eapply N.lt_le_trans; [exact Hb|apply N.pow_le_mono_r; lia]).
      unfold sar8_32. rewrite testbit31 by exact Hlt31. rewrite shiftr_div. change (2 ^ 8) with 256.
      assert (Hb' : bits / 256 < 2 ^ (bit - 8)).
      { apply N.div_lt_upper_bound; [lia|]. change 256 with (2 ^ 8). rewrite <- N.pow_add_r.
        replace (8 + (bit - 8)) with bit by lia. exact Hb. }
      rewrite IH; try assumption; try lia.
      2:{ unfold wb_byte. destruct (N.eqb_spec (wb_room o) 0); cbn [wb_room]; lia. }
      rewrite Ed, Em, N2Nat.inj_succ. cbn [le_enc wb_bytes].
      change 255 with (N.ones 8). rewrite N.land_ones. change (2 ^ 8) with 256.
      f_equal. rewrite N.pow_succ_r', N.div_div by (try apply N.pow_nonzero; lia). reflexivity.
    + destruct (div8_small bit H8) as [Ed Em]. rewrite Ed, Em. cbn. now rewrite N.div_1_r.
Qed.

Lemma wb_room_after o bs : bytes_ok bs -> N.of_nat (length bs) <= wb_room o ->
  wb_room (wb_bytes o bs) = wb_room o - N.of_nat (length bs).
Proof. intros H1 H2. now rewrite wb_bytes_fit. Qed.

Section Loop.
  Variable w : N.
  Hypothesis Hw : w <= 24.

  Definition stream (bit bits : N) (vals : list N) : N := bits + 2 ^ bit * bp_num w vals.
  Definition nbits (bit : N) (vals : list N) : N := bit + w * N.of_nat (length vals).

  Lemma ebp_loop_ok : forall vals o bit bits,
    Forall (fun v => v < 2 ^ w) vals -> bit < 8 -> bits < 2 ^ bit -> nbits bit vals / 8 <= wb_room o ->
    ebp_loop vals w o bit bits =
    Ok (wb_bytes o (le_enc (N.to_nat (nbits bit vals / 8)) (stream bit bits vals)),
        nbits bit vals mod 8, stream bit bits vals / 256 ^ (nbits bit vals / 8)).
  Proof.
    induction vals as [|v r IH]; intros o bit bits Hv Hbit Hbits Hroom.
    - unfold nbits, stream. cbn [length bp_num ebp_loop]. rewrite N.mul_0_r, N.add_0_r.
      destruct (div8_small bit Hbit) as [Ed Em]. rewrite Ed, Em. cbn. now rewrite N.mul_0_r, N.add_0_r, N.div_1_r.
    - pose proof (Forall_inv Hv) as Hv1. cbv beta in Hv1. pose proof (Forall_inv_tail Hv) as Hvr.
      cbn [ebp_loop]. destruct (N.leb_spec 32 bit) as [Hbad|_]; [lia|].
      set (j := (bit + w) / 8). set (a' := (bit + w) mod 8).
      destruct (split8 (bit + w)) as [Hs Ha']. fold j a' in Hs, Ha'.
      (* the accumulator after or-ing the value in *)
      assert (Hvs : v * 2 ^ bit < 2 ^ 31).
      { eapply N.lt_le_trans; [apply N.mul_lt_mono_pos_r; [apply pow2_pos|exact Hv1]|].
        rewrite <- N.pow_add_r. apply N.pow_le_mono_r; lia. }
      assert (E1 : N.lor bits (N.land (N.shiftl (N.land v m32) bit) m32) = bits + v * 2 ^ bit).
      { unfold m32. rewrite !N.land_ones, shiftl_mul.
        assert (v < 2 ^ 32) by (eapply N.lt_le_trans; [exact Hv1|apply N.pow_le_mono_r; lia]).
        rewrite (N.mod_small v) by assumption.
        rewrite N.mod_small by (eapply N.lt_trans; [exact Hvs|apply N.pow_lt_mono_r; lia]).
        rewrite <- (N.mod_small bits (2 ^ bit)) at 1 by exact Hbits.
        rewrite lor_disjoint_add, N.mod_small by exact Hbits. reflexivity. }
      rewrite E1. set (bits1 := bits + v * 2 ^ bit).
      assert (Hb1 : bits1 < 2 ^ (bit + w)).
      { unfold bits1. rewrite N.pow_add_r. pose proof (pow2_pos bit). nia. }
      assert (Hpow : 2 ^ (bit + w) = 256 ^ j * 2 ^ a') by (rewrite pow256, <- N.pow_add_r; f_equal; lia).
      destruct (total_split bit w (N.of_nat (length r))) as [Ht8 Htm]. cbv zeta in Ht8, Htm. fold j a' in Ht8, Htm.
      assert (Enb : nbits bit (v :: r) = bit + w * (1 + N.of_nat (length r))) by (unfold nbits; cbn [length]; lia).
      rewrite Enb, Ht8 in Hroom. set (k0 := (a' + w * N.of_nat (length r)) / 8) in *.
      rewrite flush_ok; try assumption; try (fold j; lia).
      change ((bit + w) / 8) with j. change ((bit + w) mod 8) with a'.
      destruct (N.leb_spec 8 a') as [Hbad|_]; [lia|].
      assert (Hok1 : bytes_ok (le_enc (N.to_nat j) bits1)) by apply le_enc_ok.
      assert (Hj : N.of_nat (length (le_enc (N.to_nat j) bits1)) = j) by (rewrite le_enc_length; lia).
      assert (Hb' : bits1 / 256 ^ j < 2 ^ a').
      { apply N.div_lt_upper_bound; [apply N.pow_nonzero; lia|]. rewrite <- Hpow. exact Hb1. }
      rewrite IH; try assumption.
      2:{ rewrite wb_room_after by (try exact Hok1; rewrite Hj; lia).
          rewrite Hj. unfold nbits. fold k0. lia. }
      (* relate the two streams *)
      set (R := bp_num w r).
      assert (ET : stream bit bits (v :: r) = bits1 + 256 ^ j * (2 ^ a' * R)).
      { unfold stream, bits1. cbn [bp_num]. fold R. rewrite N.mul_assoc, <- Hpow, N.pow_add_r. lia. }
      assert (ET' : stream a' (bits1 / 256 ^ j) r = stream bit bits (v :: r) / 256 ^ j).
      { rewrite ET. unfold stream. fold R. rewrite (N.mul_comm (256 ^ j)), N.div_add by (apply N.pow_nonzero; lia). reflexivity. }
      unfold nbits at 1 2 3 in |- *. fold (nbits a' r). rewrite Enb, Ht8, Htm.
      unfold nbits. fold k0. set (k' := k0).
      f_equal. f_equal; [f_equal|].
      + rewrite N2Nat.inj_add, le_enc_app, wb_bytes_app, N2Nat.id. f_equal; [f_equal|].
        * rewrite <- (le_enc_mod (N.to_nat j) (stream bit bits (v :: r))), <- (le_enc_mod (N.to_nat j) bits1).
          f_equal. rewrite N2Nat.id, ET. rewrite N.mul_comm, N.mod_add by (apply N.pow_nonzero; lia). reflexivity.
        * rewrite ET'. reflexivity.
      + rewrite ET'. rewrite N.pow_add_r, N.div_div by (apply N.pow_nonzero; lia). reflexivity.
  Qed.
End Loop.

Lemma wb_byte_mod o b : wb_byte o b = wb_byte o (b mod 256).
Proof.
  unfold wb_byte. destruct (wb_room o =? 0); [reflexivity|]. f_equal. f_equal.
  change 255 with (N.ones 8). rewrite !N.land_ones. change (2 ^ 8) with 256. now rewrite N.mod_mod.
Qed.

(* MAIN THEOREM: for every width <= 24 and values below 2^w, with room for everything, encode_bitpacked writes the
   run header varint(((n + 7) / 8) << 1 | 1) followed by exactly the specification's bit packing of the n values
   (bare: the last group is NOT padded to 8 values), and advances the cursor by that many bytes. *)
Theorem encode_bitpacked_correct w vals cap :
  w <= 24 -> Forall (fun v => v < 2 ^ w) vals ->
  let n := N.of_nat (length vals) in
  let header := N.lor (N.shiftl ((n + 7) / 8) 1) 1 in
  header < 2 ^ 64 ->
  N.of_nat (length (uleb_enc header ++ bp_enc w vals)) <= cap ->
  c_encode_bitpacked vals w cap =
  Ok (uleb_enc header ++ bp_enc w vals, N.of_nat (length (uleb_enc header ++ bp_enc w vals))).
Proof.
  intros Hw Hv n header Hh Hcap.
  unfold c_encode_bitpacked, c_encode_bitpacked_wb. rewrite lenN_ok. fold n. fold header.
  pose proof (uleb_len_u64 header Hh) as [_ Hl10].
  rewrite enc_varint_correct by (try exact Hh; lia). cbn [fst].
  set (o0 := {| wb_rev := []; wb_room := cap |}).
  rewrite app_length, Nat2N.inj_add in Hcap.
  assert (Hbpl : N.of_nat (length (bp_enc w vals)) = (n * w + 7) / 8) by (rewrite bp_enc_length; reflexivity).
  set (o1 := wb_bytes o0 (uleb_enc header)).
  assert (Hr1 : wb_room o1 = cap - N.of_nat (length (uleb_enc header))).
  { unfold o1. rewrite wb_room_after; [reflexivity|apply uleb_enc_ok|cbn [wb_room o0]; lia]. }
  assert (Enb : nbits w 0 vals = n * w) by (unfold nbits; fold n; lia).
  assert (Est : stream w 0 0 vals = bp_num w vals) by (unfold stream; rewrite N.pow_0_r; lia).
  destruct (split8 (n * w)) as [Hs8 Hm8].
  pose proof (nbytes_cases (n * w)) as Hnc.
  rewrite (ebp_loop_ok w Hw vals o1 0 0 Hv ltac:(lia) ltac:(cbn; lia)).
  2:{ rewrite Enb, Hr1. destruct (N.eqb_spec ((n * w) mod 8) 0); lia. }
  rewrite Enb, Est. set (k := n * w / 8) in *. set (a := (n * w) mod 8) in *. set (B := bp_num w vals).
  assert (Efin : (if a =? 0 then wb_bytes o1 (le_enc (N.to_nat k) B)
                  else wb_byte (wb_bytes o1 (le_enc (N.to_nat k) B)) (B / 256 ^ k))
                 = wb_bytes o0 (uleb_enc header ++ bp_enc w vals)).
  { unfold o1. rewrite wb_bytes_app. unfold bp_enc. fold n. unfold bp_nbytes. rewrite Hnc. fold k a B.
    destruct (N.eqb_spec a 0) as [Ea|Ea]; [reflexivity|].
    replace (N.to_nat (k + 1)) with (N.to_nat k + 1)%nat by lia.
    rewrite le_enc_app, wb_bytes_app, N2Nat.id. cbn [le_enc wb_bytes]. now rewrite wb_byte_mod. }
  rewrite Efin.
  rewrite wb_bytes_fit.
  - cbn [wb_rev wb_room o0]. rewrite app_nil_r, rev_append_rev, app_nil_r, rev_involutive.
    f_equal. f_equal. rewrite app_length, Nat2N.inj_add. lia.
  - apply Forall_app. split; [apply uleb_enc_ok|unfold bp_enc; apply le_enc_ok].
  - cbn [wb_room o0]. rewrite app_length, Nat2N.inj_add. lia.
Qed.

(* ... and the specification's (lenient) hybrid decoder reads those bytes back as the values *)
Corollary encode_bitpacked_decodes w vals :
  w <= 24 -> Forall (fun v => v < 2 ^ w) vals ->
  bp_dec w (N.of_nat (length vals)) (bp_enc w vals) = vals.
Proof. intros _ Hv. rewrite <- (app_nil_r (bp_enc w vals)). now apply bp_roundtrip. Qed.

(* ---- encode_rle_bp: encode_bitpacked, optionally behind a 4-byte length that is patched in afterwards ---- *)
Theorem encode_rle_bp_correct w vals cap (withlength : bool) :
  w <= 24 -> Forall (fun v => v < 2 ^ w) vals ->
  let n := N.of_nat (length vals) in
  let header := N.lor (N.shiftl ((n + 7) / 8) 1) 1 in
  let body := uleb_enc header ++ bp_enc w vals in
  header < 2 ^ 64 -> N.of_nat (length body) < 2 ^ 32 ->
  (if withlength then 4 else 0) + N.of_nat (length body) <= cap ->
  c_encode_rle_bp vals w cap withlength =
  Ok (map Some ((if withlength then le_enc 4 (N.of_nat (length body)) else []) ++ body),
      (if withlength then 4 else 0) + N.of_nat (length body)).
Proof.
  intros Hw Hv n header body Hh H32 Hcap. unfold c_encode_rle_bp.
  destruct withlength; cbn [negb].
  - assert (Hmin : N.min 4 cap = 4) by lia. rewrite Hmin.
    rewrite (encode_bitpacked_correct w vals (cap - 4) Hw Hv Hh) by (fold n header body; lia).
    fold n header body.
    destruct (N.leb_spec 4 cap) as [_|Hbad]; [|lia].
    replace (Z.to_N ((Z.of_N (4 + N.of_nat (length body)) - 4) mod 2 ^ 32)) with (N.of_nat (length body)).
    + rewrite map_app. reflexivity.
    + change (2 ^ 32)%Z with 4294967296%Z. change (2 ^ 32) with 4294967296 in H32.
      rewrite Z.mod_small by lia. lia.
  - rewrite (encode_bitpacked_correct w vals cap Hw Hv Hh) by (fold n header body; lia).
    fold n header body. reflexivity.
Qed.

(* ---- width_from_max_int: the bit length, for every non-negative int64 ---- *)
Theorem width_from_max_int_correct v : v < 2 ^ 63 ->
  c_width_from_max_int v = N.size v /\ v < 2 ^ c_width_from_max_int v /\
  (forall w, v < 2 ^ w -> c_width_from_max_int v <= w).
Proof.
  intros H. unfold c_width_from_max_int.
  assert (Ht : N.testbit v 63 = false).
  { destruct (N.eq_dec v 0) as [E|E]; [subst; reflexivity|]. apply N.bits_above_log2. apply N.log2_lt_pow2; lia. }
  rewrite Ht. split; [reflexivity|]. split; [apply N.size_gt|].
  intros w Hw'. destruct (N.eq_dec v 0) as [E|E]; [subst; cbn; lia|].
  rewrite N.size_log2 by exact E. apply N.le_succ_l. apply N.log2_lt_pow2; [lia|exact Hw'].
Qed.
