(* Part 7: the serialiser does not raise on the objects of `dom`: every dict in dom denotes a tree, so
   write_thrift returns bytes for it.  With Parts 1-4 this removes the hypothesis "to_bytes returned bytes"
   from the round trip.                                                                               *)
From Coq Require Import NArith ZArith List Bool Lia.
From Pq Require Import Base.Bytes Thrift.Varint Thrift.Compact Proofs.CompactProofs Impl.CThrift Impl.CThriftSpec
  Proofs.CThriftProofs Proofs.CThriftRead Proofs.CThriftRoundtrip Proofs.CThriftMain.
Import ListNotations.
Open Scope N_scope.

Section Ids.
Variable fids : list Z.
Hypothesis Hasc : asc 0 fids.
Local Notation w_thrift := (CThrift.w_thrift fids).
Local Notation t_thrift := (CThriftSpec.t_thrift fids).
Local Notation w_top := (CThrift.w_top fids).
Local Notation t_top := (CThriftSpec.t_top fids).
Local Notation ser := (CThrift.ser fids).
Local Notation to_bytes := (CThrift.to_bytes fids).
Local Notation dom := (CThriftSpec.dom fids).
Local Notation w_thrift_spec := (CThriftProofs.w_thrift_spec fids Hasc).
Local Notation ser_spec := (CThriftProofs.ser_spec fids Hasc).
Local Notation t_good := (CThriftRoundtrip.t_good fids Hasc).
Local Notation t_eq := (CThriftRoundtrip.t_eq fids Hasc).
Local Notation to_bytes_fits := (CThriftRoundtrip.to_bytes_fits fids).
Local Notation t_thrift_S := (CThriftRoundtrip.t_thrift_S fids).
Local Notation dom_fields := (CThriftRoundtrip.dom_fields fids).
Local Notation t_dict := (CThriftRoundtrip.t_dict fids).
Local Notation ser_dict := (CThriftMain.ser_dict fids Hasc).
Local Notation roundtrip := (CThriftMain.roundtrip fids Hasc).

Lemma t_items_total f (P : pv -> Prop) : (forall x, P x -> exists t, f x = Some t) ->
  forall l, Forall P l -> exists l', t_items f l = Some l'.
Proof.
  intros H. induction l as [|x l IH]; intros HP; [exists []; reflexivity|].
  inversion HP as [|x' l' Hx Hl]; subst. destruct (H x Hx) as [t Et]. destruct (IH Hl) as [l' El].
  exists (t :: l'). cbn [t_items]. rewrite Et, El. reflexivity.
Qed.

Lemma t_fields_total tf fs : forall ids,
  (forall i v, In i ids -> lookup i fs = Some v -> v <> PNone -> exists t, tf i v = Some t) ->
  exists l, t_fields tf ids fs = Some l.
Proof.
  induction ids as [|i r IH]; intros H; [exists []; reflexivity|].
  destruct IH as [b Eb]; [intros i' v Hin; apply H; right; exact Hin|].
  cbn [t_fields]. destruct (lookup i fs) as [v|] eqn:El; [|exists b; exact Eb].
  assert (Hv : v <> PNone -> exists l, match tf i v, t_fields tf r fs with Some a, Some b => Some ((Z.to_N i, a) :: b) | _, _ => None end = Some l).
  { intros Hn. destruct (H i v (or_introl eq_refl) El Hn) as [a Ea]. rewrite Ea, Eb. eexists. reflexivity. }
  destruct v; try (apply Hv; discriminate). exists b. exact Eb.
Qed.

Definition td_total (td : pv -> option tv) (k : nat) : Prop :=
  forall j a b c, (j <= k)%nat -> dom j (PDict a b c) = true -> exists t, td (PDict a b c) = Some t.

Lemma field_total td k i32 i32l i j v : td_total td k -> (j <= k)%nat ->
  dom j v = true -> v <> PNone -> exists t, t_field td i32 i32l i v = Some t.
Proof.
  intros Htd Hj Hdom Hn. destruct j as [|j]; [discriminate Hdom|].
  destruct v as [|b|z|f|l|l|l|a b c]; cbn [t_field].
  - congruence.
  - eexists; reflexivity.
  - cbn [CThriftSpec.dom] in Hdom. rewrite Hdom. eexists; reflexivity.
  - discriminate Hdom.
  - eexists; reflexivity.
  - eexists; reflexivity.
  - cbn [CThriftSpec.dom] in Hdom. apply andb_true_iff in Hdom. destruct Hdom as [_ Hel].
    destruct l as [|first r]; cbn [t_list_with]; [eexists; reflexivity|].
    destruct first as [|b0|z0|f0|b0|s0|l0|a0 b0 c0]; try discriminate Hel.
    + destruct (t_items_total t_int_elem (fun x => match x with PInt z => in_cint z | PBool _ => true | _ => false end = true)) with (l := PBool b0 :: r) as [l' El];
        [|apply forallb_Forall; exact Hel|rewrite El; eexists; reflexivity].
      intros x Hx. destruct x; try discriminate Hx; cbn [t_int_elem]; [eexists; reflexivity|rewrite Hx; eexists; reflexivity].
    + destruct (t_items_total t_int_elem (fun x => match x with PInt z => in_cint z | PBool _ => true | _ => false end = true)) with (l := PInt z0 :: r) as [l' El];
        [|apply forallb_Forall; exact Hel|rewrite El; eexists; reflexivity].
      intros x Hx. destruct x; try discriminate Hx; cbn [t_int_elem]; [eexists; reflexivity|rewrite Hx; eexists; reflexivity].
    + destruct (t_items_total t_str_elem (fun x => match x with PStr s => small (len s) | _ => false end = true)) with (l := PStr s0 :: r) as [l' El];
        [|apply forallb_Forall; exact Hel|rewrite El; eexists; reflexivity].
      intros x Hx. destruct x; try discriminate Hx. eexists; reflexivity.
    + destruct (t_items_total td (fun x => match x with PDict _ _ _ => dom j x | _ => false end = true)) with (l := PDict a0 b0 c0 :: r) as [l' El];
        [|apply forallb_Forall; exact Hel|rewrite El; eexists; reflexivity].
      intros x Hx. destruct x as [| | | | | | |a b c]; try discriminate Hx. apply (Htd j a b c ltac:(lia) Hx).
  - apply (Htd (S j) a b c Hj Hdom).
Qed.

Theorem t_total : forall k j a b c, (j <= k)%nat -> dom j (PDict a b c) = true -> exists t, t_thrift k a b c = Some t.
Proof.
  induction k as [|k IH]; intros j a b c Hj Hdom.
  - destruct j; [discriminate Hdom|lia].
  - destruct j as [|j]; [discriminate Hdom|].
    rewrite t_thrift_S.
    assert (Htd : td_total (t_dict k) k).
    { intros j' a' b' c' Hj' Hd'. apply (IH j' a' b' c' Hj' Hd'). }
    destruct (t_fields_total (t_field (t_dict k) a b) c fids) as [l El].
    + intros i v _ Hl Hn. destruct (dom_fields j a b c i v Hdom Hl Hn) as [Hdv _].
      apply (field_total (t_dict k) k a b i j v Htd ltac:(lia) Hdv Hn).
    + rewrite El. eexists. reflexivity.
Qed.

(* the round trip without the hypothesis that serialisation succeeded *)
Theorem roundtrip_total a b c : dom 63 (PDict a b c) = true ->
  exists bs, ser (PDict a b c) = Some bs /\
    (forall cap, len bs <= cap -> to_bytes cap (PDict a b c) = OBytes bs) /\
    exists v', from_buffer bs = Some (v', []) /\ obj_eq (PDict a b c) v' = true.
Proof.
  intros Hdom. destruct (t_total w_depth 63 a b c ltac:(unfold w_depth; lia) Hdom) as [t Et].
  exists (wr t). assert (Es : ser (PDict a b c) = Some (wr t)) by (rewrite ser_dict, Et; reflexivity).
  split; [exact Es|]. split.
  - intros cap Hc. apply (to_bytes_fits cap _ _ Es Hc).
  - apply (roundtrip _ _ Hdom Es).
Qed.
End Ids.
