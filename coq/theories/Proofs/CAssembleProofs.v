(* Proofs about the IMPL model Impl/CAssemble.v (part 1: computed counterexamples). *)
From Coq Require Import NArith List Bool Lia.
From Pq Require Import Format.Nested Impl.CAssemble.
Import ListNotations.
Open Scope N_scope.

(* the level/value stream a list of pages holds *)
Definition pages_stream {V} (pages : list (page V)) : list entry * list V :=
  (concat (map fst pages), concat (map snd pages)).

Definition nonempty_pages {V} (pages : list (page V)) : Prop := Forall (fun p => fst p <> []) pages.

(* ---------- the decidable side conditions on a page split ---------- *)

(* number of entries of a page that carry a value *)
Fixpoint count_md (md : N) (es : list entry) : nat :=
  match es with
  | [] => O
  | (_, d) :: t => if d =? md then S (count_md md t) else count_md md t
  end.

(* the page holds exactly the values its levels announce (what num_values / the level streams
   of a data page say; a reader decodes count_md values from the page) *)
Definition page_aligned {V} (sh : shape) (p : page V) : bool :=
  Nat.eqb (length (snd p)) (count_md (max_def sh) (fst p)).
Definition pages_aligned {V} (sh : shape) (pages : list (page V)) : bool := forallb (page_aligned sh) pages.

(* scanning the continued part of a row at the start of a page: `vali` = values met so far *)
Fixpoint good_cont (md : N) (vali : N) (es : list entry) (is_last : bool) : bool :=
  match es with
  | [] => is_last
  | (r, d) :: t =>
    if r =? 0 then 0 <? vali
    else good_cont md (if d =? md then vali + 1 else vali) t is_last
  end.

Definition good_page {V} (sh : shape) (is_last : bool) (p : page V) : bool :=
  match fst p with
  | [] => false
  | (r, _) :: _ => (r =? 0) || good_cont (max_def sh) 0 (fst p) is_last
  end.

Fixpoint good_split {V} (sh : shape) (pages : list (page V)) : bool :=
  match pages with
  | [] => true
  | p :: t => good_page sh (match t with [] => true | _ => false end) p && good_split sh t
  end.

(* (1) rows [[None, None | None], [7]]  (| = v1 page boundary): the continued part of row 0 holds
   only null elements, so `vali > 0` is false at the first rep == 0 of page 2, the pending
   `part` is neither appended to row 0 nor cleared, and its element lands in row 1. *)
Definition w1_rows : list (row N) := [Some [None; None; None]; Some [Some 7]].
Definition w1_pages : list (page N) := [([(0,2);(1,2)], []); ([(1,2);(0,3)], [7])].
Definition w1_wrong : list (row N) := [Some [None; None]; Some [None; Some 7]].

Lemma null_continuation_refuted :
  exists (sh : shape) (rows : list (row N)) (pages : list (page N)) (wrong : list (row N)),
    wf_rows sh rows = true /\ pages_stream pages = shred sh rows /\ nonempty_pages pages /\
    pages_aligned sh pages = true /\ good_split sh pages = false /\
    run_v1 sh (length rows) pages = AOk wrong /\ wrong <> rows.
Proof.
  exists (mkShape true true), w1_rows, w1_pages, w1_wrong.
  split; [vm_compute; reflexivity|]. split; [vm_compute; reflexivity|].
  split; [repeat constructor; discriminate|].
  split; [vm_compute; reflexivity|]. split; [vm_compute; reflexivity|].
  split; [vm_compute; reflexivity|]. discriminate.
Qed.

(* (2) rows [[1 | 2, 3 | ], [9]]: page 2 holds only the continuation of row 0; it still returns i,
   read_col sets row_idx = 1 + i = 2, and page 3 writes row 1 into slot 2 of a 2-slot array. *)
Definition w2_rows : list (row N) := [Some [Some 1; Some 2; Some 3]; Some [Some 9]].
Definition w2_pages : list (page N) := [([(0,3)], [1]); ([(1,3);(1,3)], [2;3]); ([(0,3)], [9])].

Lemma three_page_row_refuted :
  exists (sh : shape) (rows : list (row N)) (pages : list (page N)),
    wf_rows sh rows = true /\ pages_stream pages = shred sh rows /\ nonempty_pages pages /\
    pages_aligned sh pages = true /\ good_split sh pages = false /\
    run_v1 sh (length rows) pages = AErr (OobWrite (length rows)).
Proof.
  exists (mkShape true true), w2_rows, w2_pages.
  split; [vm_compute; reflexivity|]. split; [vm_compute; reflexivity|].
  split; [repeat constructor; discriminate|].
  split; [vm_compute; reflexivity|]. split; [vm_compute; reflexivity|]. vm_compute; reflexivity.
Qed.

(* (3) the pinned read_data_page_v2 passed null=True for every schema: a REQUIRED list
   [[1, None], []] came back as [[1], None]  (repaired in core.py, see findings.d/C15.json). *)
Definition w3_rows : list (row N) := [Some [Some 1; None]; Some []].
Definition w3_pages : list (page N * nat) := [(([(0,2);(1,1);(0,0)], [1]), 2%nat)].

Lemma v2_null_true_refuted :
  exists (sh : shape) (rows : list (row N)) (pages : list (page N * nat)) (wrong : list (row N)),
    wf_rows sh rows = true /\ pages_stream (map fst pages) = shred sh rows /\
    run_v2 true sh (length rows) pages = AOk wrong /\ wrong <> rows /\
    run_v2 false sh (length rows) pages = AOk rows.
Proof.
  exists (mkShape false true), w3_rows, w3_pages, [Some [Some 1]; None].
  split; [vm_compute; reflexivity|]. split; [vm_compute; reflexivity|].
  split; [vm_compute; reflexivity|]. split; [discriminate|]. vm_compute; reflexivity.
Qed.

(* (4) the pinned read_data_page_v2 sent PLAIN pages of a repeated leaf into the flat branch *)
Lemma v2_plain_refuted : exists enc, v2_branch true 1 enc = BFlat /\ v2_branch false 1 enc = BAssemble.
Proof. exists EPlain. split; reflexivity. Qed.

Lemma v2_branch_repaired : forall max_rep enc, 0 < max_rep -> (enc = EPlain \/ enc = EDict) ->
  v2_branch false max_rep enc = BAssemble.
Proof.
  intros max_rep enc H [->| ->]; cbn; apply N.ltb_lt in H; rewrite H; reflexivity.
Qed.
