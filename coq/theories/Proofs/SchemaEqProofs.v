(* Proofs/SchemaEqProofs.v — the comparison verify_schema performs is EXACTLY element-wise, attribute-wise equality of the schemas
   (C14, wave 3).  A comparison of a rendering of the schema (seeded change C14-3: `schema.text`) is not: it forgets attributes. *)
From Coq Require Import NArith ZArith Bool Arith List Lia.
From Pq Require Import Base.Bytes Proofs.BytesProofs Dataset.SchemaEq Dataset.Merge.
Import ListNotations.

Lemma path_eqb_spec p q : reflect (p = q) (path_eqb p q).
Proof. apply list_eqb_spec, N.eqb_spec. Qed.

Lemma atom_eqb_spec a b : reflect (a = b) (atom_eqb a b).
Proof.
  destruct a as [x|x|], b as [y|y|]; cbn; try (constructor; congruence).
  - destruct (Z.eqb_spec x y); constructor; congruence.
  - destruct (list_eqb_spec N.eqb N.eqb_spec x y); constructor; congruence.
Qed.

Lemma oatom_eqb_spec x y : reflect (x = y) (oatom_eqb x y).
Proof.
  destruct x as [a|], y as [b|]; cbn; try (constructor; congruence).
  destruct (atom_eqb_spec a b); constructor; congruence.
Qed.

Lemma get_none p e : ~ In p (map fst e) -> get p e = None.
Proof.
  induction e as [|[q a] r IH]; intros H; [reflexivity|]. cbn [get]. destruct (path_eqb_spec p q) as [->|Hn].
  - exfalso. apply H. left. reflexivity.
  - apply IH. intros Hin. apply H. right. exact Hin.
Qed.

Theorem elem_eqb_iff e1 e2 : elem_eqb e1 e2 = true <-> elem_equiv e1 e2.
Proof.
  unfold elem_eqb, elem_equiv. rewrite forallb_forall. split.
  - intros H p. destruct (in_dec (list_eq_dec N.eq_dec) p (map fst e1 ++ map fst e2)) as [Hin|Hn].
    + specialize (H p Hin). destruct (oatom_eqb_spec (get p e1) (get p e2)); [assumption|discriminate].
    + rewrite !get_none; [reflexivity| |]; intros Hin; apply Hn, in_or_app; [right|left]; exact Hin.
  - intros H p _. rewrite H. destruct (oatom_eqb_spec (get p e2) (get p e2)); [reflexivity|congruence].
Qed.

(* `pf._schema != pfs[0]._schema` is false exactly when the schemas have the same number of elements and every element assigns the same
   value to every attribute (type, type_length, repetition_type, name, num_children, converted_type, scale, precision, field_id,
   logicalType and its members), missing = None *)
Theorem schema_eqb_iff : forall s1 s2, schema_eqb s1 s2 = true <-> schema_equiv s1 s2.
Proof.
  unfold schema_equiv. induction s1 as [|a r IH]; intros [|b r']; cbn [schema_eqb].
  - split; [constructor|reflexivity].
  - split; intros H; [discriminate|inversion H].
  - split; intros H; [discriminate|inversion H].
  - split; intros H.
    + apply andb_true_iff in H. destruct H as [H1 H2]. constructor; [apply (proj1 (elem_eqb_iff a b) H1)|apply (proj1 (IH r') H2)].
    + inversion H as [|x y l l' Hxy Hl]; subst. apply andb_true_iff.
      split; [apply (proj2 (elem_eqb_iff a b) Hxy)|apply (proj2 (IH r') Hl)].
Qed.

Lemma elem_equiv_refl e : elem_equiv e e. Proof. intros p. reflexivity. Qed.
Lemma schema_eqb_refl s : schema_eqb s s = true.
Proof. apply schema_eqb_iff. induction s; constructor; [apply elem_equiv_refl|assumption]. Qed.

(* a comparison through a rendering that drops an attribute accepts schemas that differ in it (the class of C14-3): computed witness,
   two one-element schemas that differ in `scale` (field 7) only, rendered by name and type (fields 4 and 1) *)
Definition render_name_type (e : elem) : list (option atom) := [get [4%N] e; get [1%N] e].
Theorem rendering_is_not_equality :
  exists s1 s2, map render_name_type s1 = map render_name_type s2 /\ schema_eqb s1 s2 = false.
Proof.
  exists [[([4%N], AB [105%N; 100%N]); ([1%N], AZ 2); ([7%N], AZ 2)]], [[([4%N], AB [105%N; 100%N]); ([1%N], AZ 2)]].
  split; vm_compute; reflexivity.
Qed.

(* with verify_schema the merge raises exactly when some file's schema is not equivalent to the first file's *)
Section Verify.
  Variable X : Type.
  Theorem verify_rejects_schema_iff basepath rel (pf0 : pfile (list elem) X) rest :
    legacy_merge (list elem) schema_eqb X true basepath rel (pf0 :: rest) = MValueError (list elem) X
    <-> exists pf, In pf rest /\ ~ schema_equiv (pf_schema (list elem) X pf) (pf_schema (list elem) X pf0).
  Proof.
    unfold legacy_merge. cbn [andb].
    destruct (forallb (fun pf => schema_eqb (pf_schema (list elem) X pf) (pf_schema (list elem) X pf0)) rest) eqn:E; cbn [negb].
    - split.
      + destruct (Partition.all_some _); discriminate.
      + intros [pf [Hin Hn]]. rewrite forallb_forall in E. exfalso. apply Hn, schema_eqb_iff, E, Hin.
    - split; [intros _|reflexivity].
      assert (Hex : existsb (fun pf => negb (schema_eqb (pf_schema (list elem) X pf) (pf_schema (list elem) X pf0))) rest = true).
      { clear - E. induction rest as [|p r IH]; cbn in *; [discriminate|].
        destruct (schema_eqb (pf_schema (list elem) X p) (pf_schema (list elem) X pf0)); cbn in *; [apply IH, E|reflexivity]. }
      apply existsb_exists in Hex. destruct Hex as [pf [Hin Hn]]. exists pf. split; [exact Hin|].
      intros Heq. apply schema_eqb_iff in Heq. rewrite Heq in Hn. discriminate.
  Qed.
End Verify.
