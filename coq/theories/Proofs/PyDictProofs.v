(* core.read_row_group_arrays builds every MAP cell with dict(zip(keys, values)).  The pairs are what
   record assembly yields (the C15_map theorems); this file models the Python dict built from a pair list with
   possibly repeated keys - insertion order of first occurrences, LAST value wins - and proves it. *)
From Coq Require Import List Bool.
Import ListNotations.

Section D.
Variables K V : Type.
Variable keqb : K -> K -> bool.
Hypothesis keqb_spec : forall a b, reflect (a = b) (keqb a b).

(* d[k] = v *)
Fixpoint dict_set (d : list (K * V)) (k : K) (v : V) : list (K * V) :=
  match d with
  | [] => [(k, v)]
  | (k', v') :: t => if keqb k' k then (k', v) :: t else (k', v') :: dict_set t k v
  end.

(* dict(pairs) as the list of its items in iteration order *)
Definition py_dict (pairs : list (K * V)) : list (K * V) :=
  fold_left (fun d kv => dict_set d (fst kv) (snd kv)) pairs [].

Fixpoint alookup (k : K) (l : list (K * V)) : option V :=
  match l with
  | [] => None
  | (k', v) :: t => if keqb k' k then Some v else alookup k t
  end.

Definition mem (k : K) (l : list K) : bool := existsb (fun x => keqb x k) l.
Definition first_occurrences (ks : list K) : list K :=
  fold_left (fun acc k => if mem k acc then acc else acc ++ [k]) ks [].

Lemma keqb_refl : forall a, keqb a a = true.
Proof. intros a. destruct (keqb_spec a a); [reflexivity|contradiction]. Qed.

Lemma alookup_set : forall d k k' v,
  alookup k (dict_set d k' v) = if keqb k' k then Some v else alookup k d.
Proof.
  induction d as [|[k0 v0] t IH]; intros k k' v; cbn [dict_set alookup].
  - destruct (keqb k' k); reflexivity.
  - destruct (keqb k0 k') eqn:E0; cbn [alookup].
    + destruct (keqb_spec k0 k') as [->|]; [|discriminate]. destruct (keqb k' k); reflexivity.
    + rewrite IH. destruct (keqb k0 k) eqn:E1; [|reflexivity].
      destruct (keqb_spec k0 k) as [->|]; [|discriminate]. destruct (keqb k' k) eqn:E2; [|reflexivity].
      destruct (keqb_spec k' k) as [->|]; [|discriminate]. rewrite keqb_refl in E0. discriminate.
Qed.

Lemma alookup_app : forall k a b, alookup k (a ++ b) = match alookup k a with Some v => Some v | None => alookup k b end.
Proof.
  induction a as [|[k0 v0] a IH]; intros b; [reflexivity|]. cbn [app alookup]. destruct (keqb k0 k); [reflexivity|apply IH].
Qed.

Lemma fold_lookup : forall pairs d k,
  alookup k (fold_left (fun d kv => dict_set d (fst kv) (snd kv)) pairs d)
  = match alookup k (rev pairs) with Some v => Some v | None => alookup k d end.
Proof.
  induction pairs as [|[k0 v0] t IH]; intros d k; [reflexivity|].
  cbn [fold_left fst snd rev]. rewrite IH, alookup_app, alookup_set. cbn [alookup].
  destruct (alookup k (rev t)); [reflexivity|]. destruct (keqb k0 k); reflexivity.
Qed.

(* the value of a key is the value of its LAST pair *)
Theorem py_dict_last_wins : forall pairs k, alookup k (py_dict pairs) = alookup k (rev pairs).
Proof.
  intros pairs k. unfold py_dict. rewrite fold_lookup. destruct (alookup k (rev pairs)); reflexivity.
Qed.

Lemma keys_set : forall d k v,
  map fst (dict_set d k v) = if mem k (map fst d) then map fst d else map fst d ++ [k].
Proof.
  induction d as [|[k0 v0] t IH]; intros k v; [reflexivity|].
  cbn [dict_set map fst mem existsb]. destruct (keqb k0 k) eqn:E; cbn [orb map fst].
  - reflexivity.
  - rewrite IH. unfold mem. destruct (existsb (fun x => keqb x k) (map fst t)); reflexivity.
Qed.

(* the keys come in the order of their FIRST occurrence, each once *)
Theorem py_dict_keys : forall pairs, map fst (py_dict pairs) = first_occurrences (map fst pairs).
Proof.
  intros pairs. unfold py_dict, first_occurrences.
  assert (G : forall d, map fst (fold_left (fun d kv => dict_set d (fst kv) (snd kv)) pairs d)
                        = fold_left (fun acc k => if mem k acc then acc else acc ++ [k]) (map fst pairs) (map fst d)).
  { induction pairs as [|[k0 v0] t IH]; intros d; [reflexivity|].
    cbn [fold_left map fst snd]. rewrite IH, keys_set. reflexivity. }
  exact (G []).
Qed.

End D.
