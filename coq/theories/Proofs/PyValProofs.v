(* Facts about the PyVal prelude on lists of integers: the list operations reduce to plain
   functions on `list Z`, and sorted()/searchsorted() have the order properties the proofs of the
   translated filter_in need. *)
From Coq Require Import ZArith List String Bool Lia.
From Pq Require Import Base.PyVal Impl.Filter.
Import ListNotations.
Open Scope Z_scope.

Fixpoint zinsert (x : Z) (l : list Z) : list Z :=
  match l with [] => [x] | y :: r => if x <? y then x :: y :: r else y :: zinsert x r end.
Fixpoint zsort (l : list Z) : list Z := match l with [] => [] | x :: r => zinsert x (zsort r) end.
Fixpoint zcount (f : Z -> bool) (l : list Z) : Z :=
  match l with [] => 0 | y :: r => if f y then 1 + zcount f r else 0 end.
Fixpoint zsorted (l : list Z) : Prop :=
  match l with [] => True | x :: r => (forall y, In y r -> x <= y) /\ zsorted r end.
Definition zmem (x : Z) (l : list Z) : bool := existsb (Z.eqb x) l.

Lemma zmem_In x l : zmem x l = true <-> In x l.
Proof.
  unfold zmem. rewrite existsb_exists. split.
  - intros [y [Hy E]]. apply Z.eqb_eq in E. subst. exact Hy.
  - intros H. exists x. split; [exact H | apply Z.eqb_refl].
Qed.

Lemma zinsert_in x y l : In y (zinsert x l) <-> y = x \/ In y l.
Proof.
  induction l as [|a r IH]; cbn.
  - intuition.
  - destruct (x <? a); cbn; [intuition|]. rewrite IH. intuition.
Qed.

Lemma zsort_in y l : In y (zsort l) <-> In y l.
Proof.
  induction l as [|a r IH]; cbn; [tauto|]. rewrite zinsert_in, IH. intuition.
Qed.

Lemma zinsert_sorted x l : zsorted l -> zsorted (zinsert x l).
Proof.
  induction l as [|a r IH]; cbn; intros H.
  - split; [intros y []|exact I].
  - destruct H as [Ha Hr]. destruct (Z.ltb_spec x a) as [L|L]; cbn.
    + split; [|split; assumption]. intros y [E|Hy]; [lia|]. specialize (Ha y Hy). lia.
    + split; [|apply IH; exact Hr]. intros y Hy. apply zinsert_in in Hy. destruct Hy as [E|Hy]; [lia|auto].
Qed.

Lemma zsort_sorted l : zsorted (zsort l).
Proof. induction l as [|a r IH]; cbn; [exact I|apply zinsert_sorted; exact IH]. Qed.

Lemma zsort_nil vs : zsort vs = [] -> vs = [].
Proof.
  destruct vs as [|a r]; [reflexivity|]. intros H. exfalso.
  assert (In a (zsort (a :: r))) as Hin by (apply zsort_in; left; reflexivity). rewrite H in Hin. exact Hin.
Qed.

Lemma zcount_nonneg f l : 0 <= zcount f l.
Proof. induction l as [|a r IH]; cbn [zcount]; [lia|destruct (f a); lia]. Qed.

(* the searchsorted gap: equal insertion points of a (left) and b (right) leave no element in [a,b] *)
Lemma zcount_gap l a b x : zsorted l ->
  zcount (fun y => y <? a) l = zcount (fun y => y <=? b) l -> In x l -> a <= x -> x <= b -> False.
Proof.
  induction l as [|y r IH]; cbn [zcount zsorted In]; intros Hs E Hin Ha Hb; [exact Hin|].
  destruct Hs as [Hy Hr].
  pose proof (zcount_nonneg (fun y => y <? a) r) as N1.
  pose proof (zcount_nonneg (fun y => y <=? b) r) as N2.
  destruct (Z.ltb_spec y a) as [L1|L1]; destruct (Z.leb_spec y b) as [L2|L2]; try lia.
  - destruct Hin as [Ex|Hin]; [lia|]. apply IH; auto; lia.
  - destruct Hin as [Ex|Hin]; [lia|]. specialize (Hy x Hin). lia.
Qed.

Lemma zsorted_hd h r x : zsorted (h :: r) -> In x (h :: r) -> h <= x.
Proof. cbn. intros [Hh _] [E|Hin]; [lia|auto]. Qed.

Lemma zsorted_last l x : zsorted l -> In x l -> x <= last l 0.
Proof.
  induction l as [|a r IH]; cbn; intros Hs Hin; [contradiction|].
  destruct Hs as [Ha Hr]. destruct r as [|b r'].
  - destruct Hin as [E|[]]. lia.
  - destruct Hin as [E|Hin].
    + subst. assert (In (last (b :: r') 0) (b :: r')) as Hl.
      { clear. generalize b. induction r' as [|c r'' IH]; intros b0; cbn; [auto|].
        right. apply IH. }
      specialize (Ha _ Hl). exact Ha.
    + apply IH; assumption.
Qed.

(* ---------- the prelude on integer lists -------------------------------------------------- *)

Lemma pv_eqb_int x y : pv_eqb (PInt x) (PInt y) = (x =? y).
Proof. reflexivity. Qed.

Lemma existsb_ints x vs : existsb (pv_eqb (PInt x)) (map PInt vs) = zmem x vs.
Proof. unfold zmem. induction vs as [|a r IH]; [reflexivity|]. cbn [map existsb]. rewrite IH, pv_eqb_int. reflexivity. Qed.

Lemma py_in_ints x vs : py_in (PInt x) (ints vs) = Ok (PBool (zmem x vs)).
Proof. unfold py_in, ints. cbn [elems bind]. rewrite existsb_ints. reflexivity. Qed.

Lemma py_not_in_ints x vs : py_not_in (PInt x) (ints vs) = Ok (PBool (negb (zmem x vs))).
Proof. unfold py_not_in, ints. cbn [elems bind]. rewrite existsb_ints. reflexivity. Qed.

Lemma py_len_ints vs : py_len (ints vs) = Ok (PInt (Z.of_nat (List.length vs))).
Proof. unfold py_len, ints. cbn [elems bind]. rewrite map_length. reflexivity. Qed.

Lemma insert_sorted_ints x l : insert_sorted (PInt x) (map PInt l) = Ok (map PInt (zinsert x l)).
Proof.
  induction l as [|a r IH]; [reflexivity|].
  cbn [map insert_sorted zinsert lt_b py_lt py_ord num_of bind truthy].
  destruct (x <? a); [reflexivity|]. rewrite IH. reflexivity.
Qed.

Lemma sort_list_ints l : sort_list (map PInt l) = Ok (map PInt (zsort l)).
Proof.
  induction l as [|a r IH]; [reflexivity|]. cbn [map sort_list zsort]. rewrite IH. cbn [bind]. apply insert_sorted_ints.
Qed.

Lemma py_sorted_ints vs : py_sorted (ints vs) = Ok (ints (zsort vs)).
Proof. unfold py_sorted, ints. cbn [elems bind]. rewrite sort_list_ints. reflexivity. Qed.

Lemma count_while_lt l v :
  count_while (fun y => lt_b y (PInt v)) (map PInt l) = Ok (zcount (fun y => y <? v) l).
Proof.
  induction l as [|a r IH]; [reflexivity|].
  cbn [map count_while zcount lt_b py_lt py_ord num_of bind truthy]. destruct (a <? v); [|reflexivity].
  rewrite IH. reflexivity.
Qed.
Lemma count_while_le l v :
  count_while (fun y => le_b y (PInt v)) (map PInt l) = Ok (zcount (fun y => y <=? v) l).
Proof.
  induction l as [|a r IH]; [reflexivity|].
  cbn [map count_while zcount le_b py_le py_ord num_of bind truthy]. destruct (a <=? v); [|reflexivity].
  rewrite IH. reflexivity.
Qed.

Lemma py_ss_left_ints l v :
  py_searchsorted_left (ints l) (PInt v) = Ok (PInt (zcount (fun y => y <? v) l)).
Proof. unfold py_searchsorted_left, ints. cbn [elems bind]. rewrite count_while_lt. reflexivity. Qed.
Lemma py_ss_right_ints l v :
  py_searchsorted_right (ints l) (PInt v) = Ok (PInt (zcount (fun y => y <=? v) l)).
Proof. unfold py_searchsorted_right, ints. cbn [elems bind]. rewrite count_while_le. reflexivity. Qed.

Lemma py_index0_ints l :
  py_index (ints l) (PInt 0) = match l with [] => Err "IndexError"%string | h :: _ => Ok (PInt h) end.
Proof.
  unfold py_index, ints. cbn [elems bind]. rewrite map_length.
  destruct l as [|h r]; [reflexivity|].
  cbn [Z.ltb Z.compare]. replace (0 <? 0) with false by reflexivity. cbn [orb].
  destruct (Z.leb_spec (Z.of_nat (List.length (h :: r))) 0) as [L|L]; [cbn in L; lia|]. reflexivity.
Qed.

Lemma nth_error_last (l : list Z) : l <> [] ->
  nth_error (map PInt l) (Z.to_nat (-1 + Z.of_nat (List.length l))) = Some (PInt (last l 0)).
Proof.
  induction l as [|a r IH]; intros H; [congruence|].
  destruct r as [|b r'].
  - reflexivity.
  - replace (Z.to_nat (-1 + Z.of_nat (List.length (a :: b :: r')))) with (S (Z.to_nat (-1 + Z.of_nat (List.length (b :: r'))))).
    + cbn [map nth_error]. cbn [map] in IH. rewrite IH by congruence. reflexivity.
    + cbn [List.length]. lia.
Qed.

Lemma py_index_m1_ints l :
  py_index (ints l) (PInt (-1)) = match l with [] => Err "IndexError"%string | _ :: _ => Ok (PInt (last l 0)) end.
Proof.
  unfold py_index, ints. cbn [elems bind]. rewrite map_length.
  replace (-1 <? 0) with true by reflexivity.
  destruct l as [|h r].
  - reflexivity.
  - destruct (Z.ltb_spec (-1 + Z.of_nat (List.length (h :: r))) 0) as [L|L]; [cbn [List.length] in L; lia|].
    destruct (Z.leb_spec (Z.of_nat (List.length (h :: r))) (-1 + Z.of_nat (List.length (h :: r)))) as [L2|L2]; [lia|].
    cbn [orb]. rewrite nth_error_last by congruence. reflexivity.
Qed.

Lemma py_index_arr1 m : py_index (PArr [m]) (PInt 0) = Ok m.
Proof. reflexivity. Qed.
