(* Proofs about Dataset/CrashGen.v: checker sound and complete; crash safety before the commit point under the most general
   damage model, also for faults at read-side events; a summary written to a temporary file and renamed onto _metadata
   is inside the relation.                                                                                              *)
From Coq Require Import NArith List Bool Arith Lia.
From Pq Require Import Base.Bytes Dataset.FS Dataset.Crash Dataset.CrashGen Dataset.Ops Proofs.CrashProofs Proofs.OpsProofs.
Import ListNotations.

Lemma existsb_false_in {A} (f : A -> bool) l x : existsb f l = false -> In x l -> f x = false.
Proof.
  intros H Hin. destruct (f x) eqn:E; [|reflexivity].
  assert (existsb f l = true) by (apply existsb_exists; exists x; split; assumption). congruence.
Qed.

(* ---------------- checker <-> relation ---------------- *)
Theorem check_gen_sound refs : forall tr h, check_gen refs h tr = true -> safe_gen_h refs h tr.
Proof.
  induction tr as [|a r IH]; intros h H tr1 c tr2 E.
  - destruct tr1; discriminate.
  - cbn [check_gen] in H. apply andb_true_iff in H. destruct H as [Ha H].
    destruct tr1 as [|x tr1'].
    + cbn in E. inversion E; subst c tr2. split.
      * now apply untouched_spec.
      * intros _ Hc. rewrite Hc in H. apply andb_true_iff in H. exact (proj1 H).
    + cbn in E. inversion E; subst x. clear E. rename H2 into E.
      destruct (touches_md a) eqn:Ta.
      * apply andb_true_iff in H. destruct H as [_ Hr]. rewrite forallb_forall in Hr. split.
        -- apply untouched_spec. apply Hr. rewrite E. apply in_or_app. right. now left.
        -- cbn [existsb]. rewrite Ta. cbn. discriminate.
      * destruct (IH _ H tr1' c tr2 E) as [I1 I2]. split; [exact I1|].
        cbn [existsb fold_left]. rewrite Ta. cbn [orb]. exact I2.
Qed.

Theorem check_gen_complete refs : forall tr h, safe_gen_h refs h tr -> check_gen refs h tr = true.
Proof.
  induction tr as [|a r IH]; intros h H; [reflexivity|].
  cbn [check_gen]. destruct (H [] a r eq_refl) as [H1 H2].
  apply andb_true_iff. split; [now apply untouched_spec|].
  destruct (touches_md a) eqn:Ta.
  - apply andb_true_iff. split; [exact (H2 eq_refl eq_refl)|].
    apply forallb_forall. intros c Hc. apply in_split in Hc. destruct Hc as [x [y Hxy]].
    apply untouched_spec. exact (proj1 (H (a :: x) c y (f_equal (cons a) Hxy))).
  - apply IH. intros tr1 c tr2 E. destruct (H (a :: tr1) c tr2 (f_equal (cons a) E)) as [I1 I2]. split; [exact I1|].
    intros Hno Hc. apply I2; [|exact Hc]. cbn [existsb]. now rewrite Ta.
Qed.

Theorem check_safe_gen_iff refs tr : check_safe_gen refs tr = true <-> safe_gen refs tr.
Proof. split; [apply check_gen_sound | apply check_gen_complete]. Qed.

(* ---------------- crash safety before the commit point ---------------- *)
Lemma safe_gen_refs refs tr c : safe_gen refs tr -> In c tr -> forall q, In q refs -> affects c q = false.
Proof. intros H Hin. apply in_split in Hin. destruct Hin as [x [y E]]. exact (proj1 (H x c y E)). Qed.

Section ReadG.
  Variable R : Type.
  Variable parse_md : bytes -> option (list path).
  Variable decode : bytes -> list (option bytes) -> R.

  (* whatever calls were issued: if none of them can change _metadata or a referenced file, then ANY damage they cause
     leaves the dataset reading as before *)
  Lemma harmless_damage refs issued s s' :
    refs_of parse_md s = Some refs ->
    (forall x, In x issued -> touches_md x = false /\ forall q, In q refs -> affects x q = false) ->
    damaged_by issued s s' ->
    read_dataset R parse_md decode s' = read_dataset R parse_md decode s
    /\ forall q, In q (md_name :: refs) -> lookup q s' = lookup q s.
  Proof.
    intros Hr Hx D.
    assert (F : forall q, In q (md_name :: refs) -> lookup q s' = lookup q s).
    { intros q Hq. apply D. intros x Hin. destruct (Hx x Hin) as [H1 H2]. destruct Hq as [Hq|Hq]; [subst q; exact H1 | now apply H2]. }
    split; [|exact F]. now apply (read_dataset_same R parse_md decode s s' refs Hr).
  Qed.

  (* the operation is interrupted in call c (any partial effect, lost buffers, torn writes on every file named so far),
     c and everything before it lying before the commit point *)
  Theorem gen_crash_safe refs tr tr1 c tr2 s s' :
    refs_of parse_md s = Some refs ->
    safe_gen refs tr -> tr = tr1 ++ c :: tr2 ->
    existsb touches_md tr1 = false -> touches_md c = false ->
    damaged_by (tr1 ++ [c]) s s' ->
    read_dataset R parse_md decode s' = read_dataset R parse_md decode s
    /\ forall q, In q (md_name :: refs) -> lookup q s' = lookup q s.
  Proof.
    intros Hr H E Hno Hc D. apply (harmless_damage refs (tr1 ++ [c]) s s' Hr); [|exact D].
    intros x Hin. split.
    - apply in_app_or in Hin. destruct Hin as [Hin|[Hin|[]]]; [now apply (existsb_false_in touches_md tr1) | now subst x].
    - apply (safe_gen_refs refs tr x H). rewrite E. apply in_app_or in Hin. apply in_or_app.
      destruct Hin as [Hin|[Hin|[]]]; [now left | right; now left].
  Qed.

  (* the commit call itself failed before it had any effect (e.g. the rename / the write-open of _metadata was refused) *)
  Theorem gen_crash_safe_at_commit refs tr tr1 c tr2 s s' :
    refs_of parse_md s = Some refs ->
    safe_gen refs tr -> tr = tr1 ++ c :: tr2 ->
    existsb touches_md tr1 = false ->
    damaged_by tr1 s s' ->
    read_dataset R parse_md decode s' = read_dataset R parse_md decode s
    /\ forall q, In q (md_name :: refs) -> lookup q s' = lookup q s.
  Proof.
    intros Hr H E Hno D. apply (harmless_damage refs tr1 s s' Hr); [|exact D].
    intros x Hin. split; [now apply (existsb_false_in touches_md tr1)|].
    apply (safe_gen_refs refs tr x H). rewrite E. apply in_or_app. now left.
  Qed.

  (* READ-SIDE faults: the operation is a trace of events; it is interrupted at a read event e (open for reading / read)
     that comes before the commit point.  Read events have no effect, so the state is the one the effects before e produced *)
  Lemma effects_app a b : effects (a ++ b) = effects a ++ effects b.
  Proof. induction a as [|e a IH]; [reflexivity|]. destruct e; cbn [app effects]; now rewrite IH. Qed.

  Theorem read_fault_safe refs es es1 e es2 s :
    refs_of parse_md s = Some refs ->
    safe_gen refs (effects es) -> es = es1 ++ e :: es2 ->
    (match e with Eff _ => False | _ => True end) ->
    existsb touches_md (effects es1) = false ->
    read_dataset R parse_md decode (run_events es1 s) = read_dataset R parse_md decode s
    /\ forall q, In q (md_name :: refs) -> lookup q (run_events es1 s) = lookup q s.
  Proof.
    intros Hr H E _ Hno. apply (harmless_damage refs (effects es1) s _ Hr); [|apply run_is_damage].
    intros x Hin. split; [now apply (existsb_false_in touches_md (effects es1))|].
    apply (safe_gen_refs refs (effects es) x H). rewrite E, effects_app. apply in_or_app. now left.
  Qed.
End ReadG.

(* no referenced file is opened for writing, renamed, removed - anywhere in the trace, also after the commit point and
   also when the operation reports a failure *)
Theorem gen_existing_untouched refs tr : safe_gen refs tr ->
  (forall p t, In (OpenW p t) tr -> ~ In p refs)
  /\ (forall a b q, In (Rename a b) tr -> In q refs -> under a q = false /\ under b q = false)
  /\ (forall p q, In (Remove p) tr -> In q refs -> under p q = false)
  /\ forall s q, In q refs -> lookup q (run_trace tr s) = lookup q s.
Proof.
  intros H. repeat split.
  - intros p t Hin Hp. pose proof (safe_gen_refs refs tr _ H Hin p Hp) as A. cbn in A. now rewrite bytes_eqb_refl in A.
  - pose proof (safe_gen_refs refs tr _ H H0 q H1) as A. cbn in A. now apply orb_false_iff in A.
  - pose proof (safe_gen_refs refs tr _ H H0 q H1) as A. cbn in A. now apply orb_false_iff in A.
  - intros p q Hin Hq. exact (safe_gen_refs refs tr _ H Hin q Hq).
  - intros s q Hq. apply run_frame. intros c Hc. exact (safe_gen_refs refs tr c H Hc q Hq).
Qed.

(* ---------------- a summary committed through a temporary file is inside the relation ---------------- *)
Lemma check_gen_app refs a : forall h b,
  existsb touches_md a = false -> forallb (fun c => untouched c refs) a = true ->
  check_gen refs h (a ++ b) = check_gen refs (fold_left handles_step a h) b.
Proof.
  induction a as [|x a IH]; intros h b Hno Hu; [reflexivity|].
  cbn in Hno, Hu. apply orb_false_iff in Hno. apply andb_true_iff in Hu.
  cbn [app check_gen fold_left]. rewrite (proj1 Hno), (proj1 Hu). cbn [andb]. apply IH; tauto.
Qed.

Lemma write_file_no_touch p cs : bytes_eqb p md_name = false -> existsb touches_md (write_file p cs) = false.
Proof.
  intros H. unfold write_file. cbn [existsb]. unfold touches_md at 1. cbn [affects]. rewrite H. cbn [orb].
  rewrite existsb_app. cbn [existsb]. unfold touches_md at 2. cbn [affects]. rewrite orb_false_r.
  induction cs as [|c cs IH]; [reflexivity|]. cbn [map existsb]. unfold touches_md at 1. cbn [affects]. rewrite H. exact IH.
Qed.

Theorem tmp_rename_is_safe refs parts tmp md :
  existsb touches_md parts = false -> forallb (fun c => untouched c refs) parts = true ->
  handles_ok (open_handles parts) = true ->                          (* every new part file has been closed *)
  bytes_eqb tmp md_name = false ->
  (forall q, In q refs -> bytes_eqb tmp q = false /\ under tmp q = false /\ under md_name q = false) ->
  safe_gen refs (tmp_commit_trace parts tmp md).
Proof.
  intros Hno Hu Hh Ht Hq. apply check_safe_gen_iff. unfold check_safe_gen, tmp_commit_trace, write_then_rename.
  rewrite (check_gen_app refs parts [] _ Hno Hu). fold (open_handles parts).
  change (OpenW tmp true :: map (Write tmp) md ++ [Close tmp]) with (write_file tmp md).
  rewrite (check_gen_app refs (write_file tmp md)).
  - rewrite handles_write_file. cbn [check_gen].
    assert (Hr : untouched (Rename tmp md_name) refs = true).
    { apply untouched_spec. intros q Hin. cbn. destruct (Hq q Hin) as [_ [A B]]. now rewrite A, B. }
    rewrite Hr. cbn [andb]. unfold touches_md. cbn [affects]. rewrite under_refl, orb_true_r. cbn [forallb]. rewrite andb_true_r.
    cbn [filter]. rewrite bytes_eqb_refl. cbn [negb].
    unfold handles_ok in *. rewrite forallb_forall in *. intros p Hp. apply filter_In in Hp. apply Hh. tauto.
  - now apply write_file_no_touch.
  - apply write_file_untouched. intros q Hin. exact (proj1 (Hq q Hin)).
Qed.

(* ---------------- the general relation contains the stricter ones ---------------- *)
Lemma handles_ok_step h c : handles_ok h = true -> touches_md c = false -> post_ok c = true -> handles_ok (handles_step h c) = true.
Proof.
  unfold handles_ok. intros Hh Ht Hp. destruct c as [p|p t|p d|p|a b|p]; cbn [handles_step]; try exact Hh; try discriminate.
  - cbn [post_ok] in Hp. unfold touches_md in Ht. cbn [affects] in Ht. rewrite Ht in Hp. cbn [orb] in Hp.
    cbn [forallb]. now rewrite Hp, Hh.
  - rewrite forallb_forall in *. intros q Hq. apply filter_In in Hq. apply Hh. tauto.
Qed.

Lemma check_gen_post refs : forall post h, handles_ok h = true ->
  forallb (fun c => untouched c refs && post_ok c) post = true -> check_gen refs h post = true.
Proof.
  induction post as [|c r IH]; intros h Hh H; [reflexivity|].
  cbn [forallb] in H. apply andb_true_iff in H. destruct H as [Hc Hr]. apply andb_true_iff in Hc. destruct Hc as [Hu Hp].
  cbn [check_gen]. rewrite Hu. cbn [andb]. destruct (touches_md c) eqn:Tc.
  - rewrite Hh. cbn [andb]. apply forallb_forall. intros x Hx. rewrite forallb_forall in Hr. specialize (Hr x Hx).
    apply andb_true_iff in Hr. tauto.
  - apply IH; [now apply handles_ok_step | exact Hr].
Qed.

Lemma untouched_md_cmd_refs c refs : untouched c (md_name :: cmd_name :: refs) = true ->
  touches_md c = false /\ untouched c refs = true.
Proof.
  unfold untouched, touches_md. cbn [forallb]. intros H. apply andb_true_iff in H. destruct H as [H1 H]. apply andb_true_iff in H.
  destruct H as [_ H]. split; [now apply negb_true_iff in H1 | exact H].
Qed.

Theorem sym_is_gen refs tr : check_safe_trace_sym refs tr = true -> check_safe_gen refs tr = true.
Proof.
  unfold check_safe_trace_sym, check_safe_gen. pose proof (split_sum_app tr) as E.
  destruct (split_sum tr) as [pre post]. cbn [fst snd] in E. intros H.
  apply andb_true_iff in H. destruct H as [H _]. apply andb_true_iff in H. destruct H as [H H3].
  apply andb_true_iff in H. destruct H as [H1 H2].
  assert (Hno : existsb touches_md pre = false /\ forallb (fun c => untouched c refs) pre = true).
  { clear E H2. induction pre as [|c r IH]; [split; reflexivity|]. cbn [forallb] in H1. apply andb_true_iff in H1. destruct H1 as [Hc Hr].
    destruct (untouched_md_cmd_refs c refs Hc) as [A B]. destruct (IH Hr) as [I1 I2]. cbn [existsb forallb]. now rewrite A, B, I1, I2. }
  destruct Hno as [Hno Hu]. rewrite E, (check_gen_app refs pre [] post Hno Hu).
  apply orb_true_iff in H2. destruct H2 as [H2|H2].
  - destruct post; [reflexivity | discriminate].
  - unfold open_handles in H2. destruct (fold_left handles_step pre []); [|discriminate]. now apply check_gen_post.
Qed.
