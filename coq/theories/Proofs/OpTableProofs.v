(* Proofs about Conc/OpTable.v (C20). *)
From Coq Require Import NArith List Bool String Lia.
From Pq Require Import Conc.Interleave Conc.Footprint Conc.OpTable Proofs.InterleaveProofs Proofs.FootprintProofs.
Import ListNotations.

Section Generic.
Variable V R : Type.
Variable cls : N -> lclass V.
Variable base : store V.
Notation okp := (okp cls base).

Lemma okp_read_all : forall i ks acc (cont : list (option V) -> prog V R) pv kn r pf,
  (forall x, In x ks -> cls x = Frozen) ->
  okp i pv kn (cont (rev acc ++ map base ks)) r pf -> okp i pv kn (read_all ks acc cont) r pf.
Proof.
  intros i. induction ks as [|k ks IH]; intros acc cont pv kn r pf Hm H; cbn [read_all].
  - cbn in H. rewrite app_nil_r in H. exact H.
  - apply p_get_frozen; [apply Hm; left; reflexivity|].
    apply IH; [intros x Hx; apply Hm; right; exact Hx|].
    cbn [rev]. rewrite <- app_assoc. exact H.
Qed.

Lemma okp_memo_compute : forall i k ks g err (cont : V -> prog V R) pv kn r pf,
  cls k = Idem (g (map base ks)) -> (forall x, In x ks -> cls x = Frozen) ->
  (forall kn', okp i pv kn' (cont (g (map base ks))) r pf) -> okp i pv kn (memo_compute k ks g err cont) r pf.
Proof.
  intros i k ks g err cont pv kn r pf M Fz Hc. unfold memo_compute.
  eapply p_get_idem; [exact M| |apply Hc].
  apply okp_read_all; [exact Fz|]. cbn [rev app].
  eapply p_put_idem; [exact M|].
  eapply p_get_known; [exact M| |apply Hc].
  unfold addk. rewrite N.eqb_refl. reflexivity.
Qed.

Lemma okp_peek : forall i k ks g (cont : V -> prog V R) pv kn r pf,
  cls k = Idem (g (map base ks)) -> (forall x, In x ks -> cls x = Frozen) ->
  (forall kn', okp i pv kn' (cont (g (map base ks))) r pf) -> okp i pv kn (peek k ks g cont) r pf.
Proof.
  intros i k ks g cont pv kn r pf M Fz Hc. unfold peek.
  eapply p_get_idem; [exact M| |apply Hc].
  apply okp_read_all; [exact Fz|]. cbn [rev app]. apply Hc.
Qed.
End Generic.

Section RowsP.
Variable V R : Type.
Variable f : N -> list (option V) -> V.
Variable jv : N -> V.
Variable err : R.
Variable out : list (option V) -> R.
Variable base : store V.
Variable tbl : list oprow.
Notation cls := (cls_tbl V f base tbl).
Notation okp := (okp cls base).

Lemma bad_implies_written : forall s, badly_written tbl s = true -> written tbl s = true.
Proof.
  intros s H. unfold badly_written in H. unfold written. apply existsb_exists in H. destruct H as [w [Hin Hw]].
  apply existsb_exists. exists w. split; [exact Hin|]. apply andb_true_iff in Hw. apply Hw.
Qed.

Lemma frozen_slots_frozen : forall x, In x (frozen_slots tbl) -> cls x = Frozen.
Proof.
  intros x H. unfold frozen_slots in H. apply filter_In in H. destruct H as [_ H].
  unfold cls_tbl. destruct (written tbl x) eqn:W; [discriminate|].
  destruct (badly_written tbl x) eqn:B; [apply bad_implies_written in B; congruence|reflexivity].
Qed.

Lemma okp_bad_puts : forall i ws (p : prog V R) pv kn r pf,
  okp i pv kn p r pf -> okp i pv kn (bad_puts V R jv tbl ws p) r pf.
Proof.
  intros i. induction ws as [|[s pat] ws IH]; intros p pv kn r pf H; cbn [bad_puts]; [exact H|].
  destruct (badly_written tbl s) eqn:B; [|apply IH, H].
  eapply p_put_multi; [unfold cls_tbl; rewrite B; reflexivity|exact I|apply IH, H].
Qed.

Lemma row_steps_ok : forall i (r : oprow) reads acc pv kn,
  (forall s, In s reads -> badly_written tbl s = false) ->
  okp i pv kn (row_steps V R f jv err out tbl r reads acc) (out (rev acc ++ row_vals V f base tbl reads)) pv.
Proof.
  intros i r. induction reads as [|s rest IH]; intros acc pv kn Hg; cbn [row_steps row_vals map].
  - rewrite app_nil_r. apply okp_bad_puts. constructor.
  - assert (Hs : badly_written tbl s = false) by (apply Hg; left; reflexivity).
    assert (Hr : forall x, In x rest -> badly_written tbl x = false) by (intros x Hx; apply Hg; right; exact Hx).
    destruct (written tbl s) eqn:W.
    + assert (M : cls s = Idem (f s (map base (frozen_slots tbl)))) by (unfold cls_tbl; rewrite Hs, W; reflexivity).
      assert (Hc : forall kn', okp i pv kn' (row_steps V R f jv err out tbl r rest (Some (f s (map base (frozen_slots tbl))) :: acc))
                                   (out (rev acc ++ Some (f s (map base (frozen_slots tbl))) :: row_vals V f base tbl rest)) pv).
      { intro kn'. specialize (IH (Some (f s (map base (frozen_slots tbl))) :: acc) pv kn' Hr).
        cbn [rev] in IH. rewrite <- app_assoc in IH. exact IH. }
      destruct (writes_slot r s).
      * apply okp_memo_compute; [exact M|apply frozen_slots_frozen|exact Hc].
      * apply okp_peek; [exact M|apply frozen_slots_frozen|exact Hc].
    + apply p_get_frozen; [unfold cls_tbl; rewrite Hs, W; reflexivity|].
      specialize (IH (base s :: acc) pv kn Hr). cbn [rev] in IH. rewrite <- app_assoc in IH. exact IH.
Qed.

(* every operation of a disciplined table is disciplined ([okp] under the classification the table induces), with the
   pure function of the frozen slots as result *)
Theorem row_prog_disciplined : forall i (r : oprow) pv kn,
  table_disciplined tbl = true -> In r tbl ->
  okp i pv kn (row_prog V R f jv err out tbl r) (row_pure V R f out base tbl r) pv.
Proof.
  intros i r pv kn T Hin. unfold row_prog, row_pure.
  unfold table_disciplined in T. rewrite forallb_forall in T. specialize (T r Hin).
  unfold row_ok in T. rewrite forallb_forall in T.
  apply (row_steps_ok i r (or_reads r) [] pv kn).
  intros s Hs. specialize (T s Hs). destruct (badly_written tbl s); [discriminate|reflexivity].
Qed.

(* ... hence any number of threads, each running any operation of the table on the shared handle, EVERY schedule: every
   finished thread holds that pure function *)
Theorem table_ops_confluent : forall (rows : nat -> oprow) (s0 : store V),
  table_disciplined tbl = true -> (forall i, In (rows i) tbl) -> consistentc cls base s0 ->
  forall sched i r,
    result (exec sched (init (fun j => row_prog V R f jv err out tbl (rows j)) s0)) i = Some r ->
    r = row_pure V R f out base tbl (rows i).
Proof.
  intros rows s0 T Hin C sched i r H.
  pose (ps := fun j => row_prog V R f jv err out tbl (rows j)).
  pose (rs := fun j => row_pure V R f out base tbl (rows j)).
  assert (Hok : forall j, okp j s0 nothing (ps j) (rs j) s0) by (intro j; apply row_prog_disciplined; [exact T|apply Hin]).
  destruct (footprint_confluence V R cls base ps rs (fun _ => s0) s0 Hok C sched) as [H1 _].
  destruct (H1 i r H) as [E _]. rewrite E.
  assert (K0 : knows (memo_of cls) nothing s0) by (intros x Hx; discriminate).
  assert (A0 : agree_priv cls i s0 s0) by (intros x Hx; reflexivity).
  destruct (solo_okp V R cls base i s0 nothing (ps i) (rs i) s0 (Hok i) s0 C K0 A0) as [S1 _].
  exact S1.
Qed.
End RowsP.
