From Coq Require Import List Bool Arith String.
From Pq Require Import Impl.RAlias.
Import ListNotations.

(* per-call buffers: whatever the page sequence, no page is decoded over the dictionary *)
Theorem fresh_buffers_keep_dictionary : forall kinds dict,
  match dict with Some (Shared _) => False | _ => True end ->
  dict_intact dict (map (fun k => (k, Fresh)) kinds) = true.
Proof.
  induction kinds as [|k r IH]; intros dict H; [reflexivity|].
  destruct k; cbn [map dict_intact].
  - apply IH. exact I.
  - destruct dict as [[|s]|]; [cbn [same_slot]; apply IH; exact I|contradiction|apply IH; exact I].
Qed.

Theorem empty_inventory_keeps_dictionary : forall escaping kinds,
  escaping = [] -> dict_intact None (map (fun k => (k, origin_of escaping)) kinds) = true.
Proof. intros e kinds ->. cbn [origin_of]. apply fresh_buffers_keep_dictionary. exact I. Qed.

(* one recycled slot: a dictionary page followed by a data page is enough *)
Theorem shared_buffer_refuted : forall f, dict_intact None (map (fun k => (k, origin_of [f])) [KDict; KData]) = false.
Proof. intros f. reflexivity. Qed.
