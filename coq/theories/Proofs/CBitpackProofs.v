(* cencoding.read_bitpacked (impl model) = bit-packing spec for every width 0 < w <= 24, every
   count, every output capacity; and the witnesses of what goes wrong outside that region. *)
From Coq Require Import NArith ZArith Arith List Lia Bool.
From Pq Require Import Base.Bytes Base.Bits Base.Err Base.ListX
  Proofs.BytesProofs Proofs.ListXProofs Proofs.ErrProofs Proofs.CodecProofs
  Codec.Bitpack Impl.CBitpack.
Import ListNotations.
Open Scope N_scope.

(* division facts proved with the euclidean-division hook in SMALL contexts only; the hook is
   switched off again for the invariant proofs (with it, lia on the invariant context explodes) *)
Ltac Zify.zify_post_hook ::= Z.to_euclidean_division_equations.

Lemma fits_iff_gen isz cap n : isz = 1 \/ isz = 4 -> (isz * n + isz <=? cap) = (n <? cap / isz).
Proof.
  intros [E|E]; subst isz.
  - rewrite N.div_1_r. destruct (N.leb_spec (1 * n + 1) cap), (N.ltb_spec n cap); try reflexivity; lia.
  - destruct (N.leb_spec (4 * n + 4) cap), (N.ltb_spec n (cap / 4)); try reflexivity; lia.
Qed.

Lemma wrap_sub8 l : 8 <= l -> l <= 32 -> (l + 248) mod 256 = l - 8.
Proof. intros. lia. Qed.

Lemma wrap_small x : x < 256 -> x mod 256 = x.
Proof. intros. now apply N.mod_small. Qed.

Lemma rb_count_ok g : g < 2 ^ 28 -> rb_count (Z.of_N (2 * g + 1)) = 8 * g.
Proof.
  intros H. unfold rb_count. rewrite Z.shiftr_div_pow2 by lia.
  change (2 ^ 28) with 268435456 in H. change (2 ^ 1)%Z with 2%Z. change (2 ^ 32)%Z with 4294967296%Z. lia.
Qed.

Ltac Zify.zify_post_hook ::= idtac.

Definition tr (isz v : N) : N := if isz =? 4 then v else N.land v 255.
Definition spec_out (w isz S n : N) : list N :=
  map (fun k => tr isz (bp_get w S (N.of_nat k))) (seq 0 (N.to_nat n)).

Lemma spec_out_succ w isz S n : spec_out w isz S (N.succ n) = spec_out w isz S n ++ [tr isz (bp_get w S n)].
Proof.
  unfold spec_out. rewrite N2Nat.inj_succ, seq_S, map_app. cbn [map Nat.add]. now rewrite N2Nat.id.
Qed.

Section Inv.
  Variables (w isz cap S L total : N).
  Hypothesis Hw0 : 0 < w.
  Hypothesis Hw : w <= 24.
  Hypothesis Hisz : isz = 1 \/ isz = 4.
  Hypothesis Hneed : total * w <= 8 * L.
  Let capv := cap / isz.

  (* base = whole bytes already shifted out of the accumulator, k = values emitted, lq = bytes held *)
  Definition inv (s : bst) : Prop :=
    exists base k lq,
      data s = (S / 2 ^ (8 * base)) mod 2 ^ left s /\
      le2n (inp s) = S / 2 ^ (8 * base + left s) /\
      8 * base + right s = k * w /\
      k + cnt s = total /\
      left s = 8 * lq /\ right s <= left s /\ left s <= 32 /\
      bytes_ok (inp s) /\
      used s = base + lq /\
      used s + N.of_nat (length (inp s)) = L /\
      8 * used s < total * w + 8 /\
      nout s = N.min k capv /\
      out s = rev (spec_out w isz S (N.min k capv)).

  (* strictly decreasing: 72 per value still to emit, 2 per pending bit to shift out, 1 per free bit *)
  Definition meas (s : bst) : nat := N.to_nat (72 * cnt s + 2 * right s + (32 - left s)).

  Lemma fits_iff n : (isz * n + isz <=? cap) = (n <? capv).
  Proof. apply fits_iff_gen. exact Hisz. Qed.

  Lemma emit_ok base l r k :
    r + w <= l -> 8 * base + r = k * w ->
    (((S / 2 ^ (8 * base)) mod 2 ^ l) / 2 ^ r) mod 2 ^ w = bp_get w S k.
  Proof.
    intros H1 H2. unfold bp_get.
    rewrite mod_pow_div by lia. rewrite mod_mod_pow by lia.
    rewrite div_div_pow. now rewrite H2.
  Qed.

  Lemma load_ok base l b rest :
    l <= 24 -> b < 256 ->
    b + 256 * rest = S / 2 ^ (8 * base + l) ->
    N.lor ((S / 2 ^ (8 * base)) mod 2 ^ l) (N.land (N.shiftl b l) (N.ones 32))
    = (S / 2 ^ (8 * base)) mod 2 ^ (l + 8).
  Proof.
    intros Hl Hb Hs.
    rewrite shiftl_mul, land_ones_mod.
    assert (Hsmall : b * 2 ^ l < 2 ^ 32).
    { replace 32 with (8 + 24) by lia. rewrite N.pow_add_r.
      assert (2 ^ l <= 2 ^ 24) by (apply N.pow_le_mono_r; lia). change (2 ^ 8) with 256.
      pose proof (pow2_pos l). clear Hs. nia. }
    rewrite (N.mod_small (b * 2 ^ l)) by exact Hsmall.
    rewrite lor_disjoint_add, mod_pow_split.
    rewrite div_div_pow, <- Hs. change (2 ^ 8) with 256.
    replace ((b + 256 * rest) mod 256) with b; [lia|].
    rewrite N.mul_comm, N.mod_add by lia. now rewrite N.mod_small.
  Qed.

  Lemma step_shift s : inv s -> cnt s <> 0 -> 8 < right s ->
    inv {| data := N.shiftr (data s) 8; left := (left s + 248) mod 256; right := right s - 8;
           inp := inp s; used := used s; cnt := cnt s; out := out s; nout := nout s |}.
  Proof.
    intros (base & k & lq & Hd & Hi & Hk & Ht & Hm & Hrl & Hl & Hb & Hu & HL & Hlt & Hn & Ho) Hc Hr.
    exists (base + 1), k, (lq - 1). cbn [data left right inp used cnt out nout].
    rewrite wrap_sub8 by lia.
    repeat split; try lia; try assumption.
    - rewrite shiftr_div, Hd. rewrite mod_pow_div by lia.
      rewrite div_div_pow. f_equal. f_equal. f_equal. lia.
    - rewrite Hi. f_equal. f_equal. lia.
  Qed.

  Lemma step_load s b r : inv s -> cnt s <> 0 -> right s <= 8 -> left s < right s + w -> inp s = b :: r ->
    left s < 32 /\
    inv {| data := N.lor (data s) (N.land (N.shiftl b (left s)) (N.ones 32));
           left := (left s + 8) mod 256; right := right s;
           inp := r; used := used s + 1; cnt := cnt s; out := out s; nout := nout s |}.
  Proof.
    intros (base & k & lq & Hd & Hi & Hk & Ht & Hm & Hrl & Hl & Hb & Hu & HL & Hlt & Hn & Ho) Hc Hr Hlw Ei.
    assert (Hl24 : left s <= 24) by lia.
    split; [lia|].
    exists base, k, (lq + 1). cbn [data left right inp used cnt out nout].
    rewrite wrap_small by lia.
    rewrite Ei in Hb, Hi, HL. pose proof (Forall_inv Hb) as Hb1. pose proof (Forall_inv_tail Hb) as Hb2. cbv beta in Hb1.
    rewrite le2n_cons in Hi. cbn [length] in HL.
    assert (Hk1 : (k + 1) * w <= total * w) by (apply N.mul_le_mono_r; lia).
    repeat split; try lia; try assumption.
    - rewrite Hd. eapply load_ok; eauto.
    - replace (8 * base + (left s + 8)) with ((8 * base + left s) + 8) by lia.
      rewrite <- div_div_pow. rewrite <- Hi. change (2 ^ 8) with 256.
      rewrite N.mul_comm, N.div_add by lia. rewrite N.div_small by assumption. reflexivity.
  Qed.

  Lemma load_has_input s : inv s -> cnt s <> 0 -> left s < right s + w -> inp s <> [].
  Proof.
    intros (base & k & lq & Hd & Hi & Hk & Ht & Hm & Hrl & Hl & Hb & Hu & HL & Hlt & Hn & Ho) Hc Hlw E.
    rewrite E in HL. cbn [length] in HL.
    assert (Hk1 : (k + 1) * w <= total * w) by (apply N.mul_le_mono_r; lia).
    lia.
  Qed.

  Lemma step_emit s : inv s -> cnt s <> 0 -> right s <= 8 -> right s + w <= left s ->
    inv {| data := data s; left := left s; right := (right s + w) mod 256;
           inp := inp s; used := used s; cnt := cnt s - 1;
           out := if nout s <? capv then tr isz (N.land (N.shiftr (data s) (right s)) (N.ones w)) :: out s else out s;
           nout := if nout s <? capv then nout s + 1 else nout s |}.
  Proof.
    intros (base & k & lq & Hd & Hi & Hk & Ht & Hm & Hrl & Hl & Hb & Hu & HL & Hlt & Hn & Ho) Hc Hr Hlw.
    exists base, (k + 1), lq. cbn [data left right inp used cnt out nout].
    rewrite wrap_small by lia.
    repeat split; try lia; try assumption.
    - destruct (N.ltb_spec (nout s) capv) as [Hf|Hf]; lia.
    - destruct (N.ltb_spec (nout s) capv) as [Hf|Hf].
      + replace (N.min (k + 1) capv) with (N.succ (N.min k capv)) by lia.
        rewrite spec_out_succ, rev_app_distr. cbn [rev app]. rewrite <- Ho. f_equal.
        replace (N.min k capv) with k by lia.
        rewrite shiftr_div, land_ones_mod, Hd.
        rewrite (emit_ok base (left s) (right s) k) by lia.
        reflexivity.
      + replace (N.min (k + 1) capv) with (N.min k capv) by lia. exact Ho.
  Qed.

  Lemma inv_bounds s : inv s -> right s <= left s /\ left s <= 32.
  Proof. intros (base & k & lq & H). lia. Qed.

  Lemma step_inv s : inv s -> rb_done s = false ->
    exists s', rb_step w isz cap (N.ones w) s = Ok s' /\ inv s' /\ (meas s' < meas s)%nat.
  Proof.
    intros Hinv Hc.
    unfold rb_done in Hc. apply N.eqb_neq in Hc.
    destruct (inv_bounds s Hinv) as [Hrl Hl32].
    unfold rb_step.
    destruct (N.ltb_spec 8 (right s)) as [Hr|Hr].
    - eexists; split; [reflexivity|]. split.
      + now apply step_shift.
      + unfold meas. cbn [left right cnt]. rewrite wrap_sub8 by lia. lia.
    - destruct (Z.ltb_spec (Z.of_N (left s) - Z.of_N (right s)) (Z.of_N w)) as [Hlw|Hlw].
      + destruct (inp s) as [|b r] eqn:Ei.
        * exfalso. apply (load_has_input s Hinv Hc); [lia|exact Ei].
        * destruct (step_load s b r Hinv Hc Hr ltac:(lia) Ei) as [Hlt Hinv'].
          destruct (N.leb_spec 32 (left s)) as [Hub|_]; [lia|].
          eexists; split; [reflexivity|]. split; [exact Hinv'|].
          unfold meas. cbn [left right cnt]. rewrite wrap_small by lia. lia.
      + rewrite fits_iff.
        eexists; split; [reflexivity|]. split.
        * assert (H := step_emit s Hinv Hc Hr ltac:(lia)). unfold tr in H.
          destruct (nout s <? capv); exact H.
        * unfold meas. cbn [left right cnt]. rewrite wrap_small by lia. lia.
  Qed.
End Inv.

Lemma pow2_62 : (2 ^ 62)%nat = N.to_nat (2 ^ 62).
Proof. rewrite N2Nat.inj_pow. reflexivity. Qed.

Lemma fuel_le (x : N) : x <= 2 ^ 62 -> (N.to_nat x <= 2 ^ depth big_fuel)%nat.
Proof. intros H. rewrite depth_big_fuel, pow2_62. change (2 ^ 62) with 4611686018427387904 in *. lia. Qed.

Lemma spec_out_dec w isz n b :
  spec_out w isz (le2n b) n = map (tr isz) (bp_dec w n b).
Proof.
  unfold spec_out, bp_dec. rewrite bp_unpack_ref, le2n_tr_ok. unfold bp_dec_ref. now rewrite map_map.
Qed.

(* MAIN THEOREM.  A bit-packed run of `g` groups (8g values) of width 0 < w <= 24, with the g*w
   bytes of the run present: the C loop never reads outside the input, never shifts by >= 32,
   stores exactly min(8g, capacity) values - the spec values, in order - and leaves the input
   cursor exactly behind the run. *)
Theorem read_bitpacked_correct w g isz cap input :
  0 < w <= 24 -> isz = 1 \/ isz = 4 -> ~ (w = 1 /\ isz = 1) ->
  0 < g < 2 ^ 28 -> bytes_ok input -> g * w <= N.of_nat (length input) ->
  c_read_bitpacked input (Z.of_N (2 * g + 1)) w cap isz =
  Ok {| d_vals := map (tr isz) (bp_dec w (N.min (8 * g) (cap / isz)) input);
        d_used := g * w;
        d_written := isz * N.min (8 * g) (cap / isz) |}.
Proof.
  intros [Hw0 Hw] Hisz Hnot1 [Hg0 Hg] Hok Hlen.
  unfold c_read_bitpacked. rewrite rb_count_ok by exact Hg.
  assert (E1 : (w =? 1) && (isz =? 1) = false).
  { destruct (N.eqb_spec w 1), (N.eqb_spec isz 1); try reflexivity. exfalso. apply Hnot1. now split. }
  rewrite E1.
  destruct (N.leb_spec 32 w) as [Hbad|_]; [lia|].
  destruct input as [|b0 r].
  { exfalso. cbn [length] in Hlen. assert (1 * 1 <= g * w) by (apply N.mul_le_mono; lia). lia. }
  set (S := le2n (b0 :: r)).
  set (L := N.of_nat (length (b0 :: r))).
  set (s0 := {| data := b0; left := 8; right := 0; inp := r; used := 1; cnt := 8 * g; out := []; nout := 0 |}).
  assert (Hneed : 8 * g * w <= 8 * L) by (unfold L; lia).
  inversion Hok as [|? ? Hb0 Hr]; subst.
  assert (Hpos : 0 < g * w) by (apply N.mul_pos_pos; lia).
  assert (Hinv0 : inv w isz cap S L (8 * g) s0).
  { exists 0, 0, 1. unfold s0. cbn [data left right inp used cnt out nout].
    repeat split; try lia; try assumption.
    - rewrite N.mul_0_r, N.pow_0_r, N.div_1_r. unfold S. rewrite le2n_cons. change (2 ^ 8) with 256.
      rewrite N.mul_comm, N.mod_add by lia. now rewrite N.mod_small.
    - unfold S. rewrite le2n_cons. replace (8 * 0 + 8) with 8 by lia. change (2 ^ 8) with 256.
      rewrite N.mul_comm, N.div_add by lia. now rewrite N.div_small.
    - unfold L. cbn [length]. lia.
    - now rewrite N.min_0_l.
    - rewrite N.min_0_l. reflexivity. }
  destruct (run_loop_inv bst rb_done (rb_step w isz cap (N.ones w)) (inv w isz cap S L (8 * g))
              (fun s => meas s) big_fuel
              (step_inv w isz cap S L (8 * g) Hw0 Hw Hisz Hneed) s0 Hinv0) as (s' & Hrun & Hinv' & Hdone).
  { unfold meas, s0. cbn [cnt right left]. apply fuel_le.
    change (2 ^ 28) with 268435456 in Hg. change (2 ^ 62) with 4611686018427387904. lia. }
  rewrite Hrun.
  destruct Hinv' as (base & k & lq & Hd & Hi & Hk & Ht & Hm & Hrl & Hl & Hb & Hu & HL & Hlt & Hn & Ho).
  unfold rb_done in Hdone. apply N.eqb_eq in Hdone.
  assert (k = 8 * g) by lia. subst k.
  f_equal. f_equal.
  - rewrite rev_append_rev, app_nil_r, Ho, rev_involutive. unfold S. apply spec_out_dec.
  - lia.
  - rewrite Hn. reflexivity.
Qed.

(* ---- what goes wrong outside the proved region (witnesses computed in the kernel) ---- *)
Lemma read_bitpacked_w25_ub : exists w g isz cap input,
  0 < w <= 32 /\ (isz = 1 \/ isz = 4) /\ ~ (w = 1 /\ isz = 1) /\
  0 < g < 2 ^ 28 /\ bytes_ok input /\ g * w <= N.of_nat (length input) /\
  c_read_bitpacked input (Z.of_N (2 * g + 1)) w cap isz = UB.
Proof.
  exists 25, 2, 4, 64, (repeat 255 50).
  repeat split; try (vm_compute; congruence); try (right; reflexivity).
  - intros [E _]; discriminate E.
  - apply Forall_forall. intros x Hx. apply repeat_spec in Hx. subst. reflexivity.
Qed.

Lemma read_bitpacked_empty_run : exists w isz cap input,
  0 < w <= 24 /\ (isz = 1 \/ isz = 4) /\ ~ (w = 1 /\ isz = 1) /\ bytes_ok input /\
  c_read_bitpacked input 1 w cap isz = Ok {| d_vals := []; d_used := 1; d_written := 0 |}.
Proof.
  exists 3, 4, 32, [7].
  repeat split; try (vm_compute; congruence); try (right; reflexivity).
  - intros [E _]; discriminate E.
  - repeat constructor.
Qed.
