(* Proofs about read_col AS IT IS NOW (Impl/CAssemble.v read_col_v1_py: the leading continuation of
   a page is appended by read_col itself, _assemble_objects is only called at a row boundary):
   for EVERY cut of an accepted stream into aligned pages - no guard, empty pages allowed - the
   chunk read returns the rows.  The two .pyx defects of _assemble_objects are still there
   (C15_pages_exact is about the call shape before this fix) but read_col no longer reaches them. *)
From Coq Require Import NArith Arith List Bool Lia.
From Pq Require Import Format.Nested Impl.CAssemble Proofs.NestedProofs Proofs.NestedInvProofs
  Proofs.CAssembleProofs Proofs.CAssemblePagesProofs.
Import ListNotations.
Open Scope N_scope.

Section Py.
Variable V : Type.
Variable sh : shape.

Notation null := (row_opt sh).
Notation md := (max_def sh).

Lemma lead_split_app : forall es, fst (lead_split es) ++ snd (lead_split es) = es.
Proof.
  induction es as [|[r d] t IH]; [reflexivity|]. cbn [lead_split].
  destruct (r =? 0); [reflexivity|]. destruct (lead_split t) as [l rest]. cbn [fst snd app] in *.
  rewrite IH. reflexivity.
Qed.

Lemma lead_split_rest : forall es, match snd (lead_split es) with [] => True | (r, _) :: _ => (r =? 0) = true end.
Proof.
  induction es as [|[r d] t IH]; [exact I|]. cbn [lead_split].
  destruct (r =? 0) eqn:R; [cbn [snd]; exact R|]. destruct (lead_split t) as [l rest]. exact IH.
Qed.

(* the spec FSM over the leading continuation = what lead_items computes *)
Lemma lead_spec : forall es (l0 : list (elem V)) (lv w : list V) tailE out,
  length lv = count_md md es ->
  asm sh (Some l0) (es ++ tailE) (lv ++ w) = Some out ->
  exists items lv',
    lead_items null md (fst (lead_split es)) lv = Some (items, lv') /\
    asm sh (Some (l0 ++ items)) (snd (lead_split es) ++ tailE) (lv' ++ w) = Some out /\
    length lv' = count_md md (snd (lead_split es)) /\
    (fst (lead_split es) <> [] -> l0 <> []).
Proof.
  pose proof (max_def_gt sh) as G.
  induction es as [|[r d] t IH]; intros l0 lv w tailE out Hl Ha.
  - exists [], lv. cbn [lead_split fst snd lead_items]. rewrite app_nil_r. repeat split; auto; try (intros C; contradiction).
  - cbn [lead_split]. destruct (r =? 0) eqn:R0.
    + exists [], lv. cbn [fst snd lead_items]. rewrite app_nil_r. repeat split; auto; try (intros C; contradiction).
    + destruct (lead_split t) as [l rest] eqn:Es. cbn [fst snd].
      cbn [app asm] in Ha. rewrite R0 in Ha. destruct (r =? 1); [|discriminate].
      destruct (cont_row sh (Some l0) d (lv ++ w)) as [[c vs']|] eqn:Ec; [|discriminate].
      destruct (cont_row_inv V sh _ _ _ _ _ Ec) as (L & x & EL & NL & -> & -> & Ev & Ok).
      injection EL as <-.
      destruct (elem_def_cont V sh x Ok) as [E1 E2].
      cbn [count_md] in Hl. rewrite E1 in Hl. cbn [lead_items]. rewrite E1.
      destruct x as [v|]; cbn [is_some elem_values app] in *.
      * destruct lv as [|v0 lv1]; [discriminate|]. cbn [app] in Ev. injection Ev as -> <-.
        cbn [length] in Hl.
        destruct (IH (l0 ++ [Some v]) lv1 w tailE out ltac:(lia) Ha) as (items & lv' & I1 & I2 & I3 & I4).
        cbn [fst snd] in I1, I2, I3.
        exists (Some v :: items), lv'. rewrite I1. cbn [option_map fst snd].
        rewrite <- app_assoc in I2. repeat split; auto.
      * subst vs'. specialize (E2 eq_refl). apply andb_prop in E2. destruct E2 as [E2 _].
        assert (((if null then 1 else 0) <? elem_def sh (@None V)) = true) as -> by exact E2.
        destruct (IH (l0 ++ [None]) lv w tailE out Hl Ha) as (items & lv' & I1 & I2 & I3 & I4).
        cbn [fst snd] in I1, I2, I3.
        exists (None :: items), lv'. rewrite I1. cbn [option_map fst snd].
        rewrite <- app_assoc in I2. repeat split; auto.
Qed.

Definition PstartPy (later : list (page V)) : Prop :=
  forall (pre : arr V) cur out,
    asm sh cur (later_entries V later) (later_vals V later) = Some out ->
    pages_aligned sh later = true ->
    read_col_v1_py null md (pre ++ cur :: repeat None (length out - 1)) (S (length pre)) later
    = AOk (pre ++ out).

(* the rest of a page, which starts a row, handed to _assemble_objects; then the later pages *)
Lemma rest_of_page : forall t, PstartPy t -> pages_aligned sh t = true ->
  forall r d es lv (pre : arr V) cur out, (r =? 0) = true ->
    length lv = count_md md ((r, d) :: es) ->
    asm sh cur (((r, d) :: es) ++ later_entries V t) (lv ++ later_vals V t) = Some out ->
    match assemble_page null md (pre ++ cur :: repeat None (length out - 1)) (S (length pre)) ((r, d) :: es, lv) with
    | AOk (a2, i) => read_col_v1_py null md a2 (S i) t
    | AErr x => AErr x
    end = AOk (pre ++ out).
Proof.
  intros t PS Al r d es lv pre cur out R0 Hl Ha.
  set (K := fun (a' : arr V) (i : nat) => read_col_v1_py null md a' (S i) t).
  assert (E : match assemble_page null md (pre ++ cur :: repeat None (length out - 1)) (S (length pre)) ((r, d) :: es, lv) with
              | AOk (a2, i) => read_col_v1_py null md a2 (S i) t
              | AErr x => AErr x
              end = run_fromK V sh K (mkSt (S (length pre)) [] false false 0 lv (pre ++ cur :: repeat None (length out - 1))) ((r, d) :: es)).
  { unfold assemble_page, run_fromK, finish_page. cbn [fst snd].
    destruct (run_steps null md _ ((r, d) :: es)) as [s'|x]; [|reflexivity].
    destruct (s_started s').
    - destruct (write_row _ _ _); reflexivity.
    - destruct (extend_prev _ _ _); reflexivity. }
  rewrite E. clear E.
  rewrite run_fromK_cons. unfold step. rewrite R0. unfold new_row.
  cbn [s_started s_vali s_i s_part s_have_null s_vals s_arr]. change (0 <? 0) with false. cbv iota.
  cbn [app asm] in Ha. rewrite R0 in Ha.
  destruct (open_row sh d (lv ++ later_vals V t)) as [[c vs']|] eqn:Eo; [|discriminate].
  destruct (asm sh c (es ++ later_entries V t) vs') as [out'|] eqn:Ea; [|discriminate].
  injection Ha as <-. cbn [length Nat.sub]. rewrite Nat.sub_0_r.
  assert (Hv : (d =? md) = true -> lv <> []).
  { intros E. cbn [count_md] in Hl. rewrite E in Hl. destruct lv; [discriminate|discriminate]. }
  destruct (add_level_open V sh d lv _ c vs' (S (length pre)) true false 0
             (pre ++ cur :: repeat None (length out')) Eo Hv)
    as (part' & hn' & vali' & lv' & E1 & E2 & E3 & E4).
  rewrite E1. subst vs'.
  rewrite (app_cons_assoc pre _ (repeat None (length out'))). rewrite (app_cons_assoc pre _ out').
  apply (in_page_startedK V sh (fun res exp => res = AOk exp) K t) with (cur := c).
  - intros pre0 cur0 out0 Ha0. exact (PS pre0 cur0 out0 Ha0 Al).
  - rewrite app_length. cbn. lia.
  - exact E2.
  - cbn [count_md] in Hl. destruct (d =? md); lia.
  - exact Ea.
Qed.

Lemma start_all_py : forall later, PstartPy later.
Proof.
  induction later as [|p t IH]; unfold PstartPy; intros pre cur out Ha Al.
  - cbn [later_entries later_vals map concat asm] in Ha. injection Ha as <-.
    cbn [read_col_v1_py length Nat.sub repeat]. reflexivity.
  - cbn [pages_aligned forallb] in Al. apply andb_prop in Al. destruct Al as [Ap Al].
    unfold later_entries, later_vals in Ha. cbn [map concat] in Ha.
    fold (later_entries V t) in Ha. fold (later_vals V t) in Ha.
    unfold page_aligned in Ap. apply Nat.eqb_eq in Ap.
    destruct p as [es lv]. cbn [fst snd] in *.
    cbn [read_col_v1_py fst snd].
    pose proof (lead_split_app es) as Sp. pose proof (lead_split_rest es) as Sr.
    destruct (lead_split es) as [lead rest] eqn:Es. cbn [fst snd] in Sp, Sr.
    destruct lead as [|e0 lead'].
    + (* the page starts at a row boundary (or is empty) *)
      cbn [app] in Sp. subst rest.
      destruct es as [|[r d] es'].
      * destruct lv; [|discriminate]. cbn [app] in Ha. exact (IH pre cur out Ha Al).
      * exact (rest_of_page t IH Al r d es' lv pre cur out Sr Ap Ha).
    + (* the page begins with the rest of the previous row *)
      assert (exists l0, cur = Some l0) as [l0 ->].
      { rewrite <- Sp in Ha. destruct e0 as [r0 d0]. cbn [app asm] in Ha.
        assert (R : (r0 =? 0) = false).
        { destruct es as [|[r d] t']; [discriminate|]. cbn [lead_split] in Es.
          destruct (r =? 0) eqn:R; [discriminate|]. destruct (lead_split t'). injection Es as <- _ _. exact R. }
        rewrite R in Ha. destruct (r0 =? 1); [|discriminate]. destruct cur as [l0|]; [eauto|discriminate]. }
      destruct (lead_spec es l0 lv (later_vals V t) (later_entries V t) out Ap Ha) as (items & lv' & I1 & I2 & I3 & I4).
      rewrite Es in I1, I2, I3, I4. cbn [fst snd] in I1, I2, I3, I4.
      rewrite I1. rewrite extend_prev_app. rewrite rev_involutive.
      destruct rest as [|[r d] rest'].
      * cbn [app] in I2. destruct lv'; [|discriminate]. cbn [app] in I2.
        pose proof (IH pre (Some (l0 ++ items)) out I2 Al) as P. exact P.
      * exact (rest_of_page t IH Al r d rest' lv' pre (Some (l0 ++ items)) out Sr I3 I2).
Qed.

Lemma first_pages_py : forall (pages : list (page V)) es vs rows,
  assemble_spec sh es vs = Some rows ->
  pages_stream pages = (es, vs) -> pages_aligned sh pages = true ->
  read_col_v1_py null md (empty_arr (length rows)) 0 pages = AOk rows.
Proof.
  induction pages as [|p t IH]; intros es vs rows Ha Hs Al.
  - unfold pages_stream in Hs. cbn in Hs. injection Hs as <- <-. cbn in Ha. injection Ha as <-. reflexivity.
  - cbn [pages_aligned forallb] in Al. apply andb_prop in Al. destruct Al as [Ap Al].
    unfold page_aligned in Ap. apply Nat.eqb_eq in Ap.
    unfold pages_stream in Hs. destruct p as [pes lv]. cbn [fst snd map concat] in *.
    injection Hs as <- <-.
    destruct pes as [|[r d] pes].
    + destruct lv; [|discriminate]. cbn [app] in Ha.
      cbn [read_col_v1_py fst snd lead_split]. apply (IH _ _ rows Ha); [reflexivity|exact Al].
    + cbn [app assemble_spec] in Ha.
      destruct (r =? 0) eqn:R0; [|discriminate].
      fold (later_entries V t) in Ha. fold (later_vals V t) in Ha.
      destruct (open_row sh d (lv ++ later_vals V t)) as [[c vs']|] eqn:Eo; [|discriminate].
      cbn [read_col_v1_py fst snd lead_split]. rewrite R0.
      (* as rest_of_page, but the very first row: nothing is in the array yet *)
      set (K := fun (a' : arr V) (i : nat) => read_col_v1_py null md a' (S i) t).
      assert (E : match assemble_page null md (empty_arr (length rows)) 0 ((r, d) :: pes, lv) with
                  | AOk (a2, i) => read_col_v1_py null md a2 (S i) t
                  | AErr x => AErr x
                  end = run_fromK V sh K (mkSt 0%nat [] false false 0 lv (empty_arr (length rows))) ((r, d) :: pes)).
      { unfold assemble_page, run_fromK, finish_page. cbn [fst snd].
        destruct (run_steps null md _ ((r, d) :: pes)) as [s'|x]; [|reflexivity].
        destruct (s_started s').
        - destruct (write_row _ _ _); reflexivity.
        - destruct (extend_prev _ _ _); reflexivity. }
      refine (eq_trans E _). clear E.
      rewrite run_fromK_cons. unfold step. rewrite R0. unfold new_row.
      cbn [s_started s_vali s_i s_part s_have_null s_vals s_arr]. change (0 <? 0) with false. cbv iota.
      assert (Hv : (d =? md) = true -> lv <> []).
      { intros E. cbn [count_md] in Ap. rewrite E in Ap. destruct lv; [discriminate|discriminate]. }
      destruct (add_level_open V sh d lv _ c vs' 0%nat true false 0 (empty_arr (length rows)) Eo Hv)
        as (part' & hn' & vali' & lv' & E1 & E2 & E3 & E4).
      rewrite E1. subst vs'. unfold empty_arr.
      change (repeat None (length rows)) with ([] ++ repeat (@None (list (elem V))) (length rows)).
      apply (in_page_startedK V sh (fun res exp => res = AOk exp) K t) with (cur := c).
      * intros pre0 cur0 out0 Ha0. exact (start_all_py t pre0 cur0 out0 Ha0 Al).
      * reflexivity.
      * exact E2.
      * cbn [count_md] in Ap. destruct (d =? md); lia.
      * exact Ha.
Qed.

(* the FULL statement of the property's quantifier for read_col as it is now *)
Theorem pages_v1_full : forall (es : list entry) (vs : list V) rows (pages : list (page V)),
  assemble_spec sh es vs = Some rows ->
  pages_stream pages = (es, vs) -> pages_aligned sh pages = true ->
  run_v1_py sh (length rows) pages = AOk rows.
Proof.
  intros es vs rows pages Ha Hs Al. unfold run_v1_py. rewrite call_null_shape, sch_max_def_shape.
  exact (first_pages_py pages es vs rows Ha Hs Al).
Qed.

End Py.

Example py_on_witnesses :
  run_v1_py (mkShape true true) 2 w1_pages = AOk w1_rows /\
  run_v1_py (mkShape true true) 2 w2_pages = AOk w2_rows.
Proof. vm_compute. split; reflexivity. Qed.
