From Coq Require Import NArith Arith List Bool Lia.
From Pq Require Import Dataset.CatRead.
Import ListNotations.

Lemma final_labels_same d chunks : forall init, Forall (fun ch => fst ch = Some d) chunks -> chunks <> [] ->
  final_labels init chunks = d.
Proof.
  unfold final_labels. induction chunks as [|ch r IH]; intros init H Hne; [congruence|].
  inversion H as [|x l Hx Hr]; subst. cbn [fold_left]. rewrite Hx. destruct r as [|ch' r'].
  - reflexivity.
  - apply IH; [exact Hr | discriminate].
Qed.

(* when every row group carries the same dictionary the read is right *)
Theorem read_cat_same_labels d init chunks : Forall (fun ch => fst ch = Some d) chunks ->
  read_cat init chunks = expected_cat chunks.
Proof.
  intros H. destruct chunks as [|ch r]; [reflexivity|].
  unfold read_cat. rewrite (final_labels_same d (ch :: r) init H) by discriminate.
  unfold expected_cat. clear init. induction H as [|x l Hx _ IH]; [reflexivity|].
  cbn [map concat]. rewrite map_app, IH, Hx. reflexivity.
Qed.

(* ... and wrong as soon as two row groups carry different dictionaries *)
Theorem read_cat_relabel_refuted :
  exists init chunks, read_cat init chunks <> expected_cat chunks
    /\ (forall ch, In ch chunks -> exists d, fst ch = Some d /\ forall c, In (Some c) (snd ch) -> c < length d)%nat.
Proof.
  exists [], [(Some [1%N], [Some 0%nat]); (Some [2%N], [Some 0%nat])]. split; [vm_compute; discriminate|].
  intros ch [H|[H|[]]]; subst ch; eexists; (split; [reflexivity|]); intros c [E|[]]; inversion E; cbn; lia.
Qed.
