(* C04 / C05 — what exactness adds to "valid bounds", for BYTE_ARRAY / UTF8 columns (lex_leb).

   C05 (pruning) needs only: min is a lower bound, max is an upper bound of the stored values.
   C04 (exact statistics) needs in addition that min and max ARE stored values.  A writer that cuts a long
   text/binary statistic to a prefix keeps the first for min (a prefix sorts below), breaks the second for
   both, and breaks the first for max (the cut max is below the stored max).                              *)
From Coq Require Import NArith List Bool Lia.
From Pq Require Import Base.Bytes Impl.Stats Proofs.BytesProofs Proofs.StatsProofs.
Import ListNotations.

Local Notation all := (fun _ : bytes => true).

(* "valid bounds": what the pruning of C05 relies on *)
Definition valid_bounds (l : cells bytes) (st : stats bytes) : Prop :=
  (forall mn, s_min st = Some mn -> is_lower bytes lex_leb all l mn) /\
  (forall mx, s_max st = Some mx -> is_upper bytes lex_leb all l mx).

(* exactness implies validity (the direction C05 uses C04 in) *)
Lemma exact_valid_bounds l st : exact bytes lex_leb all l st -> valid_bounds l st.
Proof.
  intros [_ [Hmin [Hmax _]]]. split.
  - intros mn E. exact (proj2 (Hmin mn E)).
  - intros mx E. exact (proj2 (Hmax mx E)).
Qed.

(* exactness on byte strings: min and max are stored values themselves (the order is antisymmetric) *)
Lemma exact_stored_values l st : exact bytes lex_leb all l st ->
  (forall mn, s_min st = Some mn -> In (Some mn) l) /\ (forall mx, s_max st = Some mx -> In (Some mx) l).
Proof.
  intros [_ [Hmin [Hmax _]]]. split.
  - intros mn E. destruct (Hmin mn E) as [[x [[Hx _] [A B]]] _].
    rewrite (lex_leb_antisym mn x A B). exact Hx.
  - intros mx E. destruct (Hmax mx E) as [[x [[Hx _] [A B]]] _].
    rewrite (lex_leb_antisym mx x A B). exact Hx.
Qed.

(* ... and they are unique: two exact statistics of one chunk carry the same min and the same max *)
Lemma exact_unique l st1 st2 mn1 mn2 mx1 mx2 :
  exact bytes lex_leb all l st1 -> exact bytes lex_leb all l st2 ->
  s_min st1 = Some mn1 -> s_min st2 = Some mn2 -> s_max st1 = Some mx1 -> s_max st2 = Some mx2 ->
  mn1 = mn2 /\ mx1 = mx2.
Proof.
  intros E1 E2 A1 A2 B1 B2.
  destruct (exact_stored_values l st1 E1) as [I1 J1]. destruct (exact_stored_values l st2 E2) as [I2 J2].
  destruct E1 as [_ [L1 [U1 _]]]. destruct E2 as [_ [L2 [U2 _]]].
  assert (M : forall x, In (Some x) l -> member bytes all l x) by (intros x Hx; split; [exact Hx|reflexivity]).
  split.
  - apply lex_leb_antisym.
    + exact (proj2 (L1 mn1 A1) mn2 (M _ (I2 mn2 A2))).
    + exact (proj2 (L2 mn2 A2) mn1 (M _ (I1 mn1 A1))).
  - apply lex_leb_antisym.
    + exact (proj2 (U2 mx2 B2) mx1 (M _ (J1 mx1 B1))).
    + exact (proj2 (U1 mx1 B1) mx2 (M _ (J2 mx2 B2))).
Qed.

(* ---- prefixes ---- *)
Lemma lex_prefix_le (p t : bytes) : lex_leb p (p ++ t) = true.
Proof.
  induction p as [|x p IH]; [reflexivity|]. cbn [app lex_leb].
  rewrite N.ltb_irrefl. exact IH.
Qed.

Lemma lex_prefix_strict (p t : bytes) : t <> [] -> lex_leb (p ++ t) p = false.
Proof.
  intros Ht. induction p as [|x p IH].
  - destruct t; [congruence|reflexivity].
  - cbn [app lex_leb]. rewrite N.ltb_irrefl. exact IH.
Qed.

(* a statistic cut to a strict prefix p of the only stored value p ++ t:
   as MIN it is still a valid lower bound, as MAX it is not an upper bound, and in neither role is it exact *)
Theorem prefix_min_valid_not_exact (p t : bytes) : t <> [] ->
  let l := [Some (p ++ t)] in
  valid_bounds l (mk_stats (Some p) (Some (p ++ t)) 0) /\
  ~ exact bytes lex_leb all l (mk_stats (Some p) (Some (p ++ t)) 0) /\
  check_stats bytes lex_leb all l (mk_stats (Some p) (Some (p ++ t)) 0) = false.
Proof.
  intros Ht l. assert (NE : ~ exact bytes lex_leb all l (mk_stats (Some p) (Some (p ++ t)) 0)).
  { intros E. destruct (exact_stored_values _ _ E) as [I _]. specialize (I p eq_refl).
    destruct I as [I|[]]. injection I as I. apply (f_equal (@List.length N)) in I. rewrite app_length in I.
    destruct t; [congruence|cbn in I; lia]. }
  split; [|split; [exact NE|]].
  - split; cbn [s_min s_max].
    + intros mn E. injection E as <-. intros x [[Hx|[]] _]. injection Hx as <-. apply lex_prefix_le.
    + intros mx E. injection E as <-. intros x [[Hx|[]] _]. injection Hx as <-. apply lex_leb_refl.
  - destruct (check_stats bytes lex_leb all l _) eqn:C; [|reflexivity].
    exfalso. exact (NE (check_stats_sound _ _ _ _ _ C)).
Qed.

Theorem prefix_max_not_a_bound (p t : bytes) : t <> [] ->
  ~ is_upper bytes lex_leb all [Some (p ++ t)] p.
Proof.
  intros Ht U. specialize (U (p ++ t) (conj (or_introl eq_refl) eq_refl)).
  rewrite (lex_prefix_strict p t Ht) in U. discriminate.
Qed.
