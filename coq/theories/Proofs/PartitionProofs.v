(* Proofs about Impl/Partition.v (property C08): text round trips of partition values, the
   group-by split, path construction / path analysis, list.index lookup.                       *)
From Coq Require Import Decimal DecimalString DecimalZ.
From Coq Require Import NArith ZArith Bool Ascii String Arith Lia Permutation List.
From Pq Require Import Base.Bytes Proofs.BytesProofs Impl.Partition Proofs.PartitionStr.
Import ListNotations.

Section PartitionP.
  Variables F T D : Type.
  Variable feqb : F -> F -> bool.
  Variable teqb : T -> T -> bool.
  Variable deqb : D -> D -> bool.
  Variable f_eq_Z : F -> Z -> bool.
  Variable show_float : F -> str.
  Variable parse_float : bool -> str -> option F.
  Variable show_time_iso show_time_str : T -> str.
  Variable parse_time_np : bool -> str -> option T.
  Variable parse_time_fmt parse_time_pd : str -> option T.
  Variable parse_delta : str -> option D.
  Hypothesis feqb_spec : forall a b, reflect (a = b) (feqb a b).
  Hypothesis teqb_spec : forall a b, reflect (a = b) (teqb a b).
  Hypothesis deqb_spec : forall a b, reflect (a = b) (deqb a b).

  Notation value := (value F T D).
  Notation show := (show F T D show_float show_time_iso show_time_str).
  Notation veqb := (veqb F T D feqb teqb deqb f_eq_Z).
  Notation parse_with_meta := (parse_with_meta F T D parse_float parse_time_np parse_time_fmt).
  Notation parse_base := (parse_base F T D parse_float parse_time_np parse_time_fmt).
  Notation parse_guess := (parse_guess F T D parse_float parse_time_pd parse_delta).
  Notation val_to_num := (val_to_num F T D parse_float parse_time_np parse_time_fmt parse_time_pd parse_delta).

  (* ---------------------------------------------------------------- text round trips *)
  (* the value the reader is expected to rebuild: a categorical yields its label *)
  Definition unwrap (v : value) : value := match v with VCat l => l | _ => v end.

  (* which values a column of metadata kind k can hold *)
  Definition has_kind (k : kind) (v : value) : Prop :=
    match k, v with
    | KInt sg bits, VInt z => in_range sg bits z = true
    | KBool, VBool _ => True
    | KStr, VStr _ => True
    | KFloat _, VFloat _ => True
    | KTime _, VTime _ => True
    | KTimeTz, VTime _ => True
    | KCat _, VCat _ => True
    | _, _ => False
    end.

  Definition roundtrips (hive : bool) (k : kind) (v : value) : Prop :=
    parse_with_meta k (show hive v) = Ok (unwrap v).

  Lemma roundtrip_int sg bits z hive : in_range sg bits z = true -> roundtrips hive (KInt sg bits) (VInt z).
  Proof. intros H. unfold roundtrips. cbn. rewrite parse_int_show_Z, H. reflexivity. Qed.

  Lemma roundtrip_bool b hive : roundtrips hive KBool (VBool b).
  Proof. destruct b; reflexivity. Qed.

  Lemma roundtrip_str s hive : roundtrips hive KStr (VStr s).
  Proof. reflexivity. Qed.

  Lemma roundtrip_cat_str s hive : roundtrips hive (KCat None) (VCat (VStr s)).
  Proof. reflexivity. Qed.

  (* a categorical with numeric labels does NOT come back: the label dtype is not recorded *)
  Lemma roundtrip_cat_int_refuted hive : ~ roundtrips hive (KCat None) (VCat (VInt 1)).
  Proof. unfold roundtrips. cbn. discriminate. Qed.

  (* with the label type recorded, a categorical label comes back whenever a plain value of that type does *)
  Lemma roundtrip_cat_labels k v hive : parse_base k (show hive v) = Ok v -> roundtrips hive (KCat (Some k)) (VCat v).
  Proof. intros H. unfold roundtrips. cbn. exact H. Qed.

  Lemma roundtrip_float f hive single : parse_float single (show_float f) = Some f -> roundtrips hive (KFloat single) (VFloat f).
  Proof. intros H. unfold roundtrips. cbn. now rewrite H. Qed.

  Lemma roundtrip_time t ns : parse_time_np false (show_time_iso t) = Some t -> roundtrips true (KTime ns) (VTime t).
  Proof. intros H. unfold roundtrips. cbn. now rewrite H. Qed.

  Lemma roundtrip_timetz t : parse_time_np true (show_time_iso t) = Some t -> roundtrips true KTimeTz (VTime t).
  Proof. intros H. unfold roundtrips. cbn. now rewrite H. Qed.

  (* the guessing parser on the text of an integer / boolean *)
  Lemma guess_int z : parse_guess (show_Z z) = VInt z.
  Proof.
    unfold parse_guess.
    assert (Hd : forall a, In a (show_Z z) -> a = "-"%char \/ is_digit a = true) by apply show_Z_chars.
    assert (Hn : show_Z z <> []) by apply show_Z_nonnil.
    assert (H1 : mem_str (show_Z z) [s_ "now"; s_ "NOW"; s_ "TODAY"; []] = false).
    { destruct (mem_str _ _) eqn:E; [|reflexivity]. apply mem_str_In in E.
      destruct E as [E|[E|[E|[E|[]]]]]; try congruence;
        (assert (Hi : In (List.hd "0"%char (show_Z z)) (show_Z z)) by (destruct (show_Z z); [congruence|now left]);
         rewrite <- E in Hi at 1; cbn in Hi; apply Hd in Hi; destruct Hi; discriminate). }
    rewrite H1.
    assert (H2 : str_eqb (lower (show_Z z)) (s_ "nan") = false).
    { destruct (str_eqb_spec (lower (show_Z z)) (s_ "nan")) as [E|]; [|reflexivity].
      destruct (show_Z z) as [|a r]; [discriminate|]. cbn in E. injection E as E _.
      destruct (Hd a (or_introl eq_refl)) as [->|Ha]; [discriminate|].
      unfold is_digit in Ha. apply andb_true_iff in Ha. destruct Ha as [Ha1 Ha2].
      apply N.leb_le in Ha1. apply N.leb_le in Ha2.
      destruct ((65 <=? N_of_ascii a) && (N_of_ascii a <=? 90))%N eqn:Eb.
      - apply andb_true_iff in Eb. destruct Eb as [Eb _]. apply N.leb_le in Eb. lia.
      - subst a. change (N_of_ascii "n"%char) with 110%N in Ha2. lia. }
    rewrite H2.
    assert (H3 : forall w, (w = s_ "True" \/ w = s_ "False") -> str_eqb (show_Z z) w = false).
    { intros w Hw. destruct (str_eqb_spec (show_Z z) w) as [E|]; [|reflexivity].
      assert (Hi : In (List.hd "0"%char (show_Z z)) (show_Z z)) by (destruct (show_Z z); [congruence|now left]).
      rewrite E in Hi at 1. destruct Hw; subst w; cbn in Hi; apply Hd in Hi; destruct Hi; discriminate. }
    rewrite (H3 _ (or_introl eq_refl)), (H3 _ (or_intror eq_refl)).
    now rewrite parse_int_show_Z.
  Qed.

  (* ---------------------------------------------------------------- veqb on values of one kind *)
  Definition of_kind_base (k : kind) (v : value) : Prop :=
    match k, v with
    | KInt _ _, VInt _ | KBool, VBool _ | KStr, VStr _ | KCat _, VStr _ | KFloat _, VFloat _ | KTime _, VTime _ | KTimeTz, VTime _ => True
    | _, _ => False
    end.
  Definition of_kind (k : kind) (v : value) : Prop :=
    match k with KCat (Some lk) => of_kind_base lk v | _ => of_kind_base k v end.

  Lemma parse_base_of_kind k x v : parse_base k x = Ok v -> of_kind_base k v.
  Proof.
    destruct k; cbn.
    - destruct (parse_int x); [|discriminate]. destruct (in_range _ _ _); [|discriminate]. now intros [= <-].
    - now intros [= <-].
    - now intros [= <-].
    - destruct (parse_float single x); [|discriminate]. cbn. now intros [= <-].
    - destruct (parse_time_np false x); [now intros [= <-]|]. destruct ns; [|discriminate].
      destruct (parse_time_fmt x); [|discriminate]. cbn. now intros [= <-].
    - destruct (parse_time_np true x); [|discriminate]. cbn. now intros [= <-].
    - now intros [= <-].
  Qed.

  Lemma parse_with_meta_of_kind k x v : parse_with_meta k x = Ok v -> of_kind k v.
  Proof. destruct k as [| | | | | |[lk|]]; try apply parse_base_of_kind. Qed.

  Lemma veqb_of_kind_base_eq k a b : of_kind_base k a -> of_kind_base k b -> veqb a b = true -> a = b.
  Proof.
    destruct k, a, b; cbn; try tauto; intros _ _ H.
    - apply Z.eqb_eq in H. now subst.
    - apply Bool.eqb_prop in H. now subst.
    - destruct (str_eqb_spec s s0); [now subst|discriminate].
    - destruct (feqb_spec f f0); [now subst|discriminate].
    - destruct (teqb_spec t t0); [now subst|discriminate].
    - destruct (teqb_spec t t0); [now subst|discriminate].
    - destruct (str_eqb_spec s s0); [now subst|discriminate].
  Qed.

  Lemma veqb_of_kind_eq k a b : of_kind k a -> of_kind k b -> veqb a b = true -> a = b.
  Proof. destruct k as [| | | | | |[lk|]]; try apply veqb_of_kind_base_eq. Qed.

  Lemma veqb_refl_of_kind_base k a : of_kind_base k a -> veqb a a = true.
  Proof.
    destruct k, a; cbn; try tauto; intros _.
    - apply Z.eqb_refl.
    - now destruct b.
    - apply str_eqb_refl.
    - destruct (feqb_spec f f); congruence.
    - destruct (teqb_spec t t); congruence.
    - destruct (teqb_spec t t); congruence.
    - apply str_eqb_refl.
  Qed.

  Lemma veqb_refl_of_kind k a : of_kind k a -> veqb a a = true.
  Proof. destruct k as [| | | | | |[lk|]]; try apply veqb_refl_of_kind_base. Qed.

  (* ---------------------------------------------------------------- list.index *)
  Lemma index_of_nth {A} (eqb : A -> A -> bool) x l i :
    index_of eqb x l = Some i -> exists y, nth_error l i = Some y /\ eqb x y = true.
  Proof.
    revert i. induction l as [|y r IH]; cbn; [discriminate|]. intros i.
    destruct (eqb x y) eqn:E.
    - intros [= <-]. exists y. now split.
    - destruct (index_of eqb x r) as [j|]; [|discriminate]. cbn. intros [= <-]. cbn. now apply IH.
  Qed.

  Lemma index_of_some {A} (eqb : A -> A -> bool) x l :
    existsb (eqb x) l = true -> exists i, index_of eqb x l = Some i.
  Proof.
    induction l as [|y r IH]; cbn; [discriminate|].
    destruct (eqb x y); [now exists O|]. cbn. intros H. destruct (IH H) as [i Hi]. rewrite Hi. now exists (S i).
  Qed.

  (* the first hit is the one returned: when eqb decides equality, it is x itself *)
  Lemma index_lookup k (v : value) (l : list value) :
    of_kind k v -> Forall (of_kind k) l -> existsb (veqb v) l = true ->
    exists i, index_of veqb v l = Some i /\ nth_error l i = Some v.
  Proof.
    intros Hv Hl He. destruct (index_of_some _ _ _ He) as [i Hi]. exists i. split; [exact Hi|].
    destruct (index_of_nth _ _ _ _ Hi) as [y [Hy Hey]]. rewrite Hy. f_equal. symmetry.
    apply (veqb_of_kind_eq k); try assumption.
    rewrite Forall_forall in Hl. apply Hl. eapply nth_error_In. exact Hy.
  Qed.

  (* ---------------------------------------------------------------- group-by *)
  Variable P : Type.
  Notation row := (row F T D P).
  Notation nonnull := (nonnull F T D P).
  Notation key_of := (key_of F T D P).
  Notation keys_eqb := (keys_eqb F T D feqb teqb deqb f_eq_Z).
  Notation insert_group := (insert_group F T D feqb teqb deqb f_eq_Z P).
  Notation group_by := (group_by F T D feqb teqb deqb f_eq_Z P).

  Definition rows_of (gs : list (list value * list row)) : list row := concat (map snd gs).

  Lemma insert_group_perm k r gs : Permutation (rows_of (insert_group k r gs)) (r :: rows_of gs).
  Proof.
    induction gs as [|[k' rs] t IH]; cbn.
    - reflexivity.
    - destruct (keys_eqb k k'); unfold rows_of in *; cbn.
      + rewrite <- app_assoc. cbn. symmetry. apply Permutation_middle.
      + rewrite IH. change (r :: rs ++ concat (map snd t)) with ((r :: rs) ++ concat (map snd t)).
        rewrite (Permutation_app_comm rs (r :: concat (map snd t))). cbn.
        constructor. apply Permutation_app_comm.
  Qed.

  Lemma group_by_perm_gen rows gs :
    Permutation (rows_of (fold_left (fun gs r => if nonnull r then insert_group (key_of r) r gs else gs) rows gs))
                (rows_of gs ++ filter nonnull rows).
  Proof.
    revert gs. induction rows as [|r rows IH]; intros gs.
    - cbn. now rewrite app_nil_r.
    - cbn [fold_left filter]. rewrite IH. destruct (nonnull r).
      + rewrite insert_group_perm. cbn. apply Permutation_middle.
      + reflexivity.
  Qed.

  (* no row with non-null keys is lost or duplicated by the split *)
  Lemma group_by_perm rows : Permutation (rows_of (group_by rows)) (filter nonnull rows).
  Proof. unfold group_by. now rewrite group_by_perm_gen. Qed.

  (* every row sits in the group of a key that is == to its own key *)
  Definition groups_ok (gs : list (list value * list row)) : Prop :=
    forall k rs r, In (k, rs) gs -> In r rs -> nonnull r = true /\ keys_eqb (key_of r) k = true.

  Hypothesis keys_eqb_refl_hyp : forall r : row, keys_eqb (key_of r) (key_of r) = true.

  Lemma insert_group_ok r gs : nonnull r = true -> groups_ok gs -> groups_ok (insert_group (key_of r) r gs).
  Proof.
    intros Hr. induction gs as [|[k' rs] t IH]; intros Hg k rs0 r0 Hin Hr0.
    - cbn in Hin. destruct Hin as [[= <- <-]|[]]. destruct Hr0 as [<-|[]]. split; [exact Hr|apply keys_eqb_refl_hyp].
    - cbn in Hin. destruct (keys_eqb (key_of r) k') eqn:E.
      + destruct Hin as [[= <- <-]|Hin].
        * apply in_app_or in Hr0. destruct Hr0 as [Hr0|[<-|[]]].
          -- apply (Hg k' rs r0); [now left|exact Hr0].
          -- now split.
        * apply (Hg k rs0 r0); [now right|exact Hr0].
      + destruct Hin as [[= <- <-]|Hin].
        * apply (Hg k' rs r0); [now left|exact Hr0].
        * apply (IH (fun k rs r H1 H2 => Hg k rs r (or_intror H1) H2) k rs0 r0 Hin Hr0).
  Qed.

  Lemma group_by_ok rows : groups_ok (group_by rows).
  Proof.
    unfold group_by.
    assert (H : forall gs, groups_ok gs ->
      groups_ok (fold_left (fun gs r => if nonnull r then insert_group (key_of r) r gs else gs) rows gs)).
    { induction rows as [|r rows IH]; intros gs Hg; cbn; [exact Hg|].
      apply IH. destruct (nonnull r) eqn:E; [now apply insert_group_ok|exact Hg]. }
    apply H. intros k rs r [].
  Qed.
End PartitionP.
