(* Round trips of the SPEC PLAIN encodings: byte arrays, fixed-width values, booleans. *)
From Coq Require Import NArith Arith List Lia Bool.
From Pq Require Import Base.Bytes Base.Bits Base.ListX Proofs.BytesProofs Proofs.ListXProofs Proofs.CodecProofs
  Codec.Bitpack Codec.Plain.
Import ListNotations.
Open Scope N_scope.

Theorem ba_roundtrip xs rest :
  Forall (fun x => N.of_nat (length x) < 2 ^ 32) xs ->
  ba_dec (length xs) (ba_enc xs ++ rest) = Some (xs, rest).
Proof.
  induction 1 as [|x xs Hx Hxs IH]; [reflexivity|].
  unfold ba_enc. cbn [map concat length ba_dec]. fold (ba_enc xs).
  rewrite <- !app_assoc.
  rewrite le_dec_enc by (change (256 ^ N.of_nat 4) with (2 ^ 32); exact Hx).
  rewrite lenN_ok, app_length.
  destruct (N.ltb_spec (N.of_nat (length x + length (ba_enc xs ++ rest))) (N.of_nat (length x))) as [H|H]; [lia|].
  rewrite dropN_ok, takeN_ok, Nat2N.id.
  rewrite skipn_app, skipn_all, Nat.sub_diag. cbn [app skipn].
  rewrite IH.
  rewrite firstn_app, firstn_all, Nat.sub_diag. cbn [firstn]. now rewrite app_nil_r.
Qed.

Theorem fixed_roundtrip k vs rest :
  Forall (fun v => v < 256 ^ N.of_nat k) vs ->
  fixed_dec k (length vs) (fixed_enc k vs ++ rest) = Some (vs, rest).
Proof.
  induction 1 as [|v vs Hv Hvs IH]; [reflexivity|].
  unfold fixed_enc. cbn [map concat length fixed_dec]. fold (fixed_enc k vs).
  rewrite <- app_assoc. rewrite le_dec_enc by exact Hv. now rewrite IH.
Qed.

Theorem bool_roundtrip bs rest :
  Forall (fun b => b < 2) bs -> bool_dec (N.of_nat (length bs)) (bool_enc bs ++ rest) = bs.
Proof. intros H. apply bp_roundtrip. exact H. Qed.

Lemma ba_enc_length xs : length (ba_enc xs) = fold_right (fun x a => (4 + length x + a)%nat) 0%nat xs.
Proof.
  induction xs as [|x xs IH]; [reflexivity|].
  unfold ba_enc. cbn [map concat fold_right]. fold (ba_enc xs).
  rewrite !app_length, le_enc_length, IH. lia.
Qed.
