From Coq Require Import String.
From Coq Require Import NArith ZArith List Bool Lia.
From Pq Require Import Base.Bytes Base.ListX Format.Phys Format.Meta Format.Page Impl.RPages.
Import ListNotations.
Open Scope N_scope.

Definition supported_enc (e : Z) : bool :=
  ((e =? E_PLAIN) || (e =? E_PLAIN_DICT) || (e =? E_RLE_DICT) || (e =? E_RLE) || (e =? E_DELTA))%Z.

(* the impl models never return values for a value encoding the reader does not implement
   (DELTA_LENGTH_BYTE_ARRAY, DELTA_BYTE_ARRAY, BYTE_STREAM_SPLIT, BIT_PACKED, anything unknown) *)
Theorem rd_data_page_refuses selfmade cd h raw r :
  supported_enc (d_enc h) = false -> rd_data_page selfmade cd h raw <> ROk r.
Proof.
  unfold supported_enc. intros S. apply orb_false_iff in S. destruct S as [S E5].
  apply orb_false_iff in S. destruct S as [S E3]. apply orb_false_iff in S. destruct S as [S E8].
  apply orb_false_iff in S. destruct S as [E0 E2].
  unfold rd_data_page. destruct (z2n _ (d_nvals h)) as [n|w|w]; cbn [rbind]; try discriminate.
  destruct (rd_def (cd_maxdef cd) n raw) as [[[defi nn] rest]|w|w]; cbn [rbind]; try discriminate.
  rewrite E0, E2, E8, E3, E5. cbn [orb]. discriminate.
Qed.

Theorem rd_page_v2_refuses decompress inplace cd dic codec h us cs payload r :
  supported_enc (d2_enc h) = false -> rd_page_v2 decompress inplace cd dic codec h us cs payload <> ROk r.
Proof.
  unfold supported_enc. intros S. unfold rd_page_v2.
  replace ((d2_enc h =? E_PLAIN_DICT) || (d2_enc h =? E_RLE_DICT) || (d2_enc h =? E_RLE) || (d2_enc h =? E_PLAIN) || (d2_enc h =? E_DELTA))%Z
    with false.
  - cbn [negb]. discriminate.
  - symmetry. apply orb_false_iff in S. destruct S as [S E5].
    apply orb_false_iff in S. destruct S as [S E3]. apply orb_false_iff in S. destruct S as [S E8].
    apply orb_false_iff in S. destruct S as [E0 E2]. now rewrite E0, E2, E8, E3, E5.
Qed.
