(* Part 6: IDL conformance of what write_thrift emits.  `typed_ok T` is a predicate on the PYTHON object
   (shape of every value against the declared type, and for every integer field: the wire type its
   enclosing dict's "i32"/"i32list" markers select equals the declared one; required fields present;
   unions one arm).  Theorem: typed_ok implies that the denoted tree - whose specification encoding
   the emitted bytes are, by w_thrift_spec - passes the strict IDL check `conforms` (declared ids only,
   declared wire types, increasing ids, required present), with the one leniency that an empty list
   carries element type 0 (finding C10-empty-list-element-type).                                    *)
From Coq Require Import NArith ZArith List Bool String Lia.
From Pq Require Import Base.Bytes Thrift.Varint Thrift.Compact Thrift.Idl Proofs.CompactProofs Impl.CThrift Impl.CThriftSpec Impl.CThriftTyped
  Proofs.CThriftProofs Proofs.CThriftRead Proofs.CThriftRoundtrip Proofs.CThriftMain.
Import ListNotations.
Open Scope N_scope.

Section Typed.
Variable T : idl.
Variable fids : list Z.
Hypothesis Hasc : asc 0 fids.
Local Notation w_thrift := (CThrift.w_thrift fids).
Local Notation t_thrift := (CThriftSpec.t_thrift fids).
Local Notation w_top := (CThrift.w_top fids).
Local Notation t_top := (CThriftSpec.t_top fids).
Local Notation ser := (CThrift.ser fids).
Local Notation to_bytes := (CThrift.to_bytes fids).
Local Notation dom := (CThriftSpec.dom fids).
Local Notation w_thrift_spec := (CThriftProofs.w_thrift_spec fids Hasc).
Local Notation ser_spec := (CThriftProofs.ser_spec fids Hasc).
Local Notation t_good := (CThriftRoundtrip.t_good fids Hasc).
Local Notation t_eq := (CThriftRoundtrip.t_eq fids Hasc).
Local Notation to_bytes_fits := (CThriftRoundtrip.to_bytes_fits fids).
Local Notation t_thrift_S := (CThriftRoundtrip.t_thrift_S fids).
Local Notation dom_fields := (CThriftRoundtrip.dom_fields fids).
Local Notation t_dict := (CThriftRoundtrip.t_dict fids).
Local Notation ser_dict := (CThriftMain.ser_dict fids Hasc).
Local Notation roundtrip := (CThriftMain.roundtrip fids Hasc).
Local Notation typed_ok := (CThriftTyped.typed_ok T fids).

Lemma conforms_list e ety l : conforms T lenient (FList e) (TList ety l) =
  (ety_matches e ety || (lenient_empty lenient && (ety =? 0) && match l with [] => true | _ => false end)) &&
  forallb (conforms T lenient e) l.
Proof.
  cbn [conforms]. reflexivity.
Qed.

Lemma conforms_struct n fs : conforms T lenient (FStruct n) (TStruct fs) =
  match find_struct (structs T) n with
  | None => false
  | Some sd =>
    forallb (fun p => match find_field (s_fields sd) (fst p) with
                      | Some f => conforms T lenient (f_ty f) (snd p)
                      | None => allow_unknown lenient
                      end) fs
    && increasing None (map fst fs)
    && required_present (s_fields sd) (map fst fs)
    && (negb (s_union sd) || (List.length fs =? 1)%nat)
  end.
Proof.
  cbn [conforms]. destruct (find_struct (structs T) n) as [sd|]; [|reflexivity].
  f_equal. f_equal. f_equal. induction fs as [|[id x] fs IH]; [reflexivity|]. cbn [forallb fst snd]. rewrite <- IH. reflexivity.
Qed.

Definition td_conf (td : pv -> option tv) : Prop :=
  forall d n x t, typed_ok d (FStruct n) 0 x = true -> td x = Some t -> conforms T lenient (FStruct n) t = true.

Lemma typed_struct_sel d n s1 s2 x : typed_ok d (FStruct n) s1 x = typed_ok d (FStruct n) s2 x.
Proof. destruct d; [reflexivity|]. destruct x; reflexivity. Qed.

Lemma items_conf f e (P : pv -> Prop) :
  (forall x t, P x -> f x = Some t -> conforms T lenient e t = true) ->
  forall l l', Forall P l -> t_items f l = Some l' -> forallb (conforms T lenient e) l' = true.
Proof.
  intros H. induction l as [|x l IH]; intros l' HP E; cbn [t_items] in E.
  - injection E as <-. reflexivity.
  - destruct (f x) as [a|] eqn:Ea; [|discriminate]. destruct (t_items f l) as [b|] eqn:Eb; [|discriminate].
    injection E as <-. inversion HP as [|x' l'' Hx Hl]; subst. cbn [forallb].
    rewrite (H x a Hx Ea), (IH b Hl eq_refl). reflexivity.
Qed.

Lemma field_conf td d0 i32 i32l i ty v t : td_conf td ->
  typed_ok d0 ty (int_nib i32 i32l i) v = true -> t_field td i32 i32l i v = Some t ->
  conforms T lenient ty t = true.
Proof.
  intros Htd Hok E. destruct d0 as [|d]; [discriminate Hok|]. pose proof Hok as Hok0. cbn [typed_ok] in Hok.
  destruct v as [|b|z|f|l|l|l|a b c]; cbn [t_field] in E; try discriminate Hok.
  - injection E as <-. destruct ty; try discriminate Hok. reflexivity.
  - apply andb_true_iff in Hok. destruct Hok as [Hz Hs]. rewrite Hz in E. injection E as <-.
    destruct ty; try discriminate Hs; apply N.eqb_eq in Hs; rewrite Hs; reflexivity.
  - injection E as <-. destruct ty; try discriminate Hok; reflexivity.
  - injection E as <-. destruct ty; try discriminate Hok; reflexivity.
  - destruct ty as [| | | | | | | | |e|]; try discriminate Hok.
    destruct l as [|first r]; cbn [t_list_with] in E.
    + injection E as <-. rewrite conforms_list. cbn. rewrite orb_true_r. reflexivity.
    + destruct first as [|b0|z0|f0|b0|s0|l0|a0 b0 c0]; try discriminate Hok.
      * apply andb_true_iff in Hok. destruct Hok as [He Hall].
        destruct (t_items t_int_elem (PBool b0 :: r)) as [l'|] eqn:El; [|discriminate]. injection E as <-.
        rewrite conforms_list.
        assert (ety_matches e 5 = true) as -> by (destruct e; try discriminate He; reflexivity). cbn [orb andb].
        apply (items_conf t_int_elem e (fun x => int_elem_ok x = true)) with (l := PBool b0 :: r); [|apply forallb_Forall; exact Hall|exact El].
        intros x t Hx Ex. destruct x; try discriminate Hx; cbn [t_int_elem] in Ex.
        -- injection Ex as <-. destruct e; try discriminate He; reflexivity.
        -- cbn [int_elem_ok] in Hx. rewrite Hx in Ex. injection Ex as <-. destruct e; try discriminate He; reflexivity.
      * apply andb_true_iff in Hok. destruct Hok as [He Hall].
        destruct (t_items t_int_elem (PInt z0 :: r)) as [l'|] eqn:El; [|discriminate]. injection E as <-.
        rewrite conforms_list.
        assert (ety_matches e 5 = true) as -> by (destruct e; try discriminate He; reflexivity). cbn [orb andb].
        apply (items_conf t_int_elem e (fun x => int_elem_ok x = true)) with (l := PInt z0 :: r); [|apply forallb_Forall; exact Hall|exact El].
        intros x t Hx Ex. destruct x; try discriminate Hx; cbn [t_int_elem] in Ex.
        -- injection Ex as <-. destruct e; try discriminate He; reflexivity.
        -- cbn [int_elem_ok] in Hx. rewrite Hx in Ex. injection Ex as <-. destruct e; try discriminate He; reflexivity.
      * apply andb_true_iff in Hok. destruct Hok as [He Hall].
        destruct (t_items t_bytes_elem (PBytes b0 :: r)) as [l'|] eqn:El; [|discriminate]. injection E as <-.
        rewrite conforms_list.
        assert (ety_matches e 8 = true) as -> by (destruct e; try discriminate He; reflexivity). cbn [orb andb].
        apply (items_conf t_bytes_elem e (fun x => is_pbytes x = true)) with (l := PBytes b0 :: r); [|apply forallb_Forall; exact Hall|exact El].
        intros x t Hx Ex. destruct x; try discriminate Hx; cbn [t_bytes_elem] in Ex.
        injection Ex as <-. destruct e; try discriminate He; reflexivity.
      * apply andb_true_iff in Hok. destruct Hok as [He Hall].
        destruct (t_items t_str_elem (PStr s0 :: r)) as [l'|] eqn:El; [|discriminate]. injection E as <-.
        rewrite conforms_list.
        assert (ety_matches e 8 = true) as -> by (destruct e; try discriminate He; reflexivity). cbn [orb andb].
        apply (items_conf t_str_elem e (fun x => is_pstr x = true)) with (l := PStr s0 :: r); [|apply forallb_Forall; exact Hall|exact El].
        intros x t Hx Ex. destruct x; try discriminate Hx; cbn [t_str_elem] in Ex.
        injection Ex as <-. destruct e; try discriminate He; reflexivity.
      * destruct e as [| | | | | | | | | |n]; try discriminate Hok.
        destruct (t_items td (PDict a0 b0 c0 :: r)) as [l'|] eqn:El; [|discriminate]. injection E as <-.
        rewrite conforms_list. cbn [ety_matches wire N.eqb Pos.eqb orb andb].
        apply (items_conf td (FStruct n) (fun x => match x with PDict _ _ _ => typed_ok d (FStruct n) 0 x | _ => false end = true))
          with (l := PDict a0 b0 c0 :: r); [|apply forallb_Forall; exact Hok|exact El].
        intros x t Hx Ex. destruct x; try discriminate Hx. apply (Htd d n _ t Hx Ex).
  - destruct ty as [| | | | | | | | | |n]; try discriminate Hok.
    apply (Htd (S d) n (PDict a b c) t); [|exact E].
    rewrite (typed_struct_sel (S d) n 0 (int_nib i32 i32l i)). exact Hok0.
Qed.

(* ---- the field list ------------------------------------------------------------------------------ *)
Lemma t_fields_Forall tf fs (Q : N -> tv -> Prop) : forall ids l,
  (forall i v t, In i ids -> lookup i fs = Some v -> v <> PNone -> tf i v = Some t -> Q (Z.to_N i) t) ->
  t_fields tf ids fs = Some l -> Forall (fun p => Q (fst p) (snd p)) l.
Proof.
  induction ids as [|i r IH]; intros l H E; cbn [t_fields] in E.
  - injection E as <-. constructor.
  - assert (Hr : forall l', t_fields tf r fs = Some l' -> Forall (fun p => Q (fst p) (snd p)) l').
    { intros l' E'. apply (IH l'); [|exact E']. intros i' v t Hin. apply H. right. exact Hin. }
    destruct (lookup i fs) as [v|] eqn:El; [|apply Hr; exact E].
    assert (Hv : v <> PNone -> match tf i v, t_fields tf r fs with Some a, Some b => Some ((Z.to_N i, a) :: b) | _, _ => None end = Some l ->
                 Forall (fun p => Q (fst p) (snd p)) l).
    { intros Hn E'. destruct (tf i v) as [a|] eqn:Ea; [|discriminate]. destruct (t_fields tf r fs) as [b|] eqn:Eb; [|discriminate].
      injection E' as <-. constructor; [cbn [fst snd]; apply (H i v a (or_introl eq_refl) El Hn Ea)|apply Hr; reflexivity]. }
    destruct v; try (apply Hv; [discriminate|exact E]). apply Hr. exact E.
Qed.

Lemma t_fields_increasing tf fs : forall ids prev l, (0 <= prev)%Z -> asc prev ids ->
  t_fields tf ids fs = Some l -> increasing (Some (Z.to_N prev)) (map fst l) = true.
Proof.
  induction ids as [|i r IH]; intros prev l Hp Ha E; cbn [t_fields] in E.
  - injection E as <-. reflexivity.
  - cbn [asc] in Ha. destruct Ha as [Hi Ha].
    assert (Ha' : asc prev r) by (apply (asc_weaken r prev i); [lia|exact Ha]).
    destruct (lookup i fs) as [v|] eqn:El; [|apply (IH prev l Hp Ha' E)].
    assert (Hv : match tf i v, t_fields tf r fs with Some a, Some b => Some ((Z.to_N i, a) :: b) | _, _ => None end = Some l ->
                 increasing (Some (Z.to_N prev)) (map fst l) = true).
    { intros E'. destruct (tf i v) as [a|] eqn:Ea; [|discriminate]. destruct (t_fields tf r fs) as [b|] eqn:Eb; [|discriminate].
      injection E' as <-. cbn [map fst increasing]. rewrite (IH i b ltac:(lia) Ha eq_refl).
      assert ((Z.to_N prev <? Z.to_N i) = true) as -> by (apply N.ltb_lt; lia). reflexivity. }
    destruct v; try (apply Hv; exact E). apply (IH prev l Hp Ha' E).
Qed.

Lemma increasing_none p l : increasing (Some p) l = true -> increasing None l = true.
Proof. destruct l as [|x l]; [reflexivity|]. cbn [increasing]. intros H. apply andb_true_iff in H. destruct H as [_ H]. exact H. Qed.

Lemma t_fields_present tf fs : forall ids l i, t_fields tf ids fs = Some l -> In i ids -> present fs i = true ->
  existsb (N.eqb (Z.to_N i)) (map fst l) = true.
Proof.
  induction ids as [|j r IH]; intros l i E Hin Hp; [destruct Hin|]. cbn [t_fields] in E.
  assert (Hr : forall l', t_fields tf r fs = Some l' -> In i r -> existsb (N.eqb (Z.to_N i)) (map fst l') = true).
  { intros l' E' Hin'. apply (IH l' i E' Hin' Hp). }
  destruct Hin as [->|Hin].
  - unfold present in Hp. destruct (lookup i fs) as [v|]; [|discriminate Hp].
    assert (Hv : forall v0, match tf i v0, t_fields tf r fs with Some a, Some b => Some ((Z.to_N i, a) :: b) | _, _ => None end = Some l ->
                 existsb (N.eqb (Z.to_N i)) (map fst l) = true).
    { intros v0 E'. destruct (tf i v0) as [a0|]; [|discriminate]. destruct (t_fields tf r fs) as [b0|]; [|discriminate].
      injection E' as <-. cbn [map fst existsb]. rewrite N.eqb_refl. reflexivity. }
    destruct v; try discriminate Hp; apply (Hv _ E).
  - destruct (lookup j fs) as [v|]; [|apply (Hr l E Hin)].
    assert (Hv : match tf j v, t_fields tf r fs with Some a, Some b => Some ((Z.to_N j, a) :: b) | _, _ => None end = Some l ->
                 existsb (N.eqb (Z.to_N i)) (map fst l) = true).
    { intros E'. destruct (tf j v) as [a|]; [|discriminate]. destruct (t_fields tf r fs) as [b|] eqn:Eb; [|discriminate].
      injection E' as <-. cbn [map fst existsb]. rewrite (Hr b eq_refl Hin). apply orb_true_r. }
    destruct v; try (apply Hv; exact E). apply (Hr l E Hin).
Qed.

Lemma t_fields_length tf fs : forall ids l, t_fields tf ids fs = Some l ->
  List.length l = List.length (filter (present fs) ids).
Proof.
  induction ids as [|i r IH]; intros l E; cbn [t_fields] in E.
  - injection E as <-. reflexivity.
  - cbn [filter]. unfold present at 1. destruct (lookup i fs) as [v|]; [|apply (IH l E)].
    assert (Hv : match tf i v, t_fields tf r fs with Some a, Some b => Some ((Z.to_N i, a) :: b) | _, _ => None end = Some l ->
                 List.length l = S (List.length (filter (present fs) r))).
    { intros E'. destruct (tf i v) as [a|]; [|discriminate]. destruct (t_fields tf r fs) as [b|] eqn:Eb; [|discriminate].
      injection E' as <-. cbn [List.length]. f_equal. apply (IH b eq_refl). }
    destruct v; try (cbn [List.length]; apply Hv; exact E). apply (IH l E).
Qed.

Lemma existsb_In i ids : existsb (Z.eqb i) ids = true -> In i ids.
Proof. intros H. apply existsb_exists in H. destruct H as (x & Hx & E). apply Z.eqb_eq in E. subst x. exact Hx. Qed.

(* ---- main theorem ----------------------------------------------------------------------------------- *)
Theorem t_conf : forall k d n a b c t,
  typed_ok d (FStruct n) 0 (PDict a b c) = true -> t_thrift k a b c = Some t ->
  conforms T lenient (FStruct n) t = true.
Proof.
  induction k as [|k IH]; intros d n a b c t Hok E; [discriminate|].
  destruct d as [|d]; [discriminate Hok|]. cbn [typed_ok] in Hok.
  rewrite t_thrift_S in E. set (td := t_dict k) in E.
  assert (Htd : td_conf td).
  { intros d' n' x t' Hx Ex. destruct x as [| | | | | | |a' b' c']; try discriminate Ex. apply (IH d' n' a' b' c' t' Hx Ex). }
  destruct (t_fields (t_field td a b) fids c) as [l|] eqn:El; [|discriminate]. injection E as <-.
  rewrite conforms_struct. destruct (find_struct (structs T) n) as [sd|]; [|discriminate Hok].
  apply andb_true_iff in Hok. destruct Hok as [Hok Hun]. apply andb_true_iff in Hok. destruct Hok as [Hfl Hreq].
  rewrite (increasing_none _ _ (t_fields_increasing (t_field td a b) c fids 0%Z l ltac:(lia) Hasc El)).
  rewrite (t_fields_length (t_field td a b) c fids l El). rewrite Hun. rewrite !andb_true_r.
  apply andb_true_iff. split.
  - apply forallb_forall. intros p Hp.
    pose proof (t_fields_Forall (t_field td a b) c
      (fun id t => match find_field (s_fields sd) id with Some f => conforms T lenient (f_ty f) t = true | None => False end) fids l) as HF.
    assert (HQ : Forall (fun p => match find_field (s_fields sd) (fst p) with Some f => conforms T lenient (f_ty f) (snd p) = true | None => False end) l).
    { apply HF; [|exact El]. intros i v t Hin Hl Hn Et.
      pose proof (proj1 (forallb_forall _ fids) Hfl i Hin) as Hi. cbn beta in Hi. rewrite Hl in Hi.
      destruct (find_field (s_fields sd) (Z.to_N i)) as [f|].
      - destruct v; try congruence; apply (field_conf td d a b i (f_ty f) _ t Htd Hi Et).
      - destruct v; try congruence; discriminate Hi. }
    pose proof (proj1 (Forall_forall _ l) HQ p Hp) as Hq. cbn beta in Hq.
    destruct (find_field (s_fields sd) (fst p)); [exact Hq|destruct Hq].
  - unfold required_present. apply forallb_forall. intros f Hf.
    pose proof (proj1 (forallb_forall _ (s_fields sd)) Hreq f Hf) as Hr. cbn beta in Hr.
    destruct (negb (f_req f =? 1)); [reflexivity|]. cbn [orb] in Hr |- *.
    apply andb_true_iff in Hr. destruct Hr as [Hin Hp].
    rewrite <- (N2Z.id (f_id f)). apply (t_fields_present (t_field td a b) c fids l (Z.of_N (f_id f)) El (existsb_In _ _ Hin) Hp).
Qed.

(* the bytes to_bytes emits for a typed_ok object are the encoding of an IDL-conformant tree *)
Theorem typed_conformance d n v bs : typed_ok d (FStruct n) 0 v = true -> ser v = Some bs ->
  exists t, bs = wr t /\ conforms T lenient (FStruct n) t = true.
Proof.
  intros Hok E.
  destruct v as [| | | | | | |a b c];
    [discriminate E|discriminate E|discriminate E|discriminate E|discriminate E|discriminate E|discriminate E|].
  rewrite ser_dict in E.
  destruct (t_thrift w_depth a b c) as [t|] eqn:Et; [|discriminate E]. cbn [option_map] in E. injection E as E.
  exists t. split; [symmetry; exact E|]. apply (t_conf w_depth d n a b c t Hok Et).
Qed.
End Typed.
