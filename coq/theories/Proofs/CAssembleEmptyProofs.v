(* C15: data pages with ZERO entries (num_values = 0; legal, written by some writers between row groups' worth of data or
   after a flush) are neutral for the repaired v1 page loop and for the v2 loop: removing them from any page list does
   not change the result - whatever the other pages are (accepted or faulting).  With C15_pages_full this gives the
   rows for every aligned cut WITH empty pages anywhere (pages_v1_full_with_empty).                                  *)
From Coq Require Import NArith List Bool Arith Lia.
From Pq Require Import Format.Nested Impl.CAssemble Proofs.CAssembleProofs Proofs.CAssemblePyProofs.
Import ListNotations.

Definition has_entries {V} (p : page V) : bool := match fst p with [] => false | _ :: _ => true end.
Definition drop_empty {V} (pages : list (page V)) : list (page V) := filter has_entries pages.

Theorem read_col_v1_py_drop_empty {V} null md : forall (pages : list (page V)) a i,
  read_col_v1_py null md a i pages = read_col_v1_py null md a i (drop_empty pages).
Proof.
  induction pages as [|p t IH]; intros a i; [reflexivity|].
  destruct p as [es vs]. destruct es as [|e es'].
  - (* an empty page: no leading part, nothing left - the loop goes on with the same array and row index *)
    cbn. apply IH.
  - unfold drop_empty. cbn [filter has_entries fst]. fold (drop_empty t).
    cbn [read_col_v1_py]. destruct (lead_split (fst (e :: es', vs))) as [lead rest].
    destruct lead as [|l0 lead'].
    + destruct rest as [|r0 rest']; [apply IH|].
      destruct (assemble_page null md a i (r0 :: rest', snd (e :: es', vs))) as [[a2 i2]|x]; [apply IH|reflexivity].
    + destruct i as [|i']; [reflexivity|].
      destruct (lead_items null md (l0 :: lead') (snd (e :: es', vs))) as [[items vals']|]; [|reflexivity].
      destruct (extend_prev a (S i') (rev items)) as [a'|x]; [|reflexivity].
      destruct rest as [|r0 rest']; [apply IH|].
      destruct (assemble_page null md a' (S i') (r0 :: rest', vals')) as [[a2 i2]|x]; [apply IH|reflexivity].
Qed.

(* v2: a zero-entry page announces zero rows *)
Definition has_entries2 {V} (p : page V * nat) : bool := has_entries (fst p) || negb (Nat.eqb (snd p) 0).

Theorem read_col_v2_drop_empty {V} null md : forall (pages : list (page V * nat)) a idx,
  read_col_v2 null md a idx pages = read_col_v2 null md a idx (filter has_entries2 pages).
Proof.
  induction pages as [|[p nr] t IH]; intros a idx; [reflexivity|].
  destruct p as [es vs]. destruct es as [|[r d] es'].
  - destruct nr as [|nr].
    + cbn. rewrite Nat.add_0_r. apply IH.
    + cbn. apply IH.
  - cbn [filter has_entries2 has_entries fst orb]. cbn [read_col_v2 fst].
    destruct (N.eqb r 0); [|reflexivity].
    match goal with |- context [assemble_page ?x1 ?x2 ?x3 ?x4 ?x5] => destruct (assemble_page x1 x2 x3 x4 x5) as [[sl' j]|x] end;
      [apply IH|reflexivity].
Qed.

Lemma stream_drop_empty {V} (pages : list (page V)) :
  fst (pages_stream (drop_empty pages)) = fst (pages_stream pages).
Proof.
  unfold pages_stream. cbn [fst]. induction pages as [|[es vs] t IH]; [reflexivity|].
  destruct es as [|e es']; cbn; [exact IH|]. now rewrite <- IH.
Qed.

(* rows for every aligned cut with zero-entry pages (carrying no values) anywhere *)
Theorem pages_v1_full_with_empty :
  forall (V : Type) (sh : shape) (es : list entry) (vs : list V) (rows : list (row V)) (pages : list (page V)),
    assemble_spec sh es vs = Some rows ->
    pages_stream (drop_empty pages) = (es, vs) -> pages_aligned sh (drop_empty pages) = true ->
    run_v1_py sh (length rows) pages = AOk rows.
Proof.
  intros V sh es vs rows pages H1 H2 H3. unfold run_v1_py. rewrite read_col_v1_py_drop_empty.
  exact (pages_v1_full V sh es vs rows (drop_empty pages) H1 H2 H3).
Qed.
