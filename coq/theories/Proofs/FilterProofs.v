(* C05 — soundness of row-group pruning for ANY leaf decision that is sound (Impl/Filter.v). *)
From Coq Require Import ZArith List String Bool Lia.
From Pq Require Import Base.PyVal Impl.Filter.
Import ListNotations.
Open Scope Z_scope.

Lemma any_res_true {A} (f : A -> res bool) l :
  any_res f l = Ok true -> exists a, In a l /\ f a = Ok true.
Proof.
  induction l as [|a r IH]; cbn [any_res]; intros H; [discriminate|].
  destruct (f a) as [b|e] eqn:E; cbn [bind] in H; [|discriminate].
  destruct b.
  - exists a. split; [left; reflexivity|exact E].
  - destruct (IH H) as [x [Hx Fx]]. exists x. split; [right; exact Hx|exact Fx].
Qed.

Lemma map_res_in {A B} (f : A -> res B) l bs :
  map_res f l = Ok bs -> forall a, In a l -> exists b, f a = Ok b /\ In b bs.
Proof.
  revert bs. induction l as [|x r IH]; cbn [map_res]; intros bs H a Ha; [contradiction|].
  destruct (f x) as [b|e] eqn:E; cbn [bind] in H; [|discriminate].
  destruct (map_res f r) as [bs'|e] eqn:E2; cbn [bind] in H; [|discriminate].
  injection H as <-. destruct Ha as [<-|Ha].
  - exists b. split; [exact E|left; reflexivity].
  - destruct (IH bs' eq_refl a Ha) as [b' [F I]]. exists b'. split; [exact F|right; exact I].
Qed.

Definition decided {A} (f : A -> res bool) (a : A) : bool := match f a with Ok true => true | _ => false end.

Lemma filter_res_spec {A} (f : A -> res bool) l k :
  filter_res f l = Ok k -> k = filter (decided f) l /\ forall a, In a l -> exists b, f a = Ok b.
Proof.
  revert k. induction l as [|x r IH]; cbn [filter_res]; intros k H.
  - injection H as <-. split; [reflexivity|intros a []].
  - destruct (f x) as [b|e] eqn:E; cbn [bind] in H; [|discriminate].
    destruct (filter_res f r) as [r'|e] eqn:E2; cbn [bind] in H; [|discriminate].
    injection H as <-. destruct (IH r' eq_refl) as [-> Hall]. split.
    + cbn [filter]. assert (decided f x = b) as -> by (unfold decided; rewrite E; destruct b; reflexivity).
      destruct b; reflexivity.
    + intros a [<-|Ha]; [exists b; exact E|apply Hall; exact Ha].
Qed.

Section Sound.
  Variable R : Type.
  Variable cell : R -> string -> pv.      (* the value a row holds in a column; PNone = NULL / NaN *)
  Variable fv : pv -> pv -> pv -> pv -> res pv.
  Variable conv : string -> string -> pv -> pv * pv.
  Variable good : string -> Prop.
  Hypothesis fv_sound : leaf_sound good fv.

  Definition sat_cond (r : R) (f : cond) : bool := sat (cop f) (cell r (cname f)) (cval f).
  Definition sat_and (r : R) (g : list cond) : bool := forallb (sat_cond r) g.
  Definition sat_dnf (r : R) (dnf : list (list cond)) : bool := existsb (sat_and r) dnf.

  Notation rowgroup := (rowgroup R).

  (* C04 as a hypothesis: the statistics of a chunk are valid bounds of its non-null cells, the null
     count is exact, and the constant of the condition is comparable with the cells *)
  Definition stats_valid (rg : rowgroup) (f : cond) : Prop :=
    forall c s, In c (rg_columns rg) -> c_name c = cname f -> c_stats c = Some s ->
    forall r, In r (rg_rows rg) ->
      (st_null_count s = Some (c_num_values c) -> cell r (cname f) = PNone) /\
      (cell r (cname f) <> PNone -> covered (cop f) (cval f) (st_min s) (st_max s) (cell r (cname f))).

  (* C08 as a hypothesis: the partition value parsed from the path, as typed by the glue, is what every
     row of the row group holds in that column (as far as the condition can tell) *)
  Definition parts_valid (rg : rowgroup) (f : cond) : Prop :=
    forall pairs cat v, rg_parts rg = Some pairs -> In (cat, v) pairs -> cat = cname f ->
    forall r, In r (rg_rows rg) ->
      exists x, covered (cop f) (fst (conv cat v (cval f))) (snd (conv cat v (cval f))) (snd (conv cat v (cval f))) x /\
                sat (cop f) (cell r cat) (cval f) = sat (cop f) x (fst (conv cat v (cval f))).

  Definition rg_valid (dnf : list (list cond)) (rg : rowgroup) : Prop :=
    (rg_num_rows rg = 0 -> rg_rows rg = []) /\
    forall g f, In g dnf -> In f g -> stats_valid rg f /\ parts_valid rg f.

  Definition prog_good (dnf : list (list cond)) : Prop := forall g f, In g dnf -> In f g -> good (cop f).

  Lemma sat_none op c : sat op PNone c = false.
  Proof. reflexivity. Qed.

  Lemma app_filters_in name fs f : In f (app_filters name fs) -> In f fs /\ cname f = name.
  Proof.
    unfold app_filters. rewrite filter_In. intros [H E]. split; [exact H|]. apply String.eqb_eq. exact E.
  Qed.

  Lemma stats_keep rg g r :
    (rg_num_rows rg = 0 -> rg_rows rg = []) ->
    (forall f, In f g -> good (cop f) /\ stats_valid rg f) ->
    In r (rg_rows rg) -> sat_and r g = true ->
    filter_out_stats R fv rg g = Ok true -> False.
  Proof.
    intros Hz Hv Hr Hs H. unfold filter_out_stats in H.
    destruct (Z.eqb_spec (rg_num_rows rg) 0) as [E|E].
    { rewrite (Hz E) in Hr. exact Hr. }
    destruct g as [|f0 g']; [discriminate|]. set (g := f0 :: g') in *.
    apply any_res_true in H. destruct H as [c [Hc H]].
    apply any_res_true in H. destruct H as [f [Hf H]].
    apply app_filters_in in Hf. destruct Hf as [Hfg Hname].
    destruct (Hv f Hfg) as [Hgood Hsv].
    unfold sat_and in Hs. rewrite forallb_forall in Hs. specialize (Hs f Hfg). unfold sat_cond in Hs.
    unfold stats_one in H. destruct (c_stats c) as [s|] eqn:Es; [|discriminate].
    destruct (Hsv c s Hc (eq_sym Hname) Es r Hr) as [Hnull Hcov].
    destruct (st_null_count s) as [n|] eqn:En.
    - destruct (Z.eqb_spec n (c_num_values c)) as [En2|En2].
      + subst n. rewrite (Hnull eq_refl), sat_none in Hs. discriminate.
      + destruct (fv (PStr (cop f)) (cval f) (st_min s) (st_max s)) as [v|e] eqn:Ev; cbn [bind] in H; [|discriminate].
        injection H as Ht.
        assert (cell r (cname f) <> PNone) as Hnn by (intros Hx; rewrite Hx, sat_none in Hs; discriminate).
        rewrite (fv_sound _ _ _ _ _ Hgood (Hcov Hnn)) in Hs; [discriminate|]. rewrite Ev. exact Ht.
    - destruct (fv (PStr (cop f)) (cval f) (st_min s) (st_max s)) as [v|e] eqn:Ev; cbn [bind] in H; [|discriminate].
      injection H as Ht.
      assert (cell r (cname f) <> PNone) as Hnn by (intros Hx; rewrite Hx, sat_none in Hs; discriminate).
      rewrite (fv_sound _ _ _ _ _ Hgood (Hcov Hnn)) in Hs; [discriminate|]. rewrite Ev. exact Ht.
  Qed.

  Lemma cats_keep rg g r :
    (forall f, In f g -> good (cop f) /\ parts_valid rg f) ->
    In r (rg_rows rg) -> sat_and r g = true ->
    filter_out_cats R fv conv rg g = Ok true -> False.
  Proof.
    intros Hv Hr Hs H. unfold filter_out_cats in H.
    destruct g as [|f0 g']; [discriminate|]. set (g := f0 :: g') in *.
    destruct (rg_parts rg) as [pairs|] eqn:Ep; [|discriminate].
    apply any_res_true in H. destruct H as [[cat v] [Hp H]]. cbn [fst snd] in H.
    apply any_res_true in H. destruct H as [f [Hf H]].
    apply app_filters_in in Hf. destruct Hf as [Hfg Hname].
    destruct (Hv f Hfg) as [Hgood Hpv].
    unfold sat_and in Hs. rewrite forallb_forall in Hs. specialize (Hs f Hfg). unfold sat_cond in Hs.
    destruct (Hpv pairs cat v Ep Hp (eq_sym Hname) r Hr) as [x [Hcov Hsat]].
    unfold cats_one in H. destruct (conv cat v (cval f)) as [val' v0] eqn:Ec. cbn [fst snd] in *.
    destruct (fv (PStr (cop f)) val' v0 v0) as [w|e] eqn:Ev; cbn [bind] in H; [|discriminate].
    injection H as Ht. rewrite Hname in Hs. rewrite Hsat in Hs.
    rewrite (fv_sound _ _ _ _ _ Hgood Hcov) in Hs; [discriminate|]. rewrite Ev. exact Ht.
  Qed.

  Lemma keep_group_sat rg g r b :
    (rg_num_rows rg = 0 -> rg_rows rg = []) ->
    (forall f, In f g -> good (cop f) /\ stats_valid rg f /\ parts_valid rg f) ->
    In r (rg_rows rg) -> sat_and r g = true ->
    keep_group R fv conv rg g = Ok b -> b = true.
  Proof.
    intros Hz Hv Hr Hs H. unfold keep_group in H.
    destruct (filter_out_stats R fv rg g) as [a|e] eqn:E1; cbn [bind] in H; [|discriminate].
    destruct a.
    - exfalso. eapply stats_keep; eauto. intros f Hf. destruct (Hv f Hf) as [A [B _]]. split; assumption.
    - destruct (filter_out_cats R fv conv rg g) as [c|e] eqn:E2; cbn [bind] in H; [|discriminate].
      injection H as <-. destruct c; [|reflexivity].
      exfalso. eapply cats_keep; eauto. intros f Hf. destruct (Hv f Hf) as [A [_ B]]. split; assumption.
  Qed.

  Lemma keep_rg_sat dnf rg r b :
    prog_good dnf -> rg_valid dnf rg -> In r (rg_rows rg) -> sat_dnf r dnf = true ->
    keep_rg R fv conv dnf rg = Ok b -> b = true.
  Proof.
    intros Hg [Hz Hv] Hr Hs H. unfold keep_rg in H.
    destruct (map_res (keep_group R fv conv rg) dnf) as [bs|e] eqn:E; cbn [bind] in H; [|discriminate].
    injection H as <-. unfold sat_dnf in Hs. rewrite existsb_exists in Hs. destruct Hs as [g [Hgd Hsg]].
    destruct (map_res_in _ _ _ E g Hgd) as [b [Hb Hin]].
    assert (b = true) as ->.
    { eapply keep_group_sat; [exact Hz| |exact Hr|exact Hsg|exact Hb]. intros f Hf. destruct (Hv g f Hgd Hf) as [A B]. split; [eapply Hg; eauto|split; assumption]. }
    rewrite existsb_exists. exists true. split; [exact Hin|reflexivity].
  Qed.

  (* The theorem behind C05_prune_sound *)
  Theorem prune_sound : forall known rgs f kept,
    prog_good (normalize f) ->
    (forall rg, In rg rgs -> rg_valid (normalize f) rg) ->
    filter_row_groups R fv conv known rgs f = Ok kept ->
    (exists keepf, kept = filter keepf rgs) /\
    (forall rg r, In rg rgs -> In r (rg_rows rg) -> sat_dnf r (normalize f) = true -> In rg kept).
  Proof.
    intros known rgs f kept Hg Hv H. unfold filter_row_groups in H.
    destruct (forallb _ (List.concat (normalize f))); [|discriminate].
    apply filter_res_spec in H. destruct H as [-> Hall]. split.
    - eexists. reflexivity.
    - intros rg r Hrg Hr Hs. rewrite filter_In. split; [exact Hrg|].
      destruct (Hall rg Hrg) as [b Hb]. unfold decided. rewrite Hb.
      rewrite (keep_rg_sat _ _ _ _ Hg (Hv rg Hrg) Hr Hs Hb). reflexivity.
  Qed.

  (* to_pandas(filters=...): the read is the in-order concatenation of the rows of whole row groups,
     and every row of the dataset that satisfies the predicate is in it *)
  Theorem read_sound : forall known rgs f rows,
    prog_good (normalize f) ->
    (forall rg, In rg rgs -> rg_valid (normalize f) rg) ->
    read_filtered R fv conv known rgs f = Ok rows ->
    (exists keepf, rows = flat_map rg_rows (filter keepf rgs)) /\
    (forall r, In r (flat_map rg_rows rgs) -> sat_dnf r (normalize f) = true -> In r rows).
  Proof.
    intros known rgs f rows Hg Hv H. unfold read_filtered in H.
    destruct (filter_row_groups R fv conv known rgs f) as [kept|e] eqn:E; cbn [bind] in H; [|discriminate].
    injection H as <-. destruct (prune_sound _ _ _ _ Hg Hv E) as [[kf ->] Hin]. split.
    - exists kf. reflexivity.
    - intros r Hr Hs. rewrite in_flat_map in Hr. destruct Hr as [rg [Hrg Hrr]].
      rewrite in_flat_map. exists rg. split; [apply (Hin rg r Hrg Hrr Hs)|exact Hrr].
  Qed.

  (* a flat list means AND, a list of lists OR of ANDs *)
  Lemma sat_flat r l : l <> [] -> sat_dnf r (normalize (Flat l)) = sat_and r l.
  Proof. intros H. destruct l; [congruence|]. cbn [normalize sat_dnf existsb]. apply orb_false_r. Qed.
End Sound.
