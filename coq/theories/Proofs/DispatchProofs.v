(* Proofs about the leaves of the Python-level dispatch (Impl/Dispatch.v): every leaf the format prescribes
   computes the PLAIN decoding of the format; an ADEQUATE index decoder returns the spec values of every page that
   can arrive there and stays inside the buffer the caller allocated. *)
From Coq Require Import NArith ZArith Arith List Bool Lia.
From Pq Require Import Base.Bytes Base.Err Base.ListX Codec.Varint Codec.Bitpack Codec.Hybrid Codec.Plain
  Impl.CVarint Impl.CBitpack Impl.CHybrid Impl.PyPack Impl.Dispatch
  Proofs.BytesProofs Proofs.ListXProofs Proofs.PlainProofs Proofs.HybridProofs Proofs.CVarintProofs
  Proofs.CBitpackProofs Proofs.CBoolProofs Proofs.CPlainProofs Proofs.CHybridProofs.
Import ListNotations.
Open Scope N_scope.

(* ---- encoding.read_plain: the prescribed leaf computes the format's PLAIN decoding ---------------------------- *)
Lemma all_some_map_Some {A} (xs : list A) : all_some (map Some xs) = Some xs.
Proof. induction xs as [|x xs IH]; cbn; [reflexivity | now rewrite IH]. Qed.

Lemma item_ok_lt32 xs : Forall item_ok xs -> Forall (fun x => N.of_nat (length x) < 2 ^ 32) xs.
Proof.
  intros H. eapply Forall_impl; [|exact H]. unfold item_ok. intros a Ha.
  eapply N.lt_trans; [exact Ha|]. reflexivity.
Qed.

(* every physical type of the format; BYTE_ARRAY pages are the PLAIN encoding of some list of values (no trailing
   bytes: the page reader hands over exactly the value section), BOOLEAN pages hold at least ceil(count/8) bytes *)
Theorem plain_leaf_correct t count width utf stat raw :
  t <= 7 -> bytes_ok raw ->
  (t = 0 -> (count + 7) / 8 <= lenN raw) ->
  (t = 6 -> stat = false -> exists xs, raw = ba_enc xs /\ count = N.of_nat (length xs) /\ Forall item_ok xs) ->
  run_pdec (spec_plain_dispatch t count width (lenN raw) utf stat) raw = spec_plain t count width stat raw.
Proof.
  intros Ht Hok Hb Hba.
  assert (Hc : t = 0 \/ t = 1 \/ t = 2 \/ t = 3 \/ t = 4 \/ t = 5 \/ t = 6 \/ t = 7) by lia.
  destruct Hc as [E|[E|[E|[E|[E|[E|[E|E]]]]]]]; subst t; cbn [spec_plain_dispatch spec_plain run_pdec];
    try reflexivity.
  - (* BOOLEAN *)
    specialize (Hb eq_refl).
    rewrite read_plain_boolean_correct by (try exact Hok; rewrite <- lenN_ok; exact Hb).
    destruct ((count + 7) / 8 <=? lenN raw) eqn:E; [reflexivity | apply N.leb_gt in E; lia].
  - (* BYTE_ARRAY *)
    destruct stat; [reflexivity|].
    destruct (Hba eq_refl eq_refl) as [xs [-> [-> Hxs]]].
    replace (N.of_nat (length xs)) with (N.of_nat (length xs + 0)) at 1 by (f_equal; lia).
    cbn [run_pdec].
    rewrite unpack_byte_array_correct by exact Hxs.
    cbn [repeat]. rewrite app_nil_r, all_some_map_Some. cbn [option_map].
    rewrite Nat2N.id.
    pose proof (ba_roundtrip xs [] (item_ok_lt32 xs Hxs)) as R. rewrite app_nil_r in R.
    match goal with |- context [ba_dec ?a ?b] => replace (ba_dec a b) with (Some (xs, @nil N)) by (symmetry; exact R) end.
    reflexivity.
Qed.

(* ---- the index decoders --------------------------------------------------------------------------------------- *)
Lemma tr_id w isz v : isz = 1 \/ isz = 4 -> w <= 8 * isz -> w <= 32 -> v < 2 ^ w -> tr isz v = v.
Proof.
  intros [->| ->] Hw Hw32 Hv; unfold tr; cbn [N.eqb Pos.eqb]; [|reflexivity].
  change 255 with (N.ones 8). rewrite N.land_ones. apply N.mod_small.
  eapply N.lt_le_trans; [exact Hv|]. apply N.pow_le_mono_r; lia.
Qed.

(* the generic decoder on a spec-encoded stream of runs inside its proved region, handed the caller's allocation of
   n items of `a` bytes: Ok, exactly min(total, n) values - the spec values cut to the item - and never more bytes
   written than the allocation holds (whatever n is) *)
Theorem generic_leaf_correct w selfmade one_run a isz n rs :
  adequate w selfmade one_run (DGeneric a isz) = true ->
  Forall (irun_ok w isz) rs -> rs <> [] ->
  exists r, c_read_hybrid (hyb_enc w rs) w (lenN (hyb_enc w rs)) (n * a) isz = Ok r /\
            d_vals r = map (tr isz) (firstn (N.to_nat (N.min (lenN (allvals rs)) n)) (allvals rs)) /\
            d_written r = isz * N.min (lenN (allvals rs)) n /\
            d_written r <= n * a.
Proof.
  intros Had Hrs Hne. unfold adequate in Had.
  repeat (apply andb_prop in Had; destruct Had as [Had ?]).
  apply N.eqb_eq in Had. subst a.
  assert (Hisz : isz = 1 \/ isz = 4).
  { match goal with H : (_ || _)%bool = true |- _ => apply orb_prop in H; destruct H as [H|H]; apply N.eqb_eq in H; auto end. }
  destruct (hybrid_correct w isz (n * isz) rs [] Hisz Hrs Hne (Forall_nil _)) as [u [_ E]].
  rewrite app_nil_r in E.
  assert (Hd : n * isz / isz = n) by (apply N.div_mul; destruct Hisz; lia).
  rewrite Hd in E.
  eexists; split; [exact E|]. cbn [d_vals d_written].
  repeat split; try reflexivity.
  rewrite N.mul_comm. apply N.mul_le_mono_r. apply N.le_min_r.
Qed.

Theorem generic_leaf_values w selfmade one_run a isz rs :
  adequate w selfmade one_run (DGeneric a isz) = true ->
  Forall (irun_ok w isz) rs -> rs <> [] ->
  run_idec (DGeneric a isz) w (hyb_enc w rs) (lenN (allvals rs)) = Some (map (tr isz) (allvals rs)).
Proof.
  intros Had Hrs Hne.
  destruct (generic_leaf_correct w selfmade one_run a isz (lenN (allvals rs)) rs Had Hrs Hne) as [r [E [Hv _]]].
  unfold run_idec. rewrite E, Hv, N.min_id, lenN_ok, Nat2N.id, firstn_all. reflexivity.
Qed.

(* the own-page array view: run header + the codes as little-endian integers of w/8 bytes (what writer.encode_dict
   emits: `data.values.tobytes()` behind the header) gives the codes back, any header value *)
Lemma fixed_enc_length k vs : length (fixed_enc k vs) = (k * length vs)%nat.
Proof.
  unfold fixed_enc. induction vs as [|v vs IH]; cbn [map concat length]; [lia|].
  rewrite app_length, le_enc_length, IH. lia.
Qed.

Lemma fixed_enc_ok k vs : bytes_ok (fixed_enc k vs).
Proof.
  unfold fixed_enc, bytes_ok. induction vs as [|v vs IH]; cbn [map concat]; [constructor|].
  apply Forall_app. split; [apply le_enc_ok | exact IH].
Qed.

Theorem fast_leaf_correct k h vals :
  (k = 1 \/ k = 2 \/ k = 4)%nat -> h < 2 ^ 64 ->
  Forall (fun v => v < 256 ^ N.of_nat k) vals ->
  fast_read (8 * N.of_nat k) (uleb_enc h ++ fixed_enc k vals) (N.of_nat (length vals)) = Some vals.
Proof.
  intros Hk Hh Hvs. unfold fast_read.
  rewrite varint_reads_spec_encoding by (try exact Hh; apply fixed_enc_ok).
  rewrite dropN_ok, Nat2N.id, skipn_app, Nat.sub_diag, skipn_all. cbn [skipn app].
  replace (8 * N.of_nat k / 8) with (N.of_nat k) by (rewrite N.mul_comm, N.div_mul; lia).
  destruct (N.of_nat k =? 0) eqn:E0; [apply N.eqb_eq in E0; lia|].
  rewrite lenN_ok, fixed_enc_length.
  replace (N.of_nat (k * length vals) / N.of_nat k) with (N.of_nat (length vals))
    by (rewrite Nat2N.inj_mul, N.mul_comm, N.div_mul; lia).
  rewrite N.min_id, !Nat2N.id.
  pose proof (fixed_roundtrip k vals [] Hvs) as R. rewrite app_nil_r in R. rewrite R. reflexivity.
Qed.

(* soundness of the boolean predicate used by the regenerated proofs *)
Lemma dispatch_adequate_spec f : dispatch_adequate f = true ->
  forall w selfmade one_run, w <= 32 -> adequate w selfmade one_run (f w selfmade one_run) = true.
Proof.
  unfold dispatch_adequate, all_flags. intros H w sm one Hw. rewrite forallb_forall in H.
  assert (Hin : In w widths_0_32).
  { unfold widths_0_32. apply in_map_iff. exists (N.to_nat w). split; [apply N2Nat.id|].
    apply in_seq. lia. }
  specialize (H w Hin). repeat (apply andb_prop in H; destruct H as [H ?]).
  destruct sm, one; assumption.
Qed.

(* an adequate dispatch sends a page to the array view exactly when it is marked self-made, of a whole-byte width and ONE
   bit-packed run; never sends a width to a decoder whose item is too small, never allocates another item size than the
   one it tells the decoder *)
Theorem adequate_facts w selfmade one_run d : adequate w selfmade one_run d = true ->
  match d with
  | DFast => selfmade = true /\ own_width w = true /\ one_run = true
  | DGeneric a isz => a = isz /\ (isz = 1 \/ isz = 4) /\ 0 < w <= 8 * isz /\ takes_view w selfmade one_run = false
  | DZeros => w = 0
  | DNone => False
  end.
Proof.
  destruct d; cbn [adequate]; intros H.
  - unfold takes_view in H. repeat (apply andb_prop in H; destruct H as [H ?]). auto.
  - repeat (apply andb_prop in H; destruct H as [H ?]).
    apply N.eqb_eq in H.
    repeat split; try assumption.
    + match goal with H : (_ || _)%bool = true |- _ => apply orb_prop in H; destruct H as [H|H]; apply N.eqb_eq in H; auto end.
    + match goal with H : (0 <? w) = true |- _ => apply N.ltb_lt in H; exact H end.
    + match goal with H : (w <=? _) = true |- _ => apply N.leb_le in H; exact H end.
    + match goal with H : negb _ = true |- _ => apply negb_true_iff in H; exact H end.
  - apply N.eqb_eq in H. exact H.
  - discriminate.
Qed.

(* the signed array view returns a stored whole-byte index unchanged EXACTLY when its top bit is clear: the encoder must keep
   the codes inside the signed range of the width it announces (pandas' code dtypes do; an unsigned narrowing does not) *)
Theorem signed_view_exact k v : (1 <= k)%nat -> v < 2 ^ (8 * N.of_nat k) ->
  (signed_view k v = Z.of_N v <-> v < 2 ^ (8 * N.of_nat k - 1)).
Proof.
  intros Hk Hv. unfold signed_view.
  destruct (N.ltb_spec v (2 ^ (8 * N.of_nat k - 1))) as [L|L].
  - split; [intros _; exact L | reflexivity].
  - split; [|lia]. intros E.
    assert (0 < 2 ^ (8 * Z.of_nat k))%Z by (apply Z.pow_pos_nonneg; lia). lia.
Qed.

Lemma signed_view_high_bit_refuted : exists v, v < 2 ^ 8 /\ signed_view 1 v <> Z.of_N v.
Proof. exists 128. split; [reflexivity|]. vm_compute. discriminate. Qed.

(* ... also when the run holds MORE values than the page has (a last group padded to 8 values, as the format asks for and as
   other writers - or a file merely naming fastparquet - lay it out): the view keeps the first n *)
Lemma fixed_enc_app k a b : fixed_enc k (a ++ b) = fixed_enc k a ++ fixed_enc k b.
Proof. unfold fixed_enc. rewrite map_app, concat_app. reflexivity. Qed.

Theorem fast_leaf_prefix k h vals extra :
  (k = 1 \/ k = 2 \/ k = 4)%nat -> h < 2 ^ 64 ->
  Forall (fun v => v < 256 ^ N.of_nat k) vals ->
  fast_read (8 * N.of_nat k) (uleb_enc h ++ fixed_enc k (vals ++ extra)) (N.of_nat (length vals)) = Some vals.
Proof.
  intros Hk Hh Hvs. unfold fast_read.
  rewrite varint_reads_spec_encoding by (try exact Hh; apply fixed_enc_ok).
  rewrite dropN_ok, Nat2N.id, skipn_app, Nat.sub_diag, skipn_all. cbn [skipn app].
  replace (8 * N.of_nat k / 8) with (N.of_nat k) by (rewrite N.mul_comm, N.div_mul; lia).
  destruct (N.of_nat k =? 0) eqn:E0; [apply N.eqb_eq in E0; lia|].
  rewrite lenN_ok, fixed_enc_length, app_length.
  replace (N.of_nat (k * (length vals + length extra)) / N.of_nat k) with (N.of_nat (length vals + length extra))
    by (rewrite Nat2N.inj_mul, N.mul_comm, N.div_mul; lia).
  replace (N.min (N.of_nat (length vals)) (N.of_nat (length vals + length extra))) with (N.of_nat (length vals)) by lia.
  rewrite !Nat2N.id, fixed_enc_app.
  rewrite (fixed_roundtrip k vals (fixed_enc k extra) Hvs). reflexivity.
Qed.
