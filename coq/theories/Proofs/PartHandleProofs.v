(* Proofs/PartHandleProofs.v — a handle edited through its own methods reads like a freshly opened one (C08, wave 3). *)
From Coq Require Import NArith ZArith Bool Ascii String Arith List.
From Pq Require Import Base.Bytes Impl.Partition Impl.PartHandle Proofs.PartitionE2E.
Import ListNotations.

Section PartHandleProofs.
  Variables F T D : Type.
  Variable feqb : F -> F -> bool.
  Variable teqb : T -> T -> bool.
  Variable deqb : D -> D -> bool.
  Variable f_eq_Z : F -> Z -> bool.
  Variable parse_float : bool -> str -> option F.
  Variable parse_time_np : bool -> str -> option T.
  Variable parse_time_fmt parse_time_pd : str -> option T.
  Variable parse_delta : str -> option D.
  Variable P : Type.
  Variable pm : list (str * kind).
  Variable ord : list str -> list str.
  Notation row := (row F T D P).
  Notation read_model := (read_model F T D feqb teqb deqb f_eq_Z parse_float parse_time_np parse_time_fmt parse_time_pd parse_delta P pm ord).
  Notation h_open := (h_open F T D feqb teqb deqb f_eq_Z parse_float parse_time_np parse_time_fmt parse_time_pd parse_delta P pm ord).
  Notation h_edit := (h_edit F T D feqb teqb deqb f_eq_Z parse_float parse_time_np parse_time_fmt parse_time_pd parse_delta P pm ord).
  Notation h_read := (h_read F T D feqb teqb deqb f_eq_Z parse_float parse_time_np parse_time_fmt parse_time_pd parse_delta P pm).
  Notation apply_edit := (apply_edit F T D P).

  (* opening = what read_model does: the fresh read IS the read through a handle that was just opened *)
  Lemma read_open (fs : list (str * list row)) : h_read (h_open fs) = read_model fs.
  Proof. reflexivity. Qed.

  Lemma edits_commute ops : forall fs : list (str * list row),
    fold_left h_edit ops (h_open fs) = h_open (fold_left apply_edit ops fs).
  Proof.
    induction ops as [|e ops IH]; intros fs; [reflexivity|]. cbn [fold_left].
    change (h_edit (h_open fs) e) with (h_open (apply_edit fs e)). apply IH.
  Qed.

  (* for EVERY dataset and EVERY sequence of appends and removals made through the handle: what the handle reads afterwards is
     what a freshly opened handle reads of the files it then has *)
  Theorem handle_program (fs : list (str * list row)) ops :
    h_read (fold_left h_edit ops (h_open fs)) = read_model (fold_left apply_edit ops fs).
  Proof. rewrite edits_commute. apply read_open. Qed.
End PartHandleProofs.

(* state derived from the paths and NOT refreshed by an edit: the read through the handle differs from the fresh read
   (closed instance, computed: a dataset with k=a, a file of k=b appended through the handle) *)
Definition c_h_open := h_open E0 E0 E0 e0_eqb e0_eqb e0_eqb (fun _ _ => false) (fun _ _ => None) (fun _ _ => None) (fun _ => None)
                         (fun _ => None) (fun _ => None) nat [(s_ "k", KStr)] (fun l => l).
Definition c_h_read := h_read E0 E0 E0 e0_eqb e0_eqb e0_eqb (fun _ _ => false) (fun _ _ => None) (fun _ _ => None) (fun _ => None)
                         (fun _ => None) (fun _ => None) nat [(s_ "k", KStr)].

Theorem handle_stale_state_refuted :
  exists (fs : list (str * list (row E0 E0 E0 nat))) (e : edit E0 E0 E0 nat),
    c_h_read (h_edit_stale E0 E0 E0 nat (c_h_open fs) e) <> cread [(s_ "k", KStr)] (apply_edit E0 E0 E0 nat fs e).
Proof.
  exists [(s_ "k=a/part.0.parquet", [([Some (VStr (s_ "a"))], 0%nat)])],
         (Append E0 E0 E0 nat [(s_ "k=b/part.1.parquet", [([Some (VStr (s_ "b"))], 1%nat)])]).
  vm_compute. discriminate.
Qed.

Example handle_program_nonvacuous :
  c_h_read (h_edit E0 E0 E0 e0_eqb e0_eqb e0_eqb (fun _ _ => false) (fun _ _ => None) (fun _ _ => None) (fun _ => None)
                  (fun _ => None) (fun _ => None) nat [(s_ "k", KStr)] (fun l => l)
                  (c_h_open [(s_ "k=a/part.0.parquet", [([Some (VStr (s_ "a"))], 0%nat)])])
                  (Append E0 E0 E0 nat [(s_ "k=b/part.1.parquet", [([Some (VStr (s_ "b"))], 1%nat)])]))
  = Some (Hive, [([(s_ "k", VStr (s_ "a"))], 0%nat); ([(s_ "k", VStr (s_ "b"))], 1%nat)]).
Proof. vm_compute. reflexivity. Qed.
