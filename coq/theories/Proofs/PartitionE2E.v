(* End-to-end theorem of C08 on the model of Impl/Partition.v:
     read_model (write_model frame) = the rows with non-null keys, each with its key values,
   for every frame, every row-group split, 1..n partition columns, hive and drill.          *)
From Coq Require Import Decimal DecimalString DecimalZ.
From Coq Require Import NArith ZArith Bool Ascii String Arith Lia Permutation List FinFun.
From Pq Require Import Base.Bytes Proofs.BytesProofs Impl.Partition Proofs.PartitionStr Proofs.PartitionProofs.
Import ListNotations.

(* ------------------------------------------------------------------ generic list facts *)
Lemma all_some_map_ext {A B} (f : A -> option B) (g : A -> B) l :
  (forall x, In x l -> f x = Some (g x)) -> all_some (map f l) = Some (map g l).
Proof.
  induction l as [|x r IH]; intros H; cbn; [reflexivity|].
  rewrite (H x (or_introl eq_refl)). rewrite IH; [reflexivity|]. intros y Hy. apply H. now right.
Qed.

Lemma mapi_from_combine {A B} (f : nat -> B) (l : list A) i :
  mapi_from (fun j v => (f j, v)) i l = combine (map f (seq i (length l))) l.
Proof.
  revert i. induction l as [|x r IH]; intros i; cbn; [reflexivity|]. now rewrite IH.
Qed.

Lemma alist_get_combine_nth {V} (ks : list str) (vs : list V) k :
  NoDup ks -> length ks = length vs -> In k ks ->
  exists j v, nth_error ks j = Some k /\ nth_error vs j = Some v /\ alist_get k (combine ks vs) = Some v.
Proof.
  intros Hnd. revert vs. induction Hnd as [|k0 ks Hk0 Hnd IH]; intros vs Hl Hin; [destruct Hin|].
  destruct vs as [|v0 vs]; [discriminate|]. cbn [combine alist_get].
  destruct (str_eqb_spec k k0) as [E|E].
  - subst. exists O, v0. repeat split.
  - destruct Hin as [Hin|Hin]; [congruence|]. injection Hl as Hl.
    destruct (IH vs Hl Hin) as [j [v [H1 [H2 H3]]]]. exists (S j), v. repeat split; assumption.
Qed.

Lemma map_alist_combine {V} (ks : list str) (vs : list V) (d : V) :
  NoDup ks -> length ks = length vs ->
  map (fun k => (k, match alist_get k (combine ks vs) with Some v => v | None => d end)) ks = combine ks vs.
Proof.
  intros Hnd. revert vs. induction Hnd as [|k0 ks Hk0 Hnd IH]; intros vs Hl; [reflexivity|].
  destruct vs as [|v0 vs]; [discriminate|]. injection Hl as Hl. cbn [map combine alist_get].
  rewrite str_eqb_refl. f_equal. etransitivity; [|exact (IH vs Hl)]. apply map_ext_in. intros k Hk.
  destruct (str_eqb_spec k k0) as [E|E]; [subst; contradiction|reflexivity].
Qed.

Lemma F2_length {A B} (R : A -> B -> Prop) l l' : Forall2 R l l' -> length l = length l'.
Proof. induction 1; cbn; congruence. Qed.

Lemma fold_left_res_err {A B} (f : res A -> B -> res A) (l : list B) (e : res A) :
  (forall b, f e b = e) -> fold_left f l e = e.
Proof. intros H. induction l as [|b r IH]; cbn; [reflexivity|]. now rewrite H. Qed.

Section E2E.
  Variables F T D : Type.
  Variable feqb : F -> F -> bool.
  Variable teqb : T -> T -> bool.
  Variable deqb : D -> D -> bool.
  Variable f_eq_Z : F -> Z -> bool.
  Variable show_float : F -> str.
  Variable parse_float : bool -> str -> option F.
  Variable show_time_iso show_time_str : T -> str.
  Variable parse_time_np : bool -> str -> option T.
  Variable parse_time_fmt parse_time_pd : str -> option T.
  Variable parse_delta : str -> option D.
  Hypothesis feqb_spec : forall a b, reflect (a = b) (feqb a b).
  Hypothesis teqb_spec : forall a b, reflect (a = b) (teqb a b).
  Hypothesis deqb_spec : forall a b, reflect (a = b) (deqb a b).
  Variable P : Type.

  Notation value := (value F T D).
  Notation show := (show F T D show_float show_time_iso show_time_str).
  Notation veqb := (veqb F T D feqb teqb deqb f_eq_Z).
  Notation parse_with_meta := (parse_with_meta F T D parse_float parse_time_np parse_time_fmt).
  Notation parse_guess := (parse_guess F T D parse_float parse_time_pd parse_delta).
  Notation val_to_num := (val_to_num F T D parse_float parse_time_np parse_time_fmt parse_time_pd parse_delta).
  Notation row := (row F T D P).
  Notation nonnull := (nonnull F T D P).
  Notation key_of := (key_of F T D P).
  Notation keys_eqb := (keys_eqb F T D feqb teqb deqb f_eq_Z).
  Notation insert_group := (insert_group F T D feqb teqb deqb f_eq_Z P).
  Notation group_by := (group_by F T D feqb teqb deqb f_eq_Z P).
  Notation segment := (segment F T D show_float show_time_iso show_time_str).
  Notation dir_segments := (dir_segments F T D show_float show_time_iso show_time_str).
  Notation dir_path := (dir_path F T D show_float show_time_iso show_time_str).
  Notation rel_path := (rel_path F T D show_float show_time_iso show_time_str).
  Notation write_chunk := (write_chunk F T D feqb teqb deqb f_eq_Z show_float show_time_iso show_time_str P).
  Notation write_model := (write_model F T D feqb teqb deqb f_eq_Z show_float show_time_iso show_time_str P).
  Notation pstate := (pstate F T D).
  Notation st0 := (st0 F T D).
  Notation cats_add := (cats_add F T D feqb teqb deqb f_eq_Z).
  Notation add_hit := (add_hit F T D feqb teqb deqb f_eq_Z parse_float parse_time_np parse_time_fmt parse_time_pd parse_delta).
  Notation path_hits := (path_hits).
  Notation path_to_cats := (path_to_cats F T D feqb teqb deqb f_eq_Z parse_float parse_time_np parse_time_fmt parse_time_pd parse_delta).
  Notation paths_to_cats := (paths_to_cats F T D feqb teqb deqb f_eq_Z parse_float parse_time_np parse_time_fmt parse_time_pd parse_delta).
  Notation row_value := (row_value F T D parse_float parse_time_np parse_time_fmt parse_time_pd parse_delta).
  Notation row_cell := (row_cell F T D feqb teqb deqb f_eq_Z parse_float parse_time_np parse_time_fmt parse_time_pd parse_delta).
  Notation row_cells := (row_cells F T D feqb teqb deqb f_eq_Z parse_float parse_time_np parse_time_fmt parse_time_pd parse_delta).
  Notation read_files := (read_files F T D feqb teqb deqb f_eq_Z parse_float parse_time_np parse_time_fmt parse_time_pd parse_delta P).
  Notation read_model := (read_model F T D feqb teqb deqb f_eq_Z parse_float parse_time_np parse_time_fmt parse_time_pd parse_delta P).
  Notation unwrap := (unwrap F T D).
  Notation of_kind := (of_kind F T D).
  Notation is_vstr := (is_vstr F T D).

  (* ---------------------------------------------------------------- == on values *)
  Lemma veqb_refl (v : value) : veqb v v = true.
  Proof.
    induction v as [z|b|s|f|t|d|l IH]; cbn.
    - apply Z.eqb_refl.
    - now destruct b.
    - apply str_eqb_refl.
    - destruct (feqb_spec f f); congruence.
    - destruct (teqb_spec t t); congruence.
    - destruct (deqb_spec d d); congruence.
    - exact IH.
  Qed.

  Lemma keys_eqb_refl (k : list value) : keys_eqb k k = true.
  Proof. induction k as [|v r IH]; cbn; [reflexivity|]. now rewrite veqb_refl, IH. Qed.

  (* a value a column of metadata kind k can hold and that can come back *)
  Definition wf_base (k : kind) (v : value) : Prop :=        (* plain (not categorical) columns *)
    match k, v with
    | KInt sg bits, VInt z => in_range sg bits z = true
    | KBool, VBool _ | KStr, VStr _ | KFloat _, VFloat _ | KTime _, VTime _ | KTimeTz, VTime _ => True
    | _, _ => False
    end.
  (* categorical columns: text labels when the label type was not recorded (files of older writers), labels of
     the recorded plain type otherwise *)
  Definition wf (k : kind) (v : value) : Prop :=
    match k with
    | KCat None => match v with VCat (VStr _) => True | _ => False end
    | KCat (Some lk) => match v with VCat l => wf_base lk l | _ => False end
    | _ => wf_base k v
    end.

  Lemma wf_base_of_kind k v : wf_base k v -> of_kind_base F T D k v /\ unwrap v = v.
  Proof. destruct k, v; cbn; tauto. Qed.

  Lemma wf_of_kind k v : wf k v -> of_kind k (unwrap v).
  Proof.
    destruct k as [| | | | | |[lk|]]; try (intros H; destruct (wf_base_of_kind _ _ H) as [H1 H2]; rewrite H2; exact H1).
    - destruct v as [| | | | | |l]; cbn; try tauto. intros H. apply (wf_base_of_kind lk l H).
    - destruct v as [| | | | | |l]; cbn; try tauto.
  Qed.

  Lemma veqb_wf_base_eq k a b : wf_base k a -> wf_base k b -> veqb a b = true -> a = b.
  Proof.
    destruct k, a, b; cbn; try tauto; intros Ha Hb H.
    - apply Z.eqb_eq in H. now subst.
    - apply Bool.eqb_prop in H. now subst.
    - destruct (str_eqb_spec s s0); [now subst|discriminate].
    - destruct (feqb_spec f f0); [now subst|discriminate].
    - destruct (teqb_spec t t0); [now subst|discriminate].
    - destruct (teqb_spec t t0); [now subst|discriminate].
  Qed.

  Lemma veqb_wf_eq k a b : wf k a -> wf k b -> veqb a b = true -> a = b.
  Proof.
    destruct k as [| | | | | |[lk|]]; try apply veqb_wf_base_eq.
    - destruct a as [| | | | | |la], b as [| | | | | |lb]; cbn; try tauto. intros Ha Hb H.
      f_equal. now apply (veqb_wf_base_eq lk).
    - destruct a as [| | | | | |la], b as [| | | | | |lb]; cbn; try tauto.
      destruct la, lb; try tauto. intros _ _ H. cbn in H. destruct (str_eqb_spec s s0); [now subst|discriminate].
  Qed.

  (* ---------------------------------------------------------------- the OrderedDict of sets *)
  Lemma cats_add_In k v c k' vs' :
    In (k', vs') (cats_add k v c) ->
    In (k', vs') c \/ (k' = k /\ (vs' = [v] \/ exists vs0, In (k, vs0) c /\ (vs' = vs0 \/ vs' = vs0 ++ [v]))).
  Proof.
    induction c as [|[k0 vs0] t IH]; cbn.
    - intros [[= <- <-]|[]]. right. split; [reflexivity|now left].
    - destruct (str_eqb_spec k k0) as [E|E].
      + subst k0. intros [[= <- <-]|H].
        * right. split; [reflexivity|]. right. exists vs0. split; [now left|].
          destruct (existsb (veqb v) vs0); [now left|now right].
        * left. now right.
      + intros [[= <- <-]|H]; [left; now left|].
        destruct (IH H) as [H1|[H1 [H2|[vs1 [H2 H3]]]]].
        * left. now right.
        * right. split; [exact H1|now left].
        * right. split; [exact H1|]. right. exists vs1. split; [now right|exact H3].
  Qed.

  Lemma existsb_app_l {A} (f : A -> bool) a b : existsb f a = true -> existsb f (a ++ b) = true.
  Proof. intros H. rewrite existsb_app, H. reflexivity. Qed.

  Lemma cats_add_mono k v c k' vs0 u :
    In (k', vs0) c -> existsb (veqb u) vs0 = true ->
    exists vs1, In (k', vs1) (cats_add k v c) /\ existsb (veqb u) vs1 = true.
  Proof.
    induction c as [|[k0 vs] t IH]; cbn; [tauto|].
    intros [[= -> ->]|H] Hu.
    - destruct (str_eqb_spec k k') as [E|E].
      + eexists. split; [now left|]. destruct (existsb (veqb v) vs0); [exact Hu|now apply existsb_app_l].
      + exists vs0. split; [now left|exact Hu].
    - destruct (str_eqb_spec k k0) as [E|E].
      + exists vs0. split; [now right|exact Hu].
      + destruct (IH H Hu) as [vs1 [H1 H2]]. exists vs1. split; [now right|exact H2].
  Qed.

  Lemma cats_add_added k v c : exists vs1, In (k, vs1) (cats_add k v c) /\ existsb (veqb v) vs1 = true.
  Proof.
    induction c as [|[k0 vs] t IH]; cbn.
    - exists [v]. split; [now left|]. cbn. now rewrite veqb_refl.
    - destruct (str_eqb_spec k k0) as [E|E].
      + subst k0. eexists. split; [now left|]. destruct (existsb (veqb v) vs) eqn:Ev; [exact Ev|].
        rewrite existsb_app. cbn. rewrite veqb_refl. now rewrite orb_true_r.
      + destruct IH as [vs1 [H1 H2]]. exists vs1. split; [now right|exact H2].
  Qed.

  Lemma cats_add_keys k v c :
    map fst (cats_add k v c) = if mem_str k (map fst c) then map fst c else map fst c ++ [k].
  Proof.
    induction c as [|[k0 vs] t IH]; cbn; [reflexivity|].
    destruct (str_eqb_spec k k0) as [E|E]; cbn; [reflexivity|]. rewrite IH.
    fold (mem_str k (map fst t)). now destruct (mem_str k (map fst t)).
  Qed.

  Notation st_cats := (st_cats F T D).
  Notation st_strings := (st_strings F T D).
  Notation st_raw := (st_raw F T D).
  Notation final_cats := (final_cats F T D).
  Notation st_seen := (st_seen F T D).

  (* the key -> set of path texts *)
  Definition raw_has (r : list (str * list str)) (k x : str) : Prop :=
    exists xs, alist_get k r = Some xs /\ In x xs.

  Lemma raw_add_new k x r : raw_has (raw_add k x r) k x.
  Proof.
    unfold raw_has. induction r as [|[k0 xs] t IH]; cbn [raw_add].
    - exists [x]. cbn [alist_get]. rewrite str_eqb_refl. split; [reflexivity|now left].
    - destruct (str_eqb_spec k k0) as [E|E].
      + subst k0. cbn [alist_get]. rewrite str_eqb_refl. eexists. split; [reflexivity|].
        destruct (mem_str x xs) eqn:Em; [now apply mem_str_In|apply in_or_app; right; now left].
      + cbn [alist_get]. destruct (str_eqb_spec k k0); [congruence|]. exact IH.
  Qed.

  Lemma alist_get_cons {V} k k0 (v0 : V) t :
    alist_get k ((k0, v0) :: t) = if str_eqb k k0 then Some v0 else alist_get k t.
  Proof. reflexivity. Qed.

  Lemma raw_add_mono k x r k' x' : raw_has r k' x' -> raw_has (raw_add k x r) k' x'.
  Proof.
    unfold raw_has. induction r as [|[k0 xs] t IH]; cbn [raw_add]; intros [ys [H1 H2]]; [discriminate|].
    rewrite alist_get_cons in H1. destruct (str_eqb_spec k k0) as [E|E].
    - subst k0. rewrite alist_get_cons. destruct (str_eqb_spec k' k) as [E'|E'].
      + injection H1 as <-. eexists. split; [reflexivity|].
        destruct (mem_str x xs); [exact H2|apply in_or_app; now left].
      + exists ys. split; assumption.
    - rewrite alist_get_cons. destruct (str_eqb_spec k' k0) as [E'|E'].
      + exists ys. split; assumption.
      + apply IH. exists ys. split; assumption.
  Qed.

  Lemma raw_add_only k x r k' x' : raw_has (raw_add k x r) k' x' -> raw_has r k' x' \/ (k' = k /\ x' = x).
  Proof.
    unfold raw_has. induction r as [|[k0 xs] t IH]; cbn [raw_add]; intros [ys [H1 H2]].
    - rewrite alist_get_cons in H1. destruct (str_eqb_spec k' k) as [E|E]; [|discriminate]. injection H1 as <-.
      destruct H2 as [<-|[]]. right. now split.
    - destruct (str_eqb_spec k k0) as [E|E].
      + subst k0. rewrite alist_get_cons in H1. rewrite alist_get_cons. destruct (str_eqb_spec k' k) as [E'|E'].
        * injection H1 as <-. subst k'. destruct (mem_str x xs).
          -- left. exists xs. split; [reflexivity|exact H2].
          -- apply in_app_or in H2. destruct H2 as [H2|[<-|[]]].
             ++ left. exists xs. split; [reflexivity|exact H2].
             ++ right. now split.
        * left. exists ys. split; assumption.
      + rewrite alist_get_cons in H1. rewrite alist_get_cons. destruct (str_eqb_spec k' k0) as [E'|E'].
        * left. exists ys. split; assumption.
        * apply IH. exists ys. split; assumption.
  Qed.

  Definition add_keys (K : list str) (ks : list str) : list str :=
    fold_left (fun K k => if mem_str k K then K else K ++ [k]) ks K.

  Lemma add_keys_present K ks : (forall k, In k ks -> In k K) -> add_keys K ks = K.
  Proof.
    unfold add_keys. induction ks as [|k r IH]; intros H; cbn; [reflexivity|].
    assert (Hk : mem_str k K = true) by (apply mem_str_In, H; now left). rewrite Hk.
    apply IH. intros k' Hk'. apply H. now right.
  Qed.

  Lemma add_keys_fresh K ks : NoDup (K ++ ks) -> add_keys K ks = K ++ ks.
  Proof.
    unfold add_keys. revert K. induction ks as [|k r IH]; intros K H; cbn; [now rewrite app_nil_r|].
    assert (Hk : mem_str k K = false).
    { destruct (mem_str k K) eqn:E; [|reflexivity]. apply mem_str_In in E.
      apply NoDup_remove_2 in H. exfalso. apply H. apply in_or_app. now left. }
    rewrite Hk. rewrite IH; rewrite <- app_assoc; [reflexivity|exact H].
  Qed.

  Lemma pair_eqb_spec (a b : str * str) : reflect (a = b) (pair_eqb a b).
  Proof.
    destruct a as [a1 a2], b as [b1 b2]. unfold pair_eqb. cbn.
    destruct (str_eqb_spec a1 b1) as [E1|E1], (str_eqb_spec a2 b2) as [E2|E2]; cbn; constructor; congruence.
  Qed.

  Lemma NoDup_fst_unique {A B} (l : list (A * B)) k v v' :
    NoDup (map fst l) -> In (k, v) l -> In (k, v') l -> v = v'.
  Proof.
    induction l as [|[k0 v0] t IH]; cbn; [tauto|]. intros Hnd H1 H2.
    apply NoDup_cons_iff in Hnd. destruct Hnd as [Hn Hnd].
    destruct H1 as [E1|H1], H2 as [E2|H2].
    - congruence.
    - injection E1 as E1 E1'. subst. exfalso. apply Hn. change k with (fst (k, v')). now apply in_map.
    - injection E2 as E2 E2'. subst. exfalso. apply Hn. change k with (fst (k, v)). now apply in_map.
    - now apply IH.
  Qed.


  (* ================================================================ the writer *)
  Section Writer.
    Variable ROWS : list row.

    Definition Ginv (gs : list (list value * list row)) : Prop :=
      forall k rs, In (k, rs) gs ->
        (exists r0, In r0 rs /\ k = key_of r0) /\
        forall r, In r rs -> In r ROWS /\ nonnull r = true /\ keys_eqb (key_of r) k = true.

    Lemma insert_group_G r gs : In r ROWS -> nonnull r = true -> Ginv gs -> Ginv (insert_group (key_of r) r gs).
    Proof.
      intros Hr Hn. induction gs as [|[k' rs] t IH]; intros Hg k rs0 Hin.
      - cbn in Hin. destruct Hin as [E|[]]. injection E as <- <-. split.
        + exists r. split; [now left|reflexivity].
        + intros r' [<-|[]]. repeat split; [exact Hr|exact Hn|apply keys_eqb_refl].
      - cbn in Hin. destruct (keys_eqb (key_of r) k') eqn:E.
        + destruct Hin as [E'|Hin].
          * injection E' as <- <-. destruct (Hg k' rs (or_introl eq_refl)) as [[r0 [H0 H0']] H1]. split.
            -- exists r0. split; [apply in_or_app; now left|exact H0'].
            -- intros r' Hr'. apply in_app_or in Hr'. destruct Hr' as [Hr'|[<-|[]]]; [now apply H1|].
               repeat split; assumption.
          * apply (Hg k rs0). now right.
        + destruct Hin as [E'|Hin].
          * injection E' as <- <-. apply (Hg k' rs). now left.
          * apply (IH (fun k rs H => Hg k rs (or_intror H)) k rs0 Hin).
    Qed.

    Lemma group_by_G rows : incl rows ROWS -> Ginv (group_by rows).
    Proof.
      unfold Partition.group_by.
      assert (H : forall gs, Ginv gs -> incl rows ROWS ->
        Ginv (fold_left (fun gs r => if nonnull r then insert_group (key_of r) r gs else gs) rows gs)).
      { induction rows as [|r rows IH]; intros gs Hg Hi; cbn; [exact Hg|].
        apply IH; [|intros x Hx; apply Hi; now right].
        destruct (nonnull r) eqn:E; [|exact Hg]. apply insert_group_G; [apply Hi; now left|exact E|exact Hg]. }
      intros Hi. apply H; [|exact Hi]. intros k rs [].
    Qed.
  End Writer.

  Lemma write_model_files hive names chunks : forall i0 f,
    In f (concat (mapi_from (write_chunk hive names) i0 chunks)) ->
    exists i chunk k, In chunk chunks /\ In (k, snd f) (group_by chunk) /\
                      fst f = rel_path hive names k (part_name i).
  Proof.
    induction chunks as [|c r IH]; intros i0 f Hin; cbn in Hin; [destruct Hin|].
    apply in_app_or in Hin. destruct Hin as [Hin|Hin].
    - unfold Partition.write_chunk in Hin. apply in_map_iff in Hin. destruct Hin as [[k rs] [<- Hg]].
      exists i0, c, k. cbn [fst snd]. repeat split; [now left|exact Hg].
    - destruct (IH _ _ Hin) as [i [chunk [k [H1 [H2 H3]]]]]. exists i, chunk, k. repeat split; [now right|exact H2|exact H3].
  Qed.

  Lemma write_model_perm hive names chunks : forall i0,
    Permutation (concat (map snd (concat (mapi_from (write_chunk hive names) i0 chunks))))
                (filter nonnull (concat chunks)).
  Proof.
    induction chunks as [|c r IH]; intros i0; cbn; [constructor|].
    rewrite map_app, concat_app, filter_app. apply Permutation_app; [|apply IH].
    unfold Partition.write_chunk. rewrite map_map. cbn [snd].
    apply (group_by_perm F T D feqb teqb deqb f_eq_Z P).
  Qed.

  (* ================================================================ the reader, generically *)
  Section Reader.
    Variable hive : bool.
    Variable pm : list (str * kind).
    Variable names : list str.          (* partition column names (writer) *)
    Variable pname : nat -> str.        (* file names inside a directory: part.i.parquet for the writer, any names for lists of files *)
    Variable rnames : list str.         (* names the reader gives to the levels *)
    Hypothesis rn_nodup : NoDup rnames.
    Hypothesis rn_nonnil : rnames <> [].
    Hypothesis rn_len : length rnames = length names.
    Variable Pv : str -> value -> Prop. (* admissible values of the level with reader name n *)
    Variable rv : value -> value.       (* the value the reader rebuilds *)
    Variable textlevel : str -> Prop.
    Hypothesis Ha : forall n v, Pv n v -> val_to_num (alist_get n pm) (show hive v) = Ok (rv v).
    Hypothesis Hb1 : forall n v, Pv n v -> is_vstr (rv v) = true -> textlevel n.
    Hypothesis Hb2 : forall n v, textlevel n -> Pv n v -> val_to_num (Some KStr) (show hive v) = Ok (rv v).
    Hypothesis Hc : forall n v v', Pv n v -> Pv n v' -> veqb (rv v) (rv v') = true -> rv v = rv v'.

    Definition key_ok (key : list value) : Prop := Forall2 Pv rnames key.
    Definition hits_of (key : list value) : list (str * str) := combine rnames (map (show hive) key).
    Definition mk2 (kx : str * str) : list str := [fst kx; snd kx].

    Hypothesis Hd1 : forall key, key_ok key ->
      path_hits hive (dir_path hive names key, split_on c_slash (dir_path hive names key)) = Ok (hits_of key).
    Hypothesis Hd2 : forall key, key_ok key ->
      dir_path hive names key <> [] /\ length (split_on c_slash (dir_path hive names key)) = length names.
    Hypothesis Hd3 : forall key i, key_ok key ->
      strip_tail (rel_path hive names key (pname i)) = dir_path hive names key /\
      rel_path hive names key (pname i) <> [].
    Hypothesis Hd4 : forall key i, key_ok key ->
      exists tail, row_partitions hive (rel_path hive names key (pname i)) = map mk2 (hits_of key) ++ tail.
    Hypothesis Hd5 : hive = false -> forall key, key_ok key -> hive_hits (dir_path hive names key) = None.

    Definition Lv (n : str) (x : value) : Prop := exists v, Pv n v /\ x = rv v.

    Record Inv (st : pstate) : Prop := {
      inv_cats : forall k vs, In (k, vs) (st_cats st) -> In k rnames /\ Forall (Lv k) vs;
      inv_str : forall k, In k (st_strings st) -> textlevel k;
      inv_seen : forall k x, In (k, x) (st_seen st) ->
        exists v, Pv k v /\ x = show hive v /\ exists vs, In (k, vs) (st_cats st) /\ existsb (veqb (rv v)) vs = true;
      inv_raw1 : forall k x, In (k, x) (st_seen st) -> raw_has (st_raw st) k x;
      inv_raw2 : forall k x, raw_has (st_raw st) k x -> exists v, Pv k v /\ x = show hive v }.

    Lemma Inv0 : Inv st0.
    Proof. split; cbn; intros; try tauto. destruct H as [xs [H _]]. discriminate. Qed.

    Lemma add_hit_step st k v : Inv st -> In k rnames -> Pv k v ->
      exists st', add_hit pm (Ok st) (k, show hive v) = Ok st' /\ Inv st' /\
        incl (st_seen st) (st_seen st') /\ In (k, show hive v) (st_seen st') /\
        map fst (st_cats st') = (if mem_str k (map fst (st_cats st)) then map fst (st_cats st) else map fst (st_cats st) ++ [k]).
    Proof.
      intros HI Hk Hv. unfold add_hit. cbn [fst snd].
      destruct (existsb (pair_eqb (k, show hive v)) (st_seen st)) eqn:Es.
      - exists st. split; [reflexivity|]. split; [exact HI|]. split; [apply incl_refl|].
        apply existsb_exists in Es. destruct Es as [y [Hy Ey]].
        destruct (pair_eqb_spec (k, show hive v) y) as [E|E]; [|discriminate]. subst y.
        split; [exact Hy|].
        destruct (inv_seen st HI _ _ Hy) as [v' [_ [_ [vs [Hvs _]]]]].
        assert (Hm : mem_str k (map fst (st_cats st)) = true).
        { apply mem_str_In. change k with (fst (k, vs)). now apply in_map. }
        now rewrite Hm.
      - assert (Hval : val_to_num (if mem_str k (st_strings st) then Some KStr else alist_get k pm) (show hive v) = Ok (rv v)).
        { destruct (mem_str k (st_strings st)) eqn:Em.
          - apply (Hb2 k v); [|exact Hv]. apply (inv_str st HI). now apply mem_str_In.
          - now apply Ha. }
        rewrite Hval. eexists. split; [reflexivity|]. cbn [Partition.st_cats Partition.st_strings Partition.st_seen Partition.st_raw].
        split; [|split; [|split]].
        + split; cbn [Partition.st_cats Partition.st_strings Partition.st_seen Partition.st_raw].
          * intros k' vs' Hin. apply cats_add_In in Hin.
            destruct Hin as [Hin|[-> [-> | [vs0 [Hin [-> | ->]]]]]].
            -- exact (inv_cats st HI _ _ Hin).
            -- split; [exact Hk|]. constructor; [|constructor]. now exists v.
            -- exact (inv_cats st HI _ _ Hin).
            -- split; [exact Hk|]. apply Forall_app. split; [exact (proj2 (inv_cats st HI _ _ Hin))|].
               constructor; [|constructor]. now exists v.
          * intros k' Hin. destruct (is_vstr (rv v)) eqn:Ev.
            -- destruct Hin as [<-|Hin]; [now apply (Hb1 k v)|now apply (inv_str st HI)].
            -- now apply (inv_str st HI).
          * intros k' x [[= <- <-]|Hin].
            -- exists v. split; [exact Hv|]. split; [reflexivity|]. apply cats_add_added.
            -- destruct (inv_seen st HI _ _ Hin) as [v' [H1 [H2 [vs [H3 H4]]]]].
               exists v'. split; [exact H1|]. split; [exact H2|]. now apply (cats_add_mono k (rv v) _ k' vs).
          * intros k' x [E|Hin].
            -- injection E as <- <-. apply raw_add_new.
            -- apply raw_add_mono. exact (inv_raw1 st HI _ _ Hin).
          * intros k' x Hr. apply raw_add_only in Hr. destruct Hr as [Hr|[-> ->]].
            -- exact (inv_raw2 st HI _ _ Hr).
            -- now exists v.
        + intros y Hy. now right.
        + now left.
        + apply cats_add_keys.
    Qed.

    Definition hit_ok (kx : str * str) : Prop := In (fst kx) rnames /\ exists v, Pv (fst kx) v /\ snd kx = show hive v.

    Lemma fold_hits hits : Forall hit_ok hits -> forall st, Inv st ->
      exists st', fold_left (add_hit pm) hits (Ok st) = Ok st' /\ Inv st' /\
        incl (st_seen st) (st_seen st') /\ (forall kx, In kx hits -> In kx (st_seen st')) /\
        map fst (st_cats st') = add_keys (map fst (st_cats st)) (map fst hits).
    Proof.
      induction 1 as [|[k x] r [Hk [v [Hv Hx]]] Hr IH]; intros st HI.
      - exists st. split; [reflexivity|]. split; [exact HI|]. split; [apply incl_refl|]. split; [intros kx []|reflexivity].
      - cbn [fst snd] in *. subst x. cbn [fold_left].
        destruct (add_hit_step st k v HI Hk Hv) as [st1 [E1 [HI1 [Hs1 [Hin1 Hk1]]]]]. rewrite E1.
        destruct (IH st1 HI1) as [st2 [E2 [HI2 [Hs2 [Hin2 Hk2]]]]]. exists st2.
        split; [exact E2|]. split; [exact HI2|]. split; [eapply incl_tran; eassumption|].
        split.
        + intros kx [<-|Hin]; [apply Hs2, Hin1|now apply Hin2].
        + rewrite Hk2, Hk1. reflexivity.
    Qed.

    Lemma hits_ok key : key_ok key -> Forall hit_ok (hits_of key) /\ map fst (hits_of key) = rnames.
    Proof.
      unfold key_ok, hits_of. intros H.
      assert (G : forall ns, Forall2 Pv ns key -> incl ns rnames ->
                  Forall hit_ok (combine ns (map (show hive) key)) /\ map fst (combine ns (map (show hive) key)) = ns).
      { clear H. intros ns H. induction H as [|n v ns key Hnv Hr IH]; intros Hi; cbn; [split; [constructor|reflexivity]|].
        destruct IH as [IH1 IH2]; [intros y Hy; apply Hi; now right|].
        split; [|now rewrite IH2]. constructor; [|exact IH1]. split; cbn; [apply Hi; now left|now exists v]. }
      apply G; [exact H|apply incl_refl].
    Qed.

    (* all directories of a dataset, in any order *)
    Lemma fold_dirs keys : Forall key_ok keys -> forall st, Inv st ->
      (map fst (st_cats st) = [] \/ map fst (st_cats st) = rnames) ->
      exists st', fold_left (fun st pp => match st with
                               | Ok _ => match path_hits hive pp with
                                         | Ok hits => fold_left (add_hit pm) hits st
                                         | VErr => VErr
                                         | OErr => OErr
                                         end
                               | e => e
                               end)
                    (map (fun key => (dir_path hive names key, split_on c_slash (dir_path hive names key))) keys) (Ok st) = Ok st' /\
        Inv st' /\ incl (st_seen st) (st_seen st') /\
        (forall key kx, In key keys -> In kx (hits_of key) -> In kx (st_seen st')) /\
        (map fst (st_cats st') = rnames \/ (keys = [] /\ map fst (st_cats st') = map fst (st_cats st))).
    Proof.
      induction 1 as [|key r Hkey Hr IH]; intros st HI HK.
      - exists st. split; [reflexivity|]. split; [exact HI|]. split; [apply incl_refl|]. split; [intros ? ? []|]. now right.
      - cbn [map fold_left]. rewrite (Hd1 key Hkey).
        destruct (hits_ok key Hkey) as [Hho Hfst].
        destruct (fold_hits _ Hho st HI) as [st1 [E1 [HI1 [Hs1 [Hin1 Hk1]]]]]. rewrite E1.
        assert (HK1 : map fst (st_cats st1) = rnames).
        { rewrite Hk1, Hfst. destruct HK as [HK|HK]; rewrite HK.
          - apply (add_keys_fresh [] rnames). exact rn_nodup.
          - apply add_keys_present. tauto. }
        destruct (IH st1 HI1 (or_intror HK1)) as [st2 [E2 [HI2 [Hs2 [Hin2 Hk2]]]]]. exists st2.
        split; [exact E2|]. split; [exact HI2|]. split; [eapply incl_tran; eassumption|]. split.
        + intros key' kx [<-|Hin] Hkx; [apply Hs2, Hin1, Hkx|now apply (Hin2 key')].
        + left. destruct Hk2 as [Hk2|[_ Hk2]]; [exact Hk2|now rewrite Hk2].
    Qed.

    (* ------------------------------------------------------------ one row group's partition cells *)
    Lemma filter_first (k x : str) hits tail :
      alist_get k hits = Some x ->
      exists rest, filter (fun p : list str => match p with k' :: _ => str_eqb k' k | [] => false end)
                          (map mk2 hits ++ tail) = [k; x] :: rest.
    Proof.
      induction hits as [|[k0 x0] r IH]; cbn [alist_get]; [discriminate|].
      destruct (str_eqb_spec k k0) as [E|E].
      - intros [= <-]. subst k0. cbn. rewrite str_eqb_refl. eexists. reflexivity.
      - intros H. cbn. destruct (str_eqb_spec k0 k) as [E'|E']; [congruence|]. now apply IH.
    Qed.

    Lemma alist_get_In {V} k (l : list (str * V)) x : alist_get k l = Some x -> In (k, x) l.
    Proof.
      induction l as [|[k0 x0] r IH]; cbn; [discriminate|].
      destruct (str_eqb_spec k k0) as [E|E]; [intros [= <-]; subst; now left|intros H; right; now apply IH].
    Qed.

    Lemma key_level key k x : key_ok key -> alist_get k (hits_of key) = Some x ->
      exists v, Pv k v /\ x = show hive v /\ alist_get k (combine rnames (map rv key)) = Some (rv v).
    Proof.
      unfold key_ok, hits_of. generalize rnames as ns. intros ns H. induction H as [|n v ns key Hnv Hr IH]; cbn; [discriminate|].
      destruct (str_eqb_spec k n) as [E|E].
      - intros [= <-]. subst n. exists v. repeat split. exact Hnv.
      - exact IH.
    Qed.

    Lemma key_level_ex key k : key_ok key -> In k rnames -> exists x, alist_get k (hits_of key) = Some x.
    Proof.
      unfold key_ok, hits_of. generalize rnames as ns. intros ns H. induction H as [|n v ns key Hnv Hr IH]; cbn; [tauto|].
      intros Hin. destruct (str_eqb_spec k n) as [E|E]; [eexists; reflexivity|].
      apply IH. destruct Hin as [Hin|Hin]; [congruence|exact Hin].
    Qed.

    Definition cellval (key : list value) (k : str) : value :=
      match alist_get k (combine rnames (map rv key)) with Some v => v | None => VStr [] end.

    Definition cats_ok (cats : list (str * list value)) (key : list value) : Prop :=
      (forall k vs, In (k, vs) cats -> In k rnames /\ Forall (Lv k) vs) /\
      (forall kx, In kx (hits_of key) ->
         exists v, Pv (fst kx) v /\ snd kx = show hive v /\
                   exists vs, In (fst kx, vs) cats /\ existsb (veqb (rv v)) vs = true) /\
      map fst cats = rnames.

    Lemma read_cell cats key i k vs : key_ok key -> cats_ok cats key -> In (k, vs) cats ->
      row_cell hive pm (rel_path hive names key (pname i)) (k, vs) = Some (k, cellval key k).
    Proof.
      intros Hkey [Hc1 [Hc2 Hc3]] Hin. unfold row_cell, Partition.row_value. cbn [fst snd].
      destruct (Hd4 key i Hkey) as [tail Et]. rewrite Et.
      destruct (Hc1 _ _ Hin) as [Hk Hvs].
      destruct (key_level_ex key k Hkey Hk) as [x Hx].
      destruct (filter_first k x _ tail Hx) as [rest Er]. rewrite Er. cbn [pair_of].
      destruct (key_level key k x Hkey Hx) as [v [Hv [Ex Hcell]]]. subst x.
      rewrite (Ha k v Hv). cbn [opt_of_res].
      destruct (Hc2 _ (alist_get_In _ _ _ Hx)) as [v' [Hv' [Ex' [vs' [Hin' Hex]]]]]. cbn [fst snd] in *.
      assert (Erv : rv v' = rv v).
      { pose proof (Ha k v' Hv') as H1. rewrite <- Ex', (Ha k v Hv) in H1. now injection H1. }
      rewrite Erv in Hex.
      assert (vs' = vs) by (eapply NoDup_fst_unique; [rewrite Hc3; exact rn_nodup|exact Hin'|exact Hin]). subst vs'.
      assert (Eval : (if forallb is_vstr vs then Some (VStr (show hive v)) else Some (rv v)) = Some (rv v)).
      { destruct (forallb is_vstr vs) eqn:Ef; [|reflexivity]. f_equal.
        pose proof Hex as Hex2. apply existsb_exists in Hex2. destruct Hex2 as [y [Hy Hey]].
        rewrite forallb_forall in Ef. pose proof (Ef y Hy) as Hys.
        rewrite Forall_forall in Hvs. destruct (Hvs y Hy) as [v2 [Hv2 Ey]]. subst y.
        pose proof (Hc k v v2 Hv Hv2 Hey) as E2. rewrite <- E2 in Hys.
        pose proof (Hb2 k v (Hb1 k v Hv Hys) Hv) as E3.
        unfold Partition.val_to_num, Partition.parse_with_meta in E3. now injection E3. }
      rewrite Eval.
      destruct (index_of_some _ _ _ Hex) as [j Hj]. rewrite Hj.
      destruct (index_of_nth _ _ _ _ Hj) as [y [Hy Hey]]. rewrite Hy. cbn [option_map].
      assert (Hly : Lv k y). { rewrite Forall_forall in Hvs. apply Hvs. eapply nth_error_In. exact Hy. }
      destruct Hly as [v'' [Hv'' ->]].
      rewrite <- (Hc k v v'' Hv Hv'' Hey). unfold cellval. now rewrite Hcell.
    Qed.

    Lemma read_cells cats key i : key_ok key -> cats_ok cats key ->
      row_cells hive pm cats (rel_path hive names key (pname i)) = Some (combine rnames (map rv key)).
    Proof.
      intros Hkey Hco. unfold Partition.row_cells.
      rewrite (all_some_map_ext _ (fun c => (fst c, cellval key (fst c)))).
      - f_equal. destruct Hco as [_ [_ Hc3]].
        rewrite <- (map_map fst (fun k => (k, cellval key k))). rewrite Hc3.
        unfold cellval. apply map_alist_combine; [exact rn_nodup|].
        rewrite map_length. exact (F2_length _ _ _ Hkey).
      - intros [k vs] Hin. cbn [fst]. now apply (read_cell cats).
    Qed.

    (* ------------------------------------------------------------ the whole dataset *)
    Definition file_ok (f : str * list row) : Prop :=
      exists key i, key_ok key /\ fst f = rel_path hive names key (pname i) /\
                    forall r, In r (snd f) -> key_of r = key.

    Lemma exists_keys (dirs : list str) :
      (forall d, In d dirs -> exists key, key_ok key /\ d = dir_path hive names key) ->
      exists keys, Forall key_ok keys /\ dirs = map (dir_path hive names) keys.
    Proof.
      induction dirs as [|d r IH]; intros H.
      - exists []. split; [constructor|reflexivity].
      - destruct (H d (or_introl eq_refl)) as [key [Hk Hd]].
        destruct IH as [keys [Hks Hr]]; [intros d' Hd'; apply H; now right|].
        exists (key :: keys). split; [now constructor|]. cbn. now rewrite Hd, Hr.
    Qed.

    Lemma filter_nonempty_id (dirs : list str) : (forall d, In d dirs -> d <> []) -> filter nonempty dirs = dirs.
    Proof.
      induction dirs as [|d r IH]; intros H; cbn; [reflexivity|].
      rewrite (nonempty_true d); [|apply H; now left]. f_equal. apply IH. intros d' Hd'. apply H. now right.
    Qed.

    Lemma combine_map_self {A B C} (f : A -> B) (g : B -> C) (l : list A) :
      combine (map f l) (map g (map f l)) = map (fun x => (f x, g (f x))) l.
    Proof. induction l as [|x r IH]; cbn; [reflexivity|]. now rewrite IH. Qed.

    Lemma mem_dedup x l : In x (dedup_str l) <-> In x l.
    Proof.
      induction l as [|y r IH]; cbn; [tauto|].
      destruct (mem_str y r) eqn:E.
      - rewrite IH. split; [tauto|]. intros [<-|H]; [now apply mem_str_In|exact H].
      - cbn. rewrite IH. tauto.
    Qed.

    Lemma all_eq_nat_const (l : list nat) n : (forall x, In x l -> x = n) -> all_eq_nat l = true.
    Proof.
      destruct l as [|x r]; intros H; cbn; [reflexivity|].
      apply forallb_forall. intros y Hy. apply Nat.eqb_eq.
      rewrite (H x (or_introl eq_refl)), (H y (or_intror Hy)). reflexivity.
    Qed.

    Lemma hive_attempt_fails pm' keys : hive = false -> keys <> [] -> Forall key_ok keys ->
      path_to_cats true pm' (map (fun key => (dir_path hive names key, split_on c_slash (dir_path hive names key))) keys) = VErr.
    Proof.
      intros Hh Hn Hk. destruct keys as [|key r]; [congruence|]. inversion Hk as [|? ? Hkey Hr]; subst.
      unfold Partition.path_to_cats. cbn [map fold_left]. unfold Partition.path_hits. cbn [fst].
      rewrite (Hd5 Hh key Hkey). cbn [res_of_opt].
      rewrite fold_left_res_err; [reflexivity|]. reflexivity.
    Qed.

    Variable ord : list str -> list str.
    Hypothesis Hord : forall l x, In x (ord l) <-> In x l.
    (* pm is the metadata the reader effectively uses: that of the file (pm0) for hive, none for drill *)
    Variable pm0 : list (str * kind).
    Hypothesis Hpm : pm = if hive then pm0 else [].

    Lemma text_rv k v : textlevel k -> Pv k v -> rv v = VStr (show hive v).
    Proof.
      intros Ht Hv. pose proof (Hb2 k v Ht Hv) as E.
      unfold Partition.val_to_num, Partition.parse_with_meta in E. now injection E.
    Qed.

    Lemma final_cats_ok st key : Inv st -> map fst (st_cats st) = rnames ->
      (forall kx, In kx (hits_of key) -> In kx (st_seen st)) -> cats_ok (final_cats st) key.
    Proof.
      intros HI Hfst Hseen. split; [|split].
      - intros k vs Hin. unfold Partition.final_cats in Hin. apply in_map_iff in Hin.
        destruct Hin as [[k0 vs0] [E Hin0]]. cbn [fst snd] in E. injection E as <- <-.
        destruct (inv_cats st HI _ _ Hin0) as [Hk Hvs0]. split; [exact Hk|].
        destruct (mem_str k0 (st_strings st)) eqn:Em; [|exact Hvs0].
        apply Forall_forall. intros y Hy. apply in_map_iff in Hy. destruct Hy as [x [<- Hx]].
        destruct (alist_get k0 (st_raw st)) as [xs|] eqn:Er; [|destruct Hx].
        destruct (inv_raw2 st HI k0 x (ex_intro _ xs (conj Er Hx))) as [v [Hv ->]]. exists v. split; [exact Hv|].
        symmetry. apply (text_rv k0); [|exact Hv]. apply (inv_str st HI). now apply mem_str_In.
      - intros [k x] Hkx. pose proof (Hseen _ Hkx) as Hs.
        destruct (inv_seen st HI _ _ Hs) as [v [Hv [Ex [vs0 [Hin0 Hex]]]]]. exists v. cbn [fst snd].
        split; [exact Hv|]. split; [exact Ex|].
        destruct (mem_str k (st_strings st)) eqn:Em.
        + eexists. split.
          * unfold Partition.final_cats. apply in_map_iff. exists (k, vs0). cbn [fst snd]. rewrite Em. split; [reflexivity|exact Hin0].
          * destruct (inv_raw1 st HI _ _ Hs) as [xs [Er Hx]]. rewrite Er. apply existsb_exists.
            exists (VStr x). split; [now apply in_map|].
            rewrite (text_rv k v); [|apply (inv_str st HI); now apply mem_str_In|exact Hv]. rewrite <- Ex. apply veqb_refl.
        + exists vs0. split; [|exact Hex].
          unfold Partition.final_cats. apply in_map_iff. exists (k, vs0). cbn [fst snd]. rewrite Em. split; [reflexivity|exact Hin0].
      - unfold Partition.final_cats. rewrite map_map. cbn [fst]. exact Hfst.
    Qed.

    Lemma cats_of_dataset (files : list (str * list row)) : files <> [] -> Forall file_ok files ->
      exists cats, paths_to_cats pm0 (map fst files) (ord (dedup_str (map strip_tail (map fst files))))
                   = Ok (if hive then Hive else Drill, cats) /\
        forall key i, key_ok key -> In (rel_path hive names key (pname i)) (map fst files) -> cats_ok cats key.
    Proof.
      intros Hne Hf. rewrite Forall_forall in Hf.
      set (paths := map fst files). set (dirs := ord (dedup_str (map strip_tail paths))).
      assert (Hdirs : forall d, In d dirs <-> exists p, In p paths /\ d = strip_tail p).
      { intros d. unfold dirs. rewrite Hord, mem_dedup, in_map_iff. split; intros [p [H1 H2]]; exists p; split; auto. }
      assert (Hpaths : forall p, In p paths -> exists key i, key_ok key /\ p = rel_path hive names key (pname i)).
      { intros p Hp. unfold paths in Hp. apply in_map_iff in Hp. destruct Hp as [f [<- Hin]].
        destruct (Hf f Hin) as [key [i [H1 [H2 _]]]]. now exists key, i. }
      assert (Hdk : forall d, In d dirs -> exists key, key_ok key /\ d = dir_path hive names key).
      { intros d Hd. apply Hdirs in Hd. destruct Hd as [p [Hp ->]].
        destruct (Hpaths p Hp) as [key [i [Hk ->]]]. exists key. split; [exact Hk|]. apply (Hd3 key i Hk). }
      destruct (exists_keys dirs Hdk) as [keys [Hkeys Edirs]].
      destruct files as [|f0 files']; [congruence|].
      destruct (Hpaths (fst f0) (or_introl eq_refl)) as [key0 [i0 [Hk0 Ep0]]].
      assert (Hd0 : In (dir_path hive names key0) dirs).
      { apply Hdirs. exists (fst f0). split; [now left|]. rewrite Ep0. symmetry. apply (Hd3 key0 i0 Hk0). }
      assert (Hkn : keys <> []). { intros ->. rewrite Edirs in Hd0. destruct Hd0. }
      assert (Hdne : forall d, In d dirs -> d <> []).
      { intros d Hd. destruct (Hdk d Hd) as [key [Hk ->]]. apply (Hd2 key Hk). }
      unfold Partition.paths_to_cats. fold paths. fold dirs.
      change paths with (fst f0 :: map fst files') at 1. cbv iota.
      assert (Hfa : forallb (fun p => negb (nonempty p)) paths = false).
      { unfold paths. cbn [map forallb]. rewrite (nonempty_true (fst f0)); [reflexivity|].
        rewrite Ep0. apply (Hd3 key0 i0 Hk0). }
      rewrite Hfa. rewrite (filter_nonempty_id dirs Hdne).
      assert (Hparts : map (split_on c_slash) dirs <> []).
      { rewrite Edirs. destruct keys; [congruence|discriminate]. }
      destruct (map (split_on c_slash) dirs) as [|p0 ps] eqn:Eparts; [congruence|]. rewrite <- Eparts. clear Hparts.
      assert (Hlen : all_eq_nat (map (@length str) (map (split_on c_slash) dirs)) = true).
      { apply (all_eq_nat_const _ (length names)). intros n Hn. rewrite map_map in Hn. apply in_map_iff in Hn.
        destruct Hn as [d [<- Hd]]. destruct (Hdk d Hd) as [key [Hk ->]]. apply (Hd2 key Hk). }
      rewrite Hlen. cbn [negb].
      rewrite Edirs. rewrite combine_map_self.
      destruct (fold_dirs keys Hkeys st0 Inv0 (or_introl eq_refl)) as [st' [Efold [HI [_ [Hseen Hkeys']]]]].
      assert (Hfst : map fst (st_cats st') = rnames) by (destruct Hkeys' as [H|[H _]]; [exact H|congruence]).
      assert (Hcats : forall key i, key_ok key -> In (rel_path hive names key (pname i)) paths -> cats_ok (final_cats st') key).
      { intros key i Hk Hin. apply final_cats_ok; [exact HI|exact Hfst|].
        intros kx Hkx.
        assert (Hdin : In (dir_path hive names key) dirs).
        { apply Hdirs. exists (rel_path hive names key (pname i)). split; [exact Hin|]. symmetry. apply (Hd3 key i Hk). }
        rewrite Edirs in Hdin. apply in_map_iff in Hdin. destruct Hdin as [key' [Edp Hk'in]].
        assert (Hk' : key_ok key') by (rewrite Forall_forall in Hkeys; now apply Hkeys).
        (* the two keys have the same directory, hence the same hits *)
        assert (Ehits : hits_of key' = hits_of key).
        { pose proof (Hd1 key' Hk') as H1. rewrite Edp, (Hd1 key Hk) in H1. now injection H1. }
        apply (Hseen key'); [exact Hk'in|now rewrite Ehits]. }
      exists (final_cats st'). split; [|exact Hcats].
      assert (E1 : path_to_cats hive pm (map (fun key => (dir_path hive names key, split_on c_slash (dir_path hive names key))) keys)
                   = Ok (final_cats st')).
      { unfold Partition.path_to_cats. rewrite Efold. reflexivity. }
      destruct (Bool.bool_dec hive true) as [Eh|Eh].
      - rewrite Eh in E1, Hpm |- *. rewrite <- Hpm. rewrite E1. reflexivity.
      - apply not_true_is_false in Eh.
        rewrite (hive_attempt_fails pm0 keys Eh Hkn Hkeys). rewrite Eh in E1, Hpm |- *. rewrite <- Hpm. rewrite E1. reflexivity.
    Qed.

    Theorem read_generic (files : list (str * list row)) : files <> [] -> Forall file_ok files ->
      read_model pm0 ord files
      = Some (if hive then Hive else Drill,
              map (fun r => (combine rnames (map rv (key_of r)), snd r)) (concat (map snd files))).
    Proof.
      intros Hne Hf. unfold Partition.read_model.
      destruct (cats_of_dataset files Hne Hf) as [cats [Ec Hcats]]. rewrite Ec.
      assert (Hrf : read_files hive pm cats files
                    = Some (map (fun r => (combine rnames (map rv (key_of r)), snd r)) (concat (map snd files)))).
      { unfold Partition.read_files.
        rewrite (all_some_map_ext _ (fun f => map (fun r => (combine rnames (map rv (key_of r)), snd r)) (snd f))).
        - cbn [option_map]. f_equal. rewrite concat_map, map_map. reflexivity.
        - intros f Hin. rewrite Forall_forall in Hf. destruct (Hf f Hin) as [key [i [Hk [Ep Hr]]]].
          assert (Hpin : In (rel_path hive names key (pname i)) (map fst files)) by (rewrite <- Ep; now apply in_map).
          destruct f as [p rs]. cbn [fst snd] in *. subst p. rewrite (read_cells cats key i Hk).
          + cbn [option_map]. f_equal. apply map_ext_in. intros r Hr'. now rewrite (Hr r Hr').
          + apply (Hcats key i Hk). exact Hpin. }
      destruct (Bool.bool_dec hive true) as [Eh|Eh].
      - rewrite Eh in Hrf, Hpm |- *. rewrite <- Hpm. rewrite Hrf. reflexivity.
      - apply not_true_is_false in Eh. rewrite Eh in Hrf, Hpm |- *. rewrite <- Hpm. rewrite Hrf. reflexivity.
    Qed.

    (* ------------------------------------------------------------ writer and reader together *)
    Hypothesis He : forall n a b, Pv n a -> Pv n b -> veqb a b = true -> a = b.
    Hypothesis Hpw : forall i, pname i = part_name i.

    Lemma keys_eqb_eq a b : key_ok a -> key_ok b -> keys_eqb a b = true -> a = b.
    Proof.
      clear Hpm.
      unfold key_ok. generalize rnames as ns. intros ns Ha'. revert b.
      induction Ha' as [|n v ns a Hnv Hr IH]; intros b Hb; inversion Hb as [|? v' ? b' Hnv' Hr']; subst; [reflexivity|].
      cbn. intros H. apply andb_true_iff in H. destruct H as [H1 H2].
      rewrite (He n v v' Hnv Hnv' H1). f_equal. now apply IH.
    Qed.

    Definition frame_ok (rows : list row) : Prop :=
      forall r, In r rows -> nonnull r = true -> key_ok (key_of r).

    Definition expect (r : row) : list (str * value) * P := (combine rnames (map rv (key_of r)), snd r).

    Lemma written_files_ok chunks : frame_ok (concat chunks) ->
      forall f, In f (write_model hive names chunks) ->
        exists key i, key_ok key /\ fst f = rel_path hive names key (pname i) /\
                      forall r, In r (snd f) -> In r (concat chunks) /\ nonnull r = true /\ key_of r = key.
    Proof.
      clear Hpm.
      intros Hfr f Hin. unfold Partition.write_model in Hin.
      destruct (write_model_files hive names chunks O f Hin) as [i [chunk [k [Hc1 [Hg Hp]]]]]. rewrite <- Hpw in Hp.
      assert (Hi : incl chunk (concat chunks)).
      { intros x Hx. apply in_concat. exists chunk. split; assumption. }
      destruct (group_by_G (concat chunks) chunk Hi k (snd f) Hg) as [[r0 [Hr0 Ek]] Hall].
      destruct (Hall r0 Hr0) as [Hr0in [Hr0n _]].
      assert (Hk : key_ok k) by (rewrite Ek; now apply Hfr).
      exists k, i. split; [exact Hk|]. split; [exact Hp|].
      intros r Hr. destruct (Hall r Hr) as [H1 [H2 H3]]. repeat split; [exact H1|exact H2|].
      apply keys_eqb_eq; [now apply Hfr|exact Hk|exact H3].
    Qed.

    (* each row with non-null keys is stored in the directory named by its key and nowhere else *)
    Theorem placement chunks : frame_ok (concat chunks) ->
      Permutation (concat (map snd (write_model hive names chunks))) (filter nonnull (concat chunks)) /\
      forall f r, In f (write_model hive names chunks) -> In r (snd f) ->
        nonnull r = true /\ exists i, fst f = rel_path hive names (key_of r) (pname i).
    Proof.
      clear Hpm.
      intros Hfr. split; [apply write_model_perm|].
      intros f r Hf Hr. destruct (written_files_ok chunks Hfr f Hf) as [key [i [_ [Hp Hall]]]].
      destruct (Hall r Hr) as [_ [H2 H3]]. split; [exact H2|]. exists i. now rewrite H3.
    Qed.

    Theorem e2e chunks : frame_ok (concat chunks) ->
      exists sch out,
        read_model pm0 ord (write_model hive names chunks) = Some (sch, out) /\
        Permutation out (map expect (filter nonnull (concat chunks))) /\
        (filter nonnull (concat chunks) <> [] -> sch = if hive then Hive else Drill).
    Proof.
      intros Hfr. pose proof (write_model_perm hive names chunks O) as Hperm. fold (write_model hive names chunks) in Hperm.
      destruct (write_model hive names chunks) as [|f0 fs] eqn:Ef.
      - exists Empty, []. split; [reflexivity|]. cbn in Hperm. apply Permutation_nil in Hperm. rewrite Hperm.
        split; [constructor|]. congruence.
      - rewrite <- Ef in *. eexists _, _. split; [|split].
        + apply read_generic; [rewrite Ef; discriminate|].
          apply Forall_forall. intros f Hin. destruct (written_files_ok chunks Hfr f Hin) as [key [i [H1 [H2 H3]]]].
          exists key, i. split; [exact H1|]. split; [exact H2|]. intros r Hr. apply (H3 r Hr).
        + apply Permutation_map. exact Hperm.
        + reflexivity.
    Qed.
  End Reader.

  (* ================================================================ paths built from legal segments *)
  Definition legal (s : str) : Prop := clean s /\ ~ In c_eq s.

  Lemma part_name_clean i : clean (part_name i) /\ part_name i <> [].
  Proof.
    unfold part_name, show_nat. split; [|discriminate].
    split; intros H; apply in_app_or in H; destruct H as [H|H];
      try (cbn in H; intuition discriminate);
      apply in_app_or in H; destruct H as [H|H];
      try (cbn in H; intuition discriminate);
      apply show_Z_chars in H; destruct H as [H|H]; discriminate.
  Qed.

  Lemma paths_generic (segs : list str) (part : str) :
    segs <> [] -> Forall (fun s => clean s /\ s <> []) segs -> clean part -> part <> [] ->
    let dir := join_path segs in
    let p := join_path [dir; part] in
    dir = join_with c_slash segs /\ dir <> [] /\ split_on c_slash dir = segs /\
    split_on c_slash p = segs ++ [part] /\ strip_tail p = dir /\ p <> [].
  Proof.
    intros Hn Hs Hp Hpn dir p.
    assert (Hns : Forall (fun s => ~ In c_slash s) segs).
    { eapply Forall_impl; [|exact Hs]. cbn. intros s [[H _] _]. exact H. }
    assert (Hne : Forall (fun s : str => s <> []) segs).
    { eapply Forall_impl; [|exact Hs]. cbn. tauto. }
    assert (Ed : dir = join_with c_slash segs) by (apply join_path_clean; exact Hs).
    assert (Ep : p = join_with c_slash (segs ++ [part])) by (apply join_path_two; assumption).
    assert (Hns2 : Forall (fun s => ~ In c_slash s) (segs ++ [part])).
    { apply Forall_app. split; [exact Hns|]. constructor; [apply Hp|constructor]. }
    assert (Esp : split_on c_slash p = segs ++ [part]).
    { rewrite Ep. apply split_join; [destruct segs; discriminate|exact Hns2]. }
    split; [exact Ed|]. split; [rewrite Ed; now apply join_with_nonnil|].
    split; [rewrite Ed; now apply split_join|]. split; [exact Esp|]. split.
    - unfold strip_tail. rewrite Esp, removelast_last. now rewrite Ed.
    - rewrite Ep. apply join_with_nonnil; [destruct segs; discriminate|].
      apply Forall_app. split; [exact Hne|]. constructor; [exact Hpn|constructor].
  Qed.

  Lemma dir_segments_combine hive ns key :
    dir_segments hive ns key = map (fun nv => segment hive (fst nv) (snd nv)) (combine ns key).
  Proof. revert key. induction ns as [|n ns IH]; intros [|v key]; cbn; try reflexivity. now rewrite IH. Qed.

  (* hive segments name=text *)
  Definition hseg (nx : str * str) : str := fst nx ++ c_eq :: snd nx.
  Definition nx_legal (nx : str * str) : Prop := legal (fst nx) /\ legal (snd nx).

  Lemma hseg_clean nx : nx_legal nx -> clean (hseg nx) /\ hseg nx <> [].
  Proof.
    intros [[[H1 H2] H3] [[H4 H5] H6]]. unfold hseg. split; [|destruct (fst nx); discriminate].
    split; intros H; apply in_app_or in H; destruct H as [H|[H|H]]; try tauto; discriminate.
  Qed.

  Lemma hseg_split nx : nx_legal nx -> split_on c_eq (hseg nx) = [fst nx; snd nx].
  Proof.
    intros [[_ H3] [_ H6]]. unfold hseg. rewrite split_on_app by exact H3. now rewrite split_on_nohit by exact H6.
  Qed.

  Lemma hseg_has_eq nx : has_char c_eq (hseg nx) = true.
  Proof. apply has_char_In. unfold hseg. apply in_or_app. right. now left. Qed.

  Lemma hsegs_facts (l : list (str * str)) : Forall nx_legal l ->
    Forall (fun s => clean s /\ s <> []) (map hseg l) /\
    filter (has_char c_eq) (map hseg l) = map hseg l /\
    all_some (map (fun p => pair_of (split_on c_eq p)) (map hseg l)) = Some l /\
    map (split_on c_eq) (map hseg l) = map mk2 l.
  Proof.
    induction 1 as [|nx l Hnx Hl [IH1 [IH2 [IH3 IH4]]]]; cbn [map filter all_some]; [repeat split; constructor|].
    rewrite hseg_has_eq, IH2, (hseg_split nx Hnx), IH4. cbn [pair_of]. rewrite IH3. cbn [option_map].
    split; [constructor; [now apply hseg_clean|exact IH1]|]. destruct nx. repeat split.
  Qed.

  Lemma combine_map_r {A B C} (f : B -> C) (l : list A) (l' : list B) :
    combine l (map f l') = map (fun ab => (fst ab, f (snd ab))) (combine l l').
  Proof. revert l'. induction l as [|a l IH]; intros [|b l']; cbn; try reflexivity. now rewrite IH. Qed.

  (* ================================================================ hive *)
  Section Hive.
    Variable pm : list (str * kind).
    Variable names : list str.
    Hypothesis names_nodup : NoDup names.
    Hypothesis names_nonnil : names <> [].
    Hypothesis names_legal : Forall legal names.
    Variable ord : list str -> list str.
    Hypothesis Hord : forall l x, In x (ord l) <-> In x l.

    (* an admissible key value of the partition column n: the metadata block gives its kind k, the
       value is of that kind, its text is one legal path segment and converts back *)
    Definition Pv_hive (n : str) (v : value) : Prop :=
      exists k, alist_get n pm = Some k /\ wf k v /\ legal (show true v) /\
                parse_with_meta k (show true v) = Ok (unwrap v).
    Definition text_kind (k : kind) : Prop :=
      match k with KStr | KCat None | KCat (Some KStr) => True | _ => False end.
    Definition text_hive (n : str) : Prop := exists k, alist_get n pm = Some k /\ text_kind k.

    Lemma hive_Hb1 n v : Pv_hive n v -> is_vstr (unwrap v) = true -> text_hive n.
    Proof.
      intros [k [Ek [Hwf _]]] Hs. exists k. split; [exact Ek|].
      destruct k as [| | | | | |[lk|]]; destruct v as [| | | | | |l]; cbn in *; try tauto; try discriminate.
      destruct lk, l; cbn in *; try tauto; discriminate.
    Qed.

    Lemma hive_Hb2 n v : text_hive n -> Pv_hive n v -> val_to_num (Some KStr) (show true v) = Ok (unwrap v).
    Proof.
      intros [k' [Ek' Ht]] [k [Ek [Hwf _]]]. rewrite Ek in Ek'. injection Ek' as <-.
      destruct k as [| | | | | |[lk|]]; cbn in Ht; try tauto.
      - destruct v; cbn in Hwf; try tauto; try reflexivity.
      - destruct lk; try tauto. destruct v as [| | | | | |l]; cbn in Hwf; try tauto. destruct l; try tauto; try reflexivity.
      - destruct v as [| | | | | |l]; cbn in Hwf; try tauto. destruct l; try tauto; try reflexivity.
    Qed.

    Lemma hive_nx key : key_ok names Pv_hive key ->
      Forall nx_legal (combine names (map (show true) key)) /\
      dir_segments true names key = map hseg (combine names (map (show true) key)).
    Proof.
      intros H. split.
      - assert (G : forall ns ky, Forall2 Pv_hive ns ky -> Forall legal ns -> Forall nx_legal (combine ns (map (show true) ky))).
        { clear H. intros ns ky H'. induction H' as [|n v ns key' Hnv Hr IH]; intros Hl; cbn; [constructor|].
          inversion Hl; subst. constructor; [|now apply IH]. destruct Hnv as [k [_ [_ [Hlg _]]]]. split; assumption. }
        apply G; [exact H|exact names_legal].
      - rewrite dir_segments_combine, combine_map_r, map_map. reflexivity.
    Qed.

    Section HP.
    Variable pname : nat -> str.
    Hypothesis Hpn : forall i, clean (pname i) /\ pname i <> [].

    Lemma hive_paths key i : key_ok names Pv_hive key ->
      let segs := map hseg (combine names (map (show true) key)) in
      dir_path true names key = join_with c_slash segs /\ dir_path true names key <> [] /\
      split_on c_slash (dir_path true names key) = segs /\
      split_on c_slash (rel_path true names key (pname i)) = segs ++ [pname i] /\
      strip_tail (rel_path true names key (pname i)) = dir_path true names key /\
      rel_path true names key (pname i) <> [] /\ length segs = length names.
    Proof.
      intros Hk segs. destruct (hive_nx key Hk) as [Hnx Eseg].
      destruct (hsegs_facts _ Hnx) as [Hcl _].
      assert (Hlen : length segs = length names).
      { unfold segs. rewrite map_length, combine_length, map_length, <- (F2_length _ _ _ Hk). apply Nat.min_id. }
      assert (Hn : segs <> []) by (intros E; rewrite E in Hlen; destruct names; [congruence|discriminate]).
      destruct (Hpn i) as [Hpc Hpn'].
      destruct (paths_generic segs (pname i) Hn Hcl Hpc Hpn') as [H1 [H2 [H3 [H4 [H5 H6]]]]].
      unfold Partition.rel_path, Partition.dir_path. rewrite Eseg. fold segs. repeat split; assumption.
    Qed.

    (* the reader half alone, for ANY file names: a list of files laid out as key=value directories *)
    Theorem hive_read_layout (files : list (str * list row)) : files <> [] ->
      Forall (file_ok true names pname names Pv_hive) files ->
      read_model pm ord files
      = Some (Hive, map (fun r => (combine names (map unwrap (key_of r)), snd r)) (concat (map snd files))).
    Proof.
      apply (read_generic true pm names pname names names_nodup Pv_hive unwrap text_hive).
      - intros n v [k [Ek [_ [_ Hrt]]]]. rewrite Ek. exact Hrt.
      - exact hive_Hb1.
      - exact hive_Hb2.
      - intros n v v' [k [Ek [Hwf _]]] [k' [Ek' [Hwf' _]]] H. rewrite Ek in Ek'. injection Ek' as <-.
        apply (veqb_of_kind_eq F T D feqb teqb deqb f_eq_Z show_float parse_float show_time_iso show_time_str parse_time_np parse_time_fmt parse_time_pd parse_delta feqb_spec teqb_spec k); [now apply wf_of_kind|now apply wf_of_kind|exact H].
      - intros key Hk. destruct (hive_paths key O Hk) as [_ [_ [H3 _]]].
        destruct (hive_nx key Hk) as [Hnx _]. destruct (hsegs_facts _ Hnx) as [_ [F2 [F3 _]]].
        unfold Partition.path_hits, Partition.hive_hits. cbn [fst]. rewrite H3, F2.
        destruct (map hseg (combine names (map (show true) key))) eqn:E.
        + exfalso. destruct (hive_paths key O Hk) as [_ [_ [_ [_ [_ [_ H7]]]]]]. rewrite E in H7.
          destruct names; [congruence|discriminate].
        + rewrite F3. reflexivity.
      - intros key Hk. destruct (hive_paths key O Hk) as [_ [H2 [H3 [_ [_ [_ H7]]]]]]. split; [exact H2|]. now rewrite H3.
      - intros key i Hk. destruct (hive_paths key i Hk) as [_ [_ [_ [_ [H5 [H6 _]]]]]]. now split.
      - intros key i Hk. destruct (hive_paths key i Hk) as [_ [_ [_ [H4 _]]]].
        destruct (hive_nx key Hk) as [Hnx _]. destruct (hsegs_facts _ Hnx) as [_ [_ [_ F4]]].
        unfold Partition.row_partitions. rewrite H4, map_app, F4. eexists. reflexivity.
      - discriminate.
      - exact Hord.
      - reflexivity.
    Qed.
    End HP.

    Theorem hive_e2e chunks :
      frame_ok names Pv_hive (concat chunks) ->
      exists sch out,
        read_model pm ord (write_model true names chunks) = Some (sch, out) /\
        Permutation out (map (expect names unwrap) (filter nonnull (concat chunks))) /\
        (filter nonnull (concat chunks) <> [] -> sch = Hive).
    Proof.
      apply (e2e true pm names part_name names names_nodup Pv_hive unwrap text_hive).
      - intros n v [k [Ek [_ [_ Hrt]]]]. rewrite Ek. exact Hrt.
      - exact hive_Hb1.
      - exact hive_Hb2.
      - intros n v v' [k [Ek [Hwf _]]] [k' [Ek' [Hwf' _]]] H. rewrite Ek in Ek'. injection Ek' as <-.
        apply (veqb_of_kind_eq F T D feqb teqb deqb f_eq_Z show_float parse_float show_time_iso show_time_str parse_time_np parse_time_fmt parse_time_pd parse_delta feqb_spec teqb_spec k); [now apply wf_of_kind|now apply wf_of_kind|exact H].
      - intros key Hk. destruct (hive_paths part_name part_name_clean key O Hk) as [_ [_ [H3 _]]].
        destruct (hive_nx key Hk) as [Hnx _]. destruct (hsegs_facts _ Hnx) as [_ [F2 [F3 _]]].
        unfold Partition.path_hits, Partition.hive_hits. cbn [fst]. rewrite H3, F2.
        destruct (map hseg (combine names (map (show true) key))) eqn:E.
        + exfalso. destruct (hive_paths part_name part_name_clean key O Hk) as [_ [_ [_ [_ [_ [_ H7]]]]]]. rewrite E in H7.
          destruct names; [congruence|discriminate].
        + rewrite F3. reflexivity.
      - intros key Hk. destruct (hive_paths part_name part_name_clean key O Hk) as [_ [H2 [H3 [_ [_ [_ H7]]]]]]. split; [exact H2|]. now rewrite H3.
      - intros key i Hk. destruct (hive_paths part_name part_name_clean key i Hk) as [_ [_ [_ [_ [H5 [H6 _]]]]]]. now split.
      - intros key i Hk. destruct (hive_paths part_name part_name_clean key i Hk) as [_ [_ [_ [H4 _]]]].
        destruct (hive_nx key Hk) as [Hnx _]. destruct (hsegs_facts _ Hnx) as [_ [_ [_ F4]]].
        unfold Partition.row_partitions. rewrite H4, map_app, F4. eexists. reflexivity.
      - discriminate.
      - exact Hord.
      - reflexivity.
      - intros n a b [k [Ek [Hwf _]]] [k' [Ek' [Hwf' _]]] H. rewrite Ek in Ek'. injection Ek' as <-.
        now apply (veqb_wf_eq k).
      - reflexivity.
    Qed.

    Theorem hive_placement chunks : frame_ok names Pv_hive (concat chunks) ->
      Permutation (concat (map snd (write_model true names chunks))) (filter nonnull (concat chunks)) /\
      forall f r, In f (write_model true names chunks) -> In r (snd f) ->
        nonnull r = true /\ exists i, fst f = rel_path true names (key_of r) (part_name i).
    Proof.
      apply (placement true names part_name names Pv_hive); [|reflexivity].
      intros n a b [k [Ek [Hwf _]]] [k' [Ek' [Hwf' _]]] H. rewrite Ek in Ek'. injection Ek' as <-.
      now apply (veqb_wf_eq k).
    Qed.
  End Hive.

  (* ================================================================ drill *)
  Lemma show_Z_inj a b : show_Z a = show_Z b -> a = b.
  Proof. intros H. pose proof (parse_int_show_Z a) as Ha. rewrite H, parse_int_show_Z in Ha. now injection Ha. Qed.

  Lemma dir_name_inj : FinFun.Injective dir_name.
  Proof.
    intros i j H. unfold dir_name, show_nat in H. apply app_inv_head in H. apply show_Z_inj in H. now apply Nat2Z.inj.
  Qed.

  Lemma drill_texts_facts (l : list str) : Forall (fun s => legal s /\ s <> []) l ->
    Forall (fun s => clean s /\ s <> []) l /\ filter (has_char c_eq) l = [].
  Proof.
    induction 1 as [|s l [[Hc He] Hn] Hl [IH1 IH2]]; cbn [filter]; [split; [constructor|reflexivity]|].
    rewrite (has_char_false c_eq s He), IH2. split; [constructor; [split; assumption|exact IH1]|reflexivity].
  Qed.

  Lemma drill_segments ns key : length key = length ns -> dir_segments false ns key = map (show false) key.
  Proof.
    revert key. induction ns as [|n ns IH]; intros [|v key] Hl; try discriminate; [reflexivity|].
    cbn. f_equal. apply IH. now injection Hl.
  Qed.

  Inductive lclass := LText | LInt | LBool | LFloat | LTime | LDelta.

  Section Drill.
    Variable pm : list (str * kind).
    Variable names : list str.
    Hypothesis names_nonnil : names <> [].
    Variable ord : list str -> list str.
    Hypothesis Hord : forall l x, In x (ord l) <-> In x l.
    Variable lk : str -> lclass.        (* what a directory level holds *)
    Variable show_delta : D -> str.     (* str(pd.Timedelta): the canonical text of a timedelta (external, wave 3) *)

    Definition dnames : list str := map dir_name (seq 0 (length names)).
    Definition rv_drill (v : value) : value := parse_guess (show false v).

    (* an admissible key value of the level with positional name n: the text is one non-empty legal
       path segment, and the level holds integers, booleans or text that none of the guesses of
       _val_to_num converts (the metadata of the file plays no role for drill: fix b6723cb) *)
    Definition Pv_drill (n : str) (v : value) : Prop :=
      legal (show false v) /\ show false v <> [] /\
      match lk n with
      | LText => exists s, v = VStr s /\ parse_guess s = VStr s
      | LInt => exists z, v = VInt z
      | LBool => exists b, v = VBool b
      (* floats and timestamps: the guesses of _val_to_num give the value back (int() fails, float() / pd.Timestamp()
         invert str()): a hypothesis about the external conversions, per value *)
      | LFloat => exists f, v = VFloat f /\ parse_guess (show_float f) = VFloat f
      | LTime => exists t, v = VTime t /\ parse_guess (show_time_str t) = VTime t
      (* a TEXT level whose texts are timedeltas in their canonical spelling ("1 days 00:00:00"): no earlier guess converts
         them and pd.Timedelta() does - they come back as timedeltas (the drill layout has no types: "the guessed value") *)
      | LDelta => exists d, v = VStr (show_delta d) /\ parse_guess (show_delta d) = VDelta d
      end.

    Lemma rv_drill_cases n v : Pv_drill n v ->
      match lk n with
      | LText => exists s, v = VStr s /\ rv_drill v = VStr s
      | LInt => exists z, v = VInt z /\ rv_drill v = VInt z
      | LBool => exists b, v = VBool b /\ rv_drill v = VBool b
      | LFloat => exists f, v = VFloat f /\ rv_drill v = VFloat f
      | LTime => exists t, v = VTime t /\ rv_drill v = VTime t
      | LDelta => exists d, v = VStr (show_delta d) /\ rv_drill v = VDelta d
      end.
    Proof.
      intros [_ [_ H]]. unfold rv_drill. destruct (lk n).
      - destruct H as [s [-> Hs]]. exists s. split; [reflexivity|exact Hs].
      - destruct H as [z ->]. exists z. split; [reflexivity|]. cbn [Partition.show].
        apply (guess_int F T D parse_float parse_time_pd parse_delta).
      - destruct H as [b ->]. exists b. split; [reflexivity|]. destruct b; reflexivity.
      - destruct H as [f [-> Hf]]. exists f. split; [reflexivity|exact Hf].
      - destruct H as [t [-> Ht]]. exists t. split; [reflexivity|exact Ht].
      - destruct H as [d [-> Hd]]. exists d. split; [reflexivity|exact Hd].
    Qed.

    Lemma dnames_nodup : NoDup dnames.
    Proof. apply FinFun.Injective_map_NoDup; [exact dir_name_inj|apply seq_NoDup]. Qed.

    Lemma drill_texts key : key_ok dnames Pv_drill key ->
      Forall (fun s => legal s /\ s <> []) (map (show false) key) /\
      dir_segments false names key = map (show false) key /\ length key = length names.
    Proof.
      intros H. assert (Hl : length key = length names).
      { rewrite <- (F2_length _ _ _ H). unfold dnames. now rewrite map_length, seq_length. }
      split; [|split; [|exact Hl]].
      - clear Hl. unfold key_ok in H. revert H. generalize dnames as ns. intros ns H.
        induction H as [|n v ns key' Hnv Hr IH]; cbn; [constructor|].
        constructor; [|exact IH]. destruct Hnv as [H1 [H2 _]]. now split.
      - now apply drill_segments.
    Qed.

    Lemma drill_paths key i : key_ok dnames Pv_drill key ->
      let segs := map (show false) key in
      dir_path false names key <> [] /\
      split_on c_slash (dir_path false names key) = segs /\
      split_on c_slash (rel_path false names key (part_name i)) = segs ++ [part_name i] /\
      strip_tail (rel_path false names key (part_name i)) = dir_path false names key /\
      rel_path false names key (part_name i) <> [] /\ length segs = length names /\
      hive_hits (dir_path false names key) = None /\
      drill_hits segs = hits_of false dnames key.
    Proof.
      intros Hk segs. destruct (drill_texts key Hk) as [Hlg [Eseg Hlen]].
      destruct (drill_texts_facts _ Hlg) as [Hcl Hf].
      assert (Hlen' : length segs = length names) by (unfold segs; now rewrite map_length).
      assert (Hn : segs <> []) by (intros E; rewrite E in Hlen'; destruct names; [congruence|discriminate]).
      destruct (part_name_clean i) as [Hpc Hpn].
      destruct (paths_generic segs (part_name i) Hn Hcl Hpc Hpn) as [H1 [H2 [H3 [H4 [H5 H6]]]]].
      unfold Partition.rel_path, Partition.dir_path. rewrite Eseg. fold segs.
      repeat split; try assumption.
      - unfold hive_hits. rewrite H3. fold segs in Hf. now rewrite Hf.
      - unfold drill_hits, hits_of, dnames. rewrite mapi_from_combine. fold segs. now rewrite Hlen'.
    Qed.

    Theorem drill_e2e chunks :
      frame_ok dnames Pv_drill (concat chunks) ->
      exists sch out,
        read_model pm ord (write_model false names chunks) = Some (sch, out) /\
        Permutation out (map (expect dnames rv_drill) (filter nonnull (concat chunks))) /\
        (filter nonnull (concat chunks) <> [] -> sch = Drill).
    Proof.
      apply (e2e false [] names part_name dnames dnames_nodup Pv_drill rv_drill (fun n => lk n = LText)).
      - intros n v _. reflexivity.
      - intros n v Hv Hs. pose proof (rv_drill_cases n v Hv) as Hc. destruct (lk n); [reflexivity| | | | |];
          destruct Hc as [z [_ E]]; rewrite E in Hs; discriminate.
      - intros n v Ht Hv. pose proof (rv_drill_cases n v Hv) as Hc. rewrite Ht in Hc.
        destruct Hc as [s [-> E]]. rewrite E. reflexivity.
      - intros n v v' Hv Hv' H. pose proof (rv_drill_cases n v Hv) as Hc. pose proof (rv_drill_cases n v' Hv') as Hc'.
        destruct (lk n).
        + destruct Hc as [s [_ E]], Hc' as [s' [_ E']]. rewrite E, E' in *. cbn in H.
          destruct (str_eqb_spec s s'); [now subst|discriminate].
        + destruct Hc as [z [_ E]], Hc' as [z' [_ E']]. rewrite E, E' in *. cbn in H. apply Z.eqb_eq in H. now subst.
        + destruct Hc as [b [_ E]], Hc' as [b' [_ E']]. rewrite E, E' in *. cbn in H. apply Bool.eqb_prop in H. now subst.
        + destruct Hc as [f [_ E]], Hc' as [f' [_ E']]. rewrite E, E' in *. cbn in H. destruct (feqb_spec f f'); [now subst|discriminate].
        + destruct Hc as [t [_ E]], Hc' as [t' [_ E']]. rewrite E, E' in *. cbn in H. destruct (teqb_spec t t'); [now subst|discriminate].
        + destruct Hc as [d [Ev E]], Hc' as [d' [Ev' E']]. rewrite E, E' in *. cbn in H. destruct (deqb_spec d d'); [now subst|discriminate].
      - intros key Hk. destruct (drill_paths key O Hk) as [_ [H2 [_ [_ [_ [_ [_ H8]]]]]]].
        unfold Partition.path_hits. cbn [snd]. rewrite H2, H8. reflexivity.
      - intros key Hk. destruct (drill_paths key O Hk) as [H1 [H2 [_ [_ [_ [H6 _]]]]]]. split; [exact H1|]. now rewrite H2.
      - intros key i Hk. destruct (drill_paths key i Hk) as [_ [_ [_ [H4 [H5 _]]]]]. now split.
      - intros key i Hk. destruct (drill_paths key i Hk) as [_ [_ [H3 [_ [_ [_ [_ H8]]]]]]].
        unfold Partition.row_partitions. rewrite H3, removelast_last, H8. exists []. now rewrite app_nil_r.
      - intros _ key Hk. apply (drill_paths key O Hk).
      - exact Hord.
      - reflexivity.
      - intros n a b Ha Hb H. pose proof (rv_drill_cases n a Ha) as Hc. pose proof (rv_drill_cases n b Hb) as Hc'.
        destruct (lk n).
        + destruct Hc as [s [-> _]], Hc' as [s' [-> _]]. cbn in H. destruct (str_eqb_spec s s'); [now subst|discriminate].
        + destruct Hc as [z [-> _]], Hc' as [z' [-> _]]. cbn in H. apply Z.eqb_eq in H. now subst.
        + destruct Hc as [b0 [-> _]], Hc' as [b' [-> _]]. cbn in H. apply Bool.eqb_prop in H. now subst.
        + destruct Hc as [f [-> _]], Hc' as [f' [-> _]]. cbn in H. destruct (feqb_spec f f'); [now subst|discriminate].
        + destruct Hc as [t [-> _]], Hc' as [t' [-> _]]. cbn in H. destruct (teqb_spec t t'); [now subst|discriminate].
        + destruct Hc as [d [-> _]], Hc' as [d' [-> _]]. cbn in H. destruct (str_eqb_spec (show_delta d) (show_delta d')) as [E|]; [now rewrite E|discriminate].
      - reflexivity.
    Qed.

    Theorem drill_placement chunks : frame_ok dnames Pv_drill (concat chunks) ->
      Permutation (concat (map snd (write_model false names chunks))) (filter nonnull (concat chunks)) /\
      forall f r, In f (write_model false names chunks) -> In r (snd f) ->
        nonnull r = true /\ exists i, fst f = rel_path false names (key_of r) (part_name i).
    Proof.
      apply (placement false names part_name dnames Pv_drill); [|reflexivity].
      intros n a b Ha Hb H. pose proof (rv_drill_cases n a Ha) as Hc. pose proof (rv_drill_cases n b Hb) as Hc'.
      destruct (lk n).
      + destruct Hc as [s [-> _]], Hc' as [s' [-> _]]. cbn in H. destruct (str_eqb_spec s s'); [now subst|discriminate].
      + destruct Hc as [z [-> _]], Hc' as [z' [-> _]]. cbn in H. apply Z.eqb_eq in H. now subst.
      + destruct Hc as [b0 [-> _]], Hc' as [b' [-> _]]. cbn in H. apply Bool.eqb_prop in H. now subst.
      + destruct Hc as [f [-> _]], Hc' as [f' [-> _]]. cbn in H. destruct (feqb_spec f f'); [now subst|discriminate].
      + destruct Hc as [t [-> _]], Hc' as [t' [-> _]]. cbn in H. destruct (teqb_spec t t'); [now subst|discriminate].
      + destruct Hc as [d [-> _]], Hc' as [d' [-> _]]. cbn in H. destruct (str_eqb_spec (show_delta d) (show_delta d')) as [E|]; [now rewrite E|discriminate].
    Qed.
  End Drill.
End E2E.

(* ---------------------------------------------------------------- a closed instance
   (no floats, timestamps or timedeltas at all) used for computed witnesses and non-vacuity *)
Definition E0 := Empty_set.
Definition e0_eqb (a b : E0) : bool := true.
Definition cvalue := value E0 E0 E0.
Definition cwrite (hive : bool) (names : list str) (chunks : list (list (row E0 E0 E0 nat))) :=
  write_model E0 E0 E0 e0_eqb e0_eqb e0_eqb (fun _ _ => false)
    (fun f => match f with end) (fun t => match t with end) (fun t => match t with end) nat hive names chunks.
Definition cread (pm : list (str * kind)) (files : list (str * list (row E0 E0 E0 nat))) :=
  read_model E0 E0 E0 e0_eqb e0_eqb e0_eqb (fun _ _ => false)
    (fun _ _ => None) (fun _ _ => None) (fun _ => None) (fun _ => None) (fun _ => None) nat pm (fun l => l) files.
