(* History-level statements for C09: the invariant holds after ANY history from the empty directory and the
   content read from the directory follows the plain model step by step.                                   *)
From Coq Require Import NArith ZArith Arith List Bool Lia Permutation.
From Pq Require Import Base.Bytes Proofs.BytesProofs Dataset.FS Dataset.FsPaths Dataset.Crash Proofs.CrashProofs
  Dataset.Reject Proofs.RejectProofs Dataset.Edit Proofs.EditProofs Proofs.EditRename.
Import ListNotations.

(* decidable well-formedness of new data (what pandas' groupby guarantees: distinct keys per row group) *)
Definition wf_rgsb (rgs : list rgroup) : bool :=
  forallb (fun g : rgroup => nodup_p (map fst g) && forallb (fun e => no_nl (fst e)) g) rgs.
Definition wf_opb (o : op) : bool :=
  match o with OWrite _ r | OAppend r | OOverwrite r | OWriteRgs r _ _ => wf_rgsb r | ORemove _ _ => true end.

Lemma nodup_p_sound l : nodup_p l = true -> NoDup l.
Proof.
  induction l as [|p l IH]; cbn; intros H; [constructor|]. apply andb_true_iff in H. destruct H as [H1 H2].
  constructor; [|auto]. apply negb_true_iff in H1. now apply mem_p_false.
Qed.

Lemma wf_opb_sound o : wf_opb o = true -> wf_op o.
Proof.
  assert (X : forall r, wf_rgsb r = true -> wf_rgs r).
  { intros r H g Hg. unfold wf_rgsb in H. rewrite forallb_forall in H. specialize (H g Hg). apply andb_true_iff in H.
    destruct H as [H1 H2]. split; [now apply nodup_p_sound | now apply forallb_forall]. }
  destruct o; cbn; auto.
Qed.

(* The plain model with the dataset's partitioning flag (None = no dataset yet): what is refused.
   A write where a dataset exists; append / write_row_groups with another partitioning than the dataset's, or without a dataset;
   overwrite of anything but a partitioned dataset; removal without a dataset. *)
Definition pstate := (option bool * sstate)%type.
Definition refused_spec (ps : pstate) (o : op) : bool :=
  match o, fst ps with
  | OWrite _ _, pt => match pt with None => false | Some _ => true end
  | (OAppend rgs | OWriteRgs rgs _ _), Some b => negb (Bool.eqb b (partitioned rgs))
  | (OAppend _ | OWriteRgs _ _ _), None => true
  | OOverwrite rgs, pt => negb (partitioned rgs && match pt with Some true => true | _ => false end)
  | ORemove _ _, pt => match pt with None => true | Some _ => false end
  end.
Definition spec_step' (ps : pstate) (o : op) : pstate :=
  if refused_spec ps o then ps
  else (part_after (fst ps) o, match spec_step (snd ps) o with Some a' => a' | None => snd ps end).
Definition spec_run (ops : list op) (ps : pstate) : pstate := fold_left spec_step' ops ps.
Definition pabs (s : state) : pstate := (st_part s, abs s).

Section Hist.
  Variable sortp : state -> option state.
  Hypothesis sortp_ok : forall s, inv s -> exists s', sortp s = Some s' /\ inv s' /\ abs s' = abs s /\ st_part s' = st_part s.

  Lemma step'_sim s o : inv s -> wf_op o -> inv (step' sortp s o) /\ pabs (step' sortp s o) = spec_step' (pabs s) o.
  Proof.
    intros I W. unfold step', spec_step', pabs. cbn [fst snd]. destruct (step sortp s o) as [s'|] eqn:E.
    - destruct (step_all sortp sortp_ok s o s' I W E) as [I' [R P]]. split; [exact I'|]. rewrite R, P.
      replace (refused_spec (st_part s, abs s) o) with false; [reflexivity|]. symmetry.
      destruct o as [sch rgs|rgs|rgs|sel sp|rgs k sp]; cbn [refused_spec step fst] in *.
      + destruct (st_part s); [discriminate | reflexivity].
      + unfold cats_known in E. destruct (st_part s) as [b|]; [|discriminate]. destruct (Bool.eqb b (partitioned rgs)); [reflexivity | discriminate].
      + destruct (partitioned rgs); [|discriminate]. destruct (st_part s) as [[|]|]; try discriminate. reflexivity.
      + destruct (st_part s); [reflexivity | discriminate].
      + unfold cats_known in E. destruct (st_part s) as [b|]; [|discriminate]. destruct (Bool.eqb b (partitioned rgs)); [reflexivity | discriminate].
    - split; [exact I|]. pose proof (step_refused sortp sortp_ok s o I W E) as R.
      replace (refused_spec (st_part s, abs s) o) with true; [reflexivity|]. symmetry.
      destruct o as [sch rgs|rgs|rgs|sel sp|rgs k sp]; cbn [refused_spec fst].
      + destruct (st_part s); [reflexivity | congruence].
      + unfold cats_known in R. destruct (st_part s) as [b|]; [|reflexivity]. now rewrite R.
      + destruct R as [R|R]; [now rewrite R|]. destruct (st_part s) as [[|]|]; try congruence; now rewrite andb_false_r.
      + now rewrite R.
      + unfold cats_known in R. destruct (st_part s) as [b|]; [|reflexivity]. now rewrite R.
  Qed.

  Theorem run_sim ops : forall s, inv s -> Forall wf_op ops ->
    inv (run sortp ops s) /\ pabs (run sortp ops s) = spec_run ops (pabs s).
  Proof.
    induction ops as [|o ops IH]; intros s I W; [now split|]. inversion W; subst. cbn [run spec_run fold_left].
    destruct (step'_sim s o I H1) as [I' A']. destruct (IH _ I' H2) as [I'' A'']. split; [exact I''|].
    unfold run, spec_run in *. now rewrite A'', A'.
  Qed.
End Hist.

Lemma read_abs s : inv s -> read s = map (fun g => (fst g, Some (snd g))) (abs s).
Proof.
  intros [A _]. unfold read, abs. rewrite map_map. apply map_ext_in. intros e He. cbn [fst snd]. f_equal.
  unfold read_entry. rewrite (A e He). now rewrite N.eqb_refl, bytes_eqb_refl.
Qed.

Theorem history_ok ops : Forall wf_op ops ->
  let s := run sort_pnames_fixed ops empty in
  inv s /\ read s = map (fun g => (fst g, Some (snd g))) (snd (spec_run ops (None, []))).
Proof.
  intros W s. destruct (run_sim sort_pnames_fixed sort_pnames_fixed_ok ops empty inv_empty W) as [I A].
  split; [exact I|]. subst s. rewrite (read_abs _ I). change (abs (run sort_pnames_fixed ops empty)) with (snd (pabs (run sort_pnames_fixed ops empty))).
  now rewrite A.
Qed.

Lemma in_lookup_some (d : fs) p v : In (p, v) d -> lookup p d <> None.
Proof.
  induction d as [|[q w] r IH]; [contradiction|]. intros Hf. cbn [lookup]. destruct (bytes_eqb_spec p q) as [E|E]; [discriminate|].
  destruct Hf as [Hf|Hf]; [inversion Hf; congruence | now apply IH].
Qed.

(* inv implies the decidable check evaluated by the extracted model *)
Lemma inv_check s : inv s -> check_inv s = true.
Proof.
  intros [A [B [Cn [D _]]]]. unfold check_inv. rewrite !andb_true_iff. repeat split.
  - apply forallb_forall. intros e He.
    match goal with |- match ?x with _ => _ end = _ => replace x with (Some (st_sch s :: snd e)) by (symmetry; exact (A e He)) end.
    apply bytes_eqb_refl.
  - apply forallb_forall. intros [p v] Hf. apply mem_p_spec. apply B. cbn [fst].
    now apply (in_lookup_some _ p v).
  - clear -Cn. induction (map fst (st_sum s)) as [|p l IH]; [reflexivity|]. inversion Cn; subst. cbn.
    rewrite IH by assumption. rewrite andb_true_r. apply negb_true_iff. now apply mem_p_false.
  - now apply Z.eqb_eq.
Qed.
