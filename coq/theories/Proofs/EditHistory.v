(* History-level statements for C09: the invariant holds after ANY history from the empty directory and the
   content read from the directory follows the plain model step by step.                                   *)
From Coq Require Import NArith ZArith Arith List Bool Lia Permutation.
From Pq Require Import Base.Bytes Proofs.BytesProofs Dataset.FS Dataset.FsPaths Dataset.Crash Proofs.CrashProofs
  Dataset.Reject Proofs.RejectProofs Dataset.Edit Proofs.EditProofs Proofs.EditRename.
Import ListNotations.

(* decidable well-formedness of new data (what pandas' groupby guarantees: distinct keys per row group) *)
Definition wf_rgsb (rgs : list rgroup) : bool :=
  forallb (fun g : rgroup => nodup_p (map fst g) && forallb (fun e => no_nl (fst e)) g) rgs.
Definition wf_opb (o : op) : bool :=
  match o with OWrite r | OAppend r | OOverwrite r | OWriteRgs r _ _ => wf_rgsb r | ORemove _ _ => true end.

Lemma nodup_p_sound l : nodup_p l = true -> NoDup l.
Proof.
  induction l as [|p l IH]; cbn; intros H; [constructor|]. apply andb_true_iff in H. destruct H as [H1 H2].
  constructor; [|auto]. apply negb_true_iff in H1. now apply mem_p_false.
Qed.

Lemma wf_opb_sound o : wf_opb o = true -> wf_op o.
Proof.
  assert (X : forall r, wf_rgsb r = true -> wf_rgs r).
  { intros r H g Hg. unfold wf_rgsb in H. rewrite forallb_forall in H. specialize (H g Hg). apply andb_true_iff in H.
    destruct H as [H1 H2]. split; [now apply nodup_p_sound | now apply forallb_forall]. }
  destruct o; cbn; auto.
Qed.

(* what the plain model refuses (see notes/C09.md: the last two are the open finding C09-emptied-then-append) *)
Definition is_nil {A} (l : list A) : bool := match l with [] => true | _ => false end.
Definition refused_spec (a : sstate) (o : op) : bool :=
  match o with
  | OWrite _ => negb (is_nil a)
  | OAppend rgs | OWriteRgs rgs _ _ => is_nil a && partitioned rgs
  | OOverwrite rgs => negb (partitioned rgs) || is_nil a
  | ORemove _ _ => false
  end.
Definition spec_step' (a : sstate) (o : op) : sstate :=
  if refused_spec a o then a else match spec_step a o with Some a' => a' | None => a end.
Definition spec_run (ops : list op) (a : sstate) : sstate := fold_left spec_step' ops a.

Lemma inv_dir_nil s : inv s -> st_sum s = [] -> st_dir s = [].
Proof.
  intros [_ [B _]] Es. destruct (st_dir s) as [|[p v] r] eqn:Ed; [reflexivity|]. exfalso.
  assert (H : lookup p ((p, v) :: r) <> None) by (cbn; rewrite bytes_eqb_refl; discriminate).
  specialize (B p H). now rewrite Es in B.
Qed.

Lemma abs_nil s : is_nil (abs s) = is_nil (st_sum s).
Proof. unfold abs. now destruct (st_sum s). Qed.

Section Hist.
  Variable sortp : state -> option state.
  Hypothesis sortp_ok : forall s, inv s -> exists s', sortp s = Some s' /\ inv s' /\ abs s' = abs s.

  Lemma step'_sim s o : inv s -> wf_op o -> inv (step' sortp s o) /\ abs (step' sortp s o) = spec_step' (abs s) o.
  Proof.
    intros I W. unfold step', spec_step'. destruct (step sortp s o) as [s'|] eqn:E.
    - split; [exact (step_inv sortp sortp_ok s o s' I W E)|].
      rewrite (step_refines sortp sortp_ok s o s' I W E).
      replace (refused_spec (abs s) o) with false; [reflexivity|]. symmetry.
      destruct o as [rgs|rgs|rgs|sel sp|rgs k sp]; cbn [refused_spec step] in *; rewrite ?abs_nil.
      + destruct (st_dir s); [|discriminate]. destruct (st_sum s); [reflexivity | discriminate].
      + unfold cats_known in E. destruct (st_sum s); [|reflexivity]. cbn [is_nil andb]. destruct (partitioned rgs); [discriminate | reflexivity].
      + destruct (partitioned rgs); [|discriminate]. destruct (st_sum s); [discriminate | reflexivity].
      + reflexivity.
      + unfold cats_known in E. destruct (st_sum s); [|reflexivity]. cbn [is_nil andb]. destruct (partitioned rgs); [discriminate | reflexivity].
    - split; [exact I|]. pose proof (step_refused sortp sortp_ok s o I W E) as R.
      replace (refused_spec (abs s) o) with true; [reflexivity|]. symmetry.
      destruct o as [rgs|rgs|rgs|sel sp|rgs k sp]; cbn [refused_spec]; rewrite ?abs_nil.
      + destruct (st_sum s) eqn:Es; [|reflexivity]. exfalso. destruct R as [R|R]; [apply R; now apply inv_dir_nil | now apply R].
      + unfold cats_known in R. destruct (st_sum s); [|discriminate]. cbn [is_nil andb]. now apply negb_false_iff in R.
      + destruct R as [R|R]; [now rewrite R | rewrite R; apply orb_true_r].
      + contradiction.
      + unfold cats_known in R. destruct (st_sum s); [|discriminate]. cbn [is_nil andb]. now apply negb_false_iff in R.
  Qed.

  Theorem run_sim ops : forall s, inv s -> Forall wf_op ops ->
    inv (run sortp ops s) /\ abs (run sortp ops s) = spec_run ops (abs s).
  Proof.
    induction ops as [|o ops IH]; intros s I W; [now split|]. inversion W; subst. cbn [run spec_run fold_left].
    destruct (step'_sim s o I H1) as [I' A']. destruct (IH _ I' H2) as [I'' A'']. split; [exact I''|].
    unfold run, spec_run in *. now rewrite A'', A'.
  Qed.
End Hist.

Lemma read_abs s : inv s -> read s = map (fun g => (fst g, Some (snd g))) (abs s).
Proof.
  intros [A _]. unfold read, abs. rewrite map_map. apply map_ext_in. intros e He. cbn [fst snd]. f_equal.
  unfold read_entry. rewrite (A e He). now rewrite bytes_eqb_refl.
Qed.

Theorem history_ok ops : Forall wf_op ops ->
  let s := run sort_pnames_fixed ops empty in
  inv s /\ read s = map (fun g => (fst g, Some (snd g))) (spec_run ops []).
Proof.
  intros W s. destruct (run_sim sort_pnames_fixed sort_pnames_fixed_ok ops empty inv_empty W) as [I A].
  split; [exact I|]. subst s. rewrite (read_abs _ I), A. reflexivity.
Qed.

Lemma in_lookup_some (d : fs) p v : In (p, v) d -> lookup p d <> None.
Proof.
  induction d as [|[q w] r IH]; [contradiction|]. intros Hf. cbn [lookup]. destruct (bytes_eqb_spec p q) as [E|E]; [discriminate|].
  destruct Hf as [Hf|Hf]; [inversion Hf; congruence | now apply IH].
Qed.

(* inv implies the decidable check evaluated by the extracted model *)
Lemma inv_check s : inv s -> check_inv s = true.
Proof.
  intros [A [B [Cn [D _]]]]. unfold check_inv. rewrite !andb_true_iff. repeat split.
  - apply forallb_forall. intros e He.
    match goal with |- match ?x with _ => _ end = _ => replace x with (Some (snd e)) by (symmetry; exact (A e He)) end.
    apply bytes_eqb_refl.
  - apply forallb_forall. intros [p v] Hf. apply mem_p_spec. apply B. cbn [fst].
    now apply (in_lookup_some _ p v).
  - clear -Cn. induction (map fst (st_sum s)) as [|p l IH]; [reflexivity|]. inversion Cn; subst. cbn.
    rewrite IH by assumption. rewrite andb_true_r. apply negb_true_iff. now apply mem_p_false.
  - now apply Z.eqb_eq.
Qed.
