(* Round trip of a column chunk of the format specification: the page loop `scan_pages` over the
   bytes the spec encoder lays out for a list of pages returns the page summaries, the cells and the
   null count the layout denotes. *)
From Coq Require Import String.
From Coq Require Import NArith ZArith Arith List Lia Bool.
From Pq Require Import Base.Bytes Base.Bits Base.ListX Proofs.BytesProofs Proofs.ListXProofs Proofs.CodecProofs
  Proofs.CompactProofs Codec.Varint Codec.Bitpack Codec.Hybrid Thrift.Compact Thrift.Idl Thrift.IdlPinned
  Format.Phys Format.Meta Format.Page Format.ChunkLayout Format.File Format.Enc.
From Pq Require Import Proofs.HybridProofs Proofs.FormatCodecProofs Proofs.FormatPageProofs.
Import ListNotations.
Open Scope N_scope.
Open Scope list_scope.

Definition summary_of (hp : phdr * bytes) : page :=
  {| p_kind := pkind_of (ph_body (fst hp)); p_hdr := Z.of_N (lenN (enc_phdr (fst hp))); p_comp := ph_csize (fst hp);
     p_uncomp := ph_usize (fst hp); p_nvals := pnvals_of (ph_body (fst hp)); p_enc := penc_of (ph_body (fst hp)) |}.

Definition next_dict (dict : option (list value)) (c : pcontent) : option (list value) :=
  match c with CDict vs => Some vs | _ => dict end.

(* contents of the pages of a chunk, the dictionary in force threaded through *)
Fixpoint items_contents (cd : coldesc) (dict : option (list value)) (its : list litem) : option (list pcontent) :=
  match its with
  | [] => Some []
  | it :: r =>
    match item_content cd dict it with
    | Some c => option_map (cons c) (items_contents cd (next_dict dict c) r)
    | None => None
    end
  end.

Definition content_cells (c : pcontent) : list (option value) := match c with CData _ _ cs => cs | _ => [] end.
Definition content_nulls (c : pcontent) : N := match c with CData _ nn _ => nn | _ => 0 end.
Definition is_skip (c : pcontent) : bool := match c with CSkip => true | _ => false end.

Lemma enc_phdr_nonempty h : exists x l, enc_phdr h = x :: l.
Proof.
  unfold enc_phdr. unfold phdr_to_tv. rewrite wr_struct.
  match goal with |- context [wr_fields 0 ?fs] => pose proof (wr_fields_len fs 0) as L; destruct (wr_fields 0 fs) as [|x l] end.
  - cbn in L. lia.
  - eauto.
Qed.

Section WithCodecs3.
Variable compress : Z -> bytes -> bytes.
Variable decompress : Z -> N -> bytes -> option bytes.
Hypothesis codec_rt : forall codec b, decompress codec (lenN b) (compress codec b) = Some b.

Definition item_bytes (cd : coldesc) (codec : Z) (it : litem) : bytes := page_bytes (enc_item compress cd codec it).

Theorem scan_pages_roundtrip strict cd codec : forall its clock dict pages cells nulls contents,
  Forall (item_wf cd) its ->
  Forall (fun it => phdr_wf (fst (enc_item compress cd codec it)) = true) its ->
  items_contents cd dict its = Some contents ->
  (length (concat (map (item_bytes cd codec) its)) <= length clock)%nat ->
  scan_pages decompress clock strict cd codec dict (concat (map (item_bytes cd codec) its)) pages cells nulls
  = ROk (rev pages ++ map (fun it => summary_of (enc_item compress cd codec it)) its,
         rev cells ++ concat (map content_cells contents),
         nulls + fold_right N.add 0 (map content_nulls contents)).
Proof.
  induction its as [|it r IH]; intros clock dict pages cells nulls contents W HW C L.
  - cbn [items_contents] in C. injection C as <-. cbn [map concat fold_right].
    destruct clock; cbn [scan_pages]; rewrite !rev_append_rev, !app_nil_r, N.add_0_r; reflexivity.
  - inversion W as [|? ? Wit Wr]; subst. inversion HW as [|? ? Hit Hr]; subst.
    cbn [items_contents] in C.
    destruct (item_content cd dict it) as [c|] eqn:IC; [|discriminate].
    destruct (items_contents cd (next_dict dict c) r) as [cr|] eqn:ICr; [|discriminate].
    cbn [option_map] in C. injection C as <-.
    set (hp := enc_item compress cd codec it) in *.
    destruct (enc_phdr_nonempty (fst hp)) as (x & l & Hxl).
    set (restb := concat (map (item_bytes cd codec) r)) in *.
    assert (B : concat (map (item_bytes cd codec) (it :: r)) = x :: (l ++ snd hp ++ restb)).
    { cbn [map concat]. unfold item_bytes at 1. fold hp. unfold page_bytes. rewrite app_tr_ok, Hxl.
      cbn [app]. now rewrite <- app_assoc. }
    rewrite B in *. destruct clock as [|c0 clock']; [cbn [length] in L; lia|].
    cbn [scan_pages].
    replace (x :: l ++ snd hp ++ restb) with (enc_phdr (fst hp) ++ (snd hp ++ restb)) by (rewrite Hxl; reflexivity).
    rewrite phdr_roundtrip by exact Hit. cbn [rbind].
    unfold hp at 1. rewrite enc_item_csize. fold hp. cbn [rbind].
    rewrite lenN_app.
    destruct (N.leb_spec (lenN (snd hp)) (lenN (snd hp) + lenN restb)) as [_|L2]; [|lia]. cbn [guard rbind].
    rewrite takeN_app_exact, dropN_app_exact.
    unfold hp at 1 2. rewrite (item_roundtrip compress decompress codec_rt strict cd codec dict it c Wit IC). fold hp.
    cbn [rbind].
    assert (L' : (length restb <= length clock')%nat).
    { cbn [length] in L. rewrite !app_length in L. lia. }
    assert (NS : is_skip c = false).
    { destruct it; cbn [item_content] in IC; [injection IC as <-; reflexivity|].
      destruct (page_cells cd dict p); [injection IC as <-; reflexivity|discriminate]. }
    destruct c as [dv|n nn cs|]; [| |discriminate NS]; cbn [next_dict] in ICr.
    + rewrite (IH clock' (Some dv) _ cells nulls cr Wr Hr ICr L').
      cbn [rev map concat content_cells content_nulls fold_right app]. rewrite <- app_assoc. cbn [app].
      rewrite N.add_0_l. reflexivity.
    + rewrite (IH clock' dict _ _ _ cr Wr Hr ICr L').
      cbn [rev map concat content_cells content_nulls fold_right app].
      rewrite rev_append_rev, rev_app_distr, rev_involutive, <- !app_assoc. cbn [app].
      rewrite N.add_assoc. reflexivity.
Qed.

End WithCodecs3.
