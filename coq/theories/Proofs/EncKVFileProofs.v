(* Whole-file round trip of the specification encoder WITH key_value_metadata (Format/EncKV.v enc_file_kv): the specification
   decoder returns the table the layout denotes and the validator accepts the file, whatever entries the footer carries.  (C03)
   Same structure as Proofs/FormatFileProofs.v; only the footer differs. *)
From Coq Require Import String.
From Coq Require Import NArith ZArith Arith List Lia Bool.
From Pq Require Import Base.Bytes Base.Bits Base.ListX Proofs.BytesProofs Proofs.ListXProofs Proofs.CodecProofs
  Proofs.CompactProofs Codec.Varint Codec.Bitpack Codec.Hybrid Thrift.Compact Thrift.Idl Thrift.IdlPinned
  Format.Phys Format.Meta Format.Page Format.ChunkLayout Format.File Format.Enc Format.EncKV.
From Pq Require Import Proofs.HybridProofs Proofs.FormatCodecProofs Proofs.FormatPageProofs Proofs.FormatChunkProofs
  Proofs.ChunkLayoutProofs Proofs.FormatMetaProofs Proofs.FormatIdlProofs Proofs.FormatFileProofs Proofs.EncKVProofs.
Import ListNotations.
Open Scope N_scope.
Open Scope list_scope.

Lemma conf_kv kv : conf (FStruct "KeyValue") (kv_to_tv kv) = true.
Proof.
  destruct kv as [k [v|]]; unfold kv_to_tv; cbn [fst snd];
    struct_step "KeyValue"%string; reflexivity.
Qed.

Theorem conf_fmd_kv kvs m : Forall logical_ok (fm_schema m) -> conf (FStruct "FileMetaData") (fmd_to_tv_kv kvs m) = true.
Proof.
  destruct m as [ve sc nr rgs cb]. unfold fmd_to_tv_kv. cbn [fm_version fm_schema fm_nrows fm_rgs fm_created_by]. intros L.
  struct_step "FileMetaData"%string.
  assert (S : conf (FList (FStruct "SchemaElement")) (TList 12 (map selem_to_tv sc)) = true).
  { rewrite conforms_list_eq. cbn [ety_matches wire N.eqb Pos.eqb orb andb].
    apply forallb_forall. intros v Hv. apply in_map_iff in Hv. destruct Hv as (x & <- & Hx).
    apply conf_selem. rewrite Forall_forall in L. now apply L. }
  destruct cb; cbn [optf app forallb fst snd find_field s_fields f_id f_ty N.eqb Pos.eqb];
    rewrite S, (conf_map_struct "RowGroup" _ rgroup_to_tv rgs conf_rgroup), (conf_map_struct "KeyValue" _ kv_to_tv kvs conf_kv); reflexivity.
Qed.

Section WithCodecs.
Variable compress : Z -> bytes -> bytes.
Variable decompress : Z -> N -> bytes -> option bytes.
Hypothesis codec_rt : forall codec b, decompress codec (lenN b) (compress codec b) = Some b.

Definition file_footer_kv (kvs : list (bytes * option bytes)) (f : lfile) : bytes := wr (fmd_to_tv_kv kvs (file_meta compress f)).

Lemma enc_file_kv_eq kvs f :
  enc_file_kv compress kvs f = magic ++ file_data compress f ++ file_footer_kv kvs f ++ le_enc 4 (lenN (file_footer_kv kvs f)) ++ magic.
Proof.
  unfold enc_file_kv, file_data, file_footer_kv, file_meta.
  destruct (enc_rgs compress (l_leaves f) (l_rgs f) 4) as [[bs rgs] pos]. cbn [fst snd].
  now rewrite !app_tr_ok, concat_tr_ok.
Qed.

(* representability of the extended footer (decidable; the entries count) *)
Definition footer_ok_kv (kvs : list (bytes * option bytes)) (f : lfile) : Prop :=
  wfb (fmd_to_tv_kv kvs (file_meta compress f)) = true /\ (depth (fmd_to_tv_kv kvs (file_meta compress f)) <= max_depth)%nat /\
  Forall leaf_logical_ok (l_leaves f) /\
  lenN (file_footer_kv kvs f) < 2 ^ 32.

Lemma footer_conforms_kv kvs f : Forall leaf_logical_ok (l_leaves f) ->
  conforms pinned idl_opts (FStruct "FileMetaData") (fmd_to_tv_kv kvs (file_meta compress f)) = true.
Proof.
  intros H. apply conf_fmd_kv. unfold file_meta. cbn [fm_schema]. constructor; [exact I|].
  apply Forall_forall. intros s Hs. apply in_map_iff in Hs. destruct Hs as (l & <- & Hl).
  rewrite Forall_forall in H. exact (H l Hl).
Qed.

Theorem parse_footer_roundtrip_kv kvs f : footer_ok_kv kvs f ->
  parse_footer (enc_file_kv compress kvs f) = ROk (file_meta compress f, 4 + lenN (file_data compress f), lenN (file_footer_kv kvs f)).
Proof.
  intros (WF & DP & LG & FL). pose proof (footer_conforms_kv kvs f LG) as CF. rewrite enc_file_kv_eq. unfold parse_footer.
  set (D := file_data compress f). set (F := file_footer_kv kvs f). set (L := le_enc 4 (lenN F)).
  assert (LL : lenN L = 4) by (unfold L; now rewrite lenN_ok, le_enc_length).
  assert (TOT : lenN (magic ++ D ++ F ++ L ++ magic) = lenN D + lenN F + 12) by (rewrite !lenN_app, LL, magic_len; lia).
  rewrite TOT.
  destruct (N.leb_spec 12 (lenN D + lenN F + 12)) as [_|X]; [|lia]. cbn [guard rbind].
  rewrite (takeN_at magic) by reflexivity. rewrite bytes_eqb_refl. cbn [guard rbind].
  replace (magic ++ D ++ F ++ L ++ magic) with ((magic ++ D ++ F) ++ L ++ magic) by (now rewrite <- !app_assoc).
  rewrite (dropN_at (magic ++ D ++ F)) by (rewrite !lenN_app, magic_len; lia).
  rewrite (dropN_at L) by (now rewrite LL). rewrite bytes_eqb_refl. cbn [guard rbind].
  rewrite (takeN_at L) by (now rewrite LL).
  assert (LE : le2n_tr L = lenN F).
  { unfold L. rewrite le2n_tr_ok, le2n_le_enc. change (256 ^ N.of_nat 4) with (2 ^ 32). now rewrite N.mod_small. }
  rewrite !LE.
  destruct (N.leb_spec (lenN F + 12) (lenN D + lenN F + 12)) as [_|X]; [|lia]. cbn [guard rbind].
  replace ((magic ++ D ++ F) ++ L ++ magic) with ((magic ++ D) ++ F ++ L ++ magic) by (now rewrite <- !app_assoc).
  rewrite (dropN_at (magic ++ D)) by (rewrite lenN_app, magic_len; lia).
  rewrite (takeN_at F) by reflexivity.
  unfold F at 1, file_footer_kv. unfold thrift_dec, thrift_dec_ty.
  pose proof (rd_wr true max_depth (fmd_to_tv_kv kvs (file_meta compress f)) [] DP WF) as R. rewrite app_nil_r in R.
  change (nib (fmd_to_tv_kv kvs (file_meta compress f))) with 12 in R. rewrite R. cbn [guard rbind].
  rewrite CF. cbn [guard rbind]. rewrite fmd_of_to_kv.
  do 3 f_equal. lia.
Qed.

Definition lfile_wf_kv (kvs : list (bytes * option bytes)) (f : lfile) : Prop :=
  Forall leaf_wf (l_leaves f) /\ Forall (rg_ok compress (l_leaves f)) (l_rgs f) /\ footer_ok_kv kvs f.

Definition file_out_kv (kvs : list (bytes * option bytes)) (f : lfile) : file_out :=
  {| fo_len := lenN (enc_file_kv compress kvs f); fo_fstart := 4 + lenN (file_data compress f); fo_flen := lenN (file_footer_kv kvs f);
     fo_meta := file_meta compress f; fo_leaves := map leaf_of_l (l_leaves f); fo_rgs := rgs_out compress (l_leaves f) (l_rgs f) 4 |}.

Theorem scan_file_roundtrip_kv strict kvs f : lfile_wf_kv kvs f ->
  scan_file decompress strict (enc_file_kv compress kvs f) = ROk (file_out_kv kvs f).
Proof.
  intros (LW & RW & FW). unfold scan_file. rewrite parse_footer_roundtrip_kv by exact FW. cbn [rbind].
  unfold file_meta at 1. cbn [fm_schema]. rewrite leaves_of_schema by exact LW. cbn [rbind].
  unfold file_meta at 1. cbn [fm_rgs].
  pose proof (enc_rgs_pos compress (l_leaves f) (l_rgs f) 4) as P.
  rewrite (scan_rgs_roundtrip compress decompress codec_rt strict (4 + lenN (file_data compress f)) (l_leaves f) (l_rgs f) 4
             (enc_file_kv compress kvs f) magic
             (file_footer_kv kvs f ++ le_enc 4 (lenN (file_footer_kv kvs f)) ++ magic) RW).
  - reflexivity.
  - rewrite enc_file_kv_eq. reflexivity.
  - reflexivity.
  - lia.
  - unfold file_data. lia.
Qed.

Theorem dec_file_roundtrip_kv strict kvs f : lfile_wf_kv kvs f ->
  dec_file decompress strict (enc_file_kv compress kvs f) = ROk (map leaf_of_l (l_leaves f), file_cells f).
Proof.
  intros W. unfold dec_file. rewrite scan_file_roundtrip_kv by exact W. cbn [rbind file_out_kv fo_rgs fo_leaves].
  rewrite rgs_out_cells. reflexivity.
Qed.

(* the decoding half of spec_roundtrip for files with entries: same denotation as the file without *)
Theorem spec_roundtrip_dec_kv strict kvs f t : lfile_wf_kv kvs f -> lfile_wf compress f -> table_of f = Some t ->
  dec_file decompress strict (enc_file_kv compress kvs f) = ROk t.
Proof. intros W W0 T. rewrite (table_of_cells compress f W0) in T. injection T as <-. now apply dec_file_roundtrip_kv. Qed.

Theorem valid_file_roundtrip_kv strict kvs f : lfile_wf_kv kvs f -> Forall rg_strict (l_rgs f) ->
  valid_file decompress strict (enc_file_kv compress kvs f) = ROk tt.
Proof.
  intros W ST. unfold valid_file. rewrite scan_file_roundtrip_kv by exact W. cbn [rbind].
  destruct W as (LW & RW & FW).
  unfold valid_out, file_out_kv. cbn [fo_rgs fo_meta].
  rewrite (valid_rgs compress _ _ 4 RW ST). cbn [rbind].
  unfold file_meta. cbn [fm_nrows].
  destruct (rgs_out compress (l_leaves f) (l_rgs f) 4) as [|x xs] eqn:E; [reflexivity|].
  rewrite <- E. rewrite <- (map_map fst rg_nrows), rgs_out_fst, Z.eqb_refl. reflexivity.
Qed.

End WithCodecs.
