(* The hw variants (Impl/CHw.v: x86 reading of the undefined shifts) coincide with the standard impl models
   wherever the standard models return Ok - so comparing the binary with the hw models beyond the boundaries never
   contradicts the theorems about the standard models. (bit-packed reader and hybrid loop; the delta variant is
   tied by the run-time comparison only.) *)
From Coq Require Import NArith ZArith Arith List Lia Bool.
From Pq Require Import Base.Bytes Base.Bits Base.Err Base.ListX Proofs.CVarintProofs
  Impl.CVarint Impl.CBitpack Impl.CRle Impl.CHybrid Impl.CHw.
Import ListNotations.
Open Scope N_scope.

Section LoopRefines.
  Variable St : Type.
  Variable done : St -> bool.
  Variables step step' : St -> res St.
  Hypothesis Hstep : forall s s', step s = Ok s' -> step' s = Ok s'.

  Lemma loop_refines : forall p s s', loop done step p s = Ok s' -> loop done step' p s = Ok s'.
  Proof.
    induction p as [q IH|q IH|]; intros s s' H; cbn [loop] in *.
    - destruct (done s); [exact H|]. destruct (loop done step q s) as [s1| | |] eqn:E; try discriminate.
      rewrite (IH _ _ E). now apply IH.
    - destruct (done s); [exact H|]. destruct (loop done step q s) as [s1| | |] eqn:E; try discriminate.
      rewrite (IH _ _ E). now apply IH.
    - destruct (done s); [exact H|]. now apply Hstep.
  Qed.

  Lemma run_loop_refines p s s' : run_loop done step p s = Ok s' -> run_loop done step' p s = Ok s'.
  Proof.
    unfold run_loop. intros H. destruct (loop done step p s) as [s1| | |] eqn:E; try discriminate.
    now rewrite (loop_refines _ _ _ E).
  Qed.
End LoopRefines.

Lemma rb_step_hw_refines w isz cap mask s s' :
  rb_step w isz cap mask s = Ok s' -> rb_step_hw w isz cap mask s = Ok s'.
Proof.
  unfold rb_step, rb_step_hw. destruct (N.ltb_spec 8 (right s)) as [H8|H8]; [tauto|].
  destruct (Z.of_N (left s) - Z.of_N (right s) <? Z.of_N w)%Z.
  - destruct (inp s) as [|b r]; [tauto|]. destruct (N.leb_spec 32 (left s)) as [H32|H32]; [discriminate|].
    now rewrite (N.mod_small (left s) 32) by exact H32.
  - now rewrite (N.mod_small (right s) 32) by lia.
Qed.

Lemma hw_mask w : w < 32 -> N.land (N.shiftl 1 (w mod 32) + N.ones 32) (N.ones 32) = N.ones w.
Proof.
  intros H. assert (Hb : w < 256) by lia.
  apply (byte_cases (fun w => implb (w <? 32) (N.land (N.shiftl 1 (w mod 32) + N.ones 32) (N.ones 32) =? N.ones w))) in Hb;
    [|vm_compute; reflexivity].
  destruct (N.ltb_spec w 32); [|lia]. cbn [implb] in Hb. now apply N.eqb_eq.
Qed.

Theorem read_bitpacked_hw_refines input header w cap isz d :
  c_read_bitpacked input header w cap isz = Ok d -> c_read_bitpacked_hw input header w cap isz = Ok d.
Proof.
  unfold c_read_bitpacked, c_read_bitpacked_hw.
  destruct ((w =? 1) && (isz =? 1)); [tauto|].
  destruct (N.leb_spec 32 w) as [H32|H32]; [discriminate|].
  rewrite hw_mask by exact H32.
  destruct input as [|b0 r]; [tauto|].
  match goal with |- match run_loop ?d ?st ?p ?s0 with _ => _ end = _ -> _ =>
    destruct (run_loop d st p s0) as [s1| | |] eqn:E; try discriminate end.
  intros H. rewrite (run_loop_refines _ _ _ _ (rb_step_hw_refines w isz cap (N.ones w)) _ _ _ E). exact H.
Qed.

Lemma hybrid_f_hw_refines : forall clock w len isz inp used cap written acc d,
  c_hybrid_f clock w len isz inp used cap written acc = Ok d ->
  c_hybrid_f_hw clock w len isz inp used cap written acc = Ok d.
Proof.
  induction clock as [|c0 clock IH]; intros w len isz inp used cap written acc d H; cbn [c_hybrid_f c_hybrid_f_hw] in *.
  - exact H.
  - destruct ((used <? len) && (written <? cap)); [|exact H].
    destruct (c_varint inp) as [[h k]| | |]; try discriminate.
    destruct (Z.even (to_i32 h)).
    + destruct (c_read_rle _ _ _ _ _) as [d1| | |]; try discriminate. now apply IH.
    + destruct (c_read_bitpacked _ _ _ _ _) as [d1| | |] eqn:E; try discriminate.
      rewrite (read_bitpacked_hw_refines _ _ _ _ _ _ E). now apply IH.
Qed.

Theorem read_hybrid_hw_refines input w len cap isz d :
  c_read_hybrid input w len cap isz = Ok d -> c_read_hybrid_hw input w len cap isz = Ok d.
Proof.
  unfold c_read_hybrid, c_read_hybrid_hw. destruct (len =? 0).
  - destruct (lenN input <? 4); [tauto|].
    destruct (c_hybrid_f _ _ _ _ _ _ _ _ _) as [d1| | |] eqn:E; try discriminate.
    now rewrite (hybrid_f_hw_refines _ _ _ _ _ _ _ _ _ _ E).
  - apply hybrid_f_hw_refines.
Qed.

(* ---------------- delta miniblock reader: simulation between the N-state and the int8 (Z) state ---------------- *)
From Pq Require Import Impl.CDelta.

Section LoopSim.
  Variables (S1 S2 : Type) (R : S1 -> S2 -> Prop).
  Variables (done1 : S1 -> bool) (done2 : S2 -> bool) (step1 : S1 -> res S1) (step2 : S2 -> res S2).
  Hypothesis Hdone : forall s h, R s h -> done1 s = done2 h.
  Hypothesis Hstep : forall s h s', R s h -> step1 s = Ok s' -> exists h', step2 h = Ok h' /\ R s' h'.

  Lemma loop_sim : forall p s h s', R s h -> loop done1 step1 p s = Ok s' ->
    exists h', loop done2 step2 p h = Ok h' /\ R s' h'.
  Proof.
    induction p as [q IH|q IH|]; intros s h s' HR H; cbn [loop] in *; rewrite <- (Hdone _ _ HR).
    - destruct (done1 s); [inversion H; subst; eauto|].
      destruct (loop done1 step1 q s) as [s1| | |] eqn:E; try discriminate.
      destruct (IH _ _ _ HR E) as (h1 & E1 & R1). rewrite E1. eapply IH; eauto.
    - destruct (done1 s); [inversion H; subst; eauto|].
      destruct (loop done1 step1 q s) as [s1| | |] eqn:E; try discriminate.
      destruct (IH _ _ _ HR E) as (h1 & E1 & R1). rewrite E1. eapply IH; eauto.
    - destruct (done1 s); [inversion H; subst; eauto|]. eapply Hstep; eauto.
  Qed.

  Lemma run_loop_sim p s h s' : R s h -> run_loop done1 step1 p s = Ok s' ->
    exists h', run_loop done2 step2 p h = Ok h' /\ R s' h'.
  Proof.
    unfold run_loop. intros HR H. destruct (loop done1 step1 p s) as [s1| | |] eqn:E; try discriminate.
    destruct (loop_sim _ _ _ _ HR E) as (h1 & E1 & R1). rewrite E1, <- (Hdone _ _ R1).
    destruct (done1 s1); [|discriminate]. inversion H; subst. eauto.
  Qed.
End LoopSim.

Definition dR (s : dst) (h : dsth) : Prop :=
  ddata s = hdata h /\ Z.of_N (dleft s) = hleft h /\ Z.of_N (dright s) = hright h /\
  dinp s = hinp h /\ dused s = hused h /\ dcnt s = hcnt h /\ dout s = hout h /\
  dleft s <= 72 /\ dright s <= 72.

Ltac Zify.zify_post_hook ::= Z.to_euclidean_division_equations.
Lemma wrap8_id z : (-128 <= z <= 127)%Z -> wrap8 z = z.
Proof. unfold wrap8. lia. Qed.
Lemma sh64_id n : n < 64 -> sh64 (Z.of_N n) = n.
Proof. unfold sh64. lia. Qed.
Lemma sh64_mask w : 0 < w <= 64 -> sh64 (64 - Z.of_N w) = 64 - w.
Proof. unfold sh64. lia. Qed.
Ltac Zify.zify_post_hook ::= idtac.

Lemma drb_step_sim w mask s h s' : w <= 64 -> dR s h -> drb_step w mask s = Ok s' ->
  exists h', drb_step_hw w mask h = Ok h' /\ dR s' h'.
Proof.
  intros Hw (Hd & Hl & Hr & Hi & Hu & Hc & Ho & Bl & Br) H.
  unfold drb_step in H. unfold drb_step_hw. rewrite <- Hl, <- Hr, <- Hi.
  destruct (Z.ltb_spec (Z.of_N (dleft s) - Z.of_N (dright s)) (Z.of_N w)) as [Hc1|Hc1].
  - destruct (dinp s) as [|b r]; [discriminate|].
    destruct (N.leb_spec 64 (dleft s)) as [H64|H64]; [discriminate|].
    inversion H; subst s'. eexists; split; [reflexivity|].
    unfold dR. cbn [ddata dleft dright dinp dused dcnt dout hdata hleft hright hinp hused hcnt hout].
    rewrite sh64_id by exact H64. rewrite wrap8_id by lia. repeat split; try congruence; try lia.
  - assert (E8 : (8 <? Z.of_N (dright s))%Z = (8 <? dright s)).
    { destruct (Z.ltb_spec 8 (Z.of_N (dright s))), (N.ltb_spec 8 (dright s)); try reflexivity; lia. }
    rewrite E8. destruct (N.ltb_spec 8 (dright s)) as [H8|H8].
    + inversion H; subst s'. eexists; split; [reflexivity|].
      unfold dR. cbn [ddata dleft dright dinp dused dcnt dout hdata hleft hright hinp hused hcnt hout].
      rewrite !wrap8_id by lia. repeat split; try congruence; try lia.
    + inversion H; subst s'. eexists; split; [reflexivity|].
      unfold dR. cbn [ddata dleft dright dinp dused dcnt dout hdata hleft hright hinp hused hcnt hout].
      rewrite sh64_id by lia. rewrite wrap8_id by lia. repeat split; try congruence; try lia.
Qed.

Theorem delta_read_bitpacked_hw_refines input w count r :
  c_delta_read_bitpacked input w count = Ok r -> c_delta_read_bitpacked_hw input w count = Ok r.
Proof.
  unfold c_delta_read_bitpacked, c_delta_read_bitpacked_hw.
  destruct (N.eqb_spec w 0) as [E0|E0]; [discriminate|].
  destruct (N.ltb_spec 64 w) as [E64|E64]; [discriminate|]. cbn [orb].
  rewrite sh64_mask by lia.
  match goal with |- match run_loop ?d ?st ?p ?s0 with _ => _ end = _ -> _ =>
    destruct (run_loop d st p s0) as [s1| | |] eqn:E; try discriminate end.
  intros H.
  eapply (run_loop_sim dst dsth dR drb_done (fun s => hcnt s =? 0) (drb_step w (N.shiftr m64 (64 - w)))
            (drb_step_hw w (N.shiftr m64 (64 - w))))
    with (h := {| hdata := 0; hleft := 0%Z; hright := 0%Z; hinp := input; hused := 0; hcnt := count; hout := [] |}) in E.
  - destruct E as (h1 & E1 & R1). rewrite E1.
    destruct R1 as (Hd & Hl & Hr & Hi & Hu & Hc & Ho & _). rewrite <- Ho, <- Hi, <- Hu. exact H.
  - intros s h (_ & _ & _ & _ & _ & Hc & _). unfold drb_done. now rewrite Hc.
  - intros s h s' HR Hs. eapply drb_step_sim; eauto.
  - unfold dR. cbn. repeat split; lia.
Qed.

(* the block loop is parametric in the miniblock reader *)
Lemma u_step_refines isz vpm mpb r1 r2 :
  (forall i w n x, r1 i w n = Ok x -> r2 i w n = Ok x) ->
  forall s s', u_step isz vpm mpb r1 s = Ok s' -> u_step isz vpm mpb r2 s = Ok s'.
Proof.
  intros Hr s s' H. unfold u_step in *. destruct (u_ph s) as [|ws i md|ws i md hasw j|]; try exact H.
  destruct (mpb <=? i); [exact H|]. destruct (get_nth ws i) as [w|]; [|exact H].
  destruct (w =? 0); [exact H|]. destruct (1 <? u_count s)%Z; [|exact H].
  destruct (r1 (u_inp s) w vpm) as [x| | |] eqn:E; try discriminate. now rewrite (Hr _ _ _ _ E).
Qed.

Theorem delta_binary_unpack_hw_refines input items nbytes longval r :
  c_delta_binary_unpack input items nbytes longval = Ok r ->
  c_delta_binary_unpack_hw input items nbytes longval = Ok r.
Proof.
  unfold c_delta_binary_unpack, c_delta_binary_unpack_hw, c_delta_binary_unpack_gen.
  destruct (c_varint input) as [[bs k1]| | |]; try discriminate.
  destruct (c_varint _) as [[mpb k2]| | |]; try discriminate.
  destruct (c_varint _) as [[cnt k3]| | |]; try discriminate.
  destruct (c_varint _) as [[zf k4]| | |]; try discriminate.
  destruct (mpb =? 0); [tauto|].
  match goal with |- match run_loop ?d ?st ?p ?s0 with _ => _ end = _ -> _ =>
    destruct (run_loop d st p s0) as [s1| | |] eqn:E; try discriminate end.
  intros H.
  rewrite (run_loop_refines _ _ _ _ (u_step_refines _ _ _ _ _ delta_read_bitpacked_hw_refines) _ _ _ E). exact H.
Qed.
