(* Round trips of the SPEC codecs: varint, zigzag, bit packing. *)
From Coq Require Import NArith ZArith Arith List Lia Bool.
From Pq Require Import Base.Bytes Base.Bits Base.ListX Proofs.BytesProofs Proofs.ListXProofs
  Codec.Varint Codec.Zigzag Codec.Bitpack.
Import ListNotations.
Ltac Zify.zify_post_hook ::= Z.to_euclidean_division_equations.

(* ---------------- varint ---------------- *)
Section Varint.
Open Scope N_scope.

Lemma uleb_dec_enc_f f n r : n < 2 ^ N.of_nat f -> uleb_dec (uleb_enc_f f n ++ r) = Some (n, r).
Proof.
  revert n; induction f as [|f IH]; intros n H.
  - change (N.of_nat 0) with 0 in H. rewrite N.pow_0_r in H. assert (n = 0) by lia. subst. reflexivity.
  - cbn [uleb_enc_f]. destruct (N.ltb_spec n 128) as [L|L].
    + cbn [app uleb_dec]. destruct (N.ltb_spec n 128); [reflexivity|lia].
    + cbn [app uleb_dec].
      assert (M : n mod 128 < 128) by (apply N.mod_upper_bound; lia).
      destruct (N.ltb_spec (128 + n mod 128) 128); [lia|].
      rewrite IH.
      * f_equal. f_equal. rewrite (N.div_mod n 128) at 3 by lia. lia.
      * replace (N.of_nat (S f)) with (1 + N.of_nat f) in H by lia.
        rewrite N.pow_add_r, N.pow_1_r in H.
        apply N.div_lt_upper_bound; lia.
Qed.

Theorem uleb_roundtrip n r : uleb_dec (uleb_enc n ++ r) = Some (n, r).
Proof.
  unfold uleb_enc. apply uleb_dec_enc_f. rewrite N2Nat.id. apply N.size_gt.
Qed.

Lemma uleb_enc_f_len f n k : (1 <= k)%nat -> n < 2 ^ (7 * N.of_nat k) -> (length (uleb_enc_f f n) <= k)%nat.
Proof.
  revert n k; induction f as [|f IH]; intros n k Hk H; cbn [uleb_enc_f].
  - cbn. lia.
  - destruct (N.ltb_spec n 128) as [L|L]; [cbn; lia|].
    cbn [length]. destruct k as [|k]; [lia|].
    destruct k as [|k].
    + change (7 * N.of_nat 1) with 7 in H. change (2 ^ 7) with 128 in H. lia.
    + apply le_n_S. apply IH; [lia|].
      replace (7 * N.of_nat (S (S k))) with (7 + 7 * N.of_nat (S k)) in H by lia.
      rewrite N.pow_add_r in H. change (2 ^ 7) with 128 in H.
      apply N.div_lt_upper_bound; lia.
Qed.

Theorem uleb_len_u64 n : n < 2 ^ 64 -> (1 <= length (uleb_enc n) <= 10)%nat.
Proof.
  intros H. split.
  - unfold uleb_enc. destruct (N.to_nat (N.size n)); cbn [uleb_enc_f]; [cbn; lia|].
    destruct (n <? 128); cbn; lia.
  - apply uleb_enc_f_len; [lia|]. change (7 * N.of_nat 10) with 70.
    eapply N.lt_trans; [exact H|]. apply N.pow_lt_mono_r; lia.
Qed.

Lemma uleb_len_pos n : (1 <= length (uleb_enc n))%nat.
Proof.
  unfold uleb_enc. destruct (N.to_nat (N.size n)); cbn [uleb_enc_f]; [cbn; lia|].
  destruct (n <? 128); cbn; lia.
Qed.

Lemma uleb_enc_f_ok f n : n < 2 ^ N.of_nat f -> bytes_ok (uleb_enc_f f n).
Proof.
  revert n; induction f as [|f IH]; intros n H; cbn [uleb_enc_f].
  - constructor; [lia|constructor].
  - destruct (N.ltb_spec n 128) as [L|L].
    + constructor; [lia|constructor].
    + assert (M : n mod 128 < 128) by (apply N.mod_upper_bound; lia).
      constructor; [lia|]. apply IH.
      replace (N.of_nat (S f)) with (1 + N.of_nat f) in H by lia.
      rewrite N.pow_add_r, N.pow_1_r in H. apply N.div_lt_upper_bound; lia.
Qed.

Lemma uleb_enc_ok n : bytes_ok (uleb_enc n).
Proof. apply uleb_enc_f_ok. rewrite N2Nat.id. apply N.size_gt. Qed.
End Varint.

(* ---------------- zigzag ---------------- *)
Section Zigzag.
Open Scope Z_scope.

Theorem zz_dec_enc z : zz_dec (zz_enc z) = z.
Proof.
  unfold zz_dec, zz_enc.
  destruct (Z.ltb_spec z 0) as [L|L].
  - rewrite Z2N.id by lia. destruct (Z.eqb_spec ((-2 * z - 1) mod 2) 0) as [E|E]; lia.
  - rewrite Z2N.id by lia. destruct (Z.eqb_spec ((2 * z) mod 2) 0) as [E|E]; lia.
Qed.

Theorem zz_enc_dec n : zz_enc (zz_dec n) = n.
Proof.
  unfold zz_dec, zz_enc.
  destruct (Z.eqb_spec (Z.of_N n mod 2) 0) as [E|E].
  - destruct (Z.ltb_spec (Z.of_N n / 2) 0) as [L|L]; lia.
  - destruct (Z.ltb_spec (- ((Z.of_N n + 1) / 2)) 0) as [L|L]; lia.
Qed.

Theorem zz_enc_range64 z : - 2 ^ 63 <= z < 2 ^ 63 <-> (zz_enc z < 2 ^ 64)%N.
Proof.
  unfold zz_enc. change (2 ^ 64)%N with (Z.to_N (2 ^ 64)).
  destruct (Z.ltb_spec z 0) as [L|L]; split; intros H; lia.
Qed.
End Zigzag.

(* ---------------- bit packing ---------------- *)
Section Bitpack.
Open Scope N_scope.

Lemma bp_num_bound w vs : Forall (fun v => v < 2 ^ w) vs -> bp_num w vs < 2 ^ (w * N.of_nat (length vs)).
Proof.
  induction 1 as [|v vs Hv Hvs IH]; cbn [bp_num length].
  - rewrite N.mul_0_r. cbn. lia.
  - replace (w * N.of_nat (S (length vs))) with (w + w * N.of_nat (length vs)) by lia.
    rewrite N.pow_add_r. nia.
Qed.

Lemma bp_get_0 w v rest : v < 2 ^ w -> bp_get w (v + 2 ^ w * rest) 0 = v.
Proof.
  intros H. unfold bp_get. rewrite N.mul_0_l, N.pow_0_r, N.div_1_r.
  rewrite N.mul_comm, N.mod_add by auto. now apply N.mod_small.
Qed.

Lemma bp_get_S w v rest k : v < 2 ^ w -> bp_get w (v + 2 ^ w * rest) (N.succ k) = bp_get w rest k.
Proof.
  intros H. unfold bp_get. replace (N.succ k * w) with (w + k * w) by lia.
  rewrite <- div_div_pow. rewrite N.mul_comm, N.div_add by auto.
  rewrite (N.div_small v) by exact H. reflexivity.
Qed.

Lemma bp_dec_ref_num w vs : Forall (fun v => v < 2 ^ w) vs -> bp_dec_ref w (length vs) (bp_num w vs) = vs.
Proof.
  unfold bp_dec_ref. induction 1 as [|v vs Hv Hvs IH]; [reflexivity|].
  cbn [length bp_num seq map]. change (N.of_nat 0) with 0. rewrite bp_get_0 by exact Hv. f_equal.
  rewrite <- seq_shift, map_map. rewrite <- IH at 2. apply map_ext. intros k.
  rewrite Nat2N.inj_succ. apply bp_get_S. exact Hv.
Qed.

(* the executable decoder is the reference decoder *)
Lemma bp_unpack_iter w n S acc :
  N.iter n (bp_unpack_step w) (S, acc) =
  (S / 2 ^ (n * w), rev (bp_dec_ref w (N.to_nat n) S) ++ acc).
Proof.
  revert acc; induction n as [|n IH] using N.peano_ind; intros acc.
  - cbn. now rewrite N.div_1_r.
  - rewrite N.iter_succ, IH. unfold bp_unpack_step. cbn [fst snd].
    rewrite shiftr_div, div_div_pow, land_ones_mod. f_equal.
    + f_equal. f_equal. lia.
    + rewrite N2Nat.inj_succ. unfold bp_dec_ref. rewrite seq_S, map_app, rev_app_distr.
      cbn [map rev app Nat.add]. rewrite N2Nat.id. reflexivity.
Qed.

Lemma bp_unpack_ref w n S : bp_unpack w n S = bp_dec_ref w (N.to_nat n) S.
Proof.
  unfold bp_unpack. rewrite bp_unpack_iter. cbn [snd].
  rewrite rev_append_rev, !app_nil_r. apply rev_involutive.
Qed.

Lemma bp_dec_ref_mod w n S m : N.of_nat n * w <= m -> bp_dec_ref w n (S mod 2 ^ m) = bp_dec_ref w n S.
Proof.
  intros H. unfold bp_dec_ref. apply map_ext_in. intros k Hk. apply in_seq in Hk.
  unfold bp_get. rewrite mod_pow_div by nia. apply mod_mod_pow. nia.
Qed.

(* bytes -> values: decoding the packed bytes gives the values back, for EVERY width and length *)
Theorem bp_roundtrip w vs rest :
  Forall (fun v => v < 2 ^ w) vs ->
  bp_dec w (N.of_nat (length vs)) (bp_enc w vs ++ rest) = vs.
Proof.
  intros H. unfold bp_dec. rewrite bp_unpack_ref, le2n_tr_ok, Nat2N.id.
  unfold bp_enc. set (nb := N.to_nat (bp_nbytes w (N.of_nat (length vs)))).
  rewrite le2n_app, le_enc_length, le2n_le_enc.
  assert (Hb : bp_num w vs < 256 ^ N.of_nat nb).
  { eapply N.lt_le_trans; [apply bp_num_bound; exact H|].
    rewrite pow256. apply N.pow_le_mono_r; [lia|]. unfold nb. rewrite N2Nat.id. unfold bp_nbytes.
    pose proof (N.div_mod (N.of_nat (length vs) * w + 7) 8 ltac:(lia)).
    pose proof (N.mod_upper_bound (N.of_nat (length vs) * w + 7) 8 ltac:(lia)). lia. }
  rewrite N.mod_small by exact Hb.
  rewrite <- (bp_dec_ref_mod w (length vs) _ (8 * N.of_nat nb)).
  - rewrite pow256. rewrite N.mul_comm, N.mod_add by auto. rewrite N.mod_small by (rewrite <- pow256; exact Hb).
    apply bp_dec_ref_num. exact H.
  - unfold nb. rewrite N2Nat.id. unfold bp_nbytes.
    pose proof (N.div_mod (N.of_nat (length vs) * w + 7) 8 ltac:(lia)).
    pose proof (N.mod_upper_bound (N.of_nat (length vs) * w + 7) 8 ltac:(lia)). lia.
Qed.

Lemma bp_enc_length w vs : N.of_nat (length (bp_enc w vs)) = bp_nbytes w (N.of_nat (length vs)).
Proof. unfold bp_enc. rewrite le_enc_length, N2Nat.id. reflexivity. Qed.

Lemma bp_dec_length w n b : length (bp_dec w n b) = N.to_nat n.
Proof. unfold bp_dec. rewrite bp_unpack_ref. unfold bp_dec_ref. now rewrite map_length, seq_length. Qed.
End Bitpack.
