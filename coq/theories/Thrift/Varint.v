(* ULEB128 varints (at most 10 bytes, as in the Thrift compact protocol) and zigzag.
   Written from the Thrift compact protocol specification; no fastparquet content.
   (Kept inside Thrift/ so that C10 is self-contained; Codec/Varint.v of C11 is independent.) *)
From Coq Require Import NArith ZArith List Lia Bool.
From Pq Require Import Base.Bytes.
Import ListNotations.
Open Scope N_scope.
Ltac Zify.zify_post_hook ::= Z.to_euclidean_division_equations.

Fixpoint uleb_fuel (f : nat) (n : N) : bytes :=
  match f with
  | O => []
  | S f' => if n <? 128 then [n] else (n mod 128 + 128) :: uleb_fuel f' (n / 128)
  end.

(* 10 groups of 7 bits cover 70 bits: every value below 2^64 *)
Definition uleb (n : N) : bytes := uleb_fuel 10 n.

Fixpoint unuleb_fuel (f : nat) (bs : bytes) : option (N * bytes) :=
  match f with
  | O => None
  | S f' =>
    match bs with
    | [] => None
    | b :: r =>
      if b <? 128 then Some (b, r) else
      match unuleb_fuel f' r with
      | Some (n, r') => Some ((b - 128) + 128 * n, r')
      | None => None
      end
    end
  end.

(* strict: at most 10 bytes *)
Definition unuleb (bs : bytes) : option (N * bytes) := unuleb_fuel 10 bs.

Definition zz (z : Z) : N := if (z <? 0)%Z then Z.to_N (2 * (- z) - 1) else Z.to_N (2 * z).
Definition unzz (n : N) : Z := if n mod 2 =? 0 then Z.of_N (n / 2) else (- Z.of_N ((n + 1) / 2))%Z.

Lemma unzz_zz z : unzz (zz z) = z.
Proof.
  unfold zz, unzz. destruct (Z.ltb_spec z 0) as [H|H].
  - destruct (N.eqb_spec (Z.to_N (2 * - z - 1) mod 2) 0) as [E|E]; lia.
  - destruct (N.eqb_spec (Z.to_N (2 * z) mod 2) 0) as [E|E]; lia.
Qed.

Lemma zz_lt64 z : (- 2 ^ 63 <= z < 2 ^ 63)%Z -> zz z < 2 ^ 64.
Proof.
  intros H. unfold zz. change (2 ^ 64) with 18446744073709551616.
  change (2 ^ 63)%Z with 9223372036854775808%Z in H.
  destruct (Z.ltb_spec z 0); lia.
Qed.

Lemma unuleb_uleb_fuel : forall f n r, n < 128 ^ N.of_nat (S f) ->
  unuleb_fuel (S f) (uleb_fuel (S f) n ++ r) = Some (n, r).
Proof.
  induction f as [|f IH]; intros n r Hn.
  - cbn [uleb_fuel unuleb_fuel]. change (128 ^ N.of_nat 1) with 128 in Hn.
    destruct (N.ltb_spec n 128) as [H|H]; [|lia]. cbn [app].
    destruct (N.ltb_spec n 128); [reflexivity|lia].
  - remember (S f) as g. cbn [uleb_fuel]. destruct (N.ltb_spec n 128) as [H|H].
    + cbn [app unuleb_fuel]. destruct (N.ltb_spec n 128); [reflexivity|lia].
    + cbn [app unuleb_fuel].
      destruct (N.ltb_spec (n mod 128 + 128) 128) as [H2|H2]; [lia|].
      subst g. rewrite IH.
      * f_equal. f_equal. lia.
      * replace (N.of_nat (S (S f))) with (1 + N.of_nat (S f)) in Hn by lia.
        rewrite N.pow_add_r, N.pow_1_r in Hn.
        apply N.div_lt_upper_bound; lia.
Qed.

Lemma unuleb_uleb : forall n r, n < 2 ^ 64 -> unuleb (uleb n ++ r) = Some (n, r).
Proof.
  intros n r H. unfold unuleb, uleb. apply unuleb_uleb_fuel.
  eapply N.lt_le_trans; [exact H|]. vm_compute. discriminate.
Qed.

Lemma uleb_fuel_nonempty f n : (1 <= length (uleb_fuel (S f) n))%nat.
Proof. cbn [uleb_fuel]. destruct (n <? 128); cbn [length]; lia. Qed.

Lemma uleb_nonempty n : (1 <= length (uleb n))%nat.
Proof. apply uleb_fuel_nonempty. Qed.
