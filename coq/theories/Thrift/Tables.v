(* Checkers for the tables the translators regenerate from fastparquet's sources (DESIGN 4.1):
   - specs / children of cencoding.pyx (field name -> id, nested struct names) against the IDL;
   - the construction sites of thrift objects in writer.py / util.py / api.py: for every integer
     field a site sets, the wire type its i32 / i32list marker selects in write_thrift
     (5 = i32, 6 = i64) is the wire type the IDL declares; no integer/enum field is given a
     syntactically boolean expression (a Python bool is written with the BOOL wire type).
   The checkers are evaluated by vm_compute in coq/genproofs/GenThriftProofs.v on every run.       *)
From Coq Require Import NArith ZArith List Bool String.
From Pq Require Import Base.Bytes Thrift.Compact Thrift.Idl.
Import ListNotations.
Open Scope N_scope.

Definition specs_t := list (string * list (string * N)).
Definition children_t := list (string * list (string * string)).

Definition specs_ok (T : idl) (sp : specs_t) : bool :=
  forallb (fun e =>
    match find_struct (structs T) (fst e) with
    | None => false
    | Some sd =>
      forallb (fun p => match find_field_name (s_fields sd) (fst p) with
                        | Some f => f_id f =? snd p
                        | None => false
                        end) (snd e)
      && forallb (fun f => existsb (fun p => String.eqb (fst p) (f_name f) && (snd p =? f_id f)) (snd e)) (s_fields sd)
    end) sp.

Definition children_ok (T : idl) (ch : children_t) : bool :=
  forallb (fun e =>
    match find_struct (structs T) (fst e) with
    | None => false
    | Some sd =>
      forallb (fun p => match find_field_name (s_fields sd) (fst p) with
                        | Some f => match f_ty f with
                                    | FStruct n => String.eqb n (snd p)
                                    | FList (FStruct n) => String.eqb n (snd p)
                                    | _ => false
                                    end
                        | None => false
                        end) (snd e)
    end) ch.

Record callsite := mkCS {
  cs_file : string; cs_line : N; cs_struct : string;
  cs_fields : list string;          (* keyword names given *)
  cs_boolish : list string;         (* keywords whose value is syntactically a bool (constant, comparison, not, and/or) *)
  cs_i32 : bool; cs_i32l : option (list N);
  cs_enumrefs : list (string * (string * string));   (* keyword given `parquet_thrift.<Enum>.<MEMBER>` *)
  cs_intlits : list (string * Z) }.                  (* keyword given an integer literal *)

(* the type nibble write_thrift selects for an int under this site's markers (Impl/CThrift.v int_nib) *)
Definition site_nib (c : callsite) (id : N) : N :=
  match cs_i32l c with
  | Some l => if existsb (N.eqb id) l then 5 else 6
  | None => if cs_i32 c then 5 else 6
  end.

Definition is_int_ty (t : fty) : bool :=
  match t with FI8 | FI16 | FI32 | FI64 | FEnum _ => true | _ => false end.

(* a site that omits an IDL-required field does not build a serialisable object by itself (e.g. the
   scratch `SchemaElement(type=BOOLEAN)` handed to encode_plain): its markers are not judged here
   (what is finally written is judged by the strict IDL parse of real footers / page headers) *)
Definition site_complete (sd : sdef) (c : callsite) : bool :=
  forallb (fun f => negb (f_req f =? 1) || existsb (String.eqb (f_name f)) (cs_fields c)) (s_fields sd).

Definition site_ok (T : idl) (c : callsite) : bool :=
  match find_struct (structs T) (cs_struct c) with
  | None => false
  | Some sd =>
    forallb (fun fn =>
      match find_field_name (s_fields sd) fn with
      | None => false                                   (* from_fields silently ignores unknown keywords *)
      | Some f =>
        (negb (site_complete sd c) || negb (is_int_ty (f_ty f)) || (site_nib c (f_id f) =? wire (f_ty f)))
        && negb (is_int_ty (f_ty f) && existsb (String.eqb fn) (cs_boolish c))
      end) (cs_fields c)
    && match cs_i32l c with
       | Some l => forallb (fun id => match find_field (s_fields sd) id with
                                      | Some f => wire (f_ty f) =? 5
                                      | None => false
                                      end) l
       | None => true
       end
  end.

Definition site_judged (T : idl) (c : callsite) : bool :=
  match find_struct (structs T) (cs_struct c) with Some sd => site_complete sd c | None => false end.

(* ---- enum values ---------------------------------------------------------------------------------
   enums_agree: the constants of parquet_thrift/parquet/ttypes.py (what `parquet_thrift.Type.INT32` evaluates to)
   are exactly the IDL's enums (names and values), so a constant the code uses has the IDL's value;
   site_enums_ok: an enum-typed field given such a constant gets a member of ITS declared enum, and an integer
   literal given to an enum-typed field is one of the enum's values. *)
Definition enums_agree (T : idl) (es : list edef) : bool :=
  forallb (fun e => match find_enum (enums T) (e_name e) with Some d => edef_eqb e d | None => false end) es
  && forallb (fun d => match find_enum es (e_name d) with Some _ => true | None => false end) (enums T).

Definition enum_member (T : idl) (e m : string) : bool :=
  match find_enum (enums T) e with
  | Some d => existsb (fun p => String.eqb (fst p) m) (e_vals d)
  | None => false
  end.

Definition enum_value (T : idl) (e : string) (z : Z) : bool :=
  match find_enum (enums T) e with
  | Some d => existsb (fun p => Z.eqb (snd p) z) (e_vals d)
  | None => false
  end.

Definition elem_enum (t : fty) : option string :=
  match t with FEnum e => Some e | FList (FEnum e) => Some e | _ => None end.

Definition site_enums_ok (T : idl) (c : callsite) : bool :=
  match find_struct (structs T) (cs_struct c) with
  | None => false
  | Some sd =>
    forallb (fun r => match find_field_name (s_fields sd) (fst r) with
                      | Some f => match elem_enum (f_ty f) with
                                  | Some e => String.eqb e (fst (snd r)) && enum_member T e (snd (snd r))
                                  | None => false
                                  end
                      | None => false
                      end) (cs_enumrefs c)
    && forallb (fun r => match find_field_name (s_fields sd) (fst r) with
                         | Some f => match f_ty f with FEnum e => enum_value T e (snd r) | _ => true end
                         | None => false
                         end) (cs_intlits c)
  end.
