(* Checkers for the tables the translators regenerate from fastparquet's sources (DESIGN 4.1):
   - specs / children of cencoding.pyx (field name -> id, nested struct names) against the IDL;
   - the construction sites of thrift objects in writer.py / util.py / api.py: for every integer
     field a site sets, the wire type its i32 / i32list marker selects in write_thrift
     (5 = i32, 6 = i64) is the wire type the IDL declares; no integer/enum field is given a
     syntactically boolean expression (a Python bool is written with the BOOL wire type).
   The checkers are evaluated by vm_compute in coq/genproofs/GenThriftProofs.v on every run.       *)
From Coq Require Import NArith ZArith List Bool String.
From Pq Require Import Base.Bytes Thrift.Compact Thrift.Idl.
Import ListNotations.
Open Scope N_scope.

Definition specs_t := list (string * list (string * N)).
Definition children_t := list (string * list (string * string)).

Definition specs_ok (T : idl) (sp : specs_t) : bool :=
  forallb (fun e =>
    match find_struct (structs T) (fst e) with
    | None => false
    | Some sd =>
      forallb (fun p => match find_field_name (s_fields sd) (fst p) with
                        | Some f => f_id f =? snd p
                        | None => false
                        end) (snd e)
      && forallb (fun f => existsb (fun p => String.eqb (fst p) (f_name f) && (snd p =? f_id f)) (snd e)) (s_fields sd)
    end) sp.

Definition children_ok (T : idl) (ch : children_t) : bool :=
  forallb (fun e =>
    match find_struct (structs T) (fst e) with
    | None => false
    | Some sd =>
      forallb (fun p => match find_field_name (s_fields sd) (fst p) with
                        | Some f => match f_ty f with
                                    | FStruct n => String.eqb n (snd p)
                                    | FList (FStruct n) => String.eqb n (snd p)
                                    | _ => false
                                    end
                        | None => false
                        end) (snd e)
    end) ch.

Record callsite := mkCS {
  cs_file : string; cs_line : N; cs_struct : string;
  cs_fields : list string;          (* keyword names given *)
  cs_boolish : list string;         (* keywords whose value is syntactically a bool (constant, comparison, not, and/or) *)
  cs_i32 : bool; cs_i32l : option (list N) }.

(* the type nibble write_thrift selects for an int under this site's markers (Impl/CThrift.v int_nib) *)
Definition site_nib (c : callsite) (id : N) : N :=
  match cs_i32l c with
  | Some l => if existsb (N.eqb id) l then 5 else 6
  | None => if cs_i32 c then 5 else 6
  end.

Definition is_int_ty (t : fty) : bool :=
  match t with FI8 | FI16 | FI32 | FI64 | FEnum _ => true | _ => false end.

(* a site that omits an IDL-required field does not build a serialisable object by itself (e.g. the
   scratch `SchemaElement(type=BOOLEAN)` handed to encode_plain): its markers are not judged here
   (what is finally written is judged by the strict IDL parse of real footers / page headers) *)
Definition site_complete (sd : sdef) (c : callsite) : bool :=
  forallb (fun f => negb (f_req f =? 1) || existsb (String.eqb (f_name f)) (cs_fields c)) (s_fields sd).

Definition site_ok (T : idl) (c : callsite) : bool :=
  match find_struct (structs T) (cs_struct c) with
  | None => false
  | Some sd =>
    forallb (fun fn =>
      match find_field_name (s_fields sd) fn with
      | None => false                                   (* from_fields silently ignores unknown keywords *)
      | Some f =>
        (negb (site_complete sd c) || negb (is_int_ty (f_ty f)) || (site_nib c (f_id f) =? wire (f_ty f)))
        && negb (is_int_ty (f_ty f) && existsb (String.eqb fn) (cs_boolish c))
      end) (cs_fields c)
    && match cs_i32l c with
       | Some l => forallb (fun id => match find_field (s_fields sd) id with
                                      | Some f => wire (f_ty f) =? 5
                                      | None => false
                                      end) l
       | None => true
       end
  end.

Definition site_judged (T : idl) (c : callsite) : bool :=
  match find_struct (structs T) (cs_struct c) with Some sd => site_complete sd c | None => false end.
