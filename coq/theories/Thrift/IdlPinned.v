(* The Parquet Thrift IDL (apache/parquet-format 2.9.0: parquet.thrift, the version that introduced
   LZ4_RAW and BYTE_STREAM_SPLIT and still ends ColumnMetaData at field 14 bloom_filter_offset) as a
   table: every enum, struct and union with field id, requiredness, name and declared type.
   PINNED: this file is the reference; translators/idl2coq.py regenerates the same table from the
   repository's copy fastparquet/parquet.thrift on every run and `GenIdl.table = IdlPinned.pinned`
   is re-proved by vm_compute (coq/genproofs/GenIdlProofs.v).  No Apache copy exists in this offline
   sandbox: the initial text of this file was produced by running idl2coq once on the pinned
   repository copy and was then read against the Apache IDL from memory for the structures of C10
   (Statistics, SchemaElement, LogicalType and its member types, PageHeader and the four page
   headers, KeyValue, SortingColumn, PageEncodingStats, ColumnMetaData, ColumnChunk, RowGroup,
   FileMetaData): ids, requiredness and types agree.  This is trusted base.                        *)
From Coq Require Import NArith ZArith List String.
From Pq Require Import Thrift.Idl.
Import ListNotations.
Open Scope string_scope.
Open Scope N_scope.

Definition pinned : idl := mkIdl
 [
  mkE "Type" [("BOOLEAN", 0%Z); ("INT32", 1%Z); ("INT64", 2%Z); ("INT96", 3%Z); ("FLOAT", 4%Z); ("DOUBLE", 5%Z); ("BYTE_ARRAY", 6%Z); ("FIXED_LEN_BYTE_ARRAY", 7%Z)];
  mkE "ConvertedType" [("UTF8", 0%Z); ("MAP", 1%Z); ("MAP_KEY_VALUE", 2%Z); ("LIST", 3%Z); ("ENUM", 4%Z); ("DECIMAL", 5%Z); ("DATE", 6%Z); ("TIME_MILLIS", 7%Z); ("TIME_MICROS", 8%Z); ("TIMESTAMP_MILLIS", 9%Z); ("TIMESTAMP_MICROS", 10%Z); ("UINT_8", 11%Z); ("UINT_16", 12%Z); ("UINT_32", 13%Z); ("UINT_64", 14%Z); ("INT_8", 15%Z); ("INT_16", 16%Z); ("INT_32", 17%Z); ("INT_64", 18%Z); ("JSON", 19%Z); ("BSON", 20%Z); ("INTERVAL", 21%Z)];
  mkE "FieldRepetitionType" [("REQUIRED", 0%Z); ("OPTIONAL", 1%Z); ("REPEATED", 2%Z)];
  mkE "Encoding" [("PLAIN", 0%Z); ("PLAIN_DICTIONARY", 2%Z); ("RLE", 3%Z); ("BIT_PACKED", 4%Z); ("DELTA_BINARY_PACKED", 5%Z); ("DELTA_LENGTH_BYTE_ARRAY", 6%Z); ("DELTA_BYTE_ARRAY", 7%Z); ("RLE_DICTIONARY", 8%Z); ("BYTE_STREAM_SPLIT", 9%Z)];
  mkE "CompressionCodec" [("UNCOMPRESSED", 0%Z); ("SNAPPY", 1%Z); ("GZIP", 2%Z); ("LZO", 3%Z); ("BROTLI", 4%Z); ("LZ4", 5%Z); ("ZSTD", 6%Z); ("LZ4_RAW", 7%Z)];
  mkE "PageType" [("DATA_PAGE", 0%Z); ("INDEX_PAGE", 1%Z); ("DICTIONARY_PAGE", 2%Z); ("DATA_PAGE_V2", 3%Z)];
  mkE "BoundaryOrder" [("UNORDERED", 0%Z); ("ASCENDING", 1%Z); ("DESCENDING", 2%Z)]
 ]
 [
  mkS "Statistics" false [mkF 1 2 "max" FBinary;
      mkF 2 2 "min" FBinary;
      mkF 3 2 "null_count" FI64;
      mkF 4 2 "distinct_count" FI64;
      mkF 5 2 "max_value" FBinary;
      mkF 6 2 "min_value" FBinary];
  mkS "StringType" false [];
  mkS "UUIDType" false [];
  mkS "MapType" false [];
  mkS "ListType" false [];
  mkS "EnumType" false [];
  mkS "DateType" false [];
  mkS "NullType" false [];
  mkS "DecimalType" false [mkF 1 1 "scale" FI32;
      mkF 2 1 "precision" FI32];
  mkS "MilliSeconds" false [];
  mkS "MicroSeconds" false [];
  mkS "NanoSeconds" false [];
  mkS "TimeUnit" true [mkF 1 0 "MILLIS" (FStruct "MilliSeconds");
      mkF 2 0 "MICROS" (FStruct "MicroSeconds");
      mkF 3 0 "NANOS" (FStruct "NanoSeconds")];
  mkS "TimestampType" false [mkF 1 1 "isAdjustedToUTC" FBool;
      mkF 2 1 "unit" (FStruct "TimeUnit")];
  mkS "TimeType" false [mkF 1 1 "isAdjustedToUTC" FBool;
      mkF 2 1 "unit" (FStruct "TimeUnit")];
  mkS "IntType" false [mkF 1 1 "bitWidth" FI8;
      mkF 2 1 "isSigned" FBool];
  mkS "JsonType" false [];
  mkS "BsonType" false [];
  mkS "LogicalType" true [mkF 1 0 "STRING" (FStruct "StringType");
      mkF 2 0 "MAP" (FStruct "MapType");
      mkF 3 0 "LIST" (FStruct "ListType");
      mkF 4 0 "ENUM" (FStruct "EnumType");
      mkF 5 0 "DECIMAL" (FStruct "DecimalType");
      mkF 6 0 "DATE" (FStruct "DateType");
      mkF 7 0 "TIME" (FStruct "TimeType");
      mkF 8 0 "TIMESTAMP" (FStruct "TimestampType");
      mkF 10 0 "INTEGER" (FStruct "IntType");
      mkF 11 0 "UNKNOWN" (FStruct "NullType");
      mkF 12 0 "JSON" (FStruct "JsonType");
      mkF 13 0 "BSON" (FStruct "BsonType");
      mkF 14 0 "UUID" (FStruct "UUIDType")];
  mkS "SchemaElement" false [mkF 1 2 "type" (FEnum "Type");
      mkF 2 2 "type_length" FI32;
      mkF 3 2 "repetition_type" (FEnum "FieldRepetitionType");
      mkF 4 1 "name" FString;
      mkF 5 2 "num_children" FI32;
      mkF 6 2 "converted_type" (FEnum "ConvertedType");
      mkF 7 2 "scale" FI32;
      mkF 8 2 "precision" FI32;
      mkF 9 2 "field_id" FI32;
      mkF 10 2 "logicalType" (FStruct "LogicalType")];
  mkS "DataPageHeader" false [mkF 1 1 "num_values" FI32;
      mkF 2 1 "encoding" (FEnum "Encoding");
      mkF 3 1 "definition_level_encoding" (FEnum "Encoding");
      mkF 4 1 "repetition_level_encoding" (FEnum "Encoding");
      mkF 5 2 "statistics" (FStruct "Statistics")];
  mkS "IndexPageHeader" false [];
  mkS "DictionaryPageHeader" false [mkF 1 1 "num_values" FI32;
      mkF 2 1 "encoding" (FEnum "Encoding");
      mkF 3 2 "is_sorted" FBool];
  mkS "DataPageHeaderV2" false [mkF 1 1 "num_values" FI32;
      mkF 2 1 "num_nulls" FI32;
      mkF 3 1 "num_rows" FI32;
      mkF 4 1 "encoding" (FEnum "Encoding");
      mkF 5 1 "definition_levels_byte_length" FI32;
      mkF 6 1 "repetition_levels_byte_length" FI32;
      mkF 7 2 "is_compressed" FBool;
      mkF 8 2 "statistics" (FStruct "Statistics")];
  mkS "SplitBlockAlgorithm" false [];
  mkS "BloomFilterAlgorithm" true [mkF 1 0 "BLOCK" (FStruct "SplitBlockAlgorithm")];
  mkS "XxHash" false [];
  mkS "BloomFilterHash" true [mkF 1 0 "XXHASH" (FStruct "XxHash")];
  mkS "Uncompressed" false [];
  mkS "BloomFilterCompression" true [mkF 1 0 "UNCOMPRESSED" (FStruct "Uncompressed")];
  mkS "BloomFilterHeader" false [mkF 1 1 "numBytes" FI32;
      mkF 2 1 "algorithm" (FStruct "BloomFilterAlgorithm");
      mkF 3 1 "hash" (FStruct "BloomFilterHash");
      mkF 4 1 "compression" (FStruct "BloomFilterCompression")];
  mkS "PageHeader" false [mkF 1 1 "type" (FEnum "PageType");
      mkF 2 1 "uncompressed_page_size" FI32;
      mkF 3 1 "compressed_page_size" FI32;
      mkF 4 2 "crc" FI32;
      mkF 5 2 "data_page_header" (FStruct "DataPageHeader");
      mkF 6 2 "index_page_header" (FStruct "IndexPageHeader");
      mkF 7 2 "dictionary_page_header" (FStruct "DictionaryPageHeader");
      mkF 8 2 "data_page_header_v2" (FStruct "DataPageHeaderV2")];
  mkS "KeyValue" false [mkF 1 1 "key" FString;
      mkF 2 2 "value" FString];
  mkS "SortingColumn" false [mkF 1 1 "column_idx" FI32;
      mkF 2 1 "descending" FBool;
      mkF 3 1 "nulls_first" FBool];
  mkS "PageEncodingStats" false [mkF 1 1 "page_type" (FEnum "PageType");
      mkF 2 1 "encoding" (FEnum "Encoding");
      mkF 3 1 "count" FI32];
  mkS "ColumnMetaData" false [mkF 1 1 "type" (FEnum "Type");
      mkF 2 1 "encodings" (FList (FEnum "Encoding"));
      mkF 3 1 "path_in_schema" (FList FString);
      mkF 4 1 "codec" (FEnum "CompressionCodec");
      mkF 5 1 "num_values" FI64;
      mkF 6 1 "total_uncompressed_size" FI64;
      mkF 7 1 "total_compressed_size" FI64;
      mkF 8 2 "key_value_metadata" (FList (FStruct "KeyValue"));
      mkF 9 1 "data_page_offset" FI64;
      mkF 10 2 "index_page_offset" FI64;
      mkF 11 2 "dictionary_page_offset" FI64;
      mkF 12 2 "statistics" (FStruct "Statistics");
      mkF 13 2 "encoding_stats" (FList (FStruct "PageEncodingStats"));
      mkF 14 2 "bloom_filter_offset" FI64];
  mkS "EncryptionWithFooterKey" false [];
  mkS "EncryptionWithColumnKey" false [mkF 1 1 "path_in_schema" (FList FString);
      mkF 2 2 "key_metadata" FBinary];
  mkS "ColumnCryptoMetaData" true [mkF 1 0 "ENCRYPTION_WITH_FOOTER_KEY" (FStruct "EncryptionWithFooterKey");
      mkF 2 0 "ENCRYPTION_WITH_COLUMN_KEY" (FStruct "EncryptionWithColumnKey")];
  mkS "ColumnChunk" false [mkF 1 2 "file_path" FString;
      mkF 2 1 "file_offset" FI64;
      mkF 3 2 "meta_data" (FStruct "ColumnMetaData");
      mkF 4 2 "offset_index_offset" FI64;
      mkF 5 2 "offset_index_length" FI32;
      mkF 6 2 "column_index_offset" FI64;
      mkF 7 2 "column_index_length" FI32;
      mkF 8 2 "crypto_metadata" (FStruct "ColumnCryptoMetaData");
      mkF 9 2 "encrypted_column_metadata" FBinary];
  mkS "RowGroup" false [mkF 1 1 "columns" (FList (FStruct "ColumnChunk"));
      mkF 2 1 "total_byte_size" FI64;
      mkF 3 1 "num_rows" FI64;
      mkF 4 2 "sorting_columns" (FList (FStruct "SortingColumn"));
      mkF 5 2 "file_offset" FI64;
      mkF 6 2 "total_compressed_size" FI64;
      mkF 7 2 "ordinal" FI16];
  mkS "TypeDefinedOrder" false [];
  mkS "ColumnOrder" true [mkF 1 0 "TYPE_ORDER" (FStruct "TypeDefinedOrder")];
  mkS "PageLocation" false [mkF 1 1 "offset" FI64;
      mkF 2 1 "compressed_page_size" FI32;
      mkF 3 1 "first_row_index" FI64];
  mkS "OffsetIndex" false [mkF 1 1 "page_locations" (FList (FStruct "PageLocation"))];
  mkS "ColumnIndex" false [mkF 1 1 "null_pages" (FList FBool);
      mkF 2 1 "min_values" (FList FBinary);
      mkF 3 1 "max_values" (FList FBinary);
      mkF 4 1 "boundary_order" (FEnum "BoundaryOrder");
      mkF 5 2 "null_counts" (FList FI64)];
  mkS "AesGcmV1" false [mkF 1 2 "aad_prefix" FBinary;
      mkF 2 2 "aad_file_unique" FBinary;
      mkF 3 2 "supply_aad_prefix" FBool];
  mkS "AesGcmCtrV1" false [mkF 1 2 "aad_prefix" FBinary;
      mkF 2 2 "aad_file_unique" FBinary;
      mkF 3 2 "supply_aad_prefix" FBool];
  mkS "EncryptionAlgorithm" true [mkF 1 0 "AES_GCM_V1" (FStruct "AesGcmV1");
      mkF 2 0 "AES_GCM_CTR_V1" (FStruct "AesGcmCtrV1")];
  mkS "FileMetaData" false [mkF 1 1 "version" FI32;
      mkF 2 1 "schema" (FList (FStruct "SchemaElement"));
      mkF 3 1 "num_rows" FI64;
      mkF 4 1 "row_groups" (FList (FStruct "RowGroup"));
      mkF 5 2 "key_value_metadata" (FList (FStruct "KeyValue"));
      mkF 6 2 "created_by" FString;
      mkF 7 2 "column_orders" (FList (FStruct "ColumnOrder"));
      mkF 8 2 "encryption_algorithm" (FStruct "EncryptionAlgorithm");
      mkF 9 2 "footer_signing_key_metadata" FBinary];
  mkS "FileCryptoMetaData" false [mkF 1 1 "encryption_algorithm" (FStruct "EncryptionAlgorithm");
      mkF 2 2 "key_metadata" FBinary]
 ].

(* sanity of the pinned table itself: every referenced struct / enum is declared *)
Lemma pinned_closed : idl_closed pinned = true.
Proof. vm_compute. reflexivity. Qed.
