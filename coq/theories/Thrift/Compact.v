(* Thrift compact protocol over generic values: spec writer `wr`, strict reader `rd`.
   Written from the Thrift compact-protocol specification (thrift/doc/specs/thrift-compact-protocol.md);
   no fastparquet content.  set/map are not modelled (the Parquet IDL does not use them): the
   reader refuses their type codes.  The round trip is proved in Proofs/CompactProofs.v.       *)
From Coq Require Import NArith ZArith List Bool.
From Pq Require Import Base.Bytes Thrift.Varint.
Import ListNotations.
Open Scope N_scope.

Inductive tv :=
| TBool (b : bool)
| TI8 (z : Z) | TI16 (z : Z) | TI32 (z : Z) | TI64 (z : Z)
| TDouble (bits : N)                 (* IEEE-754 bit pattern, < 2^64 *)
| TBin (l : bytes)                   (* binary and string *)
| TList (ety : N) (l : list tv)      (* element type code as on the wire *)
| TStruct (fs : list (N * tv)).      (* (field id, value) in wire order; unions are structs *)

(* compact-protocol type code of a value when it is a struct field *)
Definition nib (v : tv) : N :=
  match v with
  | TBool true => 1 | TBool false => 2
  | TI8 _ => 3 | TI16 _ => 4 | TI32 _ => 5 | TI64 _ => 6
  | TDouble _ => 7 | TBin _ => 8 | TList _ _ => 9 | TStruct _ => 12
  end.

Definition len {A} (l : list A) : N := N.of_nat (length l).

Definition list_header (ety n : N) : bytes :=
  if n <? 15 then [n * 16 + ety] else (240 + ety) :: uleb n.

(* short form when 0 < id - last <= 15, else long form: type byte, then the id as zigzag varint (i16) *)
Definition field_header (last id ty : N) : bytes :=
  if (last <? id) && (id - last <? 16) then [(id - last) * 16 + ty]
  else ty :: uleb (zz (Z.of_N id)).

Definition i8_byte (z : Z) : N := Z.to_N (z mod 256).
Definition byte_i8 (b : N) : Z := if b <? 128 then Z.of_N b else (Z.of_N b - 256)%Z.

Fixpoint wr (v : tv) : bytes :=
  match v with
  | TBool _ => []
  | TI8 z => [i8_byte z]
  | TI16 z => uleb (zz z)
  | TI32 z => uleb (zz z)
  | TI64 z => uleb (zz z)
  | TDouble b => le_enc 8 b
  | TBin l => uleb (len l) ++ l
  | TList ety l => list_header ety (len l) ++
      (fix go (l : list tv) : bytes :=
         match l with
         | [] => []
         | x :: r => (match x with TBool b => [if b then 1 else 2] | _ => wr x end) ++ go r
         end) l
  | TStruct fs =>
      (fix gof (last : N) (fs : list (N * tv)) : bytes :=
         match fs with
         | [] => [0]
         | (id, x) :: r => field_header last id (nib x) ++ wr x ++ gof id r
         end) 0 fs
  end.

(* a bool that is a list element takes one byte (1 = true, 2 = false); as a field it lives in the header *)
Definition wr_elem (x : tv) : bytes := match x with TBool b => [if b then 1 else 2] | _ => wr x end.
Definition wr_elems : list tv -> bytes :=
  fix go (l : list tv) : bytes := match l with [] => [] | x :: r => wr_elem x ++ go r end.
Definition wr_fields : N -> list (N * tv) -> bytes :=
  fix gof (last : N) (fs : list (N * tv)) : bytes :=
    match fs with
    | [] => [0]
    | (id, x) :: r => field_header last id (nib x) ++ wr x ++ gof id r
    end.

(* ---- well-formedness (decidable): what the protocol can represent ------------------------- *)
Definition in_range (w : Z) (z : Z) : bool := ((- 2 ^ (w - 1) <=? z) && (z <? 2 ^ (w - 1)))%Z.
Definition ety_ok (ety : N) : bool :=
  (1 <=? ety) && (ety <=? 12) && negb (ety =? 10) && negb (ety =? 11).
Definition elem_ok (ety : N) (x : tv) : bool :=
  match x with TBool _ => (ety =? 1) || (ety =? 2) | _ => nib x =? ety end.

Fixpoint wfb (v : tv) : bool :=
  match v with
  | TBool _ => true
  | TI8 z => in_range 8 z
  | TI16 z => in_range 16 z
  | TI32 z => in_range 32 z
  | TI64 z => in_range 64 z
  | TDouble b => b <? 2 ^ 64
  | TBin l => len l <? 2 ^ 31
  | TList ety l => ety_ok ety && (len l <? 2 ^ 31) &&
      (fix all (l : list tv) : bool :=
         match l with [] => true | x :: r => elem_ok ety x && wfb x && all r end) l
  | TStruct fs =>
      (fix allf (fs : list (N * tv)) : bool :=
         match fs with [] => true | (id, x) :: r => (id <? 2 ^ 15) && wfb x && allf r end) fs
  end.
Definition wfb_elems (ety : N) : list tv -> bool :=
  fix all (l : list tv) : bool := match l with [] => true | x :: r => elem_ok ety x && wfb x && all r end.
Definition wfb_fields : list (N * tv) -> bool :=
  fix allf (fs : list (N * tv)) : bool :=
    match fs with [] => true | (id, x) :: r => (id <? 2 ^ 15) && wfb x && allf r end.

(* nesting depth: the reader's only fuel that is not the input itself *)
Fixpoint depth (v : tv) : nat :=
  match v with
  | TList _ l => S ((fix mx (l : list tv) : nat := match l with [] => O | x :: r => Nat.max (depth x) (mx r) end) l)
  | TStruct fs => S ((fix mx (fs : list (N * tv)) : nat := match fs with [] => O | (_, x) :: r => Nat.max (depth x) (mx r) end) fs)
  | _ => 1%nat
  end.
Definition depth_elems : list tv -> nat :=
  fix mx (l : list tv) : nat := match l with [] => O | x :: r => Nat.max (depth x) (mx r) end.
Definition depth_fields : list (N * tv) -> nat :=
  fix mx (fs : list (N * tv)) : nat := match fs with [] => O | (_, x) :: r => Nat.max (depth x) (mx r) end.

(* ---- strict reader -------------------------------------------------------------------------
   Fuel: `d` bounds the nesting depth; the element and field loops use the remaining input as
   structural fuel (every element and every field takes at least one byte), so no length is
   ever computed and a lying count cannot make the reader allocate.  `lx` is the one leniency
   switch (see thrift_dec).                                                                     *)

(* n bytes off the front; structural on the input, tail recursive *)
Fixpoint take_rev (bs : bytes) (n : N) (acc : bytes) {struct bs} : option (bytes * bytes) :=
  if n =? 0 then Some (acc, bs) else
  match bs with
  | [] => None
  | b :: r => take_rev r (N.pred n) (b :: acc)
  end.
Definition take (n : N) (bs : bytes) : option (bytes * bytes) :=
  match take_rev bs n [] with Some (a, r) => Some (rev_append a [], r) | None => None end.

Definition rd_int (w : Z) (mk : Z -> tv) (bs : bytes) : option (tv * bytes) :=
  match unuleb bs with
  | Some (n, r) => let z := unzz n in if in_range w z then Some (mk z, r) else None
  | None => None
  end.

Fixpoint rd_elems_with (rdx : bytes -> option (tv * bytes)) (fuel : bytes) (n : N) (bs : bytes)
  {struct fuel} : option (list tv * bytes) :=
  if n =? 0 then Some ([], bs) else
  match fuel with
  | [] => None
  | _ :: fuel' =>
    match rdx bs with
    | Some (x, r) =>
      match rd_elems_with rdx fuel' (N.pred n) r with
      | Some (l, r') => Some (x :: l, r')
      | None => None
      end
    | None => None
    end
  end.

Definition rd_field_id (last dl : N) (bs : bytes) : option (N * bytes) :=
  if dl =? 0 then
    match unuleb bs with
    | Some (n, r) => let z := unzz n in
                     if ((0 <=? z) && (z <? 2 ^ 15))%Z then Some (Z.to_N z, r) else None
    | None => None
    end
  else Some (last + dl, bs).

Fixpoint rd_fields_with (rdt : N -> bytes -> option (tv * bytes)) (fuel : bytes) (last : N) (bs : bytes)
  {struct fuel} : option (list (N * tv) * bytes) :=
  match fuel with
  | [] => None
  | _ :: fuel' =>
    match bs with
    | [] => None
    | h :: r =>
      if h =? 0 then Some ([], r) else
      match rd_field_id last (h / 16) r with
      | Some (id, r1) =>
        match rdt (h mod 16) r1 with
        | Some (x, r2) =>
          match rd_fields_with rdt fuel' id r2 with
          | Some (fs, r3) => Some ((id, x) :: fs, r3)
          | None => None
          end
        | None => None
        end
      | None => None
      end
    end
  end.

Definition rd_bool_elem (bs : bytes) : option (tv * bytes) :=
  match bs with
  | b :: r => if b =? 1 then Some (TBool true, r) else if b =? 2 then Some (TBool false, r) else None
  | [] => None
  end.

Fixpoint rd (lx : bool) (d : nat) (ty : N) (bs : bytes) {struct d} : option (tv * bytes) :=
  match d with
  | O => None
  | S d' =>
    if ty =? 1 then Some (TBool true, bs) else
    if ty =? 2 then Some (TBool false, bs) else
    if ty =? 3 then
      match bs with
      | b :: r => if b <? 256 then Some (TI8 (byte_i8 b), r) else None
      | [] => None
      end else
    if ty =? 4 then rd_int 16 TI16 bs else
    if ty =? 5 then rd_int 32 TI32 bs else
    if ty =? 6 then rd_int 64 TI64 bs else
    if ty =? 7 then
      match le_dec 8 bs with Some (b, r) => Some (TDouble b, r) | None => None end else
    if ty =? 8 then
      match unuleb bs with
      | Some (n, r) =>
        if n <? 2 ^ 31 then
          match take n r with Some (s, r') => Some (TBin s, r') | None => None end
        else None
      | None => None
      end else
    if ty =? 9 then
      match bs with
      | [] => None
      | h :: r =>
        let ety := h mod 16 in
        if ety_ok ety || (lx && (h =? 0)) then
          match (if h / 16 =? 15 then unuleb r else Some (h / 16, r)) with
          | Some (n, r') =>
            if n <? 2 ^ 31 then
              match rd_elems_with (if (ety =? 1) || (ety =? 2) then rd_bool_elem else rd lx d' ety) r' n r' with
              | Some (l, r'') => Some (TList ety l, r'')
              | None => None
              end
            else None
          | None => None
          end
        else None
      end else
    if ty =? 12 then
      match rd_fields_with (rd lx d') bs 0 bs with
      | Some (fs, r) => Some (TStruct fs, r)
      | None => None
      end
    else None
  end.

(* ---- top level: a message is a struct ------------------------------------------------------ *)
Definition max_depth : nat := 64.   (* the recursion limit Thrift implementations use *)
Definition thrift_enc (v : tv) : option bytes := if wfb v then Some (wr v) else None.
(* lx = true additionally accepts the one-byte list header 0x00 (size 0, element type 0) that some
   writers emit for an empty list; no reader looks at the element type of an empty list. *)
Definition thrift_dec_ty (lx : bool) (ty : N) (bs : bytes) : option (tv * bytes) := rd lx max_depth ty bs.
Definition thrift_dec (lx : bool) (bs : bytes) : option (tv * bytes) := thrift_dec_ty lx 12 bs.
