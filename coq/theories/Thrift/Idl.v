(* Thrift IDL tables (structs, unions, enums) and the IDL-typed strict check of a generic compact
   value: every field id declared, every wire type the declared one, required fields present,
   ids strictly increasing, unions carry exactly one field.  No fastparquet content. *)
From Coq Require Import NArith ZArith List Bool String.
From Pq Require Import Base.Bytes Thrift.Compact.
Import ListNotations.
Open Scope N_scope.

Inductive fty :=
| FBool | FI8 | FI16 | FI32 | FI64 | FDouble | FBinary | FString
| FEnum (n : string) | FList (e : fty) | FStruct (n : string).

(* requiredness: 0 = not stated (default), 1 = required, 2 = optional *)
Record field := mkF { f_id : N; f_req : N; f_name : string; f_ty : fty }.
Record sdef := mkS { s_name : string; s_union : bool; s_fields : list field }.
Record edef := mkE { e_name : string; e_vals : list (string * Z) }.
Record idl := mkIdl { enums : list edef; structs : list sdef }.

Fixpoint fty_eqb (a b : fty) : bool :=
  match a, b with
  | FBool, FBool | FI8, FI8 | FI16, FI16 | FI32, FI32 | FI64, FI64 | FDouble, FDouble
  | FBinary, FBinary | FString, FString => true
  | FEnum x, FEnum y => String.eqb x y
  | FList x, FList y => fty_eqb x y
  | FStruct x, FStruct y => String.eqb x y
  | _, _ => false
  end.
Definition field_eqb (a b : field) : bool :=
  (f_id a =? f_id b) && (f_req a =? f_req b) && String.eqb (f_name a) (f_name b) && fty_eqb (f_ty a) (f_ty b).
Definition sdef_eqb (a b : sdef) : bool :=
  String.eqb (s_name a) (s_name b) && Bool.eqb (s_union a) (s_union b) && list_eqb field_eqb (s_fields a) (s_fields b).
Definition edef_eqb (a b : edef) : bool :=
  String.eqb (e_name a) (e_name b) &&
  list_eqb (fun x y => String.eqb (fst x) (fst y) && Z.eqb (snd x) (snd y)) (e_vals a) (e_vals b).
Definition idl_eqb (a b : idl) : bool :=
  list_eqb edef_eqb (enums a) (enums b) && list_eqb sdef_eqb (structs a) (structs b).

(* wire type code of a declared type (bool: 1 or 2 depending on the value; 2 stands for both) *)
Definition wire (t : fty) : N :=
  match t with
  | FBool => 2 | FI8 => 3 | FI16 => 4 | FI32 => 5 | FEnum _ => 5 | FI64 => 6 | FDouble => 7
  | FBinary => 8 | FString => 8 | FList _ => 9 | FStruct _ => 12
  end.

Fixpoint find_struct (l : list sdef) (n : string) : option sdef :=
  match l with [] => None | s :: r => if String.eqb (s_name s) n then Some s else find_struct r n end.
Fixpoint find_enum (l : list edef) (n : string) : option edef :=
  match l with [] => None | s :: r => if String.eqb (e_name s) n then Some s else find_enum r n end.
Fixpoint find_field (l : list field) (id : N) : option field :=
  match l with [] => None | f :: r => if f_id f =? id then Some f else find_field r id end.
Fixpoint find_field_name (l : list field) (n : string) : option field :=
  match l with [] => None | f :: r => if String.eqb (f_name f) n then Some f else find_field_name r n end.

Fixpoint increasing (last : option N) (l : list N) : bool :=
  match l with
  | [] => true
  | x :: r => (match last with None => true | Some y => y <? x end) && increasing (Some x) r
  end.
Definition required_present (fl : list field) (ids : list N) : bool :=
  forallb (fun f => negb (f_req f =? 1) || existsb (N.eqb (f_id f)) ids) fl.

Record opts := mkO { allow_unknown : bool; lenient_empty : bool; check_enum : bool }.

Section Check.
Variable T : idl.
Variable o : opts.

Definition enum_has (e : string) (z : Z) : bool :=
  match find_enum (enums T) e with
  | Some d => existsb (fun p => Z.eqb (snd p) z) (e_vals d)
  | None => false
  end.

Definition ety_matches (e : fty) (ety : N) : bool :=
  match e with FBool => (ety =? 1) || (ety =? 2) | _ => ety =? wire e end.

Fixpoint conforms (t : fty) (v : tv) {struct v} : bool :=
  match t, v with
  | FBool, TBool _ => true
  | FI8, TI8 _ => true
  | FI16, TI16 _ => true
  | FI32, TI32 _ => true
  | FI64, TI64 _ => true
  | FDouble, TDouble _ => true
  | FBinary, TBin _ => true
  | FString, TBin _ => true
  | FEnum e, TI32 z => negb (check_enum o) || enum_has e z
  | FList e, TList ety l =>
      (ety_matches e ety || (lenient_empty o && (ety =? 0) && match l with [] => true | _ => false end)) &&
      (fix all (l : list tv) : bool := match l with [] => true | x :: r => conforms e x && all r end) l
  | FStruct n, TStruct fs =>
      match find_struct (structs T) n with
      | None => false
      | Some sd =>
        (fix allf (fs : list (N * tv)) : bool :=
           match fs with
           | [] => true
           | (id, x) :: r =>
             (match find_field (s_fields sd) id with
              | Some f => conforms (f_ty f) x
              | None => allow_unknown o
              end) && allf r
           end) fs
        && increasing None (map fst fs)
        && required_present (s_fields sd) (map fst fs)
        && (negb (s_union sd) || (List.length fs =? 1)%nat)
      end
  | _, _ => false
  end.

(* where the first violation is: path of field ids / element indexes from the root (diagnosis only) *)
Fixpoint blame (t : fty) (v : tv) {struct v} : list N :=
  if conforms t v then [] else
  match t, v with
  | FList e, TList ety l =>
      (fix all (i : N) (l : list tv) : list N :=
         match l with [] => [] | x :: r => if conforms e x then all (i + 1) r else i :: blame e x end) 0 l
  | FStruct n, TStruct fs =>
      match find_struct (structs T) n with
      | None => []
      | Some sd =>
        (fix allf (fs : list (N * tv)) : list N :=
           match fs with
           | [] => []
           | (id, x) :: r =>
             match find_field (s_fields sd) id with
             | Some f => if conforms (f_ty f) x then allf r else id :: blame (f_ty f) x
             | None => if allow_unknown o then allf r else [id]
             end
           end) fs
      end
  | _, _ => []
  end.
End Check.

(* every struct/enum a table mentions is declared in it (closedness, checked on the pinned table) *)
Fixpoint fty_closed (T : idl) (t : fty) : bool :=
  match t with
  | FEnum n => match find_enum (enums T) n with Some _ => true | None => false end
  | FStruct n => match find_struct (structs T) n with Some _ => true | None => false end
  | FList e => fty_closed T e
  | _ => true
  end.
Definition idl_closed (T : idl) : bool :=
  forallb (fun s => forallb (fun f => fty_closed T (f_ty f)) (s_fields s)) (structs T).
