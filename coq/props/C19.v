(* C19 — an append interrupted before its metadata update leaves the old dataset intact.
   Only statements here; models in theories/Dataset/{FS,Crash,Ops}.v, proofs in theories/Proofs/.

   Shape (DESIGN 4.2, validated relation): the theorems are stated for EVERY call trace `tr`
   satisfying the decidable predicate `safe_trace refs tr`; the extracted checker
   `check_safe_trace` is proved sound and complete for it and is evaluated on the call trace
   recorded from the real append on every run; the deterministic model of the code's own call
   sequence (`append_trace`) is only the witness that the predicate is inhabited.

   Full statement inside the model: for every file-system state s whose _metadata parses to the
   reference list refs, every safe trace, every position k up to and including a failed (effect-
   free) write-open of _metadata, every partial effect of the k-th call (nothing / everything /
   a short write): a fresh open reads exactly what it read before, and _metadata,
   _common_metadata and every referenced file are byte-identical.  `parse_md` and `decode` are
   arbitrary functions: the result of a fresh open is ANY function of the bytes of _metadata and
   of the files it references (thrift parsing is C10's, page decoding C01/C03's business).      *)
From Coq Require Import NArith Arith List Bool.
From Pq Require Import Base.Bytes Dataset.FS Dataset.FsPaths Dataset.Crash Dataset.Ops Proofs.CrashProofs Proofs.OpsProofs
  Dataset.CrashGen Proofs.CrashGenProofs.
Import ListNotations.

Theorem C19_checker_sound : forall refs tr, check_safe_trace refs tr = true <-> safe_trace refs tr.
Proof. intros; split; [apply check_safe_trace_sound | apply check_safe_trace_complete]. Qed.
Print Assumptions C19_checker_sound.

Theorem C19_crash_safe :
  forall (R : Type) (parse_md : bytes -> option (list path)) (decode : bytes -> list (option bytes) -> R)
         (refs : list path) (tr tr1 : list call) (c : call) (tr2 : list call) (s s' : fs),
    refs_of parse_md s = Some refs ->
    safe_trace refs tr -> tr = tr1 ++ c :: tr2 ->
    existsb is_md_open tr1 = false ->                       (* _metadata not yet opened for writing *)
    (is_md_open c = false \/ s' = run_trace tr1 s) ->             (* ... and not truncated by the failing call itself *)
    crash_at tr1 c s s' ->
    read_dataset R parse_md decode s' = read_dataset R parse_md decode s
    /\ forall q, In q (md_name :: cmd_name :: refs) -> lookup q s' = lookup q s.
Proof. exact crash_safe. Qed.
Print Assumptions C19_crash_safe.

(* the same under the most general damage model: the crash may leave EVERY file named by a call issued
   so far (the new part files, their directories) in ANY state - lost buffers, torn or reordered
   writes - as long as it changes no file that none of those calls names; the interrupted-call
   model `crash_at` above is an instance *)
Theorem C19_crash_safe_any_damage :
  forall (R : Type) (parse_md : bytes -> option (list path)) (decode : bytes -> list (option bytes) -> R)
         (refs : list path) (tr tr1 : list call) (c : call) (tr2 : list call) (s s' : fs),
    refs_of parse_md s = Some refs ->
    safe_trace refs tr -> tr = tr1 ++ c :: tr2 ->
    existsb is_md_open tr1 = false -> is_md_open c = false ->
    damaged_by (tr1 ++ [c]) s s' ->
    read_dataset R parse_md decode s' = read_dataset R parse_md decode s
    /\ forall q, In q (md_name :: cmd_name :: refs) -> lookup q s' = lookup q s.
Proof. exact crash_safe_any_damage. Qed.
Print Assumptions C19_crash_safe_any_damage.

Theorem C19_interrupted_call_is_damage : forall tr1 c s s', crash_at tr1 c s s' -> damaged_by (tr1 ++ [c]) s s'.
Proof. exact crash_is_damage. Qed.
Print Assumptions C19_interrupted_call_is_damage.

Theorem C19_no_write_open_existing : forall refs tr, safe_trace refs tr ->
  forall p t, In (OpenW p t) tr -> ~ In p refs.
Proof. exact no_write_open_existing. Qed.
Print Assumptions C19_no_write_open_existing.

Theorem C19_no_rename_remove_existing : forall refs tr, safe_trace refs tr ->
  forall c, In c tr ->
    match c with Rename a b => ~ In a refs /\ ~ In b refs | Remove p => ~ In p refs | _ => True end.
Proof. exact no_rename_remove_existing. Qed.
Print Assumptions C19_no_rename_remove_existing.

(* old data files are byte-identical after the WHOLE trace, too (used by C19_complete and C07) *)
Theorem C19_old_files_intact : forall refs tr s, safe_trace refs tr ->
  forall q, In q refs -> lookup q (run_trace tr s) = lookup q s.
Proof. exact safe_run_refs_intact. Qed.
Print Assumptions C19_old_files_intact.

(* the call sequence of the code itself (Dataset/Ops.v: fresh part numbers from find_max_part, parts
   first, the two summary files last) is in the relation - for every reference list the part-name
   pattern matches, every list of new row groups / partition directories / written chunks *)
Theorem C19_append_is_safe : forall refs partitioned rgs md cmd tr,
  append_trace refs partitioned rgs md cmd = Some tr -> good_dirs rgs = true -> safe_trace refs tr.
Proof. exact append_is_safe. Qed.
Print Assumptions C19_append_is_safe.

(* if all calls ran: the summary lists old ++ new references, every old file is as before, every
   new file holds exactly what was written into it; a fresh open decodes exactly those *)
Theorem C19_complete :
  forall (R : Type) (parse_md : bytes -> option (list path)) (decode : bytes -> list (option bytes) -> R)
         refs partitioned rgs md cmd tr off s,
    find_max_part refs = Some off ->
    append_trace refs partitioned rgs md cmd = Some tr -> good_dirs rgs = true ->
    NoDup (new_paths off rgs) ->
    parse_md (concat md) = Some (refs ++ new_paths off rgs) ->
    read_dataset R parse_md decode (run_trace tr s)
    = Some (decode (concat md) (map (fun p => lookup p s) refs ++ map Some (new_contents off rgs))).
Proof. exact append_complete_read. Qed.
Print Assumptions C19_complete.

(* beyond the property's text: once _metadata has been written and closed, a failure in any call on
   _common_metadata (with any partial effect) leaves a dataset that a fresh open reads exactly as
   after the complete append - the new content *)
Theorem C19_crash_in_common_metadata :
  forall (R : Type) (parse_md : bytes -> option (list path)) (decode : bytes -> list (option bytes) -> R)
         refs partitioned rgs md cmd off tr1 c tr2 s s',
    find_max_part refs = Some off -> good_dirs rgs = true ->
    write_file cmd_name cmd = tr1 ++ c :: tr2 ->
    let done := concat (map (block_calls partitioned) (new_files off rgs)) ++ write_file md_name md in
    crash_at (done ++ tr1) c s s' ->
    parse_md (concat md) = Some (refs ++ new_paths off rgs) ->
    read_dataset R parse_md decode s'
    = read_dataset R parse_md decode (run_trace (done ++ write_file cmd_name cmd) s).
Proof. exact crash_in_common_metadata. Qed.
Print Assumptions C19_crash_in_common_metadata.

(* ---- the relation the tie evaluates: "parts first, summary files last", the two summary files in
   EITHER order (a fresh open reads _metadata only, so which of the two is rewritten first does not
   matter for the property; `safe_trace` above is the special case the code implements today).
   check_safe_trace_sym is a boolean function, safe_trace_sym its truth: decidable by construction. *)
Theorem C19_strict_is_either_order : forall refs tr,
  check_safe_trace refs tr = true -> wf_writes [] tr = true -> safe_trace_sym refs tr.
Proof. exact strict_is_sym. Qed.
Print Assumptions C19_strict_is_either_order.

Theorem C19_crash_safe_either_order :
  forall (R : Type) (parse_md : bytes -> option (list path)) (decode : bytes -> list (option bytes) -> R)
         (refs : list path) (tr tr1 : list call) (c : call) (tr2 : list call) (s s' : fs),
    refs_of parse_md s = Some refs ->
    safe_trace_sym refs tr -> tr = tr1 ++ c :: tr2 ->
    existsb is_md_open tr1 = false -> (is_md_open c = false \/ s' = run_trace tr1 s) ->
    crash_at tr1 c s s' ->
    read_dataset R parse_md decode s' = read_dataset R parse_md decode s
    /\ forall q, In q (md_name :: refs) -> lookup q s' = lookup q s.
Proof. exact crash_safe_sym. Qed.
Print Assumptions C19_crash_safe_either_order.

Theorem C19_existing_untouched_either_order : forall refs tr, safe_trace_sym refs tr ->
  (forall s q, In q refs -> lookup q (run_trace tr s) = lookup q s)
  /\ (forall p t, In (OpenW p t) tr -> ~ In p refs)
  /\ (forall c, In c tr ->
        match c with Rename a b => ~ In a refs /\ ~ In b refs | Remove p => ~ In p refs | _ => True end).
Proof. exact sym_existing_untouched. Qed.
Print Assumptions C19_existing_untouched_either_order.

Theorem C19_append_is_safe_either_order : forall refs partitioned rgs md cmd tr,
  append_trace refs partitioned rgs md cmd = Some tr -> good_dirs rgs = true -> safe_trace_sym refs tr.
Proof. exact append_is_safe_sym. Qed.
Print Assumptions C19_append_is_safe_either_order.

(* non-vacuity: a dataset {_metadata, part.0.parquet}; the append writes part.1.parquet, then the
   summary.  The trace is safe; a short write into the new part (crash in call 3) leaves every old
   file as it was; reusing the name part.0.parquet is rejected by the checker. *)
Definition ex_p0 : path := [112;97;114;116;46;48]%N.       (* "part.0" *)
Definition ex_p1 : path := [112;97;114;116;46;49]%N.       (* "part.1" *)
Definition ex_fs : fs := [(md_name, [1;2;3]%N); (cmd_name, [9]%N); (ex_p0, [7;7]%N)].
Definition ex_tr (p : path) : list call :=
  [OpenW p true; Write p [5;6]%N; Write p [8;8;8;8]%N; Close p;
   OpenW md_name true; Write md_name [1;2;3;4]%N; Close md_name;
   OpenW cmd_name true; Write cmd_name [9]%N; Close cmd_name].

Example C19_nonvacuous :
  check_safe_trace [ex_p0] (ex_tr ex_p1) = true
  /\ check_safe_trace [ex_p0] (ex_tr ex_p0) = false
  /\ (let s' := step (run_trace (firstn 2 (ex_tr ex_p1)) ex_fs) (Write ex_p1 (firstn 2 [8;8;8;8]%N)) in
      map (fun q => lookup q s') [md_name; cmd_name; ex_p0; ex_p1]
      = [Some [1;2;3]; Some [9]; Some [7;7]; Some [5;6;8;8]]%N)
  /\ map (fun q => lookup q (run_trace (ex_tr ex_p1) ex_fs)) [md_name; ex_p0; ex_p1]
     = [Some [1;2;3;4]; Some [7;7]; Some [5;6;8;8;8;8]]%N.
Proof. vm_compute. repeat split; reflexivity. Qed.

(* the same trace with the two summary files written in the other order: outside the strict relation,
   inside the relaxed one; writing a part file after a summary file is outside both *)
Definition ex_tr_swapped (p : path) : list call :=
  [OpenW p true; Write p [5;6]%N; Close p;
   OpenW cmd_name true; Write cmd_name [9]%N; Close cmd_name;
   OpenW md_name true; Write md_name [1;2;3;4]%N; Close md_name].
Example C19_nonvacuous_either_order :
  check_safe_trace [ex_p0] (ex_tr_swapped ex_p1) = false
  /\ check_safe_trace_sym [ex_p0] (ex_tr_swapped ex_p1) = true
  /\ check_safe_trace_sym [ex_p0] (ex_tr ex_p1) = true
  /\ check_safe_trace_sym [ex_p0] (ex_tr ex_p0) = false
  /\ check_safe_trace_sym [ex_p0] (ex_tr_swapped ex_p1 ++ [OpenW ex_p1 true; Close ex_p1]) = false.
Proof. vm_compute. repeat split; reflexivity. Qed.

(* the model trace of an append of two row groups into the partition directories "k=0", "k=1" of a
   dataset whose highest part number is 7: files k=0/part.8.parquet, k=1/part.8.parquet,
   k=0/part.9.parquet, then the summary files; it is accepted by the checker *)
Definition ex_k0 : path := [107;61;48]%N.
Definition ex_k1 : path := [107;61;49]%N.
Definition ex_refs : list path := [join ex_k0 (part_name 0); join ex_k1 (part_name 7); join ex_k0 (part_name 3)].
Example C19_nonvacuous_model :
  find_max_part ex_refs = Some 8%N
  /\ new_paths 8 [[(ex_k0, [[1]]); (ex_k1, [[2]; [3]])]; [(ex_k0, [[4]])]]%N
     = [join ex_k0 (part_name 8); join ex_k1 (part_name 8); join ex_k0 (part_name 9)]
  /\ option_map (check_safe_trace ex_refs)
       (append_trace ex_refs true [[(ex_k0, [[1]]); (ex_k1, [[2]; [3]])]; [(ex_k0, [[4]])]]%N [[5]]%N [[6]]%N) = Some true
  /\ option_map (@length call)
       (append_trace ex_refs true [[(ex_k0, [[1]]); (ex_k1, [[2]; [3]])]; [(ex_k0, [[4]])]]%N [[5]]%N [[6]]%N) = Some 19%nat.
Proof. vm_compute. repeat split; reflexivity. Qed.

(* ======================= wave 3: the GENERAL commit-point relation (Dataset/CrashGen.v) =======================
   The summary "starts being rewritten" with the first call that CAN CHANGE _metadata - a write-open of it (today's code),
   a rename onto it (write a temporary file, then os.replace), its removal.  Read-side events (open for reading, read)
   are part of the event trace; an I/O fault at one of them interrupts the operation between two effects.          *)
Theorem C19_gen_checker_sound_complete : forall refs tr, check_safe_gen refs tr = true <-> safe_gen refs tr.
Proof. exact check_safe_gen_iff. Qed.
Print Assumptions C19_gen_checker_sound_complete.

(* for EVERY trace in the general relation, interrupted in a call c such that neither c nor any call before it can change
   _metadata, under the most general damage model: the dataset reads as before, summary and referenced files byte-identical *)
Theorem C19_gen_crash_safe :
  forall (R : Type) (parse_md : bytes -> option (list path)) (decode : bytes -> list (option bytes) -> R)
         (refs : list path) (tr tr1 : list call) (c : call) (tr2 : list call) (s s' : fs),
    refs_of parse_md s = Some refs ->
    safe_gen refs tr -> tr = tr1 ++ c :: tr2 ->
    existsb touches_md tr1 = false -> touches_md c = false ->
    damaged_by (tr1 ++ [c]) s s' ->
    read_dataset R parse_md decode s' = read_dataset R parse_md decode s
    /\ forall q, In q (md_name :: refs) -> lookup q s' = lookup q s.
Proof. exact gen_crash_safe. Qed.
Print Assumptions C19_gen_crash_safe.

(* the commit call itself (rename onto / write-open of _metadata) failed before it had any effect *)
Theorem C19_gen_crash_safe_at_commit :
  forall (R : Type) (parse_md : bytes -> option (list path)) (decode : bytes -> list (option bytes) -> R)
         (refs : list path) (tr tr1 : list call) (c : call) (tr2 : list call) (s s' : fs),
    refs_of parse_md s = Some refs ->
    safe_gen refs tr -> tr = tr1 ++ c :: tr2 ->
    existsb touches_md tr1 = false ->
    damaged_by tr1 s s' ->
    read_dataset R parse_md decode s' = read_dataset R parse_md decode s
    /\ forall q, In q (md_name :: refs) -> lookup q s' = lookup q s.
Proof. exact gen_crash_safe_at_commit. Qed.
Print Assumptions C19_gen_crash_safe_at_commit.

(* a fault at a READ-side event (open for reading / read of the existing _metadata, of a part file footer) before the commit
   point: the state is the one the effects issued before it produced, and the dataset reads as before *)
Theorem C19_read_fault_safe :
  forall (R : Type) (parse_md : bytes -> option (list path)) (decode : bytes -> list (option bytes) -> R)
         (refs : list path) (es es1 : list ev) (e : ev) (es2 : list ev) (s : fs),
    refs_of parse_md s = Some refs ->
    safe_gen refs (effects es) -> es = es1 ++ e :: es2 ->
    (match e with Eff _ => False | _ => True end) ->
    existsb touches_md (effects es1) = false ->
    read_dataset R parse_md decode (run_events es1 s) = read_dataset R parse_md decode s
    /\ forall q, In q (md_name :: refs) -> lookup q (run_events es1 s) = lookup q s.
Proof. exact read_fault_safe. Qed.
Print Assumptions C19_read_fault_safe.

(* the property's last clause, generalised: an append (complete, interrupted or failed) never opens an existing data file for
   writing, never renames or removes one (or a directory holding one), and leaves every one byte-identical *)
Theorem C19_gen_existing_untouched : forall refs tr, safe_gen refs tr ->
  (forall p t, In (OpenW p t) tr -> ~ In p refs)
  /\ (forall a b q, In (Rename a b) tr -> In q refs -> under a q = false /\ under b q = false)
  /\ (forall p q, In (Remove p) tr -> In q refs -> under p q = false)
  /\ forall s q, In q refs -> lookup q (run_trace tr s) = lookup q s.
Proof. exact gen_existing_untouched. Qed.
Print Assumptions C19_gen_existing_untouched.

(* writing the new summary to a temporary file and renaming it onto _metadata (after the part files, all closed) is INSIDE
   the general relation (it is outside safe_trace / safe_trace_sym, whose commit point is a write-open) *)
Theorem C19_tmp_rename_is_safe : forall refs parts tmp md,
  existsb touches_md parts = false -> forallb (fun c => untouched c refs) parts = true ->
  handles_ok (open_handles parts) = true ->
  bytes_eqb tmp md_name = false ->
  (forall q, In q refs -> bytes_eqb tmp q = false /\ under tmp q = false /\ under md_name q = false) ->
  safe_gen refs (tmp_commit_trace parts tmp md).
Proof. exact tmp_rename_is_safe. Qed.
Print Assumptions C19_tmp_rename_is_safe.

(* the general relation CONTAINS the relation today's code is checked to be inside (summary files written in place, in either
   order): every trace accepted by check_safe_trace_sym is accepted by check_safe_gen - so all C19_gen_* theorems apply to it *)
Theorem C19_sym_is_gen : forall refs tr, check_safe_trace_sym refs tr = true -> check_safe_gen refs tr = true.
Proof. exact sym_is_gen. Qed.
Print Assumptions C19_sym_is_gen.

(* repo fix 59b66a8: references that are not named part.<i>.parquet are ignored when the next part number is chosen.  FRESH NAMES
   for ANY list of referenced paths: the file of row group i of an append (any newline-free directory) is none of them; and on
   datasets whose files are all named part.<i>.parquet this numbering is the one of the models above *)
Theorem C19_fresh_names_any_refs : forall refs d i, good_dir d = true ->
  ~ In (join d (part_name (find_max_part_skip refs + i))) refs.
Proof. exact fresh_names_skip. Qed.
Print Assumptions C19_fresh_names_any_refs.

Theorem C19_find_max_part_skip_agrees : forall refs off, find_max_part refs = Some off -> find_max_part_skip refs = off.
Proof. exact skip_agrees. Qed.
Print Assumptions C19_find_max_part_skip_agrees.

Definition ex_tmp : path := md_name ++ [46; 116; 109; 112]%N.        (* "_metadata.tmp" *)
Example C19_nonvacuous_gen :
  (* today's trace, the either-order trace and the temporary-file trace are accepted; deleting or overwriting a referenced
     file (before or after the commit point), and committing while a part file is still open, are not *)
  check_safe_gen [ex_p0] (ex_tr ex_p1) = true
  /\ check_safe_gen [ex_p0] (ex_tr_swapped ex_p1) = true
  /\ check_safe_gen [ex_p0] (tmp_commit_trace [OpenW ex_p1 true; Write ex_p1 [5;6]%N; Close ex_p1] ex_tmp [[1;2]%N]) = true
  /\ check_safe_trace_sym [ex_p0] (tmp_commit_trace [OpenW ex_p1 true; Write ex_p1 [5;6]%N; Close ex_p1] ex_tmp [[1;2]%N]) = false
  /\ check_safe_gen [ex_p0] (ex_tr ex_p0) = false
  /\ check_safe_gen [ex_p0] ([OpenW ex_p1 true; Close ex_p1; Remove ex_p0]) = false
  /\ check_safe_gen [ex_p0] (ex_tr ex_p1 ++ [Remove ex_p0]) = false
  /\ check_safe_gen [ex_p0] ([OpenW ex_p1 true; Write ex_p1 [5]%N; Rename ex_tmp md_name; Close ex_p1]) = false.
Proof. vm_compute. repeat split; reflexivity. Qed.
