(* C16 — user key-value metadata is kept verbatim; in-place updates touch nothing else.
   Only statements here; proofs live in theories/Proofs/KVProofs.v.

   Full statement (inside the model): for any old entry list with distinct keys and any update
   dict, a lookup afterwards sees exactly the update's value for a named key (nothing for None)
   and the old value otherwise; untouched entries keep their order; for ANY sequence of footer
   rewrites of ANY sizes the file is again  data ++ footer' ++ le32|footer'| ++ PAR1  with the
   data prefix byte-identical; the reader locates that footer.  The thrift content of the footer
   (schema, row groups) is C10's round trip; here the footer is an opaque byte string.            *)
From Coq Require Import NArith Arith List Bool.
From Pq Require Import Base.Bytes Impl.KV Proofs.KVProofs Impl.KVRead Proofs.KVReadProofs Impl.ParseHeader Proofs.ParseHeaderProofs Impl.PyList Proofs.KVFoldProofs.
Import ListNotations.

Theorem C16_kv_spec :
  forall (K V : Type) (keqb : K -> K -> bool), (forall a b, reflect (a = b) (keqb a b)) ->
  forall (old : list (K * V)) (u : list (K * option V)) (k : K),
    NoDup (map fst old) -> NoDup (map fst u) ->
    lookup keqb k (update_kv keqb old u) =
      match lookup_u keqb k u with Some ov => ov | None => lookup keqb k old end.
Proof. exact update_kv_lookup_dict. Qed.
Print Assumptions C16_kv_spec.

Theorem C16_kv_others_keep_order :
  forall (K V : Type) (keqb : K -> K -> bool), (forall a b, reflect (a = b) (keqb a b)) ->
  forall (old : list (K * V)) (u : list (K * option V)),
    filter (untouched K V keqb u) (update_kv keqb old u) = filter (untouched K V keqb u) old.
Proof. exact update_kv_others_kept. Qed.
Print Assumptions C16_kv_others_keep_order.

Theorem C16_footer_found : forall data footer, (N.of_nat (length footer) < 2 ^ 32)%N ->
  footer_loc false (framed data footer) = Some (length data).
Proof. exact footer_loc_framed. Qed.
Print Assumptions C16_footer_found.

Theorem C16_valid_after_any_updates : forall data footer (fs : list bytes),
  fold_left (fun f ft => rewrite_footer true f (length data) ft) fs (framed data footer)
  = framed data (last fs footer).
Proof. exact rewrites_framed. Qed.
Print Assumptions C16_valid_after_any_updates.

Theorem C16_data_untouched : forall t file loc footer', (loc <= length file)%nat ->
  firstn loc (rewrite_footer t file loc footer') = firstn loc file.
Proof. exact rewrite_prefix_untouched. Qed.
Print Assumptions C16_data_untouched.

(* the pinned tree had no truncate(): refuted for every shrinking footer (repaired by a fix: commit) *)
Theorem C16_without_truncate_refuted : forall data footer footer', (length footer' < length footer)%nat ->
  rewrite_footer false (framed data footer) (length data) footer' <> framed data footer'.
Proof. exact rewrite_notrunc_shrink_refuted. Qed.
Print Assumptions C16_without_truncate_refuted.

(* non-vacuity: a concrete history with a footer that grows, then shrinks by 2 bytes *)
Example C16_nonvacuous :
  fold_left (fun f ft => rewrite_footer true f 5 ft) [[1;2;3;4;5;6]; [7;8;9;10]]%N (framed [80;65;82;49;0] [1;2;3])%N
  = framed [80;65;82;49;0]%N [7;8;9;10]%N
  /\ update_kv N.eqb [(1,10);(2,20);(3,30)]%N [(2,None);(4,Some 40);(1,Some 11)]%N = [(1,11);(3,30);(4,40)]%N.
Proof. split; vm_compute; reflexivity. Qed.

(* ---- wave 3: the READ side (ParquetFile.key_value_metadata) and entries WITHOUT value -------------------------------

   A text value (str or bytes) given at write / update time is stored as its bytes (ensure_bytes) and handed out by
   ensure_str(., ignore_error=True): a str comes back as that str; bytes come back as the same bytes, as str exactly when
   they are well-formed UTF-8 (utf8_valid: Unicode table 3-7).  Key and value are decoded independently.               *)
Theorem C16_read_value_verbatim : forall x, pstr_wf x = true ->
  ensure_str_ie (ensure_bytes x) =
    match x with PStr s => PStr s | PBytes b => if utf8_valid b then PStr b else PBytes b end.
Proof. exact read_value_verbatim. Qed.
Print Assumptions C16_read_value_verbatim.

Theorem C16_read_entry_independent : forall k ov,
  read_entry (ensure_bytes k, option_map ensure_bytes ov) = (canon k, option_map canon ov).
Proof. exact read_entry_independent. Qed.
Print Assumptions C16_read_entry_independent.

(* with distinct keys the mapping is the footer's entry list, decoded entry by entry, in order *)
Theorem C16_read_kvm_is_entry_list : forall l, NoDup (map fst l) -> read_kvm l = map read_entry l.
Proof. exact read_kvm_nodup. Qed.
Print Assumptions C16_read_kvm_is_entry_list.

(* END TO END inside the model: footer entry list with distinct keys (values possibly ABSENT - legal in the IDL),
   ANY update dict (str or bytes keys and values, None = remove), then the mapping the reader hands out *)
Theorem C16_read_after_update : forall old u k,
  NoDup (map fst old) -> NoDup (map fst (enc_u u)) ->
  lookup pstr_eqb (ensure_str_ie k) (read_kvm (update_kvo old u)) =
    match lookup_u bytes_eqb k (enc_u u) with
    | Some None => None
    | Some (Some v) => Some (option_map ensure_str_ie v)
    | None => option_map (option_map ensure_str_ie) (lookup bytes_eqb k old)
    end.
Proof. exact read_after_update. Qed.
Print Assumptions C16_read_after_update.

(* an entry without value is PRESENT (lookup = Some None, not None): naming it with None removes it and the list gets shorter *)
Theorem C16_remove_valueless : forall old u k,
  NoDup (map fst old) -> NoDup (map fst (enc_u u)) ->
  lookup bytes_eqb k old = Some None -> lookup_u bytes_eqb k (enc_u u) = Some None ->
  lookup bytes_eqb k (update_kvo old u) = None
  /\ (length (update_kvo old u) < length old + length u)%nat.
Proof. exact remove_valueless. Qed.
Print Assumptions C16_remove_valueless.

(* C16 o C10: after ANY sequence of in-place rewrites the reader (api._parse_header model) hands the LAST footer to the parser *)
Theorem C16_reader_finds_last_footer : forall data footer (fs : list bytes) verify,
  (N.of_nat (length (last fs footer)) < 2 ^ 32)%N ->
  (verify = true -> firstn 4 (data ++ last fs footer) = magic) ->
  parse_header false verify
    (fold_left (fun f ft => rewrite_footer true f (length data) ft) fs (framed data footer))
  = Some (last fs footer, N.of_nat (length (last fs footer))).
Proof. exact parse_header_after_rewrites. Qed.
Print Assumptions C16_reader_finds_last_footer.

(* the FAITHFUL loop of update_custom_metadata (position looked up in the spare key list `kvm_keys`, which lags behind after an
   append) computes update_kv for EVERY update list with distinct keys; genproofs/GenKVProofs.v proves on every run that the
   regenerated source IS this loop (gen_kv_function_is_model) *)
Theorem C16_faithful_loop_is_update_kv :
  forall (K V : Type) (keqb : K -> K -> bool), (forall a b, reflect (a = b) (keqb a b)) ->
  forall (u : list (K * option V)) (kvm : list (K * V)), NoDup (map fst u) ->
    option_map fst (fold_left (kstep K V keqb) u (Some (kvm, map fst kvm))) = Some (update_kv keqb kvm u).
Proof. exact fold_update1_keys_start. Qed.
Print Assumptions C16_faithful_loop_is_update_kv.

Example C16_read_nonvacuous :
  (* 'sha256' -> non-UTF-8 digest: text key, binary value; a value-less entry; an overlong / surrogate / truncated form *)
  read_kvm [([115;104;97]%N, Some [255;0;1]%N); ([102]%N, None); ([195;169]%N, Some [195;169]%N)]
    = [(PStr [115;104;97]%N, Some (PBytes [255;0;1]%N)); (PStr [102]%N, None); (PStr [195;169]%N, Some (PStr [195;169]%N))]
  /\ utf8_valid [192;175]%N = false /\ utf8_valid [237;160;128]%N = false /\ utf8_valid [226;130]%N = false
  /\ utf8_valid [240;159;152;128]%N = true /\ utf8_valid [244;144;128;128]%N = false
  /\ update_kvo [([102]%N, None); ([103]%N, Some [1]%N)] [(PStr [102]%N, None)] = [([103]%N, Some [1]%N)].
Proof. repeat split; vm_compute; reflexivity. Qed.
