(* C16 — user key-value metadata is kept verbatim; in-place updates touch nothing else.
   Only statements here; proofs live in theories/Proofs/KVProofs.v.

   Full statement (inside the model): for any old entry list with distinct keys and any update
   dict, a lookup afterwards sees exactly the update's value for a named key (nothing for None)
   and the old value otherwise; untouched entries keep their order; for ANY sequence of footer
   rewrites of ANY sizes the file is again  data ++ footer' ++ le32|footer'| ++ PAR1  with the
   data prefix byte-identical; the reader locates that footer.  The thrift content of the footer
   (schema, row groups) is C10's round trip; here the footer is an opaque byte string.            *)
From Coq Require Import NArith Arith List Bool.
From Pq Require Import Base.Bytes Impl.KV Proofs.KVProofs.
Import ListNotations.

Theorem C16_kv_spec :
  forall (K V : Type) (keqb : K -> K -> bool), (forall a b, reflect (a = b) (keqb a b)) ->
  forall (old : list (K * V)) (u : list (K * option V)) (k : K),
    NoDup (map fst old) -> NoDup (map fst u) ->
    lookup keqb k (update_kv keqb old u) =
      match lookup_u keqb k u with Some ov => ov | None => lookup keqb k old end.
Proof. exact update_kv_lookup_dict. Qed.
Print Assumptions C16_kv_spec.

Theorem C16_kv_others_keep_order :
  forall (K V : Type) (keqb : K -> K -> bool), (forall a b, reflect (a = b) (keqb a b)) ->
  forall (old : list (K * V)) (u : list (K * option V)),
    filter (untouched K V keqb u) (update_kv keqb old u) = filter (untouched K V keqb u) old.
Proof. exact update_kv_others_kept. Qed.
Print Assumptions C16_kv_others_keep_order.

Theorem C16_footer_found : forall data footer, (N.of_nat (length footer) < 2 ^ 32)%N ->
  footer_loc false (framed data footer) = Some (length data).
Proof. exact footer_loc_framed. Qed.
Print Assumptions C16_footer_found.

Theorem C16_valid_after_any_updates : forall data footer (fs : list bytes),
  fold_left (fun f ft => rewrite_footer true f (length data) ft) fs (framed data footer)
  = framed data (last fs footer).
Proof. exact rewrites_framed. Qed.
Print Assumptions C16_valid_after_any_updates.

Theorem C16_data_untouched : forall t file loc footer', (loc <= length file)%nat ->
  firstn loc (rewrite_footer t file loc footer') = firstn loc file.
Proof. exact rewrite_prefix_untouched. Qed.
Print Assumptions C16_data_untouched.

(* the pinned tree had no truncate(): refuted for every shrinking footer (repaired by a fix: commit) *)
Theorem C16_without_truncate_refuted : forall data footer footer', (length footer' < length footer)%nat ->
  rewrite_footer false (framed data footer) (length data) footer' <> framed data footer'.
Proof. exact rewrite_notrunc_shrink_refuted. Qed.
Print Assumptions C16_without_truncate_refuted.

(* non-vacuity: a concrete history with a footer that grows, then shrinks by 2 bytes *)
Example C16_nonvacuous :
  fold_left (fun f ft => rewrite_footer true f 5 ft) [[1;2;3;4;5;6]; [7;8;9;10]]%N (framed [80;65;82;49;0] [1;2;3])%N
  = framed [80;65;82;49;0]%N [7;8;9;10]%N
  /\ update_kv N.eqb [(1,10);(2,20);(3,30)]%N [(2,None);(4,Some 40);(1,Some 11)]%N = [(1,11);(3,30);(4,40)]%N.
Proof. split; vm_compute; reflexivity. Qed.
