(* C17 — metadata-only answers (columns, dtypes, counts) match the data actually read.
   Only statements here; proofs in theories/Proofs/DtypesProofs.v, the model in theories/Impl/Dtypes.v.

   Level: partial.  What a read produces is decided by pandas/numpy allocation and is only MODELLED by
   `realise` (tied to the real code by the correspondence run).  Inside the model:
     - C17_realise_fixpoint: for EVERY schema element with a valid physical type, every pandas-metadata entry
       (any text), every list of row groups/statistics, both settings of pandas_nulls, with or without a
       categories request: a data column allocated for the predicted dtype has the predicted dtype.
       (repaired tree; the pinned rule for zoned INT96 columns is refuted: C17_int96_tz_refuted)
     - C17_index_fixpoint: the same for index columns (repaired tree; the pinned tree turned a masked dtype into
       int64: C17_masked_index_refuted).
     - C17_null_evidence: a plain numpy int/bool prediction that was not taken on trust from the pandas metadata
       means every non-empty row group has statistics with null_count = 0 at the field's position (repaired tree;
       the pinned tree also accepted an ABSENT null_count: C17_absent_null_count_refuted, and trusted the codes' dtype
       of a categorical metadata entry: C17_categorical_md_refuted);
       C17_no_null_in_plain_dtype: with exact null counts (C04) no NULL cell exists.
     - C17_counts: count() = number of rows of the concatenated row groups, for every list of row groups.
     - C17_categories / C17_categories_refused: which fields a `categories` request turns into 'category'.
     - C17_frame_columns / C17_default_index: the frame's columns are the wanted columns that are not index levels,
       in order; the default index is the stored non-range index entries.
     - C17_written_dtype_roundtrip / C17_decode_consistent (finite, by computation on the tables).
   Full statement that is NOT proved (pandas is outside the model): for every file f and option tuple o,
   observe(handle f o) = observe(to_pandas f o) for columns, dtypes, categories, index, counts.               *)
From Coq Require Import NArith List Bool String.
From Pq Require Import Base.Bytes Impl.Dtypes Proofs.DtypesProofs.
Import ListNotations.

Theorem C17_realise_fixpoint : forall has_md pn se md loc rgs as_cat d,
  (se_type se < 8)%N ->
  predict pinned has_md pn se md loc rgs as_cat = ROk d -> realise (md_tzflag md) d = d.
Proof. exact realise_fixpoint. Qed.
Print Assumptions C17_realise_fixpoint.

Theorem C17_index_fixpoint : forall has_md pn se md loc rgs as_cat d,
  (se_type se < 8)%N ->
  predict pinned has_md pn se md loc rgs as_cat = ROk d ->
  realise_index (md_tzflag md) d = d.
Proof. exact realise_index_fixpoint. Qed.
Print Assumptions C17_index_fixpoint.

(* the pinned tree allocated an index column of a masked dtype (Int8..UInt64, boolean) as int64 *)
Theorem C17_masked_index_refuted :
  exists has_md pn se md loc rgs d,
    (se_type se < 8)%N /\
    predict pinned has_md pn se md loc rgs false = ROk d /\ realise_index_old (md_tzflag md) d <> d.
Proof. exact masked_index_old_refuted. Qed.
Print Assumptions C17_masked_index_refuted.

Theorem C17_int96_tz_refuted :
  exists has_md pn se md loc rgs d,
    (se_type se < 8)%N /\
    base_dtype_old pinned has_md pn se md loc rgs = ROk d /\ realise (md_tzflag md) d <> d.
Proof. exact int96_tz_old_refuted. Qed.
Print Assumptions C17_int96_tz_refuted.

Theorem C17_null_evidence : forall R has_md pn se md loc rgs d,
  (se_type se < 8)%N ->
  base_dtype_gen R pinned has_md pn se md loc rgs = ROk d ->
  np_int_or_bool d = true -> has_md && md_claims_gen (r_cat_md R) md = false ->
  Forall (no_evidence_rg (r_absent_counts R) loc) rgs.
Proof. exact null_evidence_sound. Qed.
Print Assumptions C17_null_evidence.

Theorem C17_null_evidence_iff : forall absent loc rgs,
  null_evidence_gen absent loc rgs = Some false <-> Forall (no_evidence_rg absent loc) rgs.
Proof. exact null_evidence_false. Qed.
Print Assumptions C17_null_evidence_iff.

Theorem C17_no_null_in_plain_dtype : forall loc rgs (actual : list N),
  Forall (no_evidence_rg true loc) rgs ->
  Forall2 (fun rg a => (rg_rows rg = 0%N -> a = 0%N) /\
                       forall i n, loc = Some i -> nth_error (rg_chunks rg) i = Some (Some (Some n)) -> n = a) rgs actual ->
  Forall (fun a => a = 0%N) actual.
Proof. exact no_null_reaches_plain_dtype. Qed.
Print Assumptions C17_no_null_in_plain_dtype.

(* the pinned tree (`if st.null_count:`) took statistics without a null_count for "no nulls" *)
Theorem C17_absent_null_count_refuted :
  exists se rgs rg,
    base_dtype_gen pinned_rules pinned false true se None (Some 0%nat) rgs = ROk (DInt true 64) /\
    In rg rgs /\ rg_rows rg <> 0%N /\ nth_error (rg_chunks rg) 0 = Some (Some None) /\
    base_dtype_gen repaired pinned false true se None (Some 0%nat) rgs = ROk (DNInt true 64).
Proof. exact absent_null_count_old_refuted. Qed.
Print Assumptions C17_absent_null_count_refuted.

(* the pinned tree trusted the numpy_type of a CATEGORICAL metadata entry (the dtype of the codes) *)
Theorem C17_categorical_md_refuted :
  exists se md rgs,
    base_dtype_gen pinned_rules pinned true true se (Some md) (Some 0%nat) rgs = ROk (DInt true 64) /\
    null_evidence_gen false (Some 0%nat) rgs = Some true /\
    base_dtype_gen repaired pinned true true se (Some md) (Some 0%nat) rgs = ROk (DNInt true 64).
Proof. exact categorical_md_old_refuted. Qed.
Print Assumptions C17_categorical_md_refuted.

(* which chunk's statistics are consulted: the field's own (repaired tree); the pinned tree took the chunk at the field's
   position, which belongs to another column once a multi-leaf group field precedes it *)
Theorem C17_field_chunk_own : forall paths name i j,
  field_chunk true paths name i = Some j -> nth_error paths j = Some name.
Proof. exact field_chunk_own. Qed.
Print Assumptions C17_field_chunk_own.

Theorem C17_field_position_refuted :
  exists paths name i j,
    field_chunk false paths name i = Some j /\ nth_error paths j <> Some name /\
    field_chunk true paths name i = Some 3%nat.
Proof. exact field_chunk_old_refuted. Qed.
Print Assumptions C17_field_position_refuted.

Theorem C17_counts : forall (A : Type) (rgs : list rgroup) (frames : list (list A)),
  Forall2 (fun rg f => rg_rows rg = N.of_nat (List.length f)) rgs frames ->
  count (map rg_rows rgs) = N.of_nat (List.length (List.concat frames)).
Proof. exact count_is_length. Qed.
Print Assumptions C17_counts.

Theorem C17_categories : forall has_md categ nrg arg l,
  check_categories has_md categ nrg arg = Some l ->
  match arg with
  | None => l = if has_md then categ else []
  | Some cs => forall c, In c l <-> In c cs
  end.
Proof. exact check_categories_spec. Qed.
Print Assumptions C17_categories.

Theorem C17_categories_refused : forall categ nrg cs c,
  In c cs -> ~ In c categ -> (1 < nrg)%N -> check_categories true categ nrg (Some cs) = None.
Proof. exact check_categories_refuses. Qed.
Print Assumptions C17_categories_refused.

(* which columns the frame has and which fields become its index *)
Theorem C17_frame_columns : forall cols cats request idx,
  let want := match request with Some l => l | None => cols ++ cats end in
  frame_columns cols cats request idx = filter (fun c => negb (memb c idx)) want /\
  (forall c, In c (frame_columns cols cats request idx) <-> In c want /\ ~ In c idx) /\
  (forall c, In c want -> In c (frame_columns cols cats request idx) \/ In c idx).
Proof. exact frame_columns_spec. Qed.
Print Assumptions C17_frame_columns.

Theorem C17_default_index : forall stored n,
  In n (get_index stored INone) <-> In (n, false) stored.
Proof. exact get_index_default. Qed.
Print Assumptions C17_default_index.

Theorem C17_written_dtype_roundtrip : written_roundtrip_ok pinned pinned_w_typemap = true.
Proof. exact written_roundtrip_pinned. Qed.
Print Assumptions C17_written_dtype_roundtrip.

Theorem C17_decode_consistent :
  decode_consistent pinned pinned_decode_typemap = true /\ decode_consistent pinned pinned_w_revmap = true.
Proof. exact decode_consistent_pinned. Qed.
Print Assumptions C17_decode_consistent.

(* non-vacuity: an optional INT64 column without pandas metadata whose second row group reports 3 nulls is
   predicted Int64 (float64 with pandas_nulls=False, int64 when every null_count is 0, and the chunk is looked up
   at the field's position); a UINT_32 column with an 'Int'-typed metadata entry; a zoned INT96 column; TIMESTAMP_MICROS
   with and without metadata; a categories request *)
Example C17_nonvacuous :
  let i64 := mk_se 2 None None 0 false in
  let rgs := [mk_rg 5 [Some (Some 0); None]; mk_rg 0 [None; None]; mk_rg 7 [Some (Some 3); Some (Some 0)]]%N in
  predict pinned false true i64 None (Some 0%nat) rgs false = ROk (DNInt true 64)
  /\ predict pinned false false i64 None (Some 0%nat) rgs false = ROk (DFloat 64)
  /\ predict pinned false true i64 None (Some 0%nat) [mk_rg 5 [Some (Some 0)]; mk_rg 0 [None]; mk_rg 7 [Some (Some 0)]]%N false = ROk (DInt true 64)
  /\ predict pinned false true i64 None (Some 0%nat) [mk_rg 5 [Some (Some 0)]; mk_rg 7 [Some None]]%N false = ROk (DNInt true 64)
  /\ predict pinned false true i64 None (Some 1%nat) rgs false = ROk (DNInt true 64)
  /\ predict pinned false true i64 None (Some 2%nat) rgs false = RErr
  /\ predict pinned false true i64 None None rgs false = ROk (DNInt true 64)
  /\ field_chunk true [b_ "m.key_value.key"; b_ "m.key_value.value"; b_ "x"] (b_ "x") 1 = Some 2%nat
  /\ predict pinned true true (mk_se 1 (Some 13) None 0 false) (Some (mk_md (b_ "UInt32") (b_ "UInt32") false)) (Some 0%nat) [] false
     = ROk (DNInt false 32)
  /\ predict pinned true true (mk_se 3 None None 0 false) (Some (mk_md (b_ "datetime64[ns]") (b_ "datetimetz") true)) (Some 0%nat) [] false
     = ROk (DM8 Uns true)
  /\ predict pinned false true (mk_se 2 (Some 10) None 0 false) None (Some 0%nat) [] false = ROk (DM8 Uus false)
  /\ predict pinned true true (mk_se 2 (Some 10) (Some Uus) 0 false) (Some (mk_md (b_ "datetime64[ns]") (b_ "datetime") false)) (Some 0%nat) [] false
     = ROk (DM8 Uns false)
  /\ predict pinned false true i64 None (Some 0%nat) rgs true = ROk DCat
  /\ check_categories true [b_ "c"] 2 (Some [b_ "t"]) = None
  /\ check_categories true [b_ "c"; b_ "d"] 2 (Some [b_ "d"]) = Some [b_ "d"]
  /\ count [5; 0; 7]%N = 12%N.
Proof. vm_compute. repeat split; reflexivity. Qed.

(* ------------------------------------------------------------------------------------------
   Handle coherence (Dataset/Handle.v, Proofs/HandleProofs.v): the metadata-only answers of a handle that has been
   asked before, selected from, pickled/copied, edited (or whose edit failed) are the answers recomputed from its
   current metadata = those of a fresh handle.  Stated for EVERY inventory satisfying the decidable condition
   `inventory_ok`, every program (any number of live handles and steps), every reading of attribute values / operation
   effects that respects the inventory's footprints; the inventory of the live code is regenerated and the condition
   re-proved on every run (genproofs/GenHandleProofs.v); here it is instantiated on the pinned inventory.          *)
From Pq Require Import Dataset.Handle Dataset.HandlePinned Proofs.HandleProofs.
From Coq Require Import String.

Theorem C17_handle_coherence :
  forall (inv : inventory) (X A : Type) (compute : name -> ground X -> X) (eff : name -> A -> ground X -> ground X),
  (forall a g g', (forall c, In c (deps inv a) -> g c = g' c) -> compute a g = compute a g') ->
  (forall o arg g c, In o (all_ops inv) -> ~ In c (op_writes o) -> eff (op_name o) arg g c = g c) ->
  inventory_ok inv = true ->
  forall p st st' ans,
    Forall (step_ok inv X A) p -> Forall (coherent X compute) st ->
    run inv X A compute eff p st = (st', ans) ->
    run_spec X A compute eff p (map gr st) = (map gr st', ans) /\ Forall (coherent X compute) st'.
Proof. exact run_refines_spec. Qed.
Print Assumptions C17_handle_coherence.

Theorem C17_handle_programs_from_fresh_opens :
  forall (inv : inventory) (X A : Type) (compute : name -> ground X -> X) (eff : name -> A -> ground X -> ground X),
  (forall a g g', (forall c, In c (deps inv a) -> g c = g' c) -> compute a g = compute a g') ->
  (forall o arg g c, In o (all_ops inv) -> ~ In c (op_writes o) -> eff (op_name o) arg g c = g c) ->
  inventory_ok inv = true ->
  forall p gs st' ans,
    Forall (step_ok inv X A) p -> run inv X A compute eff p (map (fresh X) gs) = (st', ans) ->
    run_spec X A compute eff p gs = (map gr st', ans).
Proof. exact programs_from_fresh_opens. Qed.
Print Assumptions C17_handle_programs_from_fresh_opens.

(* a derived handle (selection, pickle, copy) inherits every attribute computed from preserved components only *)
Theorem C17_handle_derived_inherits :
  forall (inv : inventory) (X A : Type) (compute : name -> ground X -> X) (eff : name -> A -> ground X -> ground X),
  (forall a g g', (forall c, In c (deps inv a) -> g c = g' c) -> compute a g = compute a g') ->
  (forall o arg g c, In o (all_ops inv) -> ~ In c (op_writes o) -> eff (op_name o) arg g c = g c) ->
  inventory_ok inv = true ->
  forall o arg h a, In o (inv_derivs inv) -> (forall c, In c (deps inv a) -> In c (inv_preserved inv)) ->
    compute a (gr (apply_op inv X A compute eff o arg h)) = compute a (gr h).
Proof. exact derive_inherits. Qed.
Print Assumptions C17_handle_derived_inherits.

Theorem C17_handle_pinned_inventory_ok : inventory_ok pinned_inv = true /\ offenders pinned_inv = [].
Proof. exact pinned_inventory_ok. Qed.
Print Assumptions C17_handle_pinned_inventory_ok.

(* necessity / non-vacuity: an attribute memoised on the handle that a mutator keeps although it writes what the attribute
   is computed from is rejected by the check, and the two-step program shows the stale answer (6, 6 instead of 6, 10) *)
Theorem C17_handle_stale_memo_refuted :
  inventory_ok (toy_inv true) = false /\
  snd (run (toy_inv true) nat nat toy_compute toy_eff (toy_prog true) [fresh nat (fun _ => 6%nat)]) = [6; 6]%nat /\
  snd (run_spec nat nat toy_compute toy_eff (toy_prog true) [fun _ => 6%nat]) = [6; 10]%nat /\
  snd (run (toy_inv false) nat nat toy_compute toy_eff (toy_prog false) [fresh nat (fun _ => 6%nat)]) = [6; 10]%nat.
Proof. exact toy_summary. Qed.
Print Assumptions C17_handle_stale_memo_refuted.

(* observers are NOT assumed pure in the model (an observer scribbles over whatever the inventory says it mutates in place); the
   clause of inventory_ok that no observer writes is regenerated from api.py / core.py.  Necessity: *)
Theorem C17_handle_observer_writes_refuted :
  inventory_ok (toy_obs_inv true) = false /\ offenders (toy_obs_inv true) = [("sorted_partitioned_columns", "_statistics")] /\
  inventory_ok (toy_obs_inv false) = true /\
  snd (run (toy_obs_inv true) nat nat toy_compute toy_eff toy_obs_prog [fresh nat (fun _ => 6%nat)]) = [6; 6; 0]%nat /\
  snd (run_spec nat nat toy_compute toy_eff toy_obs_prog [fun _ => 6%nat]) = [6; 6; 6]%nat /\
  snd (run (toy_obs_inv false) nat nat toy_compute toy_eff toy_obs_prog [fresh nat (fun _ => 6%nat)]) = [6; 6; 6]%nat.
Proof. exact toy_observer_writes. Qed.
Print Assumptions C17_handle_observer_writes_refuted.

(* ------------------------------------------------------------------------------------------
   Partition columns (wave 4; Impl/PartNames.v on top of the C08 model of the paths, Impl/Partition.v):
   for EVERY non-empty list of files (path, rows), every iteration order of the directory set, every pandas metadata:
   when the read succeeds, the partition columns of every row it delivers are exactly - names and order - what the handle
   reports as partition_names (= the keys of cats): what the PATHS of the handle's row groups show decides both, a partial
   view of a partitioned dataset (one part file, a sub-directory, a list without root=) reports and reads fewer levels.
   The variant that answers from the pandas metadata first is refuted by a witness (one part file opened alone).       *)
From Pq Require Import Impl.Partition Impl.PartNames Proofs.PartNamesProofs.

Theorem C17_partition_names_reported_eq_read :
  forall (F T D : Type) (feqb : F -> F -> bool) (teqb : T -> T -> bool) (deqb : D -> D -> bool) (f_eq_Z : F -> BinNums.Z -> bool)
         (parse_float : bool -> str -> option F) (parse_time_np : bool -> str -> option T)
         (parse_time_fmt parse_time_pd : str -> option T) (parse_delta : str -> option D) (P : Type)
         pm ord (files : list (str * list (row F T D P))) (meta : list str) s rows,
    files <> [] ->
    read_model F T D feqb teqb deqb f_eq_Z parse_float parse_time_np parse_time_fmt parse_time_pd parse_delta P pm ord files = Some (s, rows) ->
    exists names,
      partition_names F T D
        (paths_to_cats F T D feqb teqb deqb f_eq_Z parse_float parse_time_np parse_time_fmt parse_time_pd parse_delta
                       pm (map fst files) (ord (dedup_str (map strip_tail (map fst files)))))
        (List.length files) meta = Ok names /\
      forall cells p, In (cells, p) rows -> map fst cells = names.
Proof. exact partition_names_reported_eq_read. Qed.
Print Assumptions C17_partition_names_reported_eq_read.

Theorem C17_partition_names_meta_first_refuted :
  let files : list (str * list (row unit unit unit unit)) := [([], [([], tt)])] in
  let meta := [s_ "p"] in
  let part := paths_to_cats unit unit unit (fun _ _ => true) (fun _ _ => true) (fun _ _ => true) (fun _ _ => false)
                            (fun _ _ => None) (fun _ _ => None) (fun _ => None) (fun _ => None) (fun _ => None)
                            [] (map fst files) (dedup_str (map strip_tail (map fst files))) in
  read_model unit unit unit (fun _ _ => true) (fun _ _ => true) (fun _ _ => true) (fun _ _ => false)
             (fun _ _ => None) (fun _ _ => None) (fun _ => None) (fun _ => None) (fun _ => None) unit
             [] (fun l => l) files = Some (Simple, [([], tt)]) /\
  partition_names unit unit unit part (List.length files) meta = Ok [] /\
  partition_names_meta_first unit unit unit part meta = Ok [s_ "p"].
Proof. exact partition_names_meta_first_refuted. Qed.
Print Assumptions C17_partition_names_meta_first_refuted.
