(* C01, chunk level - statements only (proofs: theories/Proofs/WChunkProofs.v).

   THE WRITER.  Impl/WChunk.v models what writer.write_column puts into a column chunk of a flat column:
     wchunk = page version (v1 / v2), optional / required, physical type, codec, and
              - an ordinary column: pages `WPlainP cells` - definition levels by make_definitions
                (Impl/WLevels.v: one RLE run when the page has no null, else ONE bit-packed run over the packed
                not-null mask; length-prefixed in v1), the not-null values PLAIN, and in v1 the 8 zero bytes
                the writer appends;
              - a categorical column: the dictionary page (labels, PLAIN) and pages `WDictP codes` whose
                values are encode_dict's  width byte + one bit-packed run header + the RAW little-endian
                codes of k = 1, 2 or 4 bytes  (wr_dict_indices, not padded to a whole group);
              every page = thrift page header + (compressed) payload, v2 with the levels outside the
              compressed part and is_compressed = (codec != UNCOMPRESSED).
   THE READER.  Impl/RSelf.v (rd_chunk_sm) models the page loop of core.read_col with ALL the shortcuts the
   reader takes on files it wrote itself:
     - skip_nulls: statistics say null_count = 0  ->  the definition block of a v1 page is not decoded but
       stepped over by skip_definition_bytes (hand copy skip_hand; C01_skip_is_block_length ties it to the
       writer's block length);
     - selfmade + index width 8/16/32: the codes of a v1 dictionary page are read as a raw little-endian array
       (short read included) instead of through the hybrid decoder;
     - v2 pages: read_data_page_v2 with its in-place PLAIN path (`inplace`) and the hybrid decoder for codes.
   The native thrift reader is represented by the specification reader of the page header (C10), cramjam by
   a compress/decompress pair with  decompress (compress b) = b,  the native hybrid/PLAIN decoders by the
   specification decoders (C11/C12).

   C01_chunk_roundtrip_partial: for EVERY such chunk - any number of pages and any page split, any values and
   any not-null mask, v1 or v2, optional or required, any codec, PLAIN or dictionary-encoded - and for EVERY
   setting of the reader's switches (selfmade, skip_nulls when no page has a null, inplace) the reader model
   applied to the writer model's bytes returns exactly the column.
   `_partial`, the visible guards:
     - wp_ok: every page has 1 <= rows < 2^31; a required column has no null; PLAIN pages: values fit the type
       (BOOLEAN included: np.packbits with the writer's extra padding byte, w_plain / wr_bools); categorical pages:
       k in {1, 2, 4}, every code < 2^(8k-1) (a signed k-byte integer, what a pandas categorical holds), labels present (codes outside the labels: no column, see w_page_cells);
     - phdr_wf: sizes and counts fit a thrift i32 (a page < 2 GiB);
     - wp_inplace_ok: the in-place v2 path is only taken for fixed-width numeric types (as in read_col);
     - clock: fuel of the page loop >= length of the chunk.
   C01_chunk_categorical_roundtrip_partial: the same for the DEFAULT way a categorical column comes back - read
   AS A CATEGORICAL (read_col with use_cat, Impl/RCat.v rd_chunk_cat): the dictionary is not de-referenced, the
   result is the labels and the codes array with -1 for a missing cell; v1 pages through read_data_page (raw
   codes / hybrid), v2 pages through the use_cat branch of read_data_page_v2 with ITS selfmade shortcut (skip the
   run header, copy or view the raw codes) or the hybrid decoder.  Extra guards: every page is a dictionary page,
   the chunk has a row, the codes array has the item size the writer used (ak = k).
   Not covered here: nested columns (C15), the object-dtype conversions before / after
   (convert / C02 frames), statistics, the row-group / file level.                                         *)
From Coq Require Import String.
From Coq Require Import NArith ZArith List Bool.
From Pq Require Import Base.Bytes Base.ListX Codec.Hybrid Thrift.Compact Format.Phys Format.Meta Format.Page Format.Enc
  Impl.WLevels Impl.WChunk Impl.RPages Impl.RChunk Impl.RSelf Impl.RCat
  Proofs.FormatPageProofs Proofs.WChunkProofs Proofs.RCatProofs.
Import ListNotations.
Open Scope list_scope.
Open Scope N_scope.

(* one v1 page: defs ++ values ++ 8 zero bytes through read_data_page + the scatter of read_col,
   with or without the two shortcuts *)
Theorem C01_page_v1_roundtrip_partial :
  forall selfmade skip_nulls c p cells,
  wc_v2 c = false -> wp_ok c p -> w_page_cells c p = Some cells ->
  (skip_nulls = true -> w_nonnull p = w_rows p) ->
  rd_col_page_sm selfmade skip_nulls (cd_of c) (wc_labels c) (w_v1_header p)
                 (w_defs c p ++ w_values c p ++ [0; 0; 0; 0; 0; 0; 0; 0]) = ROk cells.
Proof. exact page_v1_writer. Qed.
Print Assumptions C01_page_v1_roundtrip_partial.

(* one v2 page: levels outside the compressed part, through read_data_page_v2 *)
Theorem C01_page_v2_roundtrip_partial :
  forall (compress : Z -> bytes -> bytes) (decompress : Z -> N -> bytes -> option bytes),
  (forall codec b, decompress codec (lenN b) (compress codec b) = Some b) ->
  forall inplace c p cells,
  wc_v2 c = true -> wp_ok c p -> w_page_cells c p = Some cells ->
  (inplace = true -> match p with WPlainP _ => num_width (wc_type c) <> None | WDictP _ => True end) ->
  rd_page_v2 decompress inplace (cd_of c) (wc_labels c) (wc_codec c) (w_v2_header c p)
             (lenN (w_defs c p) + lenN (w_values c p))
             (lenN (w_defs c p) + lenN (deflate compress (wc_codec c) (w_values c p)))
             (w_defs c p ++ deflate compress (wc_codec c) (w_values c p)) = ROk cells.
Proof. exact page_v2_writer. Qed.
Print Assumptions C01_page_v2_roundtrip_partial.

(* the target: the whole chunk *)
Theorem C01_chunk_roundtrip_partial :
  forall (compress : Z -> bytes -> bytes) (decompress : Z -> N -> bytes -> option bytes),
  (forall codec b, decompress codec (lenN b) (compress codec b) = Some b) ->
  forall selfmade skip_nulls inplace c clock cells,
  wchunk_ok compress c ->
  (skip_nulls = true -> wc_v2 c = false -> Forall (fun p => w_nonnull p = w_rows p) (wc_pages c)) ->
  (inplace = true -> wc_v2 c = true -> Forall (wp_inplace_ok c) (wc_pages c)) ->
  w_chunk_cells c = Some cells ->
  (length (w_chunk compress c) <= length clock)%nat ->
  rd_chunk_sm decompress clock selfmade skip_nulls inplace (cd_of c) (wc_codec c) (w_chunk_rows c) None
              (w_chunk compress c) 0 []
  = ROk cells.
Proof. exact chunk_roundtrip. Qed.
Print Assumptions C01_chunk_roundtrip_partial.

(* read as a categorical: labels + codes array (-1 = missing) *)
Theorem C01_cat_page_v1_roundtrip_partial :
  forall selfmade skip_nulls c codes,
  wc_v2 c = false -> wp_ok c (WDictP codes) ->
  (skip_nulls = true -> w_nonnull (WDictP codes) = w_rows (WDictP codes)) ->
  rd_cat_page_v1 selfmade skip_nulls (cd_of c) (w_v1_header (WDictP codes))
                 (w_defs c (WDictP codes) ++ w_values c (WDictP codes) ++ [0; 0; 0; 0; 0; 0; 0; 0])
  = ROk (map code_z codes).
Proof. exact cat_page_v1_writer. Qed.
Print Assumptions C01_cat_page_v1_roundtrip_partial.

Theorem C01_cat_page_v2_roundtrip_partial :
  forall (compress : Z -> bytes -> bytes) (decompress : Z -> N -> bytes -> option bytes),
  (forall codec b, decompress codec (lenN b) (compress codec b) = Some b) ->
  forall selfmade c codes,
  wc_v2 c = true -> wp_ok c (WDictP codes) ->
  rd_page_v2_cat decompress selfmade (N.of_nat (wc_k c)) (cd_of c) (wc_codec c) (w_v2_header c (WDictP codes))
             (lenN (w_defs c (WDictP codes)) + lenN (w_values c (WDictP codes)))
             (lenN (w_defs c (WDictP codes)) + lenN (deflate compress (wc_codec c) (w_values c (WDictP codes))))
             (w_defs c (WDictP codes) ++ deflate compress (wc_codec c) (w_values c (WDictP codes)))
  = ROk (map code_z codes).
Proof. exact cat_page_v2_writer. Qed.
Print Assumptions C01_cat_page_v2_roundtrip_partial.

Theorem C01_chunk_categorical_roundtrip_partial :
  forall (compress : Z -> bytes -> bytes) (decompress : Z -> N -> bytes -> option bytes),
  (forall codec b, decompress codec (lenN b) (compress codec b) = Some b) ->
  forall selfmade skip_nulls c clock labels,
  wchunk_ok compress c -> wc_labels c = Some labels -> Forall is_dict_page (wc_pages c) -> 0 < w_chunk_rows c ->
  (skip_nulls = true -> wc_v2 c = false -> Forall (fun p => w_nonnull p = w_rows p) (wc_pages c)) ->
  (length (w_chunk compress c) <= length clock)%nat ->
  rd_chunk_cat decompress clock selfmade skip_nulls (N.of_nat (wc_k c)) (cd_of c) (wc_codec c) (w_chunk_rows c) None
               (w_chunk compress c) 0 []
  = ROk (Some labels, concat (map page_codes (wc_pages c))).
Proof. exact chunk_cat_roundtrip. Qed.
Print Assumptions C01_chunk_categorical_roundtrip_partial.

(* the statement is not vacuous and the models run: a categorical chunk (labels "a","bc"; codes 1,-,0,1 and
   0,0 on two v1 pages, optional) and a v2 INT32 chunk with a null, through every reader switch *)
Definition id_c (_ : Z) (b : bytes) : bytes := b.
Definition id_d (_ : Z) (_ : N) (b : bytes) : option bytes := Some b.
Definition ex_cat : wchunk :=
  {| wc_v2 := false; wc_optional := true; wc_type := BYTE_ARRAY; wc_tlen := 0; wc_codec := 0%Z; wc_k := 1%nat;
     wc_labels := Some [VBin [97]; VBin [98; 99]];
     wc_pages := [WDictP [Some 1; None; Some 0; Some 1]; WDictP [Some 0; Some 0]] |}.
Definition ex_cat_cells : list (option value) :=
  [Some (VBin [98; 99]); None; Some (VBin [97]); Some (VBin [98; 99]); Some (VBin [97]); Some (VBin [97])].
Definition ex_v2 : wchunk :=
  {| wc_v2 := true; wc_optional := true; wc_type := INT32; wc_tlen := 0; wc_codec := 0%Z; wc_k := 0%nat;
     wc_labels := None; wc_pages := [WPlainP [Some (VNum 7); None; Some (VNum 4294967295)]; WPlainP [Some (VNum 1)]] |}.
Theorem C01_chunk_examples :
  w_chunk_cells ex_cat = Some ex_cat_cells
  /\ (forall selfmade, rd_chunk_sm id_d (repeat 0 200) selfmade false false (cd_of ex_cat) 0%Z (w_chunk_rows ex_cat) None
                        (w_chunk id_c ex_cat) 0 [] = ROk ex_cat_cells)
  /\ (forall inplace, rd_chunk_sm id_d (repeat 0 200) false false inplace (cd_of ex_v2) 0%Z (w_chunk_rows ex_v2) None
                        (w_chunk id_c ex_v2) 0 [] = ROk [Some (VNum 7); None; Some (VNum 4294967295); Some (VNum 1)]).
Proof.
  split; [reflexivity|]. split.
  - intros [|]; vm_compute; reflexivity.
  - intros [|]; vm_compute; reflexivity.
Qed.
Print Assumptions C01_chunk_examples.

Definition ex_cat_v2 : wchunk :=
  {| wc_v2 := true; wc_optional := true; wc_type := BYTE_ARRAY; wc_tlen := 0; wc_codec := 0%Z; wc_k := 2%nat;
     wc_labels := Some [VBin [97]; VBin [98; 99]];
     wc_pages := [WDictP [Some 1; None; Some 0; Some 1]; WDictP [Some 0; Some 0]; WDictP [None]] |}.
Theorem C01_chunk_categorical_examples :
  (forall selfmade, rd_chunk_cat id_d (repeat 0 200) selfmade false 1 (cd_of ex_cat) 0%Z (w_chunk_rows ex_cat) None
                      (w_chunk id_c ex_cat) 0 [] = ROk (Some [VBin [97]; VBin [98; 99]], [1; -1; 0; 1; 0; 0]%Z))
  /\ (forall selfmade, rd_chunk_cat id_d (repeat 0 200) selfmade false 2 (cd_of ex_cat_v2) 0%Z (w_chunk_rows ex_cat_v2) None
                      (w_chunk id_c ex_cat_v2) 0 [] = ROk (Some [VBin [97]; VBin [98; 99]], [1; -1; 0; 1; 0; 0; -1]%Z)).
Proof. split; intros [|]; vm_compute; reflexivity. Qed.
Print Assumptions C01_chunk_categorical_examples.

(* why the writer's 8 trailing zero bytes and the raw shortcut belong together: the same categorical page
   WITHOUT the reader's short-read handling would need 8 codes for the one announced group; with fewer codes
   and no padding the hybrid decoder (foreign-file path) still returns the codes - the lenient final group *)
Theorem C01_short_group_lenient :
  option_map fst (hyb_dec false 8 3 (tl (wr_dict_indices 1 [2; 0; 1]))) = Some [2; 0; 1].
Proof. vm_compute. reflexivity. Qed.
Print Assumptions C01_short_group_lenient.
