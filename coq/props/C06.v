(* C06 - every partial read agrees with the corresponding part of the full read.
   Only statements here; the model is theories/Dataset/Read.v (impl model of api.py's read side),
   the specification vocabulary theories/Dataset/ReadSpec.v, the proofs theories/Proofs/ReadProofs.v.

   Standing assumptions, explicit in every statement that needs them:
     wf      : the row count the metadata reports for a row group is the number of rows its chunks
               hold (established by the writer: C01/C17; the MODEL refuses a read where it fails -
               C06_count_mismatch_refused; see the remark there about the real reader)
     deqb/neqb reflect equality (ThriftObject.__eq__ is structural; str.__eq__)
     deser (ser l) = Some l : pickling a handle goes through the thrift serialiser (C10's round trip)
   Everything is quantified over ALL datasets (any number and sizes of row groups incl. empty ones),
   ALL slices/picks (any start/stop/step incl. negative, out of range, None), ALL n, ALL column lists,
   and compositions of ANY length.                                                                  *)
From Coq Require Import List ZArith Arith Bool.
From Pq Require Import Base.Bytes Dataset.Read Dataset.ReadSpec Proofs.ReadProofs.
Import ListNotations.
Close Scope N_scope.

(* to_pandas: the invariant of the row-group loop.  Entered at offset |pre| with the next
   sum(counts) slots untouched, it ends with the groups' rows in order exactly there; the slots
   before (pre) and after (tail) are not written. *)
Theorem C06_full_is_concat_invariant :
  forall (D R : Type) (rows : D -> list R) (nrows : D -> nat) (rgs : list D) (pre tail : list (option R)),
    (forall d, In d rgs -> nrows d = length (rows d)) ->
    fill rows nrows rgs (length pre) (pre ++ repeat None (sum (map nrows rgs)) ++ tail)
    = Some (pre ++ map Some (concat (map rows rgs)) ++ tail).
Proof. exact fill_inv. Qed.
Print Assumptions C06_full_is_concat_invariant.

Theorem C06_full_is_concat :
  forall (D R : Type) (rows : D -> list R) (nrows : D -> nat) (rgs : list D),
    (forall d, In d rgs -> nrows d = length (rows d)) ->
    read_rows rows nrows rgs = Some (map Some (concat (map rows rgs))).
Proof. exact read_rows_full. Qed.
Print Assumptions C06_full_is_concat.

(* after the first k groups (l1): offset = their total count, their rows sit before it, the rest is untouched *)
Theorem C06_state_after_k_groups :
  forall (D R : Type) (rows : D -> list R) (nrows : D -> nat) (l1 l2 : list D),
    (forall d, In d (l1 ++ l2) -> nrows d = length (rows d)) ->
    read_rows rows nrows (l1 ++ l2)
    = fill rows nrows l2 (sum (map nrows l1))
           (map Some (concat (map rows l1)) ++ repeat None (sum (map nrows l2))).
Proof. exact fill_prefix_state. Qed.
Print Assumptions C06_state_after_k_groups.

(* in the MODEL a read succeeds only if every reported count equals the number of rows delivered (numpy refuses the
   assignment into a view of another length).  The real reader refuses when the view is too SHORT; into a view that is too
   LONG it writes the rows it has and leaves the rest of the view unwritten - that case is excluded by the hypothesis
   nrows d = |rows d|, which the harness checks on every dataset it generates. *)
Theorem C06_count_mismatch_refused :
  forall (D R : Type) (rows : D -> list R) (nrows : D -> nat) (rgs : list D) out,
    read_rows rows nrows rgs = Some out -> forall d, In d rgs -> nrows d = length (rows d).
Proof. exact read_rows_some_wf. Qed.
Print Assumptions C06_count_mismatch_refused.

(* Python slicing: what l[start:stop:step] is, for every start/stop/step (None, negative, out of range):
   slicelength elements, element k is l[start' + k*step], and every such position is inside l *)
Theorem C06_py_slice_meaning :
  forall A (l : list A) s r, py_slice s l = Some r ->
  exists start step n, slice_adjust (Z.of_nat (length l)) s = Some (start, step, n) /\
    length r = Z.to_nat n /\
    forall k, k < Z.to_nat n ->
      nth_error r k = nth_error l (Z.to_nat (start + Z.of_nat k * step)%Z) /\
      Z.to_nat (start + Z.of_nat k * step)%Z < length l.
Proof. exact py_slice_spec. Qed.
Print Assumptions C06_py_slice_meaning.

Theorem C06_py_slice_prefix : forall A (l : list A) z, (0 <= z)%Z ->
  py_slice (mk_slice None (Some z) None) l = Some (firstn (Z.to_nat z) l).
Proof. exact py_slice_prefix. Qed.
Theorem C06_py_slice_range : forall A (l : list A) a b, a <= b <= length l ->
  py_slice (mk_slice (Some (Z.of_nat a)) (Some (Z.of_nat b)) None) l = Some (firstn (b - a) (skipn a l)).
Proof. exact py_slice_range. Qed.
Theorem C06_py_pick_meaning : forall A (l : list A) i d,
  py_pick i l = Some d <->
  let len := Z.of_nat (length l) in
  ((0 <= i < len)%Z /\ nth_error l (Z.to_nat i) = Some d) \/
  ((- len <= i < 0)%Z /\ nth_error l (Z.to_nat (i + len)) = Some d).
Proof. exact py_pick_spec. Qed.
Print Assumptions C06_py_slice_prefix. Print Assumptions C06_py_slice_range. Print Assumptions C06_py_pick_meaning.

(* read(pf[s]) = concat of the rows of the row groups the Python slice selects *)
Theorem C06_getitem :
  forall (D R Name : Type) (neqb : Name -> Name -> bool) (rows : D -> list R) (nrows : D -> nat)
         (h : handle D Name) (s : pyslice) (o : ropts Name),
    (forall d, In d (h_rgs h) -> nrows d = length (rows d)) ->
    bind (getitem_slice h s) (fun h' => to_pandas neqb rows nrows h' o) =
    match py_slice s (h_rgs h) with
    | Some l => bind (out_columns neqb (with_rgs h l) o)
                     (fun ci => Ok (mk_frame (fst ci) (snd ci) (map Some (concat (map rows l)))))
    | None => Fail ValueError
    end.
Proof. exact getitem_slice_read. Qed.
Print Assumptions C06_getitem.

Theorem C06_getitem_pick :
  forall (D R Name : Type) (neqb : Name -> Name -> bool) (rows : D -> list R) (nrows : D -> nat)
         (h : handle D Name) (i : Z) (o : ropts Name),
    (forall d, In d (h_rgs h) -> nrows d = length (rows d)) ->
    bind (getitem_pick h i) (fun h' => to_pandas neqb rows nrows h' o) =
    match py_pick i (h_rgs h) with
    | Some d => bind (out_columns neqb (with_rgs h [d]) o)
                     (fun ci => Ok (mk_frame (fst ci) (snd ci) (map Some (rows d))))
    | None => Fail IndexError
    end.
Proof. exact getitem_pick_read. Qed.
Print Assumptions C06_getitem_pick.

(* iteration: every row group with rows, once, in order, with exactly its rows (index(rg) finds an
   EQUAL descriptor, which has the same content); empty frames are dropped *)
Theorem C06_iter :
  forall (D R Name : Type) (deqb : D -> D -> bool) (neqb : Name -> Name -> bool)
         (rows : D -> list R) (nrows : D -> nat),
    (forall a b : D, reflect (a = b) (deqb a b)) ->
    forall (h : handle D Name) (o : ropts Name),
    (forall d, In d (h_rgs h) -> nrows d = length (rows d)) ->
    iter_row_groups deqb neqb rows nrows h o =
    match h_rgs h with
    | [] => Ok []
    | _ => bind (out_columns neqb h o) (fun ci =>
             Ok (filter (fun f => negb (frame_empty f))
                        (map (fun d => mk_frame (fst ci) (snd ci) (map Some (rows d))) (h_rgs h))))
    end.
Proof. exact iter_spec. Qed.
Print Assumptions C06_iter.

Theorem C06_iter_concat :
  forall (D R Name : Type) (deqb : D -> D -> bool) (neqb : Name -> Name -> bool)
         (rows : D -> list R) (nrows : D -> nat),
    (forall a b : D, reflect (a = b) (deqb a b)) ->
    forall (h : handle D Name) (o : ropts Name) (fs : list (frame R Name)),
    (forall d, In d (h_rgs h) -> nrows d = length (rows d)) ->
    iter_row_groups deqb neqb rows nrows h o = Ok fs ->
    (exists f, In f fs) \/ (forall ci, out_columns neqb h o = Ok ci -> fst ci <> []) ->
    concat (map f_rows fs) = map Some (concat (map rows (h_rgs h))).
Proof. exact iter_concat. Qed.
Print Assumptions C06_iter_concat.

(* head(n) = the first n rows of the full read: every n, every dataset incl. zero row groups (repaired code) *)
Theorem C06_head :
  forall (D R Name : Type) (neqb : Name -> Name -> bool) (rows : D -> list R) (nrows : D -> nat)
         (h : handle D Name) (n : nat) (o : ropts Name),
    (forall d, In d (h_rgs h) -> nrows d = length (rows d)) ->
    head neqb rows nrows h n o = bind (to_pandas neqb rows nrows h o) (fun f => Ok (frame_head n f)).
Proof. exact head_spec. Qed.
Print Assumptions C06_head.

(* the pinned tree (loop variable unbound): fails on every dataset without row groups, for every n *)
Theorem C06_head_empty_refuted :
  forall (D R Name : Type) (neqb : Name -> Name -> bool) (rows : D -> list R) (nrows : D -> nat)
         (h : handle D Name) (n : nat) (o : ropts Name),
    h_rgs h = [] -> head_pinned neqb rows nrows h n o = Fail UnboundLocalError.
Proof. exact head_pinned_empty. Qed.
Theorem C06_head_pinned_elsewhere :
  forall (D R Name : Type) (neqb : Name -> Name -> bool) (rows : D -> list R) (nrows : D -> nat)
         (h : handle D Name) (n : nat) (o : ropts Name),
    h_rgs h <> [] -> head_pinned neqb rows nrows h n o = head neqb rows nrows h n o.
Proof. exact head_pinned_nonempty. Qed.
Print Assumptions C06_head_empty_refuted. Print Assumptions C06_head_pinned_elsewhere.

(* reported counts = rows actually read, for any handle (hence per slice / per pick) *)
Theorem C06_counts :
  forall (D R Name : Type) (neqb : Name -> Name -> bool) (rows : D -> list R) (nrows : D -> nat)
         (h : handle D Name) (o : ropts Name) (f : frame R Name),
    to_pandas neqb rows nrows h o = Ok f -> length (f_rows f) = count nrows h.
Proof. exact count_is_rows_read. Qed.
Theorem C06_len_of_slice :
  forall (D Name : Type) (h h' : handle D Name) (s : pyslice), getitem_slice h s = Ok h' ->
    exists start step n, slice_adjust (Z.of_nat (len h)) s = Some (start, step, n) /\ len h' = Z.to_nat n.
Proof. exact len_slice. Qed.
Print Assumptions C06_counts. Print Assumptions C06_len_of_slice.

(* columns: a duplicate-free list of available columns comes back in the requested order; with an explicit
   index drawn from the available columns (stored or partition) the index columns are removed from the data
   columns; the rows never
   depend on the column choice *)
Theorem C06_columns :
  forall (D Name : Type) (neqb : Name -> Name -> bool), (forall a b : Name, reflect (a = b) (neqb a b)) ->
  forall (h : handle D Name) (req : list Name),
    NoDup req -> incl req (h_cols h ++ cats_of h) ->
    out_columns neqb h (mk_ropts (Some req) IdxFalse) = Ok (req, []).
Proof. exact out_columns_subset. Qed.
Theorem C06_columns_with_index :
  forall (D Name : Type) (neqb : Name -> Name -> bool), (forall a b : Name, reflect (a = b) (neqb a b)) ->
  forall (h : handle D Name) (req idx : list Name),
    NoDup req -> incl req (h_cols h ++ cats_of h) -> incl idx (h_cols h ++ cats_of h) ->
    out_columns neqb h (mk_ropts (Some req) (IdxNames idx))
    = Ok (filter (fun c => negb (mem neqb c idx)) req, idx).
Proof. exact out_columns_requested. Qed.
(* the pinned tree kept a partition column that was chosen as index among the data columns as well
   (and never filled the index: replayed on the real code by the harness; repaired by fix 7fbe445) *)
Theorem C06_partition_index_refuted :
  forall (D Name : Type) (neqb : Name -> Name -> bool), (forall a b : Name, reflect (a = b) (neqb a b)) ->
  forall (h : handle D Name) (c p : Name),
    h_rgs h <> [] -> h_cols h = [c] -> h_pcols h = [p] -> c <> p ->
    out_columns_pinned neqb h (mk_ropts (Some [c; p]) (IdxNames [p])) = Ok ([c; p], [p]).
Proof. exact out_columns_pinned_keeps_index_column. Qed.
Theorem C06_columns_rows_independent :
  forall (D R Name : Type) (neqb : Name -> Name -> bool) (rows : D -> list R) (nrows : D -> nat)
         (h : handle D Name) (o1 o2 : ropts Name) (f1 f2 : frame R Name),
    to_pandas neqb rows nrows h o1 = Ok f1 -> to_pandas neqb rows nrows h o2 = Ok f2 -> f_rows f1 = f_rows f2.
Proof. exact rows_independent_of_columns. Qed.
Print Assumptions C06_columns. Print Assumptions C06_columns_with_index. Print Assumptions C06_partition_index_refuted. Print Assumptions C06_columns_rows_independent.

(* THE PROPERTY, for compositions of any length: running any sequence of handle operations
   (slice, pick, pickle, copy, deepcopy) followed by any read (to_pandas / iter_row_groups / head n /
   count / len, any column and index options) on the implementation model gives exactly what the
   specification computes from the FULL READ alone, cut at the reported per-row-group counts. *)
Theorem C06_programs :
  forall (D R Name B : Type) (deqb : D -> D -> bool) (neqb : Name -> Name -> bool)
         (rows : D -> list R) (nrows : D -> nat) (ser : list D -> B) (deser : B -> option (list D)),
    (forall a b : D, reflect (a = b) (deqb a b)) ->
    (forall l, deser (ser l) = Some l) ->
    forall (h : handle D Name) (ops : list hop) (r : rd Name),
    (forall d, In d (h_rgs h) -> nrows d = length (rows d)) ->
    run_prog deqb neqb rows nrows ser deser h ops r
    = spec_run neqb (h_cols h) (h_pcols h) (h_index h)
               (chunks (map nrows (h_rgs h)) (concat (map rows (h_rgs h)))) ops r.
Proof. exact programs_spec. Qed.
Print Assumptions C06_programs.

(* pickle / copy / deepcopy: the restored handle is the handle, hence every read through it is the read through
   the original (the thrift round trip deser (ser l) = Some l is C10's theorem, a hypothesis here) *)
Theorem C06_pickle :
  forall (D Name B : Type) (ser : list D -> B) (deser : B -> option (list D)),
    (forall l, deser (ser l) = Some l) ->
    forall (h : handle D Name) (op : hop), op = HPickle \/ op = HCopy \/ op = HDeepcopy ->
    apply_hop ser deser h op = Ok h.
Proof. exact copies_id. Qed.
Print Assumptions C06_pickle.

(* non-vacuity: a concrete dataset (row groups of 3, 0, 1 and 2 rows, one partition column), the program
   pf[::-1][1:] -> pickle -> iter_row_groups(columns=[c2, c1]) and head(4) of pf[-3:], computed by the model *)
Example C06_nonvacuous :
  let h := mk_handle [[1;2;3]; []; [4]; [5;6]] [10; 11; 12] [20] [] in
  let rn := run_prog (list_eqb Nat.eqb) Nat.eqb (fun d : list nat => d) (@length nat)
                (fun l : list (list nat) => l) (fun b => Some b) in
  rn h [HSlice (mk_slice None None (Some (-1)%Z)); HSlice (mk_slice (Some 1%Z) None None); HPickle]
       (RIter (mk_ropts (Some [12; 10]) IdxFalse))
  = Ok (OFrames [mk_frame [12;10] [] [Some 4]; mk_frame [12;10] [] [Some 1; Some 2; Some 3]])
  /\ rn h [HSlice (mk_slice (Some (-3)%Z) None None)] (RHead 2 (mk_ropts None IdxDefault))
  = Ok (OFrames [mk_frame [10;11;12;20] [] [Some 4; Some 5]])
  /\ rn h [HPick 7%Z] RCount = Fail IndexError
  /\ head_pinned Nat.eqb (fun d : list nat => d) (@length nat) (with_rgs h []) 3 (mk_ropts None IdxDefault)
  = Fail UnboundLocalError.
Proof. vm_compute. repeat split. Qed.

(* Row-group level filters (wave 3): `to_pandas / iter_row_groups / count (filters=F)` read the row groups that
   filter_row_groups keeps; in the programs of C06_programs this is the operation `HKeep m` (m = the decision for each row
   group of the handle, in order - WHAT the decision must be is C05's subject).  C06_programs therefore also states: a
   filtered partial read = the parts of the full read that belong to the kept row groups, for every composition with
   slices, picks, pickling and copies.  What the decision vector selects: *)
Theorem C06_filter_keeps : forall (A : Type) (m : list bool) (l : list A),
  keep_mask m l = map fst (filter snd (combine l m)).
Proof. exact keep_mask_meaning. Qed.
Print Assumptions C06_filter_keeps.
