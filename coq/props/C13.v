(* C13 — row-level filtering returns exactly the rows that satisfy the predicate.
   Only statements here; proofs live in theories/Proofs/RowFilterProofs.v (and, for the leaf decision
   used by the first pass, Proofs/FilterLeafProofs.v).

   The model (Impl/RowFilter.v) is the REPAIRED code (fix: commits listed in notes/C13.md): flat list =
   AND, partition conditions evaluated, missing cells satisfy only != / not in, and the page loop of
   core.read_col with a row mask over v1 and v2 data pages.

   Full statement: for every dataset (any row groups, any split of every chunk into pages, NULLs
   anywhere) and every program, to_pandas(filters, row_filter=True) returns, in the original order,
   exactly the rows of the kept row groups that the row-level predicate selects, with every column
   aligned (each column chunk read through the page loop yields the masked column, C13_mask_pages);
   count(filters, row_filter=True) is its length; no row that satisfies the program is lost
   (C13_complete, with C05's hypotheses on the metadata); a caller-supplied mask selects exactly the
   masked rows.  Rows whose deciding cell is NULL/NaN under != / not in are selected by the row pass
   when their row group is kept (pandas semantics) - the property leaves those rows open.           *)
From Coq Require Import ZArith List String Bool.
From Pq Require Import Base.PyVal Impl.Filter Impl.FilterLeaf Impl.RowFilter
  Proofs.FilterProofs Proofs.FilterLeafProofs Proofs.RowFilterProofs.
Import ListNotations.
Open Scope string_scope.

(* every split of a column chunk into data pages (v1 with or without definition levels, v2), every mask: the
   loop of read_col fills the pre-allocated output with exactly the masked column - no slot left
   uninitialised, none written twice, no shape error *)
Theorem C13_mask_pages : forall (V : Type) (pages : list (pkind * page V)) (row_filter : list bool),
  Forall (wf_page V) pages -> List.length row_filter = List.length (cells V pages) ->
  read_col_masked V row_filter pages = Some (map W (select row_filter (cells V pages))).
Proof. exact read_col_masked_spec. Qed.
Print Assumptions C13_mask_pages.

Theorem C13_exact :
  forall (R : Type) (cell : R -> string -> pv) (fv : pv -> pv -> pv -> pv -> res pv)
         (conv : string -> string -> pv -> pv * pv) known (rgs : list (rowgroup R)) (f : filters) (out : list R),
    rows_consistent R rgs ->
    two_pass R cell fv conv known rgs f = Ok out ->
    exists kept, filter_row_groups R fv conv known rgs f = Ok kept /\
      out = filter (row_keep R cell f) (flat_map rg_rows kept) /\
      count_rows R cell fv conv known rgs f = Ok (List.length out).
Proof. exact two_pass_exact. Qed.
Print Assumptions C13_exact.

(* with the translated leaf decision and C05's hypotheses: nothing that satisfies the program is lost *)
Theorem C13_complete :
  forall (R : Type) (cell : R -> string -> pv) (conv : string -> string -> pv -> pv * pv)
         known (rgs : list (rowgroup R)) (f : filters) (out : list R),
    prog_good all_ops (normalize f) ->
    (forall rg, In rg rgs -> rg_valid R cell conv (normalize f) rg) ->
    rows_consistent R rgs ->
    two_pass R cell filter_val conv known rgs f = Ok out ->
    forall r, In r (flat_map rg_rows rgs) -> sat_dnf R cell r (normalize f) = true -> In r out.
Proof. intros R cell conv known rgs f out. exact (two_pass_complete R cell filter_val conv all_ops known rgs f out leaf_all_sound). Qed.
Print Assumptions C13_complete.

(* when no cell the program looks at is missing (and the operators are the nine of the grammar), the
   two-pass read is the filter of ALL rows of the dataset, in order: pruning removes nothing the row
   predicate would select *)
Theorem C13_exact_all_rows :
  forall (R : Type) (cell : R -> string -> pv) (conv : string -> string -> pv -> pv * pv)
         known (rgs : list (rowgroup R)) (f : filters) (out : list R),
    prog_good all_ops (normalize f) ->
    (forall rg, In rg rgs -> rg_valid R cell conv (normalize f) rg) ->
    rows_consistent R rgs ->
    (forall r, In r (flat_map rg_rows rgs) -> decided_row R cell (normalize f) r) ->
    two_pass R cell filter_val conv known rgs f = Ok out ->
    out = filter (row_keep R cell f) (flat_map rg_rows rgs).
Proof. intros R cell conv known rgs f out. exact (two_pass_all_rows R cell filter_val conv all_ops known rgs f out leaf_all_sound). Qed.
Print Assumptions C13_exact_all_rows.

(* on a cell that holds a value the row-level test is the meaning of the condition *)
Theorem C13_selected_rows_satisfy : forall op x c, In op ops -> is_none x = false ->
  cond_cell op x c = Ok true -> sat op x c = true.
Proof. exact cond_cell_nonnull. Qed.
Print Assumptions C13_selected_rows_satisfy.

(* the "~" operator is part of the row-level model (so C13_exact / C13_custom_mask speak about programs that use it):
   it selects exactly the rows whose cell holds a value that is falsy; the first pass never prunes on it (the translated
   leaf answers "keep" for an operator it does not know, see the non-vacuity example) *)
Theorem C13_tilde_meaning : forall x c,
  cond_cell "~" x c = Ok (if is_none x then false else negb (truthy x)).
Proof. exact cond_cell_tilde. Qed.
Print Assumptions C13_tilde_meaning.

Theorem C13_custom_mask : forall (R : Type) (rgs : list (rowgroup R)) (mask : list bool) (out : list R),
  rows_consistent R rgs -> masked_read R rgs mask = Ok out ->
  List.length mask = List.length (flat_map rg_rows rgs) /\ out = select mask (flat_map rg_rows rgs).
Proof. exact masked_read_exact. Qed.
Print Assumptions C13_custom_mask.

(* the page loop of the pinned tree (repaired by a fix: commit): an unselected first page leaves the
   output uninitialised; a NULL before a page boundary shifts the mask *)
Theorem C13_mask_pages_pinned_refuted :
  exists (pages : list (pkind * page Z)) (rf : list bool),
    Forall (wf_page Z) pages /\ List.length rf = List.length (cells Z pages) /\
    read_col_masked_pinned Z rf pages = Some [Uninit; Uninit] /\
    select rf (cells Z pages) = [Some 3%Z; Some 4%Z].
Proof. exact read_col_masked_pinned_refuted. Qed.
Print Assumptions C13_mask_pages_pinned_refuted.

Theorem C13_mask_nulls_pinned_refuted :
  exists (pages : list (pkind * page Z)) (rf : list bool),
    Forall (wf_page Z) pages /\ List.length rf = List.length (cells Z pages) /\
    read_col_masked_pinned Z rf pages = Some [W None; W (Some 1%Z); W (Some 2%Z)] /\
    select rf (cells Z pages) = [None; Some 1%Z; Some 3%Z].
Proof. exact read_col_masked_pinned_nulls_refuted. Qed.
Print Assumptions C13_mask_nulls_pinned_refuted.

(* non-vacuity: three pages (v1 without definition levels, v1 with nothing selected, v2 with NULLs), and a
   two-pass read over two row groups with a flat (AND) program on a data and a NULL-holding column *)
Example C13_nonvacuous :
  read_col_masked Z [true; false; false; false; true; true; false; true]
    [(V1nodefi, [Some 1; Some 2]); (V1defi, [None; Some 4]); (V2, [None; Some 6; Some 7; None])]%Z
  = Some [W (Some 1); W None; W (Some 6); W None]%Z
  /\ two_pass_ids filter_val [] ["x"; "y"]
       [ {| rg_num_rows := 3; rg_columns := [{| c_name := "x"; c_num_values := 3;
              c_stats := Some {| st_null_count := Some 0%Z; st_min := PInt 0; st_max := PInt 2 |} |}];
            rg_parts := None;
            rg_rows := [(0, [("x", PInt 0); ("y", PNone)]); (1, [("x", PInt 1); ("y", PInt 5)]); (2, [("x", PInt 2); ("y", PInt 5)])]%Z |};
         {| rg_num_rows := 2; rg_columns := [{| c_name := "x"; c_num_values := 2;
              c_stats := Some {| st_null_count := Some 0%Z; st_min := PInt 7; st_max := PInt 9 |} |}];
            rg_parts := None;
            rg_rows := [(3, [("x", PInt 7); ("y", PInt 5)]); (4, [("x", PInt 9); ("y", PInt 5)])]%Z |} ]
       (Flat [("x", "<=", PInt 2); ("y", "==", PInt 5)])%Z
    = Ok [1; 2]%Z.
Proof. split; vm_compute; reflexivity. Qed.
