(* C08 — directory-partitioned write/read preserves every row and every partition value.
   Only statements here; models in theories/Impl/Partition.v, proofs in theories/Proofs/Partition*.v.

   The external text conversions (Python repr/float(), Timestamp.isoformat / np.datetime64, ...) are
   Section variables: they are the trusted base named in the evidence.  Everything about integers,
   booleans, text, categorical labels, paths, the group-by split and the index lookup is proved.   *)
From Coq Require Import NArith ZArith Bool Ascii String List Permutation.
From Pq Require Import Base.Bytes Impl.Partition Proofs.PartitionStr Proofs.PartitionProofs Proofs.PartitionE2E Proofs.PartitionNulls Impl.PartHandle Proofs.PartHandleProofs Proofs.PartitionMixed.
Import ListNotations.

Section C08.
  Variables F T D : Type.
  Variable feqb : F -> F -> bool.
  Variable teqb : T -> T -> bool.
  Variable deqb : D -> D -> bool.
  Variable f_eq_Z : F -> Z -> bool.
  Variable show_float : F -> str.
  Variable parse_float : bool -> str -> option F.
  Variable show_time_iso show_time_str : T -> str.
  Variable parse_time_np : bool -> str -> option T.
  Variable parse_time_fmt parse_time_pd : str -> option T.
  Variable parse_delta : str -> option D.
  Hypothesis feqb_spec : forall a b, reflect (a = b) (feqb a b).
  Hypothesis teqb_spec : forall a b, reflect (a = b) (teqb a b).
  Hypothesis deqb_spec : forall a b, reflect (a = b) (deqb a b).
  Variable P : Type.

  Notation value := (value F T D).
  Notation show := (show F T D show_float show_time_iso show_time_str).
  Notation veqb := (veqb F T D feqb teqb deqb f_eq_Z).
  Notation parse_with_meta := (parse_with_meta F T D parse_float parse_time_np parse_time_fmt).
  Notation parse_guess := (parse_guess F T D parse_float parse_time_pd parse_delta).

  (* ---- the hypothesis "parse (show v) = v" of C08_multiset, PROVED for integers, booleans, text *)
  Theorem C08_int_text_roundtrip : forall sg bits z hive, in_range sg bits z = true ->
    parse_with_meta (KInt sg bits) (show hive (VInt z)) = Ok (VInt z).
  Proof. exact (roundtrip_int F T D show_float parse_float show_time_iso show_time_str parse_time_np parse_time_fmt). Qed.

  Theorem C08_python_int_of_str : forall z, parse_int (show_Z z) = Some z.
  Proof. exact parse_int_show_Z. Qed.

  Theorem C08_bool_text_roundtrip : forall b hive, parse_with_meta KBool (show hive (VBool b)) = Ok (VBool b).
  Proof. exact (roundtrip_bool F T D show_float parse_float show_time_iso show_time_str parse_time_np parse_time_fmt). Qed.

  Theorem C08_str_text_roundtrip : forall s hive,
    parse_with_meta KStr (show hive (VStr s)) = Ok (VStr s) /\
    parse_with_meta (KCat None) (show hive (VCat (VStr s))) = Ok (VStr s) /\
    parse_with_meta (KCat (Some KStr)) (show hive (VCat (VStr s))) = Ok (VStr s).
  Proof. intros s hive. repeat split; reflexivity. Qed.

  (* floats / timestamps: reduced to the external conversions (trusted base) *)
  Theorem C08_float_time_roundtrip_conditional : forall hive f t ns single,
    (parse_float single (show_float f) = Some f -> parse_with_meta (KFloat single) (show hive (VFloat f)) = Ok (VFloat f)) /\
    (parse_time_np false (show_time_iso t) = Some t -> parse_with_meta (KTime ns) (show true (VTime t)) = Ok (VTime t)) /\
    (parse_time_np true (show_time_iso t) = Some t -> parse_with_meta KTimeTz (show true (VTime t)) = Ok (VTime t)).
  Proof.
    intros hive f t ns single. split; [|split].
    - exact (roundtrip_float F T D show_float parse_float show_time_iso show_time_str parse_time_np parse_time_fmt f hive single).
    - exact (roundtrip_time F T D show_float parse_float show_time_iso show_time_str parse_time_np parse_time_fmt t ns).
    - exact (roundtrip_timetz F T D show_float parse_float show_time_iso show_time_str parse_time_np parse_time_fmt t).
  Qed.

  (* drill / no metadata: the text of an integer is guessed back as that integer *)
  Theorem C08_guess_int : forall z, parse_guess (show_Z z) = VInt z.
  Proof. exact (guess_int F T D parse_float parse_time_pd parse_delta). Qed.

  (* repaired defect (was finding C08-categorical-numeric-labels): the writer now records the type of the labels of a
     categorical partition column (key 'labels' of its metadata), and the reader converts the directory text with it.
     A label comes back whenever a plain value of the recorded type does - in particular every integer label: *)
  Theorem C08_categorical_labels_roundtrip : forall k v hive,
    parse_base F T D parse_float parse_time_np parse_time_fmt k (show hive v) = Ok v ->
    parse_with_meta (KCat (Some k)) (show hive (VCat v)) = Ok v.
  Proof. intros k v hive H. exact H. Qed.

  Theorem C08_categorical_int_labels_roundtrip : forall sg bits z hive, in_range sg bits z = true ->
    parse_with_meta (KCat (Some (KInt sg bits))) (show hive (VCat (VInt z))) = Ok (VInt z).
  Proof.
    intros sg bits z hive H.
    exact (roundtrip_int F T D show_float parse_float show_time_iso show_time_str parse_time_np parse_time_fmt sg bits z hive H).
  Qed.

  (* files of older writers carry no label type: their numeric labels still come back as text *)
  Theorem C08_categorical_numeric_unrecorded_refuted : exists v hive,
    parse_with_meta (KCat None) (show hive (VCat v)) <> Ok v.
  Proof. exists (VInt 1), true. cbn. discriminate. Qed.

  (* ---- group-by split: no row with non-null keys lost or duplicated, for every frame *)
  Theorem C08_groupby_partition : forall rows : list (row F T D P),
    Permutation (concat (map snd (group_by F T D feqb teqb deqb f_eq_Z P rows)))
                (filter (nonnull F T D P) rows).
  Proof. exact (group_by_perm F T D feqb teqb deqb f_eq_Z P). Qed.

  (* ---- cats[cat].index(val) returns the position of val itself *)
  Theorem C08_index_lookup : forall k (v : value) (l : list value),
    of_kind F T D k v -> Forall (of_kind F T D k) l -> existsb (veqb v) l = true ->
    exists i, index_of veqb v l = Some i /\ nth_error l i = Some v.
  Proof.
    exact (index_lookup F T D feqb teqb deqb f_eq_Z show_float parse_float show_time_iso show_time_str
             parse_time_np parse_time_fmt parse_time_pd parse_delta feqb_spec teqb_spec).
  Qed.

  (* ---- C08_multiset, hive.  For EVERY frame (list of rows = optional key per partition column + payload),
     EVERY split into row groups `chunks`, EVERY number >= 1 of partition columns `names` (distinct, legal
     segment text), EVERY iteration order `ord` of the set of directories: if every non-null key value v of
     column n is admissible (Pv_hive: the metadata block gives a kind k for n, v is of that kind [wf], its
     text is a legal path segment, and the text converts back: parse_with_meta k (show v) = Ok (unwrap v) -
     proved above for integers, booleans, text, text categoricals; an assumption about Python/numpy for
     floats and timestamps), then reading what was written succeeds, detects the hive scheme, and returns -
     as a multiset - exactly the rows with non-null keys, each with its partition columns under their
     original names with their original values (categoricals: their labels).                          *)
  Theorem C08_multiset_hive :
    forall (pm : list (str * kind)) (names : list str), NoDup names -> names <> [] -> Forall legal names ->
    forall ord : list str -> list str, (forall l x, In x (ord l) <-> In x l) ->
    forall chunks : list (list (row F T D P)),
    frame_ok F T D P names (Pv_hive F T D show_float parse_float show_time_iso show_time_str parse_time_np parse_time_fmt pm) (concat chunks) ->
    exists sch out,
      read_model F T D feqb teqb deqb f_eq_Z parse_float parse_time_np parse_time_fmt parse_time_pd parse_delta P pm ord
        (write_model F T D feqb teqb deqb f_eq_Z show_float show_time_iso show_time_str P true names chunks) = Some (sch, out) /\
      Permutation out (map (expect F T D P names (unwrap F T D)) (filter (nonnull F T D P) (concat chunks))) /\
      (filter (nonnull F T D P) (concat chunks) <> [] -> sch = Hive).
  Proof.
    exact (hive_e2e F T D feqb teqb deqb f_eq_Z show_float parse_float show_time_iso show_time_str
             parse_time_np parse_time_fmt parse_time_pd parse_delta feqb_spec teqb_spec deqb_spec P).
  Qed.

  (* every stored row has non-null keys and lies in the directory named by its own key; the stored rows
     are, as a multiset, the rows with non-null keys (so: in that directory and nowhere else) *)
  Theorem C08_placement_hive :
    forall (pm : list (str * kind)) (names : list str) (chunks : list (list (row F T D P))),
    frame_ok F T D P names (Pv_hive F T D show_float parse_float show_time_iso show_time_str parse_time_np parse_time_fmt pm) (concat chunks) ->
    let files := write_model F T D feqb teqb deqb f_eq_Z show_float show_time_iso show_time_str P true names chunks in
    Permutation (concat (map snd files)) (filter (nonnull F T D P) (concat chunks)) /\
    forall f r, In f files -> In r (snd f) ->
      nonnull F T D P r = true /\
      exists i, fst f = rel_path F T D show_float show_time_iso show_time_str true names (key_of F T D P r) (part_name i).
  Proof.
    exact (hive_placement F T D feqb teqb deqb f_eq_Z show_float parse_float show_time_iso show_time_str
             parse_time_np parse_time_fmt parse_time_pd parse_delta feqb_spec teqb_spec deqb_spec P).
  Qed.

  (* ---- C08_multiset, drill: every level holds values of ONE class (lk): integers, booleans, text that no guess of
     _val_to_num converts - all three proved - or floats / timestamps whose text the guesses convert back to the value
     (parse_guess (str v) = v: a hypothesis about float(), pd.Timestamp() per value, trusted base).  Pv_drill: non-empty
     legal segment text; the metadata pm of the file is arbitrary - it plays no role for drill since fix b6723cb.
     A TEXT level may also hold timedelta texts in their canonical spelling (class LDelta, wave 3): texts `show_delta d` that
     pd.Timedelta converts back (parse_guess (show_delta d) = VDelta d, same kind of hypothesis) come back as the timedeltas.
     The levels come back as dir0, dir1, ... with the guessed value of the key text.  Levels mixing classes are not
     covered by this theorem (text mixed with other classes reads back as text since fix 2ae7489).              *)
  Theorem C08_multiset_drill :
    forall (pm : list (str * kind)) (names : list str), names <> [] ->
    forall ord : list str -> list str, (forall l x, In x (ord l) <-> In x l) ->
    forall (lk : str -> lclass) (show_delta : D -> str) (chunks : list (list (row F T D P))),
    frame_ok F T D P (dnames names) (Pv_drill F T D show_float parse_float show_time_iso show_time_str parse_time_pd parse_delta lk show_delta) (concat chunks) ->
    exists sch out,
      read_model F T D feqb teqb deqb f_eq_Z parse_float parse_time_np parse_time_fmt parse_time_pd parse_delta P pm ord
        (write_model F T D feqb teqb deqb f_eq_Z show_float show_time_iso show_time_str P false names chunks) = Some (sch, out) /\
      Permutation out (map (expect F T D P (dnames names) (rv_drill F T D show_float parse_float show_time_iso show_time_str parse_time_pd parse_delta))
                           (filter (nonnull F T D P) (concat chunks))) /\
      (filter (nonnull F T D P) (concat chunks) <> [] -> sch = Drill).
  Proof.
    exact (drill_e2e F T D feqb teqb deqb f_eq_Z show_float parse_float show_time_iso show_time_str
             parse_time_np parse_time_fmt parse_time_pd parse_delta feqb_spec teqb_spec deqb_spec P).
  Qed.

  Theorem C08_placement_drill :
    forall (names : list str) (lk : str -> lclass) (show_delta : D -> str) (chunks : list (list (row F T D P))),
    frame_ok F T D P (dnames names) (Pv_drill F T D show_float parse_float show_time_iso show_time_str parse_time_pd parse_delta lk show_delta) (concat chunks) ->
    let files := write_model F T D feqb teqb deqb f_eq_Z show_float show_time_iso show_time_str P false names chunks in
    Permutation (concat (map snd files)) (filter (nonnull F T D P) (concat chunks)) /\
    forall f r, In f files -> In r (snd f) ->
      nonnull F T D P r = true /\
      exists i, fst f = rel_path F T D show_float show_time_iso show_time_str false names (key_of F T D P r) (part_name i).
  Proof.
    exact (drill_placement F T D feqb teqb deqb f_eq_Z show_float parse_float show_time_iso show_time_str
             parse_time_pd parse_delta feqb_spec teqb_spec deqb_spec P).
  Qed.

  (* ---- rows with a NULL partition key, with NO hypothesis on the values (wave 3; Proofs/PartitionNulls.v) ----
     pandas' groupby drops them; the model says so explicitly and the tie (write_model ~ the written tree; oracle "rows with
     a NULL key nowhere") checks it on every generated frame, incl. the regression stream "one distinct key + NULLs". *)
  Theorem C08_null_keys_nowhere : forall hive names (chunks : list (list (row F T D P))) path rows r,
    In (path, rows) (write_model F T D feqb teqb deqb f_eq_Z show_float show_time_iso show_time_str P hive names chunks) ->
    In r rows -> nonnull F T D P r = true.
  Proof. exact (null_rows_nowhere F T D feqb teqb deqb f_eq_Z show_float show_time_iso show_time_str P). Qed.

  (* a row group whose rows with all keys present carry ONE key (and any number of rows with NULL keys in between): exactly one
     file, dir(key)/part.i.parquet, holding exactly the rows without NULL key in frame order; all keys NULL: no file at all *)
  Theorem C08_single_key_with_nulls : forall hive names i (rows : list (row F T D P)) r0 rest,
    filter (nonnull F T D P) rows = r0 :: rest ->
    (forall r, In r rows -> nonnull F T D P r = true ->
               keys_eqb F T D feqb teqb deqb f_eq_Z (key_of F T D P r) (key_of F T D P r0) = true) ->
    write_chunk F T D feqb teqb deqb f_eq_Z show_float show_time_iso show_time_str P hive names i rows
    = [(rel_path F T D show_float show_time_iso show_time_str hive names (key_of F T D P r0) (part_name i),
        filter (nonnull F T D P) rows)].
  Proof. exact (write_chunk_single_key F T D feqb teqb deqb f_eq_Z show_float show_time_iso show_time_str P). Qed.

  Theorem C08_all_null_chunk_writes_nothing : forall hive names i (rows : list (row F T D P)),
    (forall r, In r rows -> nonnull F T D P r = false) ->
    write_chunk F T D feqb teqb deqb f_eq_Z show_float show_time_iso show_time_str P hive names i rows = [].
  Proof. exact (write_chunk_all_null F T D feqb teqb deqb f_eq_Z show_float show_time_iso show_time_str P). Qed.

  (* ---- one handle, edited through its own methods (wave 3; Impl/PartHandle.v) ----
     ParquetFile.write_row_groups / remove_row_groups change the row groups and re-derive scheme and cats (_set_attrs).  For EVERY
     dataset, EVERY sequence of appends and removals through the handle, the read through the handle - which uses the partition state
     STORED on the handle - is the read of a freshly opened handle on the files it then has; with C08_multiset_* the rows and
     partition values are then right after any such program.  Tie: stream F (programs on one handle vs a fresh handle vs read_model). *)
  Theorem C08_handle_programs : forall (pm : list (str * kind)) (ord : list str -> list str)
      (fs : list (str * list (row F T D P))) (ops : list (edit F T D P)),
    h_read F T D feqb teqb deqb f_eq_Z parse_float parse_time_np parse_time_fmt parse_time_pd parse_delta P pm
      (fold_left (h_edit F T D feqb teqb deqb f_eq_Z parse_float parse_time_np parse_time_fmt parse_time_pd parse_delta P pm ord) ops
                 (h_open F T D feqb teqb deqb f_eq_Z parse_float parse_time_np parse_time_fmt parse_time_pd parse_delta P pm ord fs))
    = read_model F T D feqb teqb deqb f_eq_Z parse_float parse_time_np parse_time_fmt parse_time_pd parse_delta P pm ord
        (fold_left (apply_edit F T D P) ops fs).
  Proof. exact (handle_program F T D feqb teqb deqb f_eq_Z parse_float parse_time_np parse_time_fmt parse_time_pd parse_delta P). Qed.

  (* ---- drill levels that MIX classes (wave 3; Proofs/PartitionMixed.v): what the reader guarantees, for EVERY list of drill directories,
     with no hypothesis on the values.  A level holding ANY text that no guess of _val_to_num converts is text as a whole (fix 2ae7489):
     api._path_to_cats labels it with exactly the directory texts of that level - including the values it had converted before it met the
     first text - and core.read_row_group then gives a row group the text of its own directory without converting it.  (Levels without any
     text keep the guessed values merged under Python's ==: exercised by the correspondence and the drill rule of the oracle only.) *)
  Theorem C08_drill_mixed_level_is_text : forall (pps : list (str * list str)) cats,
    path_to_cats F T D feqb teqb deqb f_eq_Z parse_float parse_time_np parse_time_fmt parse_time_pd parse_delta false [] pps = Ok cats ->
    forall pp i x', In pp pps -> nth_error (snd pp) i = Some x' ->
    is_vstr F T D (parse_guess x') = true ->
    (exists labels, In (dir_name i, labels) cats) /\
    forall labels, In (dir_name i, labels) cats ->
      exists xs, labels = map (@VStr F T D) xs /\
                 (forall x, In x xs <-> exists pp', In pp' pps /\ In (dir_name i, x) (drill_hits (snd pp'))).
  Proof. exact (drill_text_level F T D feqb teqb deqb f_eq_Z parse_float parse_time_np parse_time_fmt parse_time_pd parse_delta). Qed.

  Theorem C08_text_level_reads_own_directory : forall hive pm path k xs x tail,
    filter (fun p => match p with k0 :: _ => str_eqb k0 k | [] => false end) (row_partitions hive path) = [k; x] :: tail ->
    In x xs ->
    row_cell F T D feqb teqb deqb f_eq_Z parse_float parse_time_np parse_time_fmt parse_time_pd parse_delta hive pm path (k, map (@VStr F T D) xs)
    = Some (k, VStr x).
  Proof. exact (text_level_read F T D feqb teqb deqb f_eq_Z parse_float parse_time_np parse_time_fmt parse_time_pd parse_delta). Qed.

  (* ---- drill levels WITHOUT any text (wave 4): integers mixed with floats / booleans / dates, or text that all looks like them.  The
     labels are guesses of the level's directory texts, and a row group reads a label that is == (Python's ==: 1 == 1.0 == True) to the guess
     of its own directory text - numerically equal, not necessarily of the same kind. *)
  Theorem C08_drill_numeric_level : forall (hits : list (str * str)) st,
    fold_left (add_hit F T D feqb teqb deqb f_eq_Z parse_float parse_time_np parse_time_fmt parse_time_pd parse_delta []) hits (Ok (st0 F T D)) = Ok st ->
    forall k, (forall x', In (k, x') hits -> is_vstr F T D (parse_guess x') = false) ->
    forall x, In (k, x) hits ->
    exists labels, In (k, labels) (final_cats F T D st) /\
      (forall v, In v labels -> exists x0, In (k, x0) hits /\ v = parse_guess x0) /\
      exists i v, index_of veqb (parse_guess x) labels = Some i /\ nth_error labels i = Some v /\ veqb (parse_guess x) v = true.
  Proof.
    exact (drill_numeric_level F T D feqb teqb deqb f_eq_Z parse_float parse_time_np parse_time_fmt parse_time_pd parse_delta feqb_spec teqb_spec deqb_spec).
  Qed.
End C08.

(* ... and "the guessed value ITSELF comes back" is false on the faithful model: directories 1 and True, the rows of True read the integer 1
   (the oracle's drill rule accepts exactly this: the key text, its guess, or a number equal to the guess) *)
Theorem C08_drill_numeric_level_exact_refuted :
  exists rows, cread [] (cwrite false [s_ "k"] [rows])
             = Some (Drill, [([(s_ "dir0", VInt 1)], 0%nat); ([(s_ "dir0", VInt 1)], 1%nat)])
             /\ parse_guess E0 E0 E0 (fun _ _ => None) (fun _ => None) (fun _ => None) (s_ "True") = VBool true.
Proof. exact numeric_level_exact_refuted. Qed.
Print Assumptions C08_drill_numeric_level_exact_refuted.
Print Assumptions C08_drill_numeric_level.

Print Assumptions C08_drill_mixed_level_is_text.
Print Assumptions C08_text_level_reads_own_directory.

(* the same edit WITHOUT re-deriving the stored partition state (anything cached on the handle that an edit does not refresh):
   the read through the handle differs from the fresh read - computed witness: k=a on disk, k=b appended through the handle *)
Theorem C08_handle_stale_state_refuted :
  exists (fs : list (str * list (row E0 E0 E0 nat))) (e : edit E0 E0 E0 nat),
    c_h_read (h_edit_stale E0 E0 E0 nat (c_h_open fs) e) <> cread [(s_ "k", KStr)] (apply_edit E0 E0 E0 nat fs e).
Proof. exact handle_stale_state_refuted. Qed.
Print Assumptions C08_handle_stale_state_refuted.
Print Assumptions C08_handle_programs.

Print Assumptions C08_null_keys_nowhere.
Print Assumptions C08_single_key_with_nulls.
Print Assumptions C08_all_null_chunk_writes_nothing.
Print Assumptions C08_int_text_roundtrip.
Print Assumptions C08_python_int_of_str.
Print Assumptions C08_bool_text_roundtrip.
Print Assumptions C08_str_text_roundtrip.
Print Assumptions C08_float_time_roundtrip_conditional.
Print Assumptions C08_guess_int.
Print Assumptions C08_categorical_labels_roundtrip.
Print Assumptions C08_categorical_int_labels_roundtrip.
Print Assumptions C08_categorical_numeric_unrecorded_refuted.
Print Assumptions C08_groupby_partition.
Print Assumptions C08_index_lookup.

Print Assumptions C08_multiset_hive.
Print Assumptions C08_placement_hive.
Print Assumptions C08_multiset_drill.
Print Assumptions C08_placement_drill.

(* repaired defect (fix: commit, was finding C08-drill-mixed-text): a drill level holding plain text AND
   number-looking text is text as a whole and reads back as the path texts - computed on the closed
   instance of the model (no floats/timestamps); on the model of the old code this read raised *)
Example C08_drill_mixed_text_repaired :
  cread [] (cwrite false [s_ "k"] [[([Some (VStr (s_ "a"))], 0%nat); ([Some (VStr (s_ "2"))], 1%nat); ([Some (VStr (s_ "2"))], 2%nat)]])
  = Some (Drill, [([(s_ "dir0", VStr (s_ "a"))], 0%nat); ([(s_ "dir0", VStr (s_ "2"))], 1%nat); ([(s_ "dir0", VStr (s_ "2"))], 2%nat)]).
Proof. vm_compute. reflexivity. Qed.

(* the hypotheses of C08_multiset_hive are satisfiable and the conclusion is what one expects: a frame with
   a text and an int64 partition column, a NULL key, two row groups *)
Example C08_multiset_nonvacuous :
  cread [(s_ "k", KStr); (s_ "n", KInt true 64)]
    (cwrite true [s_ "k"; s_ "n"]
       [[([Some (VStr (s_ "a")); Some (VInt 5)], 0%nat); ([Some (VStr (s_ "2")); None], 1%nat)];
        [([Some (VStr (s_ "a")); Some (VInt (-7))], 2%nat); ([Some (VStr (s_ "a")); Some (VInt 5)], 3%nat)]])
  = Some (Hive, [([(s_ "k", VStr (s_ "a")); (s_ "n", VInt 5)], 0%nat);
                 ([(s_ "k", VStr (s_ "a")); (s_ "n", VInt (-7))], 2%nat);
                 ([(s_ "k", VStr (s_ "a")); (s_ "n", VInt 5)], 3%nat)]).
Proof. vm_compute. reflexivity. Qed.

(* the hypotheses of C08_multiset_hive are jointly satisfiable: on the closed instance the frame of the example
   above is admissible (frame_ok ... Pv_hive), so the theorem applies to it *)
Example C08_multiset_hive_hypotheses_hold :
  frame_ok E0 E0 E0 nat [s_ "k"; s_ "n"]
    (Pv_hive E0 E0 E0 (fun f => match f with end) (fun _ _ => None) (fun t => match t with end) (fun t => match t with end)
             (fun _ _ => None) (fun _ => None) [(s_ "k", KStr); (s_ "n", KInt true 64)])
    (concat [[([Some (VStr (s_ "a")); Some (VInt 5)], 0%nat); ([Some (VStr (s_ "2")); None], 1%nat)];
             [([Some (VStr (s_ "a")); Some (VInt (-7))], 2%nat); ([Some (VStr (s_ "a")); Some (VInt 5)], 3%nat)]]).
Proof.
  intros r Hin Hn. cbn [concat app] in Hin.
  repeat (destruct Hin as [<-|Hin]; [|]); try contradiction; try discriminate Hn;
    (constructor; [|constructor; [|constructor]]);
    (eexists; split; [reflexivity|]; split; [exact I || reflexivity|]; split;
      [unfold legal, clean; vm_compute; intuition discriminate|vm_compute; reflexivity]).
Qed.

(* a categorical partition column with integer labels, label type recorded: the labels come back as integers *)
Example C08_categorical_labels_nonvacuous :
  cread [(s_ "c", KCat (Some (KInt true 64)))]
    (cwrite true [s_ "c"] [[([Some (VCat (VInt 5))], 0%nat); ([Some (VCat (VInt (-7)))], 1%nat); ([Some (VCat (VInt 5))], 2%nat)]])
  = Some (Hive, [([(s_ "c", VInt 5)], 0%nat); ([(s_ "c", VInt 5)], 2%nat); ([(s_ "c", VInt (-7))], 1%nat)]).
Proof. vm_compute. reflexivity. Qed.

(* one distinct key + NULL keys in one row group: one file with the two rows that have the key, in frame order *)
Example C08_single_key_with_nulls_nonvacuous :
  cwrite true [s_ "k"] [[([None], 0%nat); ([Some (VInt 7)], 1%nat); ([None], 2%nat); ([Some (VInt 7)], 3%nat)]; [([None], 4%nat)]]
  = [(s_ "k=7/part.0.parquet", [([Some (VInt 7)], 1%nat); ([Some (VInt 7)], 3%nat)])].
Proof. vm_compute. reflexivity. Qed.

Example C08_nonvacuous :
  parse_int (show_Z (-9223372036854775808)) = Some (-9223372036854775808)%Z /\
  split_on "/"%char (s_ "a=1/b=x/part.0.parquet") = [s_ "a=1"; s_ "b=x"; s_ "part.0.parquet"] /\
  in_range false 64 9223372036854775813 = true.
Proof. vm_compute. repeat split. Qed.

(* wave 6: the level of a hive partition column is selected BY NAME among the levels of the path (Impl/Partition.row_value; regenerated from
   core.read_row_group by the unit `rowfill`).  Searching the path text for "<name>=" instead (the class of seeded change C08-10) selects another
   level as soon as one column name is the tail of another: computed witness fiscal_year / year. *)
Theorem C08_lookup_by_search_refuted :
  exists path cat v tail,
    filter (fun p => match p with k0 :: _ => str_eqb k0 cat | [] => false end) (row_partitions true path) = [cat; v] :: tail /\
    lookup_by_search cat path <> Some v.
Proof. exact lookup_by_search_refuted. Qed.
Print Assumptions C08_lookup_by_search_refuted.
