(* C08 — directory-partitioned write/read preserves every row and every partition value.
   Only statements here; models in theories/Impl/Partition.v, proofs in theories/Proofs/Partition*.v.

   The external text conversions (Python repr/float(), Timestamp.isoformat / np.datetime64, ...) are
   Section variables: they are the trusted base named in the evidence.  Everything about integers,
   booleans, text, categorical labels, paths, the group-by split and the index lookup is proved.   *)
From Coq Require Import NArith ZArith Bool Ascii String List Permutation.
From Pq Require Import Base.Bytes Impl.Partition Proofs.PartitionStr Proofs.PartitionProofs.
Import ListNotations.

Section C08.
  Variables F T D : Type.
  Variable feqb : F -> F -> bool.
  Variable teqb : T -> T -> bool.
  Variable deqb : D -> D -> bool.
  Variable f_eq_Z : F -> Z -> bool.
  Variable show_float : F -> str.
  Variable parse_float : str -> option F.
  Variable show_time_iso show_time_str : T -> str.
  Variable parse_time_np parse_time_fmt parse_time_pd : str -> option T.
  Variable parse_delta : str -> option D.
  Hypothesis feqb_spec : forall a b, reflect (a = b) (feqb a b).
  Hypothesis teqb_spec : forall a b, reflect (a = b) (teqb a b).
  Hypothesis deqb_spec : forall a b, reflect (a = b) (deqb a b).
  Variable P : Type.

  Notation value := (value F T D).
  Notation show := (show F T D show_float show_time_iso show_time_str).
  Notation veqb := (veqb F T D feqb teqb deqb f_eq_Z).
  Notation parse_with_meta := (parse_with_meta F T D parse_float parse_time_np parse_time_fmt).
  Notation parse_guess := (parse_guess F T D parse_float parse_time_pd parse_delta).

  (* ---- the hypothesis "parse (show v) = v" of C08_multiset, PROVED for integers, booleans, text *)
  Theorem C08_int_text_roundtrip : forall sg bits z hive, in_range sg bits z = true ->
    parse_with_meta (KInt sg bits) (show hive (VInt z)) = Ok (VInt z).
  Proof. exact (roundtrip_int F T D show_float parse_float show_time_iso show_time_str parse_time_np parse_time_fmt). Qed.

  Theorem C08_python_int_of_str : forall z, parse_int (show_Z z) = Some z.
  Proof. exact parse_int_show_Z. Qed.

  Theorem C08_bool_text_roundtrip : forall b hive, parse_with_meta KBool (show hive (VBool b)) = Ok (VBool b).
  Proof. exact (roundtrip_bool F T D show_float parse_float show_time_iso show_time_str parse_time_np parse_time_fmt). Qed.

  Theorem C08_str_text_roundtrip : forall s hive,
    parse_with_meta KStr (show hive (VStr s)) = Ok (VStr s) /\
    parse_with_meta KCat (show hive (VCat (VStr s))) = Ok (VStr s).
  Proof. intros s hive. split; reflexivity. Qed.

  (* floats / timestamps: reduced to the external conversions (trusted base) *)
  Theorem C08_float_time_roundtrip_conditional : forall hive f t ns,
    (parse_float (show_float f) = Some f -> parse_with_meta KFloat (show hive (VFloat f)) = Ok (VFloat f)) /\
    (parse_time_np (show_time_iso t) = Some t -> parse_with_meta (KTime ns) (show true (VTime t)) = Ok (VTime t)).
  Proof.
    intros hive f t ns. split.
    - exact (roundtrip_float F T D show_float parse_float show_time_iso show_time_str parse_time_np parse_time_fmt f hive).
    - exact (roundtrip_time F T D show_float parse_float show_time_iso show_time_str parse_time_np parse_time_fmt t ns).
  Qed.

  (* drill / no metadata: the text of an integer is guessed back as that integer *)
  Theorem C08_guess_int : forall z, parse_guess (show_Z z) = VInt z.
  Proof. exact (guess_int F T D parse_float parse_time_pd parse_delta). Qed.

  (* known defect (finding C08-categorical-numeric-labels): the label dtype is not recorded, so the
     labels of a numeric categorical come back as text *)
  Theorem C08_categorical_numeric_refuted : exists v hive,
    parse_with_meta KCat (show hive (VCat v)) <> Ok v.
  Proof. exists (VInt 1), true. cbn. discriminate. Qed.

  (* ---- group-by split: no row with non-null keys lost or duplicated, for every frame *)
  Theorem C08_groupby_partition : forall rows : list (row F T D P),
    Permutation (concat (map snd (group_by F T D feqb teqb deqb f_eq_Z P rows)))
                (filter (nonnull F T D P) rows).
  Proof. exact (group_by_perm F T D feqb teqb deqb f_eq_Z P). Qed.

  (* ---- cats[cat].index(val) returns the position of val itself *)
  Theorem C08_index_lookup : forall k (v : value) (l : list value),
    of_kind F T D k v -> Forall (of_kind F T D k) l -> existsb (veqb v) l = true ->
    exists i, index_of veqb v l = Some i /\ nth_error l i = Some v.
  Proof.
    exact (index_lookup F T D feqb teqb deqb f_eq_Z show_float parse_float show_time_iso show_time_str
             parse_time_np parse_time_fmt parse_time_pd parse_delta feqb_spec teqb_spec).
  Qed.
End C08.

Print Assumptions C08_int_text_roundtrip.
Print Assumptions C08_python_int_of_str.
Print Assumptions C08_bool_text_roundtrip.
Print Assumptions C08_str_text_roundtrip.
Print Assumptions C08_float_time_roundtrip_conditional.
Print Assumptions C08_guess_int.
Print Assumptions C08_categorical_numeric_refuted.
Print Assumptions C08_groupby_partition.
Print Assumptions C08_index_lookup.

Example C08_nonvacuous :
  parse_int (show_Z (-9223372036854775808)) = Some (-9223372036854775808)%Z /\
  split_on "/"%char (s_ "a=1/b=x/part.0.parquet") = [s_ "a=1"; s_ "b=x"; s_ "part.0.parquet"] /\
  in_range false 64 9223372036854775813 = true.
Proof. vm_compute. repeat split. Qed.
