(* C12 — native code stays inside its buffers; the process never crashes.   LEVEL: PARTIAL.
   Only statements here; proofs in theories/Proofs/SafetyProofs.v (corollaries of the C11 theorems).

   Full statement: for every well-formed input of any size the format allows, no compiled routine reads
   or writes outside the buffers it was handed or depends on undefined arithmetic.
   What a Coq theorem can say about that: the impl MODELS (theories/Impl/C*.v: explicit machine integers,
   every buffer access checked, results Ok / OOB / UB) never return OOB/UB inside the stated limits and
   write at most the capacity.  That the models are the compiled code is established only by the
   sanitised correspondence run of ./check C12 (ASan+UBSan build of cencoding.c / speedups.c), never by
   proof: a theorem about a Gallina model is not memory safety of compiled C.
   Covered here: the codec routines of C11 (bit-packed runs 0 < w <= 24, RLE runs, varints, delta miniblocks 0 < w <= 28).  The
   thrift serialiser (C10) and the list assembler (C15) parts are in their own properties' files. *)
From Coq Require Import NArith ZArith Arith List Bool.
From Pq Require Import Base.Bytes Base.Err Base.ListX Codec.Varint Codec.Hybrid
  Impl.CVarint Impl.CBitpack Impl.CRle Impl.CHybrid Impl.CDelta Impl.PyPack Proofs.SafetyProofs Proofs.CHybridProofs
  Codec.Delta Impl.Dispatch Proofs.HybridProofs Proofs.CBitpackProofs Proofs.DispatchProofs.
Import ListNotations.
Open Scope N_scope.

Theorem C12_safe_partial :
  (* bit-packed runs *)
  (forall w g isz cap input,
     0 < w <= 24 -> isz = 1 \/ isz = 4 -> ~ (w = 1 /\ isz = 1) ->
     0 < g < 2 ^ 28 -> bytes_ok input -> g * w <= N.of_nat (length input) ->
     exists d, c_read_bitpacked input (Z.of_N (2 * g + 1)) w cap isz = Ok d /\
               d_written d <= cap /\ d_used d <= N.of_nat (length input)) /\
  (* RLE runs *)
  (forall w count isz cap input,
     w <= 32 -> isz = 1 \/ isz = 4 -> count < 2 ^ 31 ->
     bytes_ok input -> vbytes w <= N.of_nat (length input) ->
     exists d, c_read_rle input (Z.of_N (2 * count)) w cap isz = Ok d /\
               d_written d <= cap /\ d_used d <= N.of_nat (length input)) /\
  (* varints *)
  (forall n rest, n < 2 ^ 64 -> bytes_ok rest ->
     exists k, c_varint (uleb_enc n ++ rest) = Ok (n, k) /\ k <= N.of_nat (length (uleb_enc n ++ rest))) /\
  (* delta miniblocks *)
  (forall w g input,
     0 < w <= 28 -> g < 2 ^ 28 -> bytes_ok input -> g * w <= N.of_nat (length input) ->
     exists vals rest k, c_delta_read_bitpacked input w (8 * g) = Ok (vals, rest, k) /\
                         k <= N.of_nat (length input) /\ length vals = N.to_nat (8 * g)) /\
  (* whole hybrid streams (definition/repetition levels, dictionary indices) *)
  (forall w isz cap rs rest,
     isz = 1 \/ isz = 4 -> Forall (irun_ok w isz) rs -> rs <> [] -> bytes_ok rest ->
     exists d, c_read_hybrid (hyb_enc w rs ++ rest) w (lenN (hyb_enc w rs)) cap isz = Ok d /\
               d_written d <= cap /\ d_used d <= lenN (hyb_enc w rs ++ rest)).
Proof.
  exact (conj read_bitpacked_safe (conj read_rle_safe (conj varint_safe (conj delta_read_bitpacked_safe hybrid_safe)))).
Qed.
Print Assumptions C12_safe_partial.

(* ---- refuted: well-formed inputs on which the model of the compiled code leaves its buffers ---- *)
Theorem C12_delta57_refuted : exists input, bytes_ok input /\ N.of_nat (length input) = 32 * 57 / 8 /\
  c_delta_read_bitpacked input 57 32 = UB.
Proof. exact delta_w57_unsafe. Qed.
Print Assumptions C12_delta57_refuted.

Theorem C12_delta29_refuted : exists input, bytes_ok input /\ N.of_nat (length input) = 32 * 29 / 8 /\
  c_delta_read_bitpacked input 29 32 = UB.
Proof. exact delta_w29_unsafe. Qed.
Print Assumptions C12_delta29_refuted.

Theorem C12_delta_empty_output_refuted :
  c_delta_binary_unpack delta_small [0; 0; 0] 12 false = Ok ([1; 2; 3], 14, 12) /\
  c_delta_binary_unpack delta_small [] 0 false = OOB.
Proof. exact (conj delta_small_fine delta_empty_output_oob). Qed.
Print Assumptions C12_delta_empty_output_refuted.

Theorem C12_delta_one_value_overread_refuted : c_delta_binary_unpack [128; 1; 4; 1; 2] [0] 4 false = OOB.
Proof. exact delta_count1_overread. Qed.
Print Assumptions C12_delta_one_value_overread_refuted.

Theorem C12_bitpacked_empty_run_overread_refuted : c_read_bitpacked [] 1 3 32 4 = OOB.
Proof. exact read_bitpacked_empty_input_oob. Qed.
Print Assumptions C12_bitpacked_empty_run_overread_refuted.

Theorem C12_unpadded_last_group_overread_refuted :
  hyb_dec false 8 1 [3; 5] = Some ([5], []) /\ c_read_hybrid [3; 5] 8 2 4 4 = OOB.
Proof. exact unpadded_last_group_overread. Qed.
Print Assumptions C12_unpadded_last_group_overread_refuted.

Theorem C12_unpack_byte_array_overrun_refuted : c_unpack_byte_array [3; 0; 0; 0; 97; 98] 1 = UOOB.
Proof. exact unpack_byte_array_truncated_oob. Qed.
Print Assumptions C12_unpack_byte_array_overrun_refuted.

(* ---- the CALLERS' buffer allocation (core.read_data_page / read_data_page_v2) ------------------------------------
   For every index-decoder leaf `DGeneric a isz` that is ADEQUATE for (bit width, selfmade) - the regenerated dispatch of
   the page readers is proved adequate on the whole lattice 0..32 x {foreign, selfmade} on every run
   (genproofs/GenDispatchProofs.v) - the output handed to the native decoder is np.empty(n, dtype of `a` bytes) and the
   decoder is told itemsize = isz: a = isz, the model returns Ok on every spec-encoded stream of runs inside its
   region, stores exactly min(total, n) items and never writes more bytes than the n * a the caller allocated -
   for EVERY n (also when the page holds more values than the header announced). *)
Theorem C12_caller_allocation_fits : forall w selfmade one_run a isz n rs,
  adequate w selfmade one_run (DGeneric a isz) = true ->
  Forall (irun_ok w isz) rs -> rs <> [] ->
  exists r, c_read_hybrid (hyb_enc w rs) w (lenN (hyb_enc w rs)) (n * a) isz = Ok r /\
            d_vals r = map (tr isz) (firstn (N.to_nat (N.min (lenN (allvals rs)) n)) (allvals rs)) /\
            d_written r = isz * N.min (lenN (allvals rs)) n /\
            d_written r <= n * a.
Proof. exact generic_leaf_correct. Qed.
Print Assumptions C12_caller_allocation_fits.

(* stale width bytes of unneeded miniblocks (what parquet-mr leaves there): the model of today's decoder does not unpack
   such a miniblock - it ends with the cursor at the end of the page, where the spec decoder ends *)
Theorem C12_delta_stale_width_inside :
  delta_dec 32 delta_stale_page = Some ([1; 2; 3; 4; 5; 6; 7; 8; 9]%Z, []) /\
  c_delta_binary_unpack delta_stale_page (repN 2863311530 9 []) 36 false = Ok ([1; 2; 3; 4; 5; 6; 7; 8; 9], 7, 36) /\
  (lenN delta_stale_page = 7).
Proof. exact (conj delta_stale_width_spec (conj delta_stale_width_ok eq_refl)). Qed.
Print Assumptions C12_delta_stale_width_inside.

(* ... and the class behind the example, for EVERY stale width byte 1..255, every block shape and every miniblock reader:
   with exactly one value left, a miniblock whose width byte is not zero is NOT unpacked - two steps of the decoder's
   state machine store the last value and finish, consuming no input.  (False for a decoder without the `count > 1` guard.) *)
Theorem C12_stale_miniblock_reads_nothing : forall isz vpm mpb reader s ws i md w v,
  u_ph s = PMini ws i md -> i < mpb -> get_nth ws i = Some w -> w <> 0 ->
  u_count s = 1%Z -> 0 < vpm -> 0 < isz ->
  o_loc (u_o s) + isz <= o_nbytes (u_o s) -> o_nbytes (u_o s) < 2 ^ 32 ->
  o_loc (u_o s) mod isz = 0 ->
  get_nth (o_items (u_o s)) (o_loc (u_o s) / isz) = Some v ->
  exists s1 s2, u_step isz vpm mpb reader s = Ok s1 /\ u_step isz vpm mpb reader s1 = Ok s2 /\
                u_ph s2 = PDone /\ u_inp s2 = u_inp s /\ u_used s2 = u_used s.
Proof. exact stale_miniblock_reads_nothing. Qed.
Print Assumptions C12_stale_miniblock_reads_nothing.

(* the OUTPUT side of the same routine: parking a whole miniblock of deltas in the output (o.write_int / write_long are
   checked) never writes outside a buffer of whole items, whatever its size and however many deltas there are: each item is
   stored or dropped, the cursor stays aligned and inside.  (What is NOT checked is the input side - NumpyIO.read_byte - and
   the unconditional `o.loc -= 4`: the open findings.) *)
Theorem C12_delta_scratch_writes_inside : forall isz vs o,
  0 < isz -> o_loc o mod isz = 0 -> o_nbytes o mod isz = 0 -> o_loc o <= o_nbytes o -> o_nbytes o < 2 ^ 32 ->
  exists o', o_write_all isz o vs = Ok o' /\ o_nbytes o' = o_nbytes o /\ o_loc o' mod isz = 0 /\ o_loc o' <= o_nbytes o' /\
             length (o_items o') = length (o_items o).
Proof. exact (fun isz vs o => o_write_all_inside isz vs o). Qed.
Print Assumptions C12_delta_scratch_writes_inside.

Example C12_nonvacuous :
  c_read_bitpacked [136; 198; 250] 3 3 12 4 = Ok {| d_vals := [0; 1; 2]; d_used := 3; d_written := 12 |} /\
  c_read_rle [7] 10 3 8 4 = Ok {| d_vals := [7; 7]; d_used := 1; d_written := 8 |}.
Proof. split; vm_compute; reflexivity. Qed.
