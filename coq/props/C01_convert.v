(* C01, values - statements only (proofs: theories/Proofs/WConvertProofs.v).
   The write-side convert (writer.convert, model Impl/WConvert.v) followed by the read-side convert
   (converted_types.convert + the cast into the column, model Impl/RConvert.v) gives back the cell. *)
From Coq Require Import NArith ZArith List.
From Pq Require Import Base.Bytes Format.Phys Impl.RConvert Impl.WConvert Proofs.WConvertProofs Proofs.WConvert96Proofs.
Import ListNotations.
Local Open Scope Z_scope.

(* datetime64[s|ms|us|ns], times='int64': a cell that is not NaT and whose scaled value fits int64 (always for ms/us/ns)
   is read back as the same count in the stored unit ... *)
Theorem C01_datetime_roundtrip_partial : forall u v, in64 v -> v <> NATZ -> in64 (v * dt_factor u) ->
  read_back INT64 (dt_conv u) (dt_lunit u) (w_datetime u v) = Some (Some (LTimestamp (dt_stored_unit u) (v * dt_factor u))).
Proof. exact datetime_roundtrip. Qed.
Print Assumptions C01_datetime_roundtrip_partial.

(* ... which is the same instant *)
Theorem C01_datetime_same_instant : forall u v, (v * dt_factor u) * tunit_ns (dt_stored_unit u) = v * ns_per u.
Proof. exact datetime_same_instant. Qed.
Print Assumptions C01_datetime_same_instant.

(* NaT is written as NaT and read back as a missing cell, every unit *)
Theorem C01_datetime_nat_roundtrip : forall u,
  read_back INT64 (dt_conv u) (dt_lunit u) (w_datetime u NATZ) = Some None.
Proof. exact datetime_nat_roundtrip. Qed.
Print Assumptions C01_datetime_nat_roundtrip.

(* without the guard: seconds near the end of the int64 range wrap in the multiplication by 1000 *)
Theorem C01_datetime_seconds_overflow_refuted :
  exists v, in64 v /\ v <> NATZ /\
    read_back INT64 (dt_conv WS) (dt_lunit WS) (w_datetime WS v) <> Some (Some (LTimestamp TMs (v * 1000))).
Proof. exact datetime_seconds_overflow_refuted. Qed.
Print Assumptions C01_datetime_seconds_overflow_refuted.

(* times='int96', every unit: nanoseconds of the day + Julian day, read back as the same instant in nanoseconds
   (guards: the value in ns fits int64 and is not the NaT pattern) *)
Theorem C01_int96_roundtrip_partial : forall u v, in64 v -> in64 (v * ns_per u) -> v * ns_per u <> NATZ ->
  read_back INT96 None None (w_int96 u v) = Some (Some (LTimestamp TNs (v * ns_per u))).
Proof. exact int96_roundtrip. Qed.
Print Assumptions C01_int96_roundtrip_partial.

(* timedelta64[s|ms|us|ns] -> TIME_MICROS: the duration in microseconds (ns: floor division, exact for whole microseconds) *)
Theorem C01_timedelta_roundtrip_partial : forall u v, in64 v -> v <> NATZ -> in64 (td_us u v) -> td_us u v <> NATZ ->
  read_back INT64 (Some 8) None (w_timedelta u v) = Some (Some (LTime TUs (td_us u v))).
Proof. exact timedelta_roundtrip. Qed.
Print Assumptions C01_timedelta_roundtrip_partial.

Theorem C01_timedelta_nat_roundtrip : forall u, read_back INT64 (Some 8) None (w_timedelta u NATZ) = Some None.
Proof. exact timedelta_nat_roundtrip. Qed.
Print Assumptions C01_timedelta_nat_roundtrip.

Theorem C01_timedelta_ns_exact : forall v, v mod 1000 = 0 -> td_us WNs v * 1000 = v.
Proof. exact timedelta_ns_exact. Qed.
Print Assumptions C01_timedelta_ns_exact.

(* int8..int64 / uint8..uint64: every value of the dtype comes back *)
Theorem C01_int_roundtrip : forall signed w z, In w [8; 16; 32; 64] -> int_range signed w z ->
  read_back (int_phys w) (int_conv signed w) None (w_int w z) = Some (Some (LInt z)).
Proof. exact int_roundtrip_w. Qed.
Print Assumptions C01_int_roundtrip.

Example C01_convert_nonvacuous :
  read_back INT64 (dt_conv WS) (dt_lunit WS) (w_datetime WS 1600000000) = Some (Some (LTimestamp TMs 1600000000000)) /\
  read_back INT32 (int_conv true 8) None (w_int 8 (-128)) = Some (Some (LInt (-128))).
Proof. vm_compute. split; reflexivity. Qed.
