(* C09 — placeholder while the proofs are being written. *)
From Coq Require Import NArith ZArith List Bool.
From Pq Require Import Base.Bytes Dataset.FS Dataset.FsPaths Dataset.Edit.
Import ListNotations.
Example C09_nonvacuous : check_inv empty = true.
Proof. vm_compute. reflexivity. Qed.
