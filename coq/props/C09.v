(* C09 — dataset edits follow a simple model; metadata and directory agree.
   Only statements here; model in theories/Dataset/Edit.v, proofs in theories/Proofs/EditProofs.v (every
   operation, generic in _sort_part_names), EditRename.v (the repaired two-pass rename), EditHistory.v.

   state  = directory (path |-> rows held) + summary row-group list (path, rows written) + num_rows field;
   `step sort_pnames_fixed` = the code of fix-dsedit2 (d61a3c1: files keyed by path);
   `step sort_pnames_old`   = the pinned code (files keyed by part number), kept for the refutation;
   `spec_step` / `spec_run` = the plain model: a list of (partition directory, rows); append adds at the end,
   remove deletes the chosen positions, overwrite drops exactly the partitions present in the new data and adds the
   new row groups (the list stably regrouped by first occurrence of each partition), write_row_groups adds and sorts.
   `wf_op`: inside one row group the partition directories of new data are distinct and hold no newline (what
   pandas' groupby and str() give).

   Full statement inside the model (C09_history): after ANY history from the empty directory the invariant
   holds (every referenced file exists and holds exactly the rows its row group states, no unreferenced file, paths
   distinct, num_rows = total) and a fresh read returns, row group by row group, what the plain model predicts.
   The summary's schema = the files' schema is part of the invariant: a file's content is  schema id :: row ids  and clause (a)
   says that every referenced file holds  st_sch s :: rows.
   `refused_spec` lists the refusals of the plain model (no dataset / a dataset exists / other partitioning / overwrite of an
   unpartitioned dataset); a dataset emptied by remove_row_groups keeps its partitioning (fix 05c32a7).            *)
From Coq Require Import NArith ZArith Arith List Bool.
From Pq Require Import Base.Bytes Dataset.FS Dataset.FsPaths Dataset.Edit
  Proofs.EditProofs Proofs.EditRename Proofs.EditHistory Dataset.DsHandle Proofs.DsHandleProofs.
Import ListNotations.

(* one step: the invariant is kept ... *)
Theorem C09_inv_step : forall s o s', inv s -> wf_op o -> step sort_pnames_fixed s o = Some s' -> inv s'.
Proof. exact (step_inv sort_pnames_fixed sort_pnames_fixed_ok). Qed.
Print Assumptions C09_inv_step.

(* ... and the abstract content moves as the plain model says *)
Theorem C09_refines : forall s o s', inv s -> wf_op o -> step sort_pnames_fixed s o = Some s' ->
  spec_step (abs s) o = Some (abs s').
Proof. exact (step_refines sort_pnames_fixed sort_pnames_fixed_ok). Qed.
Print Assumptions C09_refines.

(* the only refusals *)
Theorem C09_refusals : forall s o, inv s -> wf_op o -> step sort_pnames_fixed s o = None ->
  match o with
  | OWrite _ _ => st_part s <> None                                     (* a dataset exists already *)
  | OAppend rgs | OWriteRgs rgs _ _ => cats_known s rgs = false         (* no dataset, or another partitioning than the dataset's *)
  | OOverwrite rgs => partitioned rgs = false \/ st_part s <> Some true  (* only partitioned datasets *)
  | ORemove _ _ => st_part s = None                                     (* no dataset *)
  end.
Proof. exact (step_refused sort_pnames_fixed sort_pnames_fixed_ok). Qed.
Print Assumptions C09_refusals.

(* the part-file renumbering alone: never fails, keeps the invariant and the content *)
Theorem C09_sort_part_names : forall s, inv s ->
  exists s', sort_pnames_fixed s = Some s' /\ inv s' /\ abs s' = abs s /\ st_part s' = st_part s.
Proof. exact sort_pnames_fixed_ok. Qed.
Print Assumptions C09_sort_part_names.

(* a state satisfying the invariant reads back exactly its abstract content *)
Theorem C09_read : forall s, inv s -> read s = map (fun g => (fst g, Some (snd g))) (abs s).
Proof. exact read_abs. Qed.
Print Assumptions C09_read.

(* C09_inv (induction over ANY operation list from the empty directory) + the history-level refinement *)
Theorem C09_history : forall ops, Forall wf_op ops ->
  let s := run sort_pnames_fixed ops empty in
  inv s /\ check_inv s = true /\ read s = map (fun g => (fst g, Some (snd g))) (snd (spec_run ops (None, []))).
Proof.
  intros ops W s. destruct (history_ok ops W) as [I R]. split; [exact I|]. split; [now apply inv_check | exact R].
Qed.
Print Assumptions C09_history.

(* the invariant alone, by induction over ANY operation list from the empty directory (DESIGN's name) *)
Theorem C09_inv : forall ops, Forall wf_op ops -> inv (run sort_pnames_fixed ops empty).
Proof. intros ops W. exact (proj1 (history_ok ops W)). Qed.
Print Assumptions C09_inv.

(* ---- the pinned code ------------------------------------------------------------------------------
   DESIGN witness: write k=[0,1,0,0] in groups of 3, append k=[1,0] in one group, overwrite with k=[1,0,0,1,1]
   in groups of 2.  With _sort_part_names keyed by part number a rename replaces a live file: the invariant
   is broken and a row group no longer reads back.                                                       *)
Definition k0 : path := [107; 61; 48]%N.
Definition k1 : path := [107; 61; 49]%N.
Definition witness : list op :=
  [ OWrite 7 [[(k0, [0; 2]); (k1, [1])]; [(k0, [3])]];
    OAppend [[(k0, [5]); (k1, [4])]];
    OOverwrite [[(k0, [7]); (k1, [6])]; [(k0, [8]); (k1, [9])]; [(k1, [10])]] ]%N.

Theorem C09_rename_refuted :
  exists ops, forallb wf_opb ops = true
    /\ check_inv (run sort_pnames_old ops empty) = false
    /\ existsb (fun kr => match snd kr with None => true | Some _ => false end) (read (run sort_pnames_old ops empty)) = true.
Proof. exists witness. vm_compute. repeat split. Qed.
Print Assumptions C09_rename_refuted.

(* the same history on the repaired code *)
Example C09_nonvacuous :
  forallb wf_opb witness = true
  /\ read (run sort_pnames_fixed witness empty)
     = [(k0, Some [7]); (k0, Some [8]); (k1, Some [6]); (k1, Some [9]); (k1, Some [10])]%N
  /\ map fst (st_sum (run sort_pnames_fixed witness empty))
     = map (fun dn => join (fst dn) (part_name (snd dn))) [(k0, 0); (k0, 1); (k1, 2); (k1, 3); (k1, 4)]%N.
Proof. vm_compute. repeat split. Qed.

(* ---- a dataset emptied by remove_row_groups (fix 05c32a7: the partition columns are then taken from the pandas metadata):
   the next append is accepted and adds its rows; files carry the summary's schema (7), also after the dataset was empty *)
Example C09_empty_then_append :
  let ops := [OWrite 7 [[(k0, [0%N])]]; ORemove [0%nat] false; OAppend [[(k0, [1%N]); (k1, [2%N])]]] in
  forallb wf_opb ops = true
  /\ (let s := run sort_pnames_fixed [OWrite 7 [[(k0, [0%N])]]; ORemove [0%nat] false] empty in
      abs s = [] /\ st_dir s = [] /\ st_part s = Some true)
  /\ read (run sort_pnames_fixed ops empty) = [(k0, Some [1]); (k1, Some [2])]%N
  /\ map snd (st_dir (run sort_pnames_fixed ops empty)) = [[7; 2]; [7; 1]]%N.
Proof. vm_compute. repeat split. Qed.


(* ======================= wave 3: operations through ONE long-lived handle (Dataset/DsHandle.v) =======================
   A handle computes from ITS OWN copy of the summary.  For EVERY operation list: the history run through one handle
   opened on s equals the history run with a fresh handle per operation (the disk-level model of C09_history), and the
   handle ends up equal to a fresh open of the result - so C09_history / C09_refines hold for handle-level histories. *)
Theorem C09_handle_refines : forall ops s,
  run_h (step_h sort_pnames_fixed) ops (s, open_h s)
  = (run sort_pnames_fixed ops s, open_h (run sort_pnames_fixed ops s)).
Proof. exact (handle_refines sort_pnames_fixed). Qed.
Print Assumptions C09_handle_refines.

(* a FAILED write_row_groups whose handle is put back (repo fix 8453df6): summary, num_rows and the handle are as before *)
Theorem C09_failed_op_restored : forall s done,
  let sh' := fail_write false (s, open_h s) done in
  coherent sh' /\ st_sum (fst sh') = st_sum s /\ st_num (fst sh') = st_num s.
Proof. exact fail_restored_coherent. Qed.
Print Assumptions C09_failed_op_restored.

(* faulty rule 1 (class of seed C07-3): the operation works on a COPY of the handle's metadata - the second append through the
   same handle drops the first one's rows (metadata and directory stay mutually consistent: only the content shows it) *)
Theorem C09_stale_handle_refuted :
  abs (fst (run_h (step_h_stale sort_pnames_fixed) w_ops (w_s0, open_h w_s0))) <> abs (run sort_pnames_fixed w_ops w_s0)
  /\ check_inv (fst (run_h (step_h_stale sort_pnames_fixed) w_ops (w_s0, open_h w_s0))) = true
  /\ map snd (abs (fst (run_h (step_h_stale sort_pnames_fixed) w_ops (w_s0, open_h w_s0)))) = [[0; 1; 2]; [20]]%N.
Proof. exact stale_handle_refuted. Qed.
Print Assumptions C09_stale_handle_refuted.

(* faulty rule 2 (pinned behaviour before fix 8453df6): the row groups a FAILED write_row_groups had finished stay in the
   handle - the dataset reads as before after the failure, and the next successful append publishes the failed rows *)
Theorem C09_failed_op_kept_refuted :
  let sh1 := fail_write true (w_s0, open_h w_s0) [[(w_dir, [10; 11]%N)]] in
  let sh2 := run_h (step_h sort_pnames_fixed) [OWriteRgs [[(w_dir, [20]%N)]] SKNone false] sh1 in
  abs (fst sh1) = abs w_s0
  /\ map snd (abs (fst sh2)) = [[0; 1; 2]; [10; 11]; [20]]%N
  /\ map snd (abs (run sort_pnames_fixed [OWriteRgs [[(w_dir, [20]%N)]] SKNone false] w_s0)) = [[0; 1; 2]; [20]]%N.
Proof. exact failed_op_kept_refuted. Qed.
Print Assumptions C09_failed_op_kept_refuted.

Example C09_failed_op_restored_nonvacuous :
  let sh1 := fail_write false (w_s0, open_h w_s0) [[(w_dir, [10; 11]%N)]] in
  let sh2 := run_h (step_h sort_pnames_fixed) [OWriteRgs [[(w_dir, [20]%N)]] SKNone false] sh1 in
  map snd (abs (fst sh2)) = [[0; 1; 2]; [20]]%N.
Proof. exact failed_op_restored_ok. Qed.

(* ======================= wave 4: a failed operation of ANY kind that writes data, at ANY failure position =======================
   (append / overwrite / write_row_groups failing after j new part files, the last possibly torn): the handle is exactly the handle
   before the operation and equals a fresh open; summary, num_rows and abstract content on disk are as before; every referenced file is
   untouched (well-formed new data).  This is what the harnesses compare after every failed step (pf.fmd against a fresh open: C07
   failed_first, C18 continuation, C19 same-handle retry). *)
Theorem C09_failed_op_state_unchanged : forall s o j torn,
  let sh' := fail_op (s, open_h s) o j torn in
  snd sh' = open_h s /\ coherent sh' /\ st_sum (fst sh') = st_sum s /\ st_num (fst sh') = st_num s /\ abs (fst sh') = abs s
  /\ (wf_op o -> forall e, In e (st_sum s) -> lookup (fst e) (st_dir (fst sh')) = lookup (fst e) (st_dir s)).
Proof. exact failed_op_state_unchanged. Qed.
Print Assumptions C09_failed_op_state_unchanged.

(* continuing on the same handle after the failure = continuing with fresh handles from the (unchanged) dataset *)
Theorem C09_continue_after_failed_op : forall s o j torn ops,
  let s1 := fst (fail_op (s, open_h s) o j torn) in
  run_h (step_h sort_pnames_fixed) ops (fail_op (s, open_h s) o j torn)
  = (run sort_pnames_fixed ops s1, open_h (run sort_pnames_fixed ops s1)).
Proof. exact (continue_after_failed_op sort_pnames_fixed). Qed.
Print Assumptions C09_continue_after_failed_op.
