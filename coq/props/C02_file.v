(* C02 - statements only (proofs: theories/Proofs/WFileProofs.v).
   The WHOLE single file write_simple produces, as modelled in Impl/WFile.v on top of the byte-level chunk model Impl/WChunk.v:
   magic, for each row group and column the chunk bytes of write_column (every page kind: v1 / v2, PLAIN incl. BOOLEAN packing,
   dictionary-encoded pages with their dictionary page, any codec) with the ColumnMetaData of the pos/diff bookkeeping
   (Format/ChunkLayout.wr_bookkeeping over the pages written), RowGroup.num_rows / total_byte_size, FileMetaData.num_rows, the
   footer in the compact protocol, its length, magic.  The specification's decoder returns the columns written and the
   specification's validator accepts the file (lenient mode: encode_dict leaves the last bit-packed group unpadded). *)
From Coq Require Import NArith ZArith List.
From Pq Require Import Base.Bytes Base.ListX Format.Phys Format.Meta Format.Page Format.ChunkLayout Format.File Format.Enc
                       Impl.WChunk Impl.WFile Proofs.WChunkProofs Proofs.WFileProofs Proofs.ChunkOrderProofs.
Import ListNotations.

(* hypotheses: `wfile_wf` = leaves well-formed; per row group one chunk per leaf of the leaf's type (`wcol_ok`: pages within the
   guards of C02_pages.v, at least one page, the chunk's cells defined); footer representable (integer widths, nesting, < 4 GiB,
   logical types conformant).  `wrg_rows_ok`: every chunk of a row group has the rows of the first. *)
Theorem C02_fp_write_file_dec_partial :
  forall (compress : Z -> bytes -> bytes) (decompress : Z -> N -> bytes -> option bytes),
  (forall codec b, decompress codec (lenN b) (compress codec b) = Some b) ->
  forall f, wfile_wf compress f ->
  dec_file decompress false (w_file compress f) = ROk (map leaf_of_l (wf_leaves f), map (wcells (wf_leaves f)) (wf_rgs f)).
Proof. exact dec_file_wfile. Qed.
Print Assumptions C02_fp_write_file_dec_partial.

Theorem C02_fp_write_file_valid_partial :
  forall (compress : Z -> bytes -> bytes) (decompress : Z -> N -> bytes -> option bytes),
  (forall codec b, decompress codec (lenN b) (compress codec b) = Some b) ->
  forall f, wfile_wf compress f -> Forall wrg_rows_ok (wf_rgs f) ->
  valid_file decompress false (w_file compress f) = ROk tt.
Proof. exact valid_file_wfile. Qed.
Print Assumptions C02_fp_write_file_valid_partial.

(* the bookkeeping places every chunk: total_compressed_size = the bytes written, data_page_offset / dictionary_page_offset inside *)
Theorem C02_fp_write_chunk_placed :
  forall (compress : Z -> bytes -> bytes) c start, wchunk_ok1 compress c ->
  let bk := wr_bookkeeping (Z.of_N start) (sumZ (map p_nvals (filter is_data (wsummaries compress c)))) (w_encs c) (wsummaries compress c) in
  c_total_comp bk = Z.of_N (lenN (w_chunk compress c)) /\
  (exists d, c_data_page_offset bk = Z.of_N d /\ (start <= d)%N /\
             (c_dict_page_offset bk = None /\ d = start \/ c_dict_page_offset bk = Some (Z.of_N start))).
Proof. exact bookkeeping_place. Qed.
Print Assumptions C02_fp_write_chunk_placed.

(* two row groups x two columns (optional INT32 PLAIN with a NULL; categorical INT64 with dictionary page), data page v2, identity
   "compression": the whole file through the specification's validator and decoder, in the kernel *)
Example C02_file_model_nonvacuous :
  let idc := fun (_ : Z) (b : bytes) => b in
  let idd := fun (_ : Z) (_ : N) (b : bytes) => Some b in
  let l1 := {| ll_name := [97]%N; ll_type := INT32; ll_tlen := 0%N; ll_optional := true; ll_conv := None; ll_logical := None; ll_scale := None; ll_prec := None |} in
  let l2 := {| ll_name := [98]%N; ll_type := INT64; ll_tlen := 0%N; ll_optional := false; ll_conv := None; ll_logical := None; ll_scale := None; ll_prec := None |} in
  let c1 := fun cells => {| wc_v2 := true; wc_optional := true; wc_type := INT32; wc_tlen := 0%N; wc_codec := 0%Z; wc_k := 1%nat; wc_labels := None;
                            wc_pages := [WPlainP cells] |} in
  let c2 := fun codes => {| wc_v2 := true; wc_optional := false; wc_type := INT64; wc_tlen := 0%N; wc_codec := 0%Z; wc_k := 1%nat;
                            wc_labels := Some [VNum 5%N; VNum 7%N]; wc_pages := [WDictP codes] |} in
  let f := {| wf_leaves := [l1; l2];
              wf_rgs := [[c1 [Some (VNum 1%N); None; Some (VNum 3%N)]; c2 [Some 0%N; Some 1%N; Some 1%N]];
                         [c1 [None]; c2 [Some 1%N]]];
              wf_created_by := Some [102; 112]%N |} in
  valid_file idd false (w_file idc f) = ROk tt /\
  dec_file idd false (w_file idc f) = ROk (map leaf_of_l [l1; l2], map (wcells [l1; l2]) (wf_rgs f)).
Proof. vm_compute. split; reflexivity. Qed.

(* parquet.thrift, RowGroup.columns "must have the same order as the SchemaElement list": the specification's scanner pairs leaves
   and chunks positionally and checks each path_in_schema, so every file it accepts (valid_file runs it) lists the chunks of every
   row group in schema order; C02_spec_roundtrip / C02_fp_write_file_valid_partial show the encoders' files are accepted *)
Theorem C02_chunks_in_schema_order : forall decompress strict file fstart lfs cs outs,
  scan_cols decompress strict file fstart lfs cs = ROk outs ->
  length lfs = length cs /\
  forall i lf c o, nth_error lfs i = Some lf -> nth_error cs i = Some c -> nth_error outs i = Some (CHere o) ->
                   exists m, cc_meta c = Some m /\ cm_path m = [lf_name lf].
Proof. exact Proofs.ChunkOrderProofs.scan_cols_schema_order. Qed.
Print Assumptions C02_chunks_in_schema_order.
