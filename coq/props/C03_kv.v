(* C03 - statements only (proofs: theories/Proofs/EncKVProofs.v).
   Foreign files with application metadata (FileMetaData.key_value_metadata, e.g. the 'pandas' entry another writer
   attaches): the specification encoder Format/EncKV.v writes them; what such a file ENCODES does not depend on the entries. *)
From Coq Require Import NArith ZArith List.
From Pq Require Import Base.Bytes Base.ListX Thrift.Compact Format.Meta Format.Enc Format.EncKV Proofs.EncKVProofs.
Import ListNotations.

(* the typed footer the specification decoder works from (Format/File.v parse_footer -> fmd_of_tv) is the same record
   whatever key-value entries the footer carries: every quantity dec_file / valid_file compute from the footer is unchanged *)
Theorem C03_kv_footer_view_partial : forall kvs m, fmd_of_tv (fmd_to_tv_kv kvs m) = Some m.
Proof. exact fmd_of_to_kv. Qed.
Print Assumptions C03_kv_footer_view_partial.

Theorem C03_kv_footer_view_same : forall kvs m, fmd_of_tv (fmd_to_tv_kv kvs m) = fmd_of_tv (fmd_to_tv m).
Proof. exact fmd_view_ignores_kv. Qed.
Print Assumptions C03_kv_footer_view_same.

(* the file with entries has the same data region (every page byte, every offset) as the file without: only the footer
   bytes and the footer length differ.  NOT proved (checked per generated file by fmt_decode on the real bytes): the strict
   thrift reader accepts the extended footer and the whole-file round trip dec_file (enc_file_kv kvs f) = table_of f. *)
Theorem C03_kv_file_shape_partial : forall compress kvs f,
  let foot := wr (fmd_to_tv_kv kvs (meta_of compress f)) in
  let foot0 := wr (fmd_to_tv (meta_of compress f)) in
  enc_file_kv compress kvs f = magic ++ data_of compress f ++ foot ++ le_enc 4 (lenN foot) ++ magic /\
  enc_file compress f = magic ++ data_of compress f ++ foot0 ++ le_enc 4 (lenN foot0) ++ magic /\
  fmd_of_tv (fmd_to_tv_kv kvs (meta_of compress f)) = Some (meta_of compress f).
Proof. exact enc_file_kv_shape. Qed.
Print Assumptions C03_kv_file_shape_partial.
