(* C03 - statements only (proofs: theories/Proofs/EncKVProofs.v).
   Foreign files with application metadata (FileMetaData.key_value_metadata, e.g. the 'pandas' entry another writer
   attaches): the specification encoder Format/EncKV.v writes them; what such a file ENCODES does not depend on the entries. *)
From Coq Require Import String NArith ZArith List.
From Pq Require Import Base.Bytes Base.ListX Thrift.Compact Format.Phys Format.Meta Format.Page Format.File Format.Enc Format.EncKV
                       Thrift.Idl Thrift.IdlPinned Proofs.FormatIdlProofs Proofs.FormatFileProofs Proofs.EncKVProofs Proofs.EncKVFileProofs.
Import ListNotations.

(* the typed footer the specification decoder works from (Format/File.v parse_footer -> fmd_of_tv) is the same record
   whatever key-value entries the footer carries: every quantity dec_file / valid_file compute from the footer is unchanged *)
Theorem C03_kv_footer_view_partial : forall kvs m, fmd_of_tv (fmd_to_tv_kv kvs m) = Some m.
Proof. exact fmd_of_to_kv. Qed.
Print Assumptions C03_kv_footer_view_partial.

Theorem C03_kv_footer_view_same : forall kvs m, fmd_of_tv (fmd_to_tv_kv kvs m) = fmd_of_tv (fmd_to_tv m).
Proof. exact fmd_view_ignores_kv. Qed.
Print Assumptions C03_kv_footer_view_same.

(* the file with entries has the same data region (every page byte, every offset) as the file without: only the footer
   bytes and the footer length differ.  The whole-file round trip is C03_kv_spec_roundtrip_dec below. *)
Theorem C03_kv_file_shape_partial : forall compress kvs f,
  let foot := wr (fmd_to_tv_kv kvs (meta_of compress f)) in
  let foot0 := wr (fmd_to_tv (meta_of compress f)) in
  enc_file_kv compress kvs f = magic ++ data_of compress f ++ foot ++ le_enc 4 (lenN foot) ++ magic /\
  enc_file compress f = magic ++ data_of compress f ++ foot0 ++ le_enc 4 (lenN foot0) ++ magic /\
  fmd_of_tv (fmd_to_tv_kv kvs (meta_of compress f)) = Some (meta_of compress f).
Proof. exact enc_file_kv_shape. Qed.
Print Assumptions C03_kv_file_shape_partial.

(* WHOLE FILE: for every well-formed laid-out file and ANY key-value entries (footer representable: `lfile_wf_kv` = the layout's own
   consistency + the extended footer within the compact protocol's widths, nesting <= 64, < 4 GiB) the specification decoder reads
   enc_file_kv back to the table the layout denotes - the same table as without entries - and the validator accepts the file *)
Theorem C03_kv_spec_roundtrip_dec :
  forall (compress : Z -> bytes -> bytes) (decompress : Z -> N -> bytes -> option bytes),
  (forall codec b, decompress codec (lenN b) (compress codec b) = Some b) ->
  forall strict kvs f t, lfile_wf_kv compress kvs f -> lfile_wf compress f -> table_of f = Some t ->
  dec_file decompress strict (enc_file_kv compress kvs f) = ROk t.
Proof. exact spec_roundtrip_dec_kv. Qed.
Print Assumptions C03_kv_spec_roundtrip_dec.

Theorem C03_kv_valid_file :
  forall (compress : Z -> bytes -> bytes) (decompress : Z -> N -> bytes -> option bytes),
  (forall codec b, decompress codec (lenN b) (compress codec b) = Some b) ->
  forall strict kvs f, lfile_wf_kv compress kvs f -> Forall rg_strict (l_rgs f) ->
  valid_file decompress strict (enc_file_kv compress kvs f) = ROk tt.
Proof. exact valid_file_roundtrip_kv. Qed.
Print Assumptions C03_kv_valid_file.

Theorem C03_kv_footer_conforms : forall kvs m, Forall logical_ok (fm_schema m) ->
  Idl.conforms IdlPinned.pinned idl_opts (Idl.FStruct "FileMetaData") (fmd_to_tv_kv kvs m) = true.
Proof. exact conf_fmd_kv. Qed.
Print Assumptions C03_kv_footer_conforms.
