(* C14 — opening or merging many files yields their concatenation.
   Only statements here; models in theories/Impl/Paths.v and theories/Dataset/Merge.v, proofs in
   theories/Proofs/PathsProofs.v.  Paths are lists of '/'-separated parts (split_on/join_with of
   Impl/Partition.v); a file is what api.ParquetFile shows of it (single file or dataset, schema,
   row groups = rows, first-chunk path, data).                                                  *)
From Coq Require Import NArith ZArith Bool Ascii String Arith List Permutation.
From Pq Require Import Base.Bytes Impl.Partition Impl.Paths Dataset.Merge Proofs.PartitionStr Proofs.PartitionProofs Proofs.PartitionE2E Proofs.PathsProofs Proofs.MergePartition.
Import ListNotations.

(* util.analyse_paths without a root, for EVERY non-empty list of paths: the base is a prefix of the
   directory part of every path; every common prefix of all directory parts is a prefix of the base
   (it is the longest one); base ++ relative path = path *)
Theorem C14_basepath : forall (pl : list (list str)) (p0 : list str), In p0 pl ->
  let base := base_of pl p0 in
  (forall p, In p pl -> prefix base (removelast p)) /\
  (forall q, (forall p, In p pl -> prefix q (removelast p)) -> prefix q base) /\
  (forall p, In p pl -> base ++ skipn (length base) p = p).
Proof. exact base_of_spec. Qed.
Print Assumptions C14_basepath.

(* the same on the strings the code handles: '/'.join(basepath parts + relative parts) is the path as
   join_path normalises it *)
Theorem C14_basepath_string : forall (pl : list (list str)) (p0 : list str) (fn : str),
  In p0 pl -> In (parts_of fn) pl ->
  let base := base_of pl p0 in
  join_with c_slash (base ++ skipn (length base) (parts_of fn)) = join_path [fn].
Proof. exact base_rel_string. Qed.
Print Assumptions C14_basepath_string.

(* legacy path of util.metadata_from_many, for EVERY list of files/datasets: the merged row groups are
   the row groups of the inputs concatenated in the given order (rows and data), num_rows is their sum,
   the schema is the first file's *)
Theorem C14_concat : forall (S : Type) (seqb : S -> S -> bool) (X : Type) verify basepath rel
    (pfs : list (pfile S X)) bp sch rgs n,
  length rel = length pfs ->
  legacy_merge S seqb X verify basepath rel pfs = MOk S X bp sch rgs n ->
  datas X rgs = concat (map (fun pf => datas X (pf_rgs S X pf)) pfs) /\ n = total_rows X rgs /\
  bp = basepath /\ (exists pf0 rest, pfs = pf0 :: rest /\ sch = pf_schema S X pf0).
Proof. exact legacy_concat. Qed.
Print Assumptions C14_concat.

(* ... and, on single files, every merged row group carries the relative path of the file it came from
   (with C14_basepath_string: base path + that relative path is the file's own normalised path) *)
Theorem C14_rowgroups_point_home : forall (S : Type) (seqb : S -> S -> bool) (X : Type) verify basepath rel
    (pfs : list (pfile S X)) bp sch rgs n,
  Forall (fun pf => pf_simple S X pf = true) pfs ->
  legacy_merge S seqb X verify basepath rel pfs = MOk S X bp sch rgs n ->
  map (rg_path X) rgs = concat (map (fun pr => map (fun _ => Some (snd pr)) (pf_rgs S X (fst pr))) (combine pfs rel)).
Proof. exact legacy_paths_simple. Qed.
Print Assumptions C14_rowgroups_point_home.

(* the fsspec fast path (>= 3 single files) and the legacy path agree: same base path, same row groups
   with the same first-chunk paths, same num_rows - for EVERY list of single files whose paths are
   normalised and have no empty part below the base (sliceable) *)
Theorem C14_fast_equals_legacy : forall (S : Type) (seqb : S -> S -> bool) (slen : S -> nat) (X : Type)
    (file_list : list str) (pf0 : pfile S X) (rest : list (pfile S X)),
  Forall (fun pf => pf_simple S X pf = true) (pf0 :: rest) ->
  (forall p0, hd_error (map parts_of file_list) = Some p0 ->
     Forall (sliceable (base_of (map parts_of file_list) p0)) file_list) ->
  file_list <> [] ->
  exists bp sch' rgs n,
    metadata_from_many S seqb slen X file_list (pf0 :: rest) false false None = MOk S X bp (pf_schema S X pf0) rgs n /\
    metadata_from_many S seqb slen X file_list (pf0 :: rest) false true None = MOk S X bp sch' rgs n.
Proof. exact mfm_fast_legacy. Qed.
Print Assumptions C14_fast_equals_legacy.

(* lists of hive/drill sub-datasets (first element a multi-file dataset) never take the fast path: the result does not
   depend on whether an fsspec filesystem is given, and C14_concat describes it *)
Theorem C14_subdatasets_always_legacy : forall (S : Type) (seqb : S -> S -> bool) (slen : S -> nat) (X : Type)
    (file_list : list str) (pf0 : pfile S X) (rest : list (pfile S X)) verify fs root,
  pf_simple S X pf0 = false ->
  is_legacy S X verify fs (pf0 :: rest) = true /\
  metadata_from_many S seqb slen X file_list (pf0 :: rest) verify fs root
  = metadata_from_many S seqb slen X file_list (pf0 :: rest) verify false root.
Proof. exact subdatasets_always_legacy. Qed.
Print Assumptions C14_subdatasets_always_legacy.

(* the slicing of the fast path, f[len(basepath):].lstrip("/"), is the relative path *)
Theorem C14_fast_slice : forall (base rest : list str),
  rest <> [] -> Forall (fun s => s <> [] /\ ~ In c_slash s) rest ->
  fast_rel (join_with c_slash base) (join_with c_slash (base ++ rest)) = join_with c_slash rest.
Proof. exact fast_rel_agrees. Qed.
Print Assumptions C14_fast_slice.

(* with verify_schema the legacy path always runs, and a schema different from the first one's raises *)
Theorem C14_verify_rejects : forall (S : Type) (seqb : S -> S -> bool) (X : Type) basepath rel
    (pf0 : pfile S X) (rest : list (pfile S X)) fs,
  (exists pf, In pf rest /\ seqb (pf_schema S X pf) (pf_schema S X pf0) = false) ->
  is_legacy S X true fs (pf0 :: rest) = true /\
  legacy_merge S seqb X true basepath rel (pf0 :: rest) = MValueError S X.
Proof. intros. split; [reflexivity|now apply verify_rejects]. Qed.
Print Assumptions C14_verify_rejects.

(* "with partition columns inferred from their directory names": a list of single files laid out below a given
   root as k1=v1/.../name (ANY legal file names `pname i`, any number of key=value levels, keys admissible in the
   sense of C08: Pv_hive).  util.analyse_paths yields exactly the relative paths, and reading the list through them
   (api.paths_to_cats + core.read_row_group as modelled for C08) returns every file's rows, in the given order,
   each with the partition columns its directories spell.  External conversions are Section variables as in C08. *)
Section C14_partition_columns.
  Variables F T D : Type.
  Variable feqb : F -> F -> bool.
  Variable teqb : T -> T -> bool.
  Variable deqb : D -> D -> bool.
  Variable f_eq_Z : F -> Z -> bool.
  Variable show_float : F -> str.
  Variable parse_float : bool -> str -> option F.
  Variable show_time_iso show_time_str : T -> str.
  Variable parse_time_np : bool -> str -> option T.
  Variable parse_time_fmt parse_time_pd : str -> option T.
  Variable parse_delta : str -> option D.
  Hypothesis feqb_spec : forall a b, reflect (a = b) (feqb a b).
  Hypothesis teqb_spec : forall a b, reflect (a = b) (teqb a b).
  Hypothesis deqb_spec : forall a b, reflect (a = b) (deqb a b).
  Variable P : Type.

  Theorem C14_partition_columns :
    forall (pm : list (str * kind)) (names : list str), NoDup names -> names <> [] -> Forall legal names ->
    forall ord : list str -> list str, (forall l x, In x (ord l) <-> In x l) ->
    forall pname : nat -> str, (forall i, clean (pname i) /\ pname i <> []) ->
    forall (root : str) (file_list : list str) (specs : list (list (value F T D) * nat)) (rowsets : list (list (row F T D P))),
    specs <> [] ->
    Forall2 (laid_out F T D show_float parse_float show_time_iso show_time_str parse_time_np parse_time_fmt pm names pname root) file_list specs ->
    Forall2 (fun sp rs => forall r, In r rs -> key_of F T D P r = fst sp) specs rowsets ->
    exists bp rel,
      analyse_paths file_list (Some root) = AOk bp rel /\
      read_model F T D feqb teqb deqb f_eq_Z parse_float parse_time_np parse_time_fmt parse_time_pd parse_delta P pm ord
                 (combine rel rowsets)
      = Some (Hive, map (fun r => (combine names (map (unwrap F T D) (key_of F T D P r)), snd r)) (concat rowsets)).
  Proof.
    exact (list_partition_columns F T D feqb teqb deqb f_eq_Z show_float parse_float show_time_iso show_time_str
             parse_time_np parse_time_fmt parse_time_pd parse_delta feqb_spec teqb_spec deqb_spec P).
  Qed.
End C14_partition_columns.
Print Assumptions C14_partition_columns.

(* non-vacuity of C14_partition_columns on the closed instance: two files under /d/x, one key level *)
Example C14_partition_columns_nonvacuous :
  analyse_paths [s_ "/d/x/k=a/f0.parquet"; s_ "/d/x/k=b/f1.parquet"] (Some (s_ "/d/x"))
  = AOk (s_ "/d/x") [s_ "k=a/f0.parquet"; s_ "k=b/f1.parquet"] /\
  cread [(s_ "k", KStr)] (combine [s_ "k=a/f0.parquet"; s_ "k=b/f1.parquet"]
                                  [[([Some (VStr (s_ "a"))], 0%nat); ([Some (VStr (s_ "a"))], 1%nat)]; [([Some (VStr (s_ "b"))], 2%nat)]])
  = Some (Hive, [([(s_ "k", VStr (s_ "a"))], 0%nat); ([(s_ "k", VStr (s_ "a"))], 1%nat); ([(s_ "k", VStr (s_ "b"))], 2%nat)]).
Proof. vm_compute. split; reflexivity. Qed.

(* "files whose schemas differ are rejected when verification is requested" - exactly: when the comparison decides
   equality of the schemas (all attributes of all elements: the tie checks this of pf._schema != ... on every single-
   attribute difference), verification raises iff some file's schema is not the first file's *)
Theorem C14_verify_rejects_iff : forall (S : Type) (seqb : S -> S -> bool) (X : Type) basepath rel
    (pf0 : pfile S X) (rest : list (pfile S X)),
  (forall a b, reflect (a = b) (seqb a b)) ->
  (legacy_merge S seqb X true basepath rel (pf0 :: rest) = MValueError S X
   <-> exists pf, In pf rest /\ pf_schema S X pf <> pf_schema S X pf0).
Proof. exact verify_rejects_iff. Qed.
Print Assumptions C14_verify_rejects_iff.

Example C14_nonvacuous :
  analyse_paths [s_ "/d/x/k=a/f0.parquet"; s_ "/d/x/k=b/f1.parquet"; s_ "/d/x/k=a/f2.parquet"] None
  = AOk (s_ "/d/x") [s_ "k=a/f0.parquet"; s_ "k=b/f1.parquet"; s_ "k=a/f2.parquet"] /\
  analyse_paths [s_ "/d/x/k=a/f0.parquet"; s_ "/d/x/k=a/f2.parquet"] (Some (s_ "/d/x"))
  = AOk (s_ "/d/x") [s_ "k=a/f0.parquet"; s_ "k=a/f2.parquet"] /\
  fast_rel (s_ "/d/x") (s_ "/d/x/k=b/f1.parquet") = s_ "k=b/f1.parquet".
Proof. vm_compute. repeat split. Qed.

(* ---------------------------------------------------------------------------------------------------------------
   "Dictionary-encoded categorical columns keep the right label in every row even when the files carry different
   dictionaries."   Model: Dataset/CatRead.v (shared with C07; tied to the real merged read by the correspondence
   `CatRead.read_cat ~ categorical column of the merged read`): ONE label list for the whole output column, replaced by
   every dictionary page, so every code is shown with the dictionary read LAST.

   Full statement wanted by the property:   forall init chunks, read_cat init chunks = expected_cat chunks.
   It is FALSE on the faithful model of today's reader (C07_categorical_relabel_refuted; open finding C14-categorical-labels,
   redesign of categorical reading).  What IS guaranteed, with the EXACT guard:                                        *)
From Pq Require Import Dataset.CatRead Dataset.CatGuard Proofs.CatReadMerge.

(* every row shows its own label WHENEVER every code that occurs in a chunk means the same label under the chunk's own
   dictionary and under the dictionary read last - for every number of files / row groups, every dictionary, every code list *)
Theorem C14_categorical_labels_partial : forall (init : list label) (chunks : list chunk),
  Forall (fun ch => forall c, In (Some c) (snd ch) ->
                    nth_error (own_labels ch) c = nth_error (final_labels init chunks) c) chunks ->
  read_cat init chunks = expected_cat chunks.
Proof. exact read_cat_guard_sufficient. Qed.
Print Assumptions C14_categorical_labels_partial.

(* ... and ONLY then: the guard is necessary as well, so it is the exact extent of the finding; `guard_b` decides it
   (the check evaluates the extracted guard_b on the dictionaries and codes of every generated list of files and demands
   correct labels exactly where it says true) *)
Theorem C14_categorical_guard_exact : forall (init : list label) (chunks : list chunk),
  guard_b init chunks = true <-> read_cat init chunks = expected_cat chunks.
Proof. exact read_cat_guard_b. Qed.
Print Assumptions C14_categorical_guard_exact.

(* label sets that grow from file to file: every dictionary a prefix of the last one, codes inside the own dictionary *)
Theorem C14_categorical_prefix : forall (init : list label) (chunks : list chunk),
  Forall (fun ch => is_prefix (own_labels ch) (final_labels init chunks) /\ codes_in_range ch) chunks ->
  read_cat init chunks = expected_cat chunks.
Proof. exact read_cat_prefix. Qed.
Print Assumptions C14_categorical_prefix.

(* dictionaries that agree only up to ORDER are not enough (computed witness: ['1','2'] then ['2','1'], code 0 in both) *)
Theorem C14_categorical_permuted_refuted :
  exists chunks, (forall ch1 ch2, In ch1 chunks -> In ch2 chunks -> same_label_set (own_labels ch1) (own_labels ch2))
              /\ Forall codes_in_range chunks
              /\ read_cat [] chunks <> expected_cat chunks.
Proof. exact read_cat_permuted_refuted. Qed.
Print Assumptions C14_categorical_permuted_refuted.

Example C14_categorical_nonvacuous :
  guard_b [] [(Some [7%N], [Some 0%nat; None]); (Some [7%N; 8%N; 9%N], [Some 1%nat; Some 0%nat])] = true /\
  guard_b [] [(Some [7%N; 8%N], [Some 1%nat]); (Some [7%N; 9%N], [Some 0%nat])] = false /\
  guard_b [] [(Some [7%N; 8%N], [Some 0%nat]); (Some [7%N; 9%N], [Some 0%nat; Some 1%nat])] = true.
Proof. vm_compute. repeat split. Qed.

(* ---------------------------------------------------------------------------------------------------------------
   "files whose schemas differ are rejected when verification is requested", with the comparison itself inside the model (wave 3;
   Dataset/SchemaEq.v: what `pf._schema != pfs[0]._schema` decides - list equality of the SchemaElement objects under cencoding.dict_eq).
   The comparison is a decidable relation, proved to be EXACTLY element-wise, attribute-wise equality of the schemas (every attribute path:
   type, type_length, repetition_type, name, num_children, converted_type, scale, precision, field_id, logicalType and its members;
   missing = None); tied to the real `!=` on every pair of stream V; the comparison expression is regenerated by paths2coq
   (gen_verify_is_model / gen_verify_rejects_iff).                                                                         *)
From Pq Require Import Dataset.SchemaEq Proofs.SchemaEqProofs.

Theorem C14_schema_comparison_exact : forall s1 s2 : list elem, schema_eqb s1 s2 = true <-> schema_equiv s1 s2.
Proof. exact schema_eqb_iff. Qed.
Print Assumptions C14_schema_comparison_exact.

Theorem C14_verify_rejects_schema_iff : forall (X : Type) basepath rel (pf0 : pfile (list elem) X) rest,
  legacy_merge (list elem) schema_eqb X true basepath rel (pf0 :: rest) = MValueError (list elem) X
  <-> exists pf, In pf rest /\ ~ schema_equiv (pf_schema (list elem) X pf) (pf_schema (list elem) X pf0).
Proof. exact verify_rejects_schema_iff. Qed.
Print Assumptions C14_verify_rejects_schema_iff.

(* comparing a rendering that drops an attribute is NOT the comparison (the class of seeded change C14-3): computed witness *)
Theorem C14_rendering_is_not_equality_refuted :
  exists s1 s2, map render_name_type s1 = map render_name_type s2 /\ schema_eqb s1 s2 = false.
Proof. exact rendering_is_not_equality. Qed.
Print Assumptions C14_rendering_is_not_equality_refuted.

(* ---------------------------------------------------------------------------------------------------------------
   Row groups are matched to the columns of the output by NAME (path_in_schema), not by position (wave 4; Dataset/ChunkNames.v:
   the loop of core.read_row_group_arrays).  C14_concat gives the merged row groups = the inputs' row groups in order; here: what is read
   from them does not depend on how each file ordered its column chunks (another writer, a frame with permuted columns: the input class of
   seeded changes C14-8 / C06-7), and every column of the merged dataset is the concatenation of that column of every row group.
   Tie: stream B with one file written with its columns in another order (colperm), read through every via and compared cell by cell. *)
From Pq Require Import Dataset.ChunkNames Proofs.ChunkNamesProofs.

Theorem C14_concat_chunk_order : forall (V : Type) (cols : list cname) (rgs rgs' : list (rowgroup V)),
  Forall2 (fun rg rg' => NoDup (map fst rg) /\ Permutation rg rg') rgs rgs' ->
  read_table V cols rgs = read_table V cols rgs'.
Proof. exact read_table_chunk_order. Qed.
Print Assumptions C14_concat_chunk_order.

Theorem C14_column_is_concatenation : forall (V : Type) (c : cname) (rgs : list (rowgroup V)) (datas : list (list V)),
  Forall2 (fun rg d => NoDup (map fst rg) /\ In (c, d) rg) rgs datas ->
  read_column V c rgs = Some (concat datas).
Proof. exact read_column_concat. Qed.
Print Assumptions C14_column_is_concatenation.

(* matching the k-th chunk to the k-th column of a layout remembered from another row group is NOT that (computed witness) *)
Theorem C14_chunks_by_position_refuted :
  exists (layout : list cname) (c : cname) (rg rg' : rowgroup nat),
    NoDup (map fst rg) /\ Permutation rg rg' /\
    read_col_by_position nat layout c rg = read_col nat c rg /\ read_col_by_position nat layout c rg' <> read_col nat c rg'.
Proof. exact by_position_refuted. Qed.
Print Assumptions C14_chunks_by_position_refuted.
