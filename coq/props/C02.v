(* C02 — written files are valid Parquet that an independent reader decodes identically.
   Statements only.  This file holds the structural half: the bookkeeping fields describe exactly
   the bytes present.  (Wire-type/IDL conformance of the metadata is C10's theorem set; the decode
   half uses the spec decoders of Codec/ - see harness/props/C02.py for which are wired in.)       *)
From Coq Require Import ZArith List Bool Arith.
From Pq Require Import Format.ChunkLayout Proofs.ChunkLayoutProofs.
Import ListNotations.
Open Scope Z_scope.

(* the writer's running-position/diff bookkeeping yields ColumnMetaData that passes the checker, for
   every page list of the shape write_column produces (optional dictionary page first, then data
   pages), every header and payload size, compression shrinking or growing pages *)
Theorem C02_writer_bookkeeping_valid : forall start encs (ps : list page),
  ps <> [] ->
  forallb is_data (tl ps) = true ->
  (is_data (hd {| p_kind := PData1; p_hdr := 1; p_comp := 0; p_uncomp := 0; p_nvals := 0; p_enc := 0 |} ps) = false -> tl ps <> []) ->
  forallb sane ps = true ->
  forallb (fun p => existsb (Z.eqb (p_enc p)) encs) ps = true ->
  check_chunk (wr_bookkeeping start (sumZ (map p_nvals (filter is_data ps))) encs ps) ps = true.
Proof. exact wr_bookkeeping_ok. Qed.
Print Assumptions C02_writer_bookkeeping_valid.

(* what a passing chunk check means: pages tile [start, start + total_compressed_size) back to back,
   uncompressed total and value counts add up, every page encoding is announced *)
Theorem C02_check_chunk_sound : forall c ps, check_chunk c ps = true ->
  chunk_start c + sumZ (map disk_size ps) = chunk_start c + c_total_comp c /\
  sumZ (map plain_size ps) = c_total_uncomp c /\
  sumZ (map p_nvals (filter is_data ps)) = c_num_values c /\
  (forall p, In p ps -> In (p_enc p) (c_encodings c)) /\
  (forall i, (i < length ps)%nat -> nth i (page_offsets (chunk_start c) ps) 0 = chunk_start c + sumZ (map disk_size (firstn i ps))).
Proof. exact check_chunk_sound. Qed.
Print Assumptions C02_check_chunk_sound.

(* file level: footer framing, row counts, every chunk exact, chunks inside the data region *)
Theorem C02_check_file_sound : forall f, check_file f = true ->
  f_footer_start f + f_footer_len f + 8 = f_len f /\
  f_num_rows f = sumZ (map r_num_rows (f_rgs f)) /\
  (forall r, In r (f_rgs f) -> r_total_byte_size r = sumZ (map (fun cp => c_total_uncomp (fst cp)) (r_chunks r)) /\
     forall cp, In cp (r_chunks r) -> check_chunk (fst cp) (snd cp) = true /\ c_num_values (fst cp) = r_num_rows r) /\
  Forall (fun ab => 4 <= fst ab /\ fst ab <= snd ab /\ snd ab <= f_footer_start f)
         (map chunk_interval (concat (map r_chunks (f_rgs f)))).
Proof. exact check_file_sound. Qed.
Print Assumptions C02_check_file_sound.

(* chunks listed in file order never overlap *)
Theorem C02_chunks_disjoint : forall iv lo hi, intervals_ok lo hi iv = true ->
  lo <= hi /\ Forall (fun ab => lo <= fst ab /\ fst ab <= snd ab /\ snd ab <= hi) iv /\
  (forall i j a b, (i < j)%nat -> nth_error iv i = Some a -> nth_error iv j = Some b -> snd a <= fst b).
Proof. exact intervals_ok_sound. Qed.
Print Assumptions C02_chunks_disjoint.

Example C02_nonvacuous :
  let d := {| p_kind := PDict; p_hdr := 14; p_comp := 30; p_uncomp := 50; p_nvals := 5; p_enc := 0 |} in
  let p := {| p_kind := PData2; p_hdr := 20; p_comp := 70; p_uncomp := 60; p_nvals := 100; p_enc := 8 |} in
  check_chunk (wr_bookkeeping 4 200 [0; 8] [d; p; p]) [d; p; p] = true
  /\ c_total_uncomp (wr_bookkeeping 4 200 [0; 8] [d; p; p]) = 224
  /\ check_chunk (wr_bookkeeping 4 200 [0; 8] [d; p; p]) [d; p] = false.
Proof. repeat split; vm_compute; reflexivity. Qed.
