(* C02 - written files are valid Parquet that an independent reader decodes identically.
   Statements only (proofs in theories/Proofs/).

   Two groups.  (A) The bookkeeping rules of parquet.thrift as a decidable checker (Format/ChunkLayout.v,
   used by the validator Format/File.v valid_file) and the writer's running-position/diff bookkeeping
   satisfying it for every page list.  (B) The layers of spec_roundtrip: the specification-level
   decoder/validator (Format/Phys, Page, File) reads back what the specification-level encoder
   (Format/Enc) writes - this is what makes `pqref fmt_validate / fmt_decode` a VERIFIED independent
   reader rather than another implementation.

   spec_roundtrip (DESIGN section 6) is proved at FILE level (C02_spec_roundtrip): for every well-formed
   laid-out file f (any number of row groups, columns, pages; v1/v2; optional/required; PLAIN, dictionary
   indices of width <= 32 in any run mixture, RLE booleans, DELTA_BINARY_PACKED with any block shape whose
   miniblocks hold a multiple of 8 values; any compressor satisfying the Section hypothesis)
   dec_file (enc_file f) = table_of f and valid_file (enc_file f) = Valid.  The hypotheses besides the
   layout's own consistency are representability conditions of the format itself: every integer the
   encoder must write fits its declared width (page sizes in i32: phdr_wf; footer: wfb), nesting <= 64,
   footer shorter than 4 GiB, and the logical types attached to the leaves conform to the IDL; that the
   whole footer then conforms to the IDL is a theorem (conf_fmd).  C02_roundtrip_hypotheses_nonvacuous
   shows a file satisfying all of them.  C02_every_table_has_a_layout: every table (one list of cells per
   leaf and row group, no NULL in a required column) is the denotation of a layout (one v1 PLAIN page per
   chunk), so "for every table and every layout" = for every lfile.  (That this particular layout also
   satisfies lfile_wf needs the representability bounds on the table's sizes and value_ok of its values;
   not stated as a theorem.)                                                                            *)
From Coq Require Import String.
From Coq Require Import NArith ZArith List Bool Arith Lia.
From Pq Require Import Base.Bytes Base.ListX Codec.Hybrid Thrift.Compact Thrift.Idl Thrift.IdlPinned Format.Phys Format.Meta Format.Page
  Format.ChunkLayout Format.File Format.Enc
  Proofs.ChunkLayoutProofs Proofs.HybridProofs Proofs.FormatCodecProofs Proofs.FormatPageProofs Proofs.FormatChunkProofs
  Proofs.FormatMetaProofs Proofs.FormatIdlProofs Proofs.FormatFileProofs Proofs.FormatLayoutProofs Proofs.FormatLayoutProofs2
  Impl.WPagesFmt Proofs.WPagesFmtProofs.
Import ListNotations.
Open Scope list_scope.

(* ---------------- (A) bookkeeping ---------------------------------------------------------------- *)
Open Scope Z_scope.

(* the writer's running-position/diff bookkeeping yields ColumnMetaData that passes the checker, for
   every page list of the shape write_column produces (optional dictionary page first, then data
   pages), every header and payload size, compression shrinking or growing pages *)
Theorem C02_writer_bookkeeping_valid : forall start encs (ps : list page),
  ps <> [] ->
  forallb is_data (tl ps) = true ->
  (is_data (hd {| p_kind := PData1; p_hdr := 1; p_comp := 0; p_uncomp := 0; p_nvals := 0; p_enc := 0 |} ps) = false -> tl ps <> []) ->
  forallb sane ps = true ->
  forallb (fun p => existsb (Z.eqb (p_enc p)) encs) ps = true ->
  check_chunk (wr_bookkeeping start (sumZ (map p_nvals (filter is_data ps))) encs ps) ps = true.
Proof. exact wr_bookkeeping_ok. Qed.
Print Assumptions C02_writer_bookkeeping_valid.

(* what a passing chunk check means: pages tile [start, start + total_compressed_size) back to back,
   uncompressed total and value counts add up, every page encoding is announced *)
Theorem C02_check_chunk_sound : forall c ps, check_chunk c ps = true ->
  chunk_start c + sumZ (map disk_size ps) = chunk_start c + c_total_comp c /\
  sumZ (map plain_size ps) = c_total_uncomp c /\
  sumZ (map p_nvals (filter is_data ps)) = c_num_values c /\
  (forall p, In p ps -> In (p_enc p) (c_encodings c)) /\
  (forall i, (i < length ps)%nat -> nth i (page_offsets (chunk_start c) ps) 0 = chunk_start c + sumZ (map disk_size (firstn i ps))).
Proof. exact check_chunk_sound. Qed.
Print Assumptions C02_check_chunk_sound.

Theorem C02_check_file_sound : forall f, check_file f = true ->
  f_footer_start f + f_footer_len f + 8 = f_len f /\
  f_num_rows f = sumZ (map r_num_rows (f_rgs f)) /\
  (forall r, In r (f_rgs f) -> r_total_byte_size r = sumZ (map (fun cp => c_total_uncomp (fst cp)) (r_chunks r)) /\
     forall cp, In cp (r_chunks r) -> check_chunk (fst cp) (snd cp) = true /\ c_num_values (fst cp) = r_num_rows r) /\
  Forall (fun ab => 4 <= fst ab /\ fst ab <= snd ab /\ snd ab <= f_footer_start f)
         (map chunk_interval (concat (map r_chunks (f_rgs f)))).
Proof. exact check_file_sound. Qed.
Print Assumptions C02_check_file_sound.

Theorem C02_chunks_disjoint : forall iv lo hi, intervals_ok lo hi iv = true ->
  lo <= hi /\ Forall (fun ab => lo <= fst ab /\ fst ab <= snd ab /\ snd ab <= hi) iv /\
  (forall i j a b, (i < j)%nat -> nth_error iv i = Some a -> nth_error iv j = Some b -> snd a <= fst b).
Proof. exact intervals_ok_sound. Qed.
Print Assumptions C02_chunks_disjoint.

(* ---------------- (B) layers of spec_roundtrip ---------------------------------------------------- *)
Open Scope N_scope.

(* PLAIN, every physical type, every value list, any trailing bytes *)
Theorem C02_spec_plain_roundtrip : forall t tlen vs rest,
  Forall (fun v => value_ok t tlen v = true) vs ->
  plain_dec t tlen (N.of_nat (length vs)) (plain_enc t vs ++ rest) = Some (vs, rest).
Proof. exact plain_roundtrip. Qed.
Print Assumptions C02_spec_plain_roundtrip.

(* the tail-recursive encoders that are extracted are the specification encoders *)
Theorem C02_spec_extracted_encoders : forall w rs, hyb_enc_x w rs = hyb_enc w rs /\ hyb_enc_len_x w rs = hyb_enc_len w rs.
Proof. intros; split; [apply FormatCodecProofs.hyb_enc_x_ok|apply FormatCodecProofs.hyb_enc_len_x_ok]. Qed.
Print Assumptions C02_spec_extracted_encoders.

(* page header: strict compact-protocol parse + IDL conformance + typed view give the header back *)
Theorem C02_spec_page_header_roundtrip : forall h rest, phdr_wf h = true ->
  dec_phdr (enc_phdr h ++ rest) = ROk (h, lenN (enc_phdr h), rest).
Proof. exact phdr_roundtrip. Qed.
Print Assumptions C02_spec_page_header_roundtrip.

(* any page (dictionary, data v1, data v2; optional/required; PLAIN, dictionary indices of any width <= 32
   in any mixture of RLE and bit-packed runs, RLE booleans; compressed or not; v2 is_compressed
   absent/true/false; DELTA_BINARY_PACKED): decoding the encoder's header and payload gives the page's
   denotation. *)
Theorem C02_spec_page_roundtrip :
  forall (compress : Z -> bytes -> bytes) (decompress : Z -> N -> bytes -> option bytes),
  (forall codec b, decompress codec (lenN b) (compress codec b) = Some b) ->
  forall strict cd codec dict it c,
  item_wf cd it -> item_content cd dict it = Some c ->
  let hp := enc_item compress cd codec it in
  dec_page decompress strict cd codec dict (fst hp) (snd hp) = ROk c.
Proof. exact item_roundtrip. Qed.
Print Assumptions C02_spec_page_roundtrip.

(* column chunk: the page loop over the concatenated pages (headers parsed back to back until the
   bytes are used up, dictionary pages replacing the dictionary in force) returns the page summaries
   the bookkeeping checker looks at, the cells in order and the number of NULLs *)
Theorem C02_spec_chunk_roundtrip :
  forall (compress : Z -> bytes -> bytes) (decompress : Z -> N -> bytes -> option bytes),
  (forall codec b, decompress codec (lenN b) (compress codec b) = Some b) ->
  forall strict cd codec its clock dict pages cells nulls contents,
  Forall (item_wf cd) its ->
  Forall (fun it => phdr_wf (fst (enc_item compress cd codec it)) = true) its ->
  items_contents cd dict its = Some contents ->
  (length (concat (map (item_bytes compress cd codec) its)) <= length clock)%nat ->
  scan_pages decompress clock strict cd codec dict (concat (map (item_bytes compress cd codec) its)) pages cells nulls
  = ROk (rev pages ++ map (fun it => summary_of (enc_item compress cd codec it)) its,
         rev cells ++ concat (map content_cells contents),
         nulls + fold_right N.add 0 (map content_nulls contents)).
Proof. exact scan_pages_roundtrip. Qed.
Print Assumptions C02_spec_chunk_roundtrip.

(* the footer: typed view of the generic value the encoder writes gives the records back *)
Theorem C02_spec_footer_view_roundtrip : forall m, fmd_of_tv (fmd_to_tv m) = Some m.
Proof. exact fmd_of_to. Qed.
Print Assumptions C02_spec_footer_view_roundtrip.

(* the encoder's ColumnMetaData passes the bookkeeping checker on the page summaries the scan produces
   (sizes, counts, dictionary/data page offsets, encodings) for every chunk with the dictionary page first *)
Theorem C02_spec_chunk_metadata_valid :
  forall (compress : Z -> bytes -> bytes) l start c,
  its_shape (lc_items c) ->
  check_chunk (cmeta_of (chunk_meta compress l start c)) (summaries compress (desc_of l) (lc_codec c) (lc_items c)) = true.
Proof. exact enc_chunk_check. Qed.
Print Assumptions C02_spec_chunk_metadata_valid.

(* the footer the encoder writes conforms to the IDL whenever the leaves' logical types do *)
Theorem C02_spec_footer_conforms : forall m, Forall logical_ok (fm_schema m) ->
  conforms pinned idl_opts (FStruct "FileMetaData") (fmd_to_tv m) = true.
Proof. exact conf_fmd. Qed.
Print Assumptions C02_spec_footer_conforms.

(* FILE level.  lfile_wf = leaves well-typed, every row group has one well-formed chunk per leaf (pages
   well-formed, page headers within i32), footer_ok (representable, < 4 GiB, leaf logical types conformant);
   rg_strict = dictionary page first and alone, all chunks of a row group have the same number of rows. *)
Theorem C02_spec_roundtrip :
  forall (compress : Z -> bytes -> bytes) (decompress : Z -> N -> bytes -> option bytes),
  (forall codec b, decompress codec (lenN b) (compress codec b) = Some b) ->
  forall strict f t,
  lfile_wf compress f -> Forall rg_strict (l_rgs f) -> table_of f = Some t ->
  dec_file decompress strict (enc_file compress f) = ROk t /\
  valid_file decompress strict (enc_file compress f) = ROk tt.
Proof. exact spec_roundtrip. Qed.
Print Assumptions C02_spec_roundtrip.

(* every table is the denotation of some layout *)
Theorem C02_every_table_has_a_layout : forall leaves rgs cb, table_fits leaves rgs ->
  table_of (layout_of leaves rgs cb) = Some (map leaf_of_l leaves, rgs).
Proof. exact every_table_has_a_layout. Qed.
Print Assumptions C02_every_table_has_a_layout.

(* ... and that canonical layout's pages are well-formed as soon as the values are representable *)
Theorem C02_canonical_page_wf : forall optional t tlen cells,
  cells_fit optional cells ->
  Forall (fun v => value_ok t tlen v = true) (values_of cells) ->
  lenN (hyb_enc 1 [BP (map level_of cells)]) < 2 ^ 32 ->
  page_wf {| cd_type := t; cd_tlen := tlen; cd_maxdef := if optional then 1 else 0 |} (plain_page optional cells).
Proof. exact plain_page_wf. Qed.
Print Assumptions C02_canonical_page_wf.

(* "for every table": a table that fits its leaves and whose canonical layout is representable is what the
   specification decoder returns for the bytes the specification encoder writes for it *)
Theorem C02_every_table_roundtrips :
  forall (compress : Z -> bytes -> bytes) (decompress : Z -> N -> bytes -> option bytes),
  (forall codec b, decompress codec (lenN b) (compress codec b) = Some b) ->
  forall strict leaves rgs cb,
  table_fits leaves rgs -> lfile_wf compress (layout_of leaves rgs cb) ->
  dec_file decompress strict (enc_file compress (layout_of leaves rgs cb)) = ROk (map leaf_of_l leaves, rgs).
Proof. exact every_table_roundtrips. Qed.
Print Assumptions C02_every_table_roundtrips.

(* decoding alone needs no strictness: a second dictionary page in a chunk, unequal row counts ... *)
Theorem C02_spec_roundtrip_dec :
  forall (compress : Z -> bytes -> bytes) (decompress : Z -> N -> bytes -> option bytes),
  (forall codec b, decompress codec (lenN b) (compress codec b) = Some b) ->
  forall strict f t, lfile_wf compress f -> table_of f = Some t ->
  dec_file decompress strict (enc_file compress f) = ROk t.
Proof. exact spec_roundtrip_dec. Qed.
Print Assumptions C02_spec_roundtrip_dec.

(* C02_fp_write_valid at the level of the writer's bookkeeping model: whatever payloads write_column emits,
   if the recorded ColumnMetaData are those of its pos/diff bookkeeping, num_values the row count and
   null_count the number of NULL levels, the validator's chunk check accepts the scanned chunk.
   (DESIGN's C02_fp_write_valid/_dec over a byte-producing writer model: the page payload blocks are modelled
   and proved decodable in the coordinator's Impl/WLevels.v (C01); the remaining glue - the real page bytes are
   the model's - is checked by running valid_file/dec_file on every written file, harness/props/C02.py.) *)
Theorem C02_fp_write_chunk_valid : forall start encs (ps : list page) (m : cmd) cells nulls rg,
  ps <> [] ->
  forallb is_data (tl ps) = true ->
  (is_data (hd {| p_kind := PData1; p_hdr := 1; p_comp := 0; p_uncomp := 0; p_nvals := 0; p_enc := 0 |}%Z ps) = false -> tl ps <> []) ->
  forallb sane ps = true ->
  forallb (fun p => existsb (Z.eqb (p_enc p)) encs) ps = true ->
  cmeta_of m = wr_bookkeeping start (sumZ (map p_nvals (filter is_data ps))) encs ps ->
  cm_nvals m = rg_nrows rg ->
  (cm_null_count m = None \/ cm_null_count m = Some (Z.of_N nulls)) ->
  valid_chunk rg (CHere {| co_meta := m; co_pages := ps; co_cells := cells; co_nulls := nulls |}) = ROk tt.
Proof. exact fp_write_chunk_valid. Qed.
Print Assumptions C02_fp_write_chunk_valid.

(* C02_fp_write_dec at page level: the layout write_column picks for a PLAIN column page (Impl/WPagesFmt.v:
   one RLE run of definition levels when the page has no NULL, else one bit-packed run over the mask padded
   with 8 - n mod 8 zeros; PLAIN values; 8 zero bytes after a v1 page) is a well-formed layout of the
   specification and denotes exactly the page's cells - so (C02_spec_page_roundtrip) every specification
   reader decodes the page to the input cells; for any number of rows, any NULL pattern, v1 and v2.
   The model's payload bytes are compared with every real PLAIN page on each run (evidence:
   writer_model_pages_not_byte_equal; information, not an obligation - DESIGN 4.2). *)
Theorem C02_fp_write_plain_page_dec_partial : forall v2 optional t tlen cells,
  cells_fit optional cells ->
  page_cells {| cd_type := t; cd_tlen := tlen; cd_maxdef := if optional then 1 else 0 |} None (fp_plain_page v2 optional cells)
  = Some cells.
Proof. exact fp_plain_page_cells. Qed.
Print Assumptions C02_fp_write_plain_page_dec_partial.

Theorem C02_fp_write_plain_page_wf_partial : forall v2 optional t tlen cells,
  cells_fit optional cells ->
  Forall (fun v => value_ok t tlen v = true) (vals_of cells) ->
  lenN (hyb_enc 1 (fp_def_runs cells)) < 2 ^ 32 -> cells <> [] ->
  page_wf {| cd_type := t; cd_tlen := tlen; cd_maxdef := if optional then 1 else 0 |} (fp_plain_page v2 optional cells).
Proof. exact fp_plain_page_wf. Qed.
Print Assumptions C02_fp_write_plain_page_wf_partial.

(* ---------------- non-vacuity -------------------------------------------------------------------- *)
Example C02_nonvacuous :
  let d := {| p_kind := PDict; p_hdr := 14; p_comp := 30; p_uncomp := 50; p_nvals := 5; p_enc := 0 |}%Z in
  let p := {| p_kind := PData2; p_hdr := 20; p_comp := 70; p_uncomp := 60; p_nvals := 100; p_enc := 8 |}%Z in
  check_chunk (wr_bookkeeping 4 200 [0; 8] [d; p; p])%Z [d; p; p] = true
  /\ c_total_uncomp (wr_bookkeeping 4 200 [0; 8] [d; p; p])%Z = 224%Z
  /\ check_chunk (wr_bookkeeping 4 200 [0; 8] [d; p; p])%Z [d; p] = false.
Proof. repeat split; vm_compute; reflexivity. Qed.

(* a whole file through the executable specification: two columns (optional INT32 with a NULL, PLAIN,
   v1; required BYTE_ARRAY with a dictionary page, RLE + bit-packed indices, v2), identity "compression":
   the decoder returns the denoted table and the validator accepts *)
Definition ex_file : lfile :=
  {| l_leaves := [ {| ll_name := [97]; ll_type := INT32; ll_tlen := 0; ll_optional := true; ll_conv := None; ll_logical := None; ll_scale := None; ll_prec := None |};
                   {| ll_name := [115]; ll_type := BYTE_ARRAY; ll_tlen := 0; ll_optional := false; ll_conv := Some 0%Z; ll_logical := None; ll_scale := None; ll_prec := None |} ];
     l_rgs := [ [ {| lc_codec := 0%Z; lc_stats := true;
                     lc_items := [ LData {| lp_v2 := false; lp_nvals := 3; lp_def := [RLE 1 1; BP [0; 1]];
                                            lp_store := SPlain [VNum 7; VNum 4294967295]; lp_iscomp := None; lp_trail := [] |} ] |};
                  {| lc_codec := 0%Z; lc_stats := false;
                     lc_items := [ LDict 0%Z [VBin [120]; VBin []; VBin [121; 122]];
                                   LData {| lp_v2 := true; lp_nvals := 3; lp_def := [];
                                            lp_store := SDict 8%Z 2 [RLE 2 2; BP [0]]; lp_iscomp := Some false; lp_trail := [] |} ] |} ] ];
     l_created_by := None |}.
Definition id_c (_ : Z) (b : bytes) : bytes := b.
Definition id_d (_ : Z) (_ : N) (b : bytes) : option bytes := Some b.

Example C02_file_nonvacuous :
  table_of ex_file = Some (map leaf_of_l (l_leaves ex_file),
                           [[[Some (VNum 7); None; Some (VNum 4294967295)];
                             [Some (VBin [121; 122]); Some (VBin [121; 122]); Some (VBin [120])]]])
  /\ option_map snd (match dec_file id_d true (enc_file id_c ex_file) with ROk r => Some r | _ => None end)
     = option_map snd (table_of ex_file)
  /\ valid_file id_d true (enc_file id_c ex_file) = ROk tt.
Proof. repeat split; vm_compute; reflexivity. Qed.

(* the hypotheses of C02_spec_roundtrip are satisfiable: ex_file meets every one of them *)
Ltac dec := first [exact I | reflexivity | vm_compute; first [reflexivity | discriminate | (intro; discriminate) | lia]].
Ltac fa := repeat (first [apply Forall_cons | apply Forall_nil | apply Forall2_cons | apply Forall2_nil]).

Example C02_roundtrip_hypotheses_nonvacuous : lfile_wf id_c ex_file /\ Forall rg_strict (l_rgs ex_file).
Proof.
  split; [split; [|split]|].
  - (* leaves *) cbn [l_leaves ex_file]. fa; dec.
  - (* row groups: one well-formed chunk per leaf *)
    cbn [l_leaves l_rgs ex_file]. fa. split; [reflexivity|]. fa.
    + split; [split|eexists; vm_compute; reflexivity]; cbn [lc_items]; fa.
      * cbn [item_wf]. split.
        -- right. cbn [desc_of cd_maxdef ll_optional lp_def lp_nvals]. repeat split; fa; try dec; split; fa; dec.
        -- cbn [lp_store store_wf]. split; fa; dec.
      * dec.
    + split; [split|eexists; vm_compute; reflexivity]; cbn [lc_items]; fa.
      * cbn [item_wf]. split; [left; reflexivity|fa; dec].
      * cbn [item_wf]. split; [left; reflexivity|].
        cbn [lp_store store_wf]. split; [right; reflexivity|]. repeat split; fa; try dec; split; fa; dec.
      * dec.
      * dec.
  - (* footer *) repeat split; fa; dec.
  - (* strict *) cbn [l_rgs ex_file]. fa; split; dec || (cbn [lc_items its_shape]; split; dec).
Qed.
