(* C18 — rejected operations raise and leave an existing dataset as it was.
   Only statements here; model in theories/Dataset/Reject.v (on top of FS.v, FsPaths.v, Crash.v),
   proofs in theories/Proofs/RejectProofs.v.

   Shape.  An operation of the model is a program `program rq d eff eff2`: the checks of the code in
   the code's order, then its effect stage(s).  `exec` returns the file-system calls issued and
   whether the operation ended in an exception.
     * C18_validation_pure: whenever one of the refusals listed by the property applies (`rejected`,
       stated order-free), the operation raises and has issued NO file-system call - for every
       request, every existing dataset and every effect stage.
     * late failures (conversion / encoding / compression errors inside make_row_group):
         - multi-file datasets: C18_multi_intact - for every failure position the calls issued so far
           satisfy C19's `safe_trace`, never open _metadata, and leave _metadata, _common_metadata
           and every referenced file byte-identical, hence a fresh open reads the same (any
           `parse_md`/`decode`);
         - single files (validated relation, DESIGN 4.2): C18_restoring_sound - EVERY positional
           trace accepted by the decidable `check_restoring` (evaluated on the trace recorded from
           the real failed append) leaves the file byte-identical; C18_simple_intact - the model of
           the repaired write_simple is in the relation for every file, payload list and failure
           position; C18_simple_append_refuted - the pinned code (before fix a3be3a1) is not.
   Reading of the text: a plain (non-append) write onto an existing path asks for its replacement;
   only its validation stage is inside this property.                                          *)
From Coq Require Import NArith Arith List Bool.
From Pq Require Import Base.Bytes Dataset.FS Dataset.FsPaths Dataset.Crash Dataset.Reject
  Proofs.CrashProofs Proofs.RejectProofs.
Import ListNotations.

Theorem C18_validation_pure : forall rq d eff eff2,
  rejected rq d = true -> exec (program rq d eff eff2) = ([], true).
Proof. exact validation_pure. Qed.
Print Assumptions C18_validation_pure.

(* the model refuses nothing else: an accepted request reaches its effect stage unchanged *)
Theorem C18_validation_complete : forall rq d eff eff2,
  rejected rq d = false -> exec (program rq d eff eff2) = after_validation rq eff eff2.
Proof. exact validation_pass. Qed.
Print Assumptions C18_validation_complete.

(* no file-system write without an exception-free... : a rejected request leaves every file as it was *)
Theorem C18_rejected_fs_unchanged : forall rq d eff eff2 s,
  rejected rq d = true -> run_trace (fst (exec (program rq d eff eff2))) s = s.
Proof. intros. rewrite validation_pure by assumption. reflexivity. Qed.
Print Assumptions C18_rejected_fs_unchanged.

Theorem C18_read_never_writes : forall cols fcols d eff eff2,
  fst (exec (program (Read cols fcols) d eff eff2)) = [].
Proof. exact read_never_writes. Qed.
Print Assumptions C18_read_never_writes.

(* part names given by write_multi when appending are fresh (find_max_part, PART_ID) *)
Theorem C18_fresh_part_name : forall refs off d n,
  find_max_part refs = Some off -> (off <= n)%N -> no_nl d = true -> ~ In (join d (part_name n)) refs.
Proof. exact fresh_part_name. Qed.
Print Assumptions C18_fresh_part_name.

Theorem C18_multi_intact : forall refs rgs r k,
  (forall g f, In g rgs -> In f g -> no_nl (pf_dir f) = true) ->
  let tr := fst (multi_fail refs rgs r k) in
  safe_trace refs tr /\ existsb is_md_open tr = false
  /\ forall s q, In q (md_name :: cmd_name :: refs) -> lookup q (run_trace tr s) = lookup q s.
Proof. exact multi_fail_intact. Qed.
Print Assumptions C18_multi_intact.

(* ... as the outcome of the whole operation: an append / overwrite that passes validation and then
   fails at position (r, k) raises, and a fresh open reads what it read before *)
Theorem C18_multi_append_reads_same :
  forall (R : Type) (parse_md : bytes -> option (list path)) (decode : bytes -> list (option bytes) -> R)
         rq d eff2 rgs r k s,
  (match rq with Append _ _ _ | Overwrite _ => True | _ => False end) ->
  rejected rq d = false ->
  refs_of parse_md s = Some (d_refs d) ->
  (forall g f, In g rgs -> In f g -> no_nl (pf_dir f) = true) ->
  let out := exec (program rq d (multi_fail (d_refs d) rgs r k) eff2) in
  snd out = true
  /\ read_dataset R parse_md decode (run_trace (fst out) s) = read_dataset R parse_md decode s.
Proof.
  intros R parse_md decode rq d eff2 rgs r k s Hk Hrej Hrefs Hnl out. subst out.
  rewrite validation_pass by assumption.
  assert (Hs : snd (multi_fail (d_refs d) rgs r k) = true)
    by (unfold multi_fail; destruct (find_max_part (d_refs d)); reflexivity).
  destruct (multi_fail_intact (d_refs d) rgs r k Hnl) as [_ [_ F]].
  assert (G : snd (multi_fail (d_refs d) rgs r k) = true
              /\ read_dataset R parse_md decode (run_trace (fst (multi_fail (d_refs d) rgs r k)) s)
                 = read_dataset R parse_md decode s).
  { split; [exact Hs|]. apply (read_dataset_same R parse_md decode s _ (d_refs d) Hrefs). intros q Hq. apply F.
    destruct Hq as [Hq|Hq]; [now left | right; right; exact Hq]. }
  destruct rq; try contradiction; cbn [after_validation]; [exact G | rewrite Hs; exact G].
Qed.
Print Assumptions C18_multi_append_reads_same.

Theorem C18_restoring_sound : forall f ops, check_restoring f ops = true -> run_fops ops f = f.
Proof. exact restoring_sound. Qed.
Print Assumptions C18_restoring_sound.

Theorem C18_simple_intact : forall f ds k,
  check_restoring f (simple_append_fixed f ds (Some k)) = true
  /\ run_fops (simple_append_fixed f ds (Some k)) f = f.
Proof. intros; split; [apply fixed_in_relation | apply simple_intact]. Qed.
Print Assumptions C18_simple_intact.

Theorem C18_simple_append_refuted :
  exists f ds k, foot_start f <> None /\ run_fops (simple_append_old f ds (Some k)) f <> f.
Proof. exact simple_append_old_refuted. Qed.
Print Assumptions C18_simple_append_refuted.

(* non-vacuity: a hive dataset with two part files; an append that passes validation and fails in the
   second write of its second new file has created part.2 and part.3 and nothing else *)
Example C18_nonvacuous :
  let refs := [part_name 0; part_name 1] in
  let d := {| d_scheme := SHive; d_is_md := true; d_cats := []; d_cols := [[97%N]]; d_refs := refs |} in
  let fr := {| f_cols := [CStr [97%N]]; f_typed := [true] |} in
  let g := [ {| pf_dir := []; pf_mk := false; pf_writes := [[1%N]; [2%N]; [3%N]] |} ] in
  rejected (Append s_hive [] fr) d = false
  /\ exec (program (Append s_hive [] fr) d (multi_fail refs [g; g] 1%nat 1%nat) ([], false))
     = ([OpenW (part_name 2) true; Write (part_name 2) [1%N]; Write (part_name 2) [2%N]; Write (part_name 2) [3%N];
         Close (part_name 2);
         OpenW (part_name 3) true; Write (part_name 3) [1%N]; Close (part_name 3)], true)
  /\ rejected (Append s_hive [[107%N]] fr) d = true
  /\ check_restoring old_witness_file (simple_append_fixed old_witness_file [[7%N]; [8%N]] (Some 1%nat)) = true.
Proof. vm_compute. repeat split. Qed.
