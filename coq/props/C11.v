(* C11 — primitive codecs agree with the specification on their whole domain.
   Only statements here; models in theories/Codec (spec, written from the Parquet Encodings document)
   and theories/Impl/C*.v (what cencoding.c does, over explicit machine integers, results
   Ok / OOB / UB); proofs in theories/Proofs.

   Full statement (inside the models): every spec encoder/decoder pair round-trips for every
   width and length; every native decoder, on every well-formed input of every width the format
   allows (0..32, delta 0..64), returns Ok with exactly min(count, capacity) values - the spec
   values - and the input cursor right behind the run.
   What is proved: the spec round trips in full; impl = spec on the region where it is true
   (bit-packed runs 0 < w <= 24, ...); the rest of the full statement is REFUTED on the faithful
   model of the compiled code (w >= 25: undefined shift / wrong values; empty runs consume a byte),
   each with a computed witness that the check replays on the real code (known findings). *)
From Coq Require Import NArith ZArith Arith List Bool.
From Pq Require Import Base.Bytes Base.Err Base.ListX Codec.Varint Codec.Zigzag Codec.Bitpack
  Codec.Hybrid Impl.CVarint Impl.CBitpack Impl.CRle Impl.CDelta
  Codec.Plain Proofs.CodecProofs Proofs.PlainProofs Proofs.HybridProofs
  Codec.Delta Impl.CHybrid Impl.PyPack Proofs.DeltaProofs Proofs.CBitpackProofs Proofs.CRleProofs Proofs.CVarintProofs
  Impl.CEnc Proofs.CDeltaProofs Proofs.CBoolProofs Proofs.CHybridProofs Proofs.CPlainProofs Proofs.CEncProofs
  Impl.Dispatch Proofs.DispatchProofs.
Import ListNotations.
Open Scope N_scope.

(* ---- spec round trips (full) ---- *)
Theorem C11_uleb_roundtrip : forall n rest, uleb_dec (uleb_enc n ++ rest) = Some (n, rest).
Proof. exact uleb_roundtrip. Qed.
Print Assumptions C11_uleb_roundtrip.

Theorem C11_uleb_len_u64 : forall n, n < 2 ^ 64 -> (1 <= length (uleb_enc n) <= 10)%nat.
Proof. exact uleb_len_u64. Qed.
Print Assumptions C11_uleb_len_u64.

Theorem C11_zigzag_dec_enc : forall z, zz_dec (zz_enc z) = z.
Proof. exact zz_dec_enc. Qed.
Print Assumptions C11_zigzag_dec_enc.

Theorem C11_zigzag_enc_dec : forall n, zz_enc (zz_dec n) = n.
Proof. exact zz_enc_dec. Qed.
Print Assumptions C11_zigzag_enc_dec.

Theorem C11_zigzag_range64 : forall z, (- 2 ^ 63 <= z < 2 ^ 63)%Z <-> zz_enc z < 2 ^ 64.
Proof. exact zz_enc_range64. Qed.
Print Assumptions C11_zigzag_range64.

Theorem C11_bitpack_roundtrip : forall w vs rest,
  Forall (fun v => v < 2 ^ w) vs ->
  bp_dec w (N.of_nat (length vs)) (bp_enc w vs ++ rest) = vs.
Proof. exact bp_roundtrip. Qed.
Print Assumptions C11_bitpack_roundtrip.

(* RLE / bit-packed hybrid: every width, every mixture of well-formed runs, every number n of wanted values,
   strict or lenient reader, anything may follow the stream *)
Theorem C11_hybrid_roundtrip : forall strict w rs n rest,
  Forall (run_wf w) rs -> (N.to_nat n <= length (allvals rs))%nat ->
  exists r, hyb_dec strict w n (hyb_enc w rs ++ rest) = Some (firstn (N.to_nat n) (allvals rs), r).
Proof. exact hyb_roundtrip. Qed.
Print Assumptions C11_hybrid_roundtrip.

Theorem C11_hybrid_len_roundtrip : forall strict w rs n rest,
  Forall (run_wf w) rs -> (N.to_nat n <= length (allvals rs))%nat ->
  N.of_nat (length (hyb_enc w rs)) < 2 ^ 32 ->
  hyb_dec_len strict w n (hyb_enc_len w rs ++ rest) = Some (firstn (N.to_nat n) (allvals rs), rest).
Proof. exact hyb_len_roundtrip. Qed.
Print Assumptions C11_hybrid_len_roundtrip.

Theorem C11_byte_array_roundtrip : forall xs rest,
  Forall (fun x => N.of_nat (length x) < 2 ^ 32) xs ->
  ba_dec (length xs) (ba_enc xs ++ rest) = Some (xs, rest).
Proof. exact ba_roundtrip. Qed.
Print Assumptions C11_byte_array_roundtrip.

Theorem C11_boolean_roundtrip : forall bs rest,
  Forall (fun b => b < 2) bs -> bool_dec (N.of_nat (length bs)) (bool_enc bs ++ rest) = bs.
Proof. exact bool_roundtrip. Qed.
Print Assumptions C11_boolean_roundtrip.

(* DELTA_BINARY_PACKED: any bit width of the type, any block shape whose miniblocks hold a multiple of 8
   values, any list of in-range values, anything following the stream *)
Theorem C11_delta_roundtrip : forall bits q mp vs rest,
  1 <= bits -> (1 <= q)%nat -> (1 <= mp)%nat -> Forall (in_range bits) vs ->
  delta_dec bits (delta_enc bits (N.of_nat (8 * q * mp)) (N.of_nat mp) vs ++ rest) = Some (vs, rest).
Proof. exact delta_roundtrip. Qed.
Print Assumptions C11_delta_roundtrip.

(* ---- impl = spec ---- *)
(* cencoding.read_bitpacked: a run of g groups (8g values) of width 0 < w <= 24 whose g*w bytes are
   present: no read outside the input, no undefined shift, exactly min(8g, capacity) values stored -
   the spec values in order (low byte of each when the item size is 1) - and the input cursor
   exactly behind the run. *)
Theorem C11_read_bitpacked_correct : forall w g isz cap input,
  0 < w <= 24 -> isz = 1 \/ isz = 4 -> ~ (w = 1 /\ isz = 1) ->
  0 < g < 2 ^ 28 -> bytes_ok input -> g * w <= N.of_nat (length input) ->
  c_read_bitpacked input (Z.of_N (2 * g + 1)) w cap isz =
  Ok {| d_vals := map (tr isz) (bp_dec w (N.min (8 * g) (cap / isz)) input);
        d_used := g * w;
        d_written := isz * N.min (8 * g) (cap / isz) |}.
Proof. exact read_bitpacked_correct. Qed.
Print Assumptions C11_read_bitpacked_correct.

(* cencoding.read_rle: an RLE run of any width 0..32, any count, any output capacity *)
Theorem C11_read_rle_correct : forall w count isz cap input,
  w <= 32 -> isz = 1 \/ isz = 4 -> count < 2 ^ 31 ->
  bytes_ok input -> vbytes w <= N.of_nat (length input) ->
  c_read_rle input (Z.of_N (2 * count)) w cap isz =
  Ok {| d_vals := repeat (tr isz (le2n (firstn (N.to_nat (vbytes w)) input))) (N.to_nat (N.min count (cap / isz)));
        d_used := vbytes w;
        d_written := isz * N.min count (cap / isz) |}.
Proof. exact read_rle_correct. Qed.
Print Assumptions C11_read_rle_correct.

(* cencoding.read_bitpacked1 (booleans, width-1 levels): every count, every output capacity *)
Theorem C11_read_bitpacked1_correct : forall inp count cap,
  bytes_ok inp -> (N.min count cap + 7) / 8 <= N.of_nat (length inp) ->
  c_read_bitpacked1 inp count cap =
  Ok {| d_vals := bool_dec (N.min count cap) inp; d_used := (count + 7) / 8; d_written := N.min count cap |}.
Proof. exact read_bitpacked1_correct. Qed.
Print Assumptions C11_read_bitpacked1_correct.

(* encoding.read_plain_boolean *)
Theorem C11_read_plain_boolean_correct : forall raw count,
  bytes_ok raw -> (count + 7) / 8 <= N.of_nat (length raw) ->
  py_read_plain_boolean raw count = Ok (bool_dec count raw).
Proof. exact read_plain_boolean_correct. Qed.
Print Assumptions C11_read_plain_boolean_correct.

(* writer.convert's np.pad / np.packbits idiom (witness model of the relation the check evaluates on the real bytes) *)
Theorem C11_packbits_is_bp1 : forall vs, Forall (fun b => b < 2) vs ->
  bool_dec (N.of_nat (length vs)) (py_bool_pack vs) = vs.
Proof. exact packbits_is_bp1. Qed.
Print Assumptions C11_packbits_is_bp1.

(* cencoding.read_rle_bit_packed_hybrid: any stream of well-formed runs (RLE of any width <= 32, counts < 2^30;
   bit-packed runs of width 0 < w <= 24, or width 1 with item size 1), anything behind it, any output capacity:
   exactly min(total, capacity) values - the runs' values in order - and the cursor stays inside the stream *)
Theorem C11_hybrid_correct : forall w isz cap rs rest,
  isz = 1 \/ isz = 4 -> Forall (irun_ok w isz) rs -> rs <> [] -> bytes_ok rest ->
  exists u, u <= lenN (hyb_enc w rs) /\
    c_read_hybrid (hyb_enc w rs ++ rest) w (lenN (hyb_enc w rs)) cap isz =
    Ok {| d_vals := map (tr isz) (firstn (N.to_nat (N.min (lenN (allvals rs)) (cap / isz))) (allvals rs));
          d_used := u;
          d_written := isz * N.min (lenN (allvals rs)) (cap / isz) |}.
Proof. exact hybrid_correct. Qed.
Print Assumptions C11_hybrid_correct.

Theorem C11_hybrid_prefixed_correct : forall w isz cap rs rest,
  isz = 1 \/ isz = 4 -> Forall (irun_ok w isz) rs -> rs <> [] -> bytes_ok rest ->
  lenN (hyb_enc w rs) < 2 ^ 32 ->
  exists u, u <= 4 + lenN (hyb_enc w rs) /\
    c_read_hybrid (hyb_enc_len w rs ++ rest) w 0 cap isz =
    Ok {| d_vals := map (tr isz) (firstn (N.to_nat (N.min (lenN (allvals rs)) (cap / isz))) (allvals rs));
          d_used := u;
          d_written := isz * N.min (lenN (allvals rs)) (cap / isz) |}.
Proof. exact hybrid_prefixed_correct. Qed.
Print Assumptions C11_hybrid_prefixed_correct.

(* speedups.unpack_byte_array / pack_byte_array, cencoding.encode_unsigned_varint *)
Theorem C11_unpack_byte_array_correct : forall xs extra, Forall item_ok xs ->
  c_unpack_byte_array (ba_enc xs) (N.of_nat (length xs + extra)) = UOk (map Some xs ++ repeat None extra).
Proof. exact unpack_byte_array_correct. Qed.
Print Assumptions C11_unpack_byte_array_correct.

Theorem C11_pack_byte_array_is_spec : forall xs, Forall item_ok xs -> c_pack_byte_array xs = ba_enc xs.
Proof. exact pack_byte_array_is_spec. Qed.
Print Assumptions C11_pack_byte_array_is_spec.

Theorem C11_enc_varint_correct : forall x cap, x < 2 ^ 64 -> N.of_nat (length (uleb_enc x)) <= cap ->
  c_enc_varint x cap = (uleb_enc x, cap - N.of_nat (length (uleb_enc x))).
Proof. exact enc_varint_correct. Qed.
Print Assumptions C11_enc_varint_correct.

(* cencoding.encode_bitpacked (int32 accumulator): every width <= 24, every number of values, room for everything:
   the run header followed by exactly the specification's bit packing of the values (last group not padded) *)
Theorem C11_encode_bitpacked_correct : forall w vals cap,
  w <= 24 -> Forall (fun v => v < 2 ^ w) vals ->
  let n := N.of_nat (length vals) in
  let header := N.lor (N.shiftl ((n + 7) / 8) 1) 1 in
  header < 2 ^ 64 ->
  N.of_nat (length (uleb_enc header ++ bp_enc w vals)) <= cap ->
  c_encode_bitpacked vals w cap =
  Ok (uleb_enc header ++ bp_enc w vals, N.of_nat (length (uleb_enc header ++ bp_enc w vals))).
Proof. exact encode_bitpacked_correct. Qed.
Print Assumptions C11_encode_bitpacked_correct.

Theorem C11_encode_rle_bp_correct : forall w vals cap (withlength : bool),
  w <= 24 -> Forall (fun v => v < 2 ^ w) vals ->
  let n := N.of_nat (length vals) in
  let header := N.lor (N.shiftl ((n + 7) / 8) 1) 1 in
  let body := uleb_enc header ++ bp_enc w vals in
  header < 2 ^ 64 -> N.of_nat (length body) < 2 ^ 32 ->
  (if withlength then 4 else 0) + N.of_nat (length body) <= cap ->
  c_encode_rle_bp vals w cap withlength =
  Ok (map Some ((if withlength then le_enc 4 (N.of_nat (length body)) else []) ++ body),
      (if withlength then 4 else 0) + N.of_nat (length body)).
Proof. exact encode_rle_bp_correct. Qed.
Print Assumptions C11_encode_rle_bp_correct.

(* cencoding.width_from_max_int: the bit length (smallest w with v < 2^w) of every non-negative int64 *)
Theorem C11_width_from_max_int_correct : forall v, v < 2 ^ 63 ->
  c_width_from_max_int v = N.size v /\ v < 2 ^ c_width_from_max_int v /\
  (forall w, v < 2 ^ w -> c_width_from_max_int v <= w).
Proof. exact width_from_max_int_correct. Qed.
Print Assumptions C11_width_from_max_int_correct.

(* cencoding.delta_read_bitpacked: a miniblock of 8g values of every width 0 < w <= 28 *)
Theorem C11_delta_read_bitpacked_correct : forall w g input,
  0 < w <= 28 -> g < 2 ^ 28 -> bytes_ok input -> g * w <= N.of_nat (length input) ->
  c_delta_read_bitpacked input w (8 * g) =
  Ok (bp_dec w (8 * g) input, skipn (N.to_nat (g * w)) input, g * w).
Proof. exact delta_read_bitpacked_correct. Qed.
Print Assumptions C11_delta_read_bitpacked_correct.

(* cencoding.read_unsigned_var_int: whatever the spec decoder reads as a uint64 from <= 10 bytes *)
Theorem C11_varint_correct : forall inp v rest,
  bytes_ok inp -> uleb_dec inp = Some (v, rest) -> v < 2 ^ 64 ->
  (length inp - length rest <= 10)%nat ->
  c_varint inp = Ok (v, N.of_nat (length inp - length rest)).
Proof. exact varint_correct. Qed.
Print Assumptions C11_varint_correct.

Theorem C11_varint_reads_spec_encoding : forall n rest,
  n < 2 ^ 64 -> bytes_ok rest ->
  c_varint (uleb_enc n ++ rest) = Ok (n, N.of_nat (length (uleb_enc n))).
Proof. exact varint_reads_spec_encoding. Qed.
Print Assumptions C11_varint_reads_spec_encoding.

(* cencoding.zigzag_long on the uint64 domain *)
Theorem C11_zigzag_long_correct : forall n, n < 2 ^ 64 -> s64 (c_zigzag_long n) = zz_dec n.
Proof. exact zigzag_long_correct. Qed.
Print Assumptions C11_zigzag_long_correct.

(* ---- the Python-level dispatch around the codecs (encoding.read_plain, the index decoders of the page readers) ----
   The decision functions themselves are REGENERATED from the source on every run (translators/dispatch2coq.py) and
   proved there (genproofs/GenDispatchProofs.v) to pick, for every physical type, the leaf the format prescribes and, for
   every (bit width 0..32, foreign / self-made), an ADEQUATE index decoder.  Here: what the leaves compute. *)

(* the leaf the format prescribes for a physical type returns the PLAIN decoding of the page, every type, every page *)
Theorem C11_plain_leaf_correct : forall t count width utf stat raw,
  t <= 7 -> bytes_ok raw ->
  (t = 0 -> (count + 7) / 8 <= lenN raw) ->
  (t = 6 -> stat = false -> exists xs, raw = ba_enc xs /\ count = N.of_nat (length xs) /\ Forall item_ok xs) ->
  run_pdec (spec_plain_dispatch t count width (lenN raw) utf stat) raw = spec_plain t count width stat raw.
Proof. exact plain_leaf_correct. Qed.
Print Assumptions C11_plain_leaf_correct.

(* an adequate generic leaf returns the spec values of every stream of runs inside the decoder's region *)
Theorem C11_generic_leaf_values : forall w selfmade one_run a isz rs,
  adequate w selfmade one_run (DGeneric a isz) = true ->
  Forall (irun_ok w isz) rs -> rs <> [] ->
  run_idec (DGeneric a isz) w (hyb_enc w rs) (lenN (allvals rs)) = Some (map (tr isz) (allvals rs)).
Proof. exact generic_leaf_values. Qed.
Print Assumptions C11_generic_leaf_values.

Theorem C11_item_holds_width : forall w isz v, isz = 1 \/ isz = 4 -> w <= 8 * isz -> w <= 32 -> v < 2 ^ w -> tr isz v = v.
Proof. exact tr_id. Qed.
Print Assumptions C11_item_holds_width.

(* the array view of fastparquet's own index block (run header + the codes as 1-, 2- or 4-byte integers) gives the codes *)
Theorem C11_fast_leaf_correct : forall k h vals,
  (k = 1 \/ k = 2 \/ k = 4)%nat -> h < 2 ^ 64 ->
  Forall (fun v => v < 256 ^ N.of_nat k) vals ->
  fast_read (8 * N.of_nat k) (uleb_enc h ++ fixed_enc k vals) (N.of_nat (length vals)) = Some vals.
Proof. exact fast_leaf_correct. Qed.
Print Assumptions C11_fast_leaf_correct.

(* ... also when the one run holds more values than the page has (a last group padded to 8 values: the format's own layout, which the
   one-run guard of the shortcuts admits): the view keeps the first n *)
Theorem C11_fast_leaf_prefix : forall k h vals extra,
  (k = 1 \/ k = 2 \/ k = 4)%nat -> h < 2 ^ 64 ->
  Forall (fun v => v < 256 ^ N.of_nat k) vals ->
  fast_read (8 * N.of_nat k) (uleb_enc h ++ fixed_enc k (vals ++ extra)) (N.of_nat (length vals)) = Some vals.
Proof. exact fast_leaf_prefix. Qed.
Print Assumptions C11_fast_leaf_prefix.

(* ... as SIGNED integers: a stored index comes back unchanged exactly when its top bit is clear (so encode_dict must announce a
   width whose signed range holds every code: regenerated obligation gen_encode_dict_own_reader); false without that bound *)
Theorem C11_signed_view_exact : forall k v, (1 <= k)%nat -> v < 2 ^ (8 * N.of_nat k) ->
  (signed_view k v = Z.of_N v <-> v < 2 ^ (8 * N.of_nat k - 1)).
Proof. exact signed_view_exact. Qed.
Print Assumptions C11_signed_view_exact.

Theorem C11_signed_view_high_bit_refuted : exists v, v < 2 ^ 8 /\ signed_view 1 v <> Z.of_N v.
Proof. exact signed_view_high_bit_refuted. Qed.
Print Assumptions C11_signed_view_high_bit_refuted.

(* what adequacy of a choice means *)
Theorem C11_adequate_facts : forall w selfmade one_run d, adequate w selfmade one_run d = true ->
  match d with
  | DFast => selfmade = true /\ own_width w = true /\ one_run = true
  | DGeneric a isz => a = isz /\ (isz = 1 \/ isz = 4) /\ 0 < w <= 8 * isz /\ takes_view w selfmade one_run = false
  | DZeros => w = 0
  | DNone => False
  end.
Proof. exact adequate_facts. Qed.
Print Assumptions C11_adequate_facts.

(* ---- refuted parts of the full statement (known findings, replayed on the real code) ---- *)
(* the same statement with the width bound of the format (w <= 32) instead of 24 is false *)
Theorem C11_read_bitpacked_w25_refuted : exists w g isz cap input,
  0 < w <= 32 /\ (isz = 1 \/ isz = 4) /\ ~ (w = 1 /\ isz = 1) /\
  0 < g < 2 ^ 28 /\ bytes_ok input /\ g * w <= N.of_nat (length input) /\
  c_read_bitpacked input (Z.of_N (2 * g + 1)) w cap isz = UB.
Proof. exact read_bitpacked_w25_ub. Qed.
Print Assumptions C11_read_bitpacked_w25_refuted.

Theorem C11_delta_w29_refuted : exists w g input,
  0 < w <= 64 /\ g < 2 ^ 28 /\ bytes_ok input /\ g * w <= N.of_nat (length input) /\
  c_delta_read_bitpacked input w (8 * g) = UB.
Proof. exact delta_read_bitpacked_w29_ub. Qed.
Print Assumptions C11_delta_w29_refuted.

(* ... and without the guard 0 < g (resp. 0 < w) an empty run consumes one input byte *)
Theorem C11_read_bitpacked_empty_run_refuted : exists w isz cap input,
  0 < w <= 24 /\ (isz = 1 \/ isz = 4) /\ ~ (w = 1 /\ isz = 1) /\ bytes_ok input /\
  c_read_bitpacked input 1 w cap isz = Ok {| d_vals := []; d_used := 1; d_written := 0 |}.
Proof. exact read_bitpacked_empty_run. Qed.
Print Assumptions C11_read_bitpacked_empty_run_refuted.

(* non-vacuity: the example of Encodings.md (values 0..7, width 3 = bytes 88 C6 FA), through the
   spec encoder, the spec decoder and the model of the compiled decoder *)
Example C11_nonvacuous :
  bp_enc 3 [0;1;2;3;4;5;6;7] = [136; 198; 250] /\
  bp_dec 3 8 [136; 198; 250] = [0;1;2;3;4;5;6;7] /\
  c_read_bitpacked [136; 198; 250] 3 3 100 4 = Ok {| d_vals := [0;1;2;3;4;5;6;7]; d_used := 3; d_written := 32 |} /\
  uleb_enc 300 = [172; 2] /\ zz_enc (-3) = 5.
Proof. repeat split; vm_compute; reflexivity. Qed.
