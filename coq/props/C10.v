(* C10 — metadata serialisation is lossless, IDL-conformant and safe for any size.
   Only statements here; proofs live in theories/Proofs/CompactProofs.v and CThriftProofs.v.
   Models: Thrift/Compact.v (specification of the compact protocol: writer `wr`, strict reader `rd`),
   Thrift/Idl.v + IdlPinned.v (the Parquet IDL as a table, typed check `conforms`),
   Impl/CThrift.v (cencoding.pyx: write_thrift/write_list/to_bytes with the fixed buffer,
   read_thrift/read_list, dict_eq), Impl/CThriftSpec.v (the value tree an object denotes). *)
From Coq Require Import NArith ZArith List Bool String.
From Pq Require Import Base.Bytes Thrift.Varint Thrift.Compact Thrift.Idl Thrift.IdlPinned
  Impl.CThrift Impl.CThriftSpec Impl.CThriftTyped Proofs.CThriftTypedProofs Proofs.CompactProofs Proofs.CThriftProofs Proofs.CThriftRead
  Proofs.CThriftRoundtrip Proofs.CThriftMain Proofs.CThriftReser Proofs.CThriftTotal Proofs.CThriftRepaired
  Impl.KV Impl.ParseHeader Proofs.ParseHeaderProofs Proofs.CThriftPickle Proofs.CThriftMinimal.
Import ListNotations.
Open Scope list_scope.
Open Scope N_scope.

(* The writer model and every theorem about it are parametric in the list of field ids the loop of write_thrift
   runs over (any ascending list within the short-form range).  The PINNED code is the instance ids13 =
   range(1, 14); below, unqualified names are that instance.  The REPAIRED serialiser (ids14 = range(1, 15), growing
   bounds-checked buffer) is at the end of the file. *)
Local Notation ser := (CThrift.ser ids13).
Local Notation to_bytes := (CThrift.to_bytes ids13).
Local Notation w_top := (CThrift.w_top ids13).
Local Notation t_top := (CThriftSpec.t_top ids13).
Local Notation dom := (CThriftSpec.dom ids13).
Local Notation typed_ok T := (CThriftTyped.typed_ok T ids13).
Local Notation reser_ok := (CThriftReser.reser_ok 13).

(* the specification's reader inverts the specification's writer: every representable value tree,
   any nesting up to the protocol's depth limit, any sizes, any trailing bytes *)
Theorem C10_compact_roundtrip : forall lx v bs rest,
  (depth v <= max_depth)%nat -> thrift_enc v = Some bs ->
  thrift_dec_ty lx (nib v) (bs ++ rest) = Some (v, rest).
Proof. exact compact_roundtrip_top. Qed.
Print Assumptions C10_compact_roundtrip.

(* write_thrift/write_list are a compact-protocol writer: for EVERY Python object the bytes written
   into a large enough buffer are, byte for byte, the specification's encoding of the value tree the
   object denotes (t_top: wire type of each value, i32/i64 chosen by the "i32"/"i32list" markers);
   the serialiser raises exactly when the object denotes no tree. *)
Theorem C10_conformance_bytes : forall v, ser v = option_map wr (t_top v).
Proof. exact (ser_spec ids13 ids13_asc). Qed.
Print Assumptions C10_conformance_bytes.

(* IDL conformance of the emitted bytes, from a condition on the PYTHON object: if every value has the shape
   of its declared type and for every integer field the wire type selected by the enclosing dict's
   "i32"/"i32list" markers is the declared one (typed_ok; established for the writer's construction sites by
   gen_callsites_markers_conform and evaluated on every generated structure by the harness), then what
   to_bytes emits is the specification's encoding of a tree that passes the strict IDL check: declared
   field ids only, declared wire types, increasing ids, required fields present, unions one arm.  Only
   leniency: an empty list carries element type 0 (open finding). *)
Theorem C10_typed_conformance : forall d n v bs,
  typed_ok pinned d (FStruct n) 0 v = true -> ser v = Some bs ->
  exists t, bs = wr t /\ conforms pinned lenient (FStruct n) t = true.
Proof. exact (typed_conformance pinned ids13 ids13_asc). Qed.
Print Assumptions C10_typed_conformance.

(* the round trip of cencoding.pyx (partial: the full statement "for every metadata structure" is false on
   the pinned tree, see the refuted theorems).  For every object in `dom` - every key that carries a
   value is in 1..13, no floats, byte strings and lists shorter than 2^31, lists homogeneous (ints in C int
   range, str, or dicts), dict nesting up to 63 - with ANY number of fields, list elements (row groups,
   columns, key-values) and ANY string lengths: the serialiser does not raise; if the serialisation fits the
   buffer, to_bytes returns it completely; and read_thrift of it is an object that ThriftObject.__eq__
   (dict_eq) considers equal. *)
Theorem C10_roundtrip_partial : forall a b c,
  dom 63 (PDict a b c) = true ->
  exists bs, ser (PDict a b c) = Some bs /\
    (forall cap, len bs <= cap -> to_bytes cap (PDict a b c) = OBytes bs) /\
    exists v', from_buffer bs = Some (v', []) /\ obj_eq (PDict a b c) v' = true.
Proof. exact (roundtrip_total ids13 ids13_asc). Qed.
Print Assumptions C10_roundtrip_partial.

(* read_thrift/read_list parse the SPECIFICATION's encoding of every value tree in the class they handle
   (short-form field headers, ids <= 127, no doubles, lists of i32/i64/binary/struct) - "parsed from
   independently encoded bytes": any sizes, any nesting up to 64, any trailing bytes (page data) *)
Theorem C10_reads_spec_encoding : forall fs rest,
  (depth (TStruct fs) <= w_depth)%nat -> rwf (TStruct fs) = true -> rdable (TStruct fs) = true ->
  from_buffer (wr (TStruct fs) ++ rest) = Some (pv_of (TStruct fs), rest).
Proof. exact from_buffer_spec. Qed.
Print Assumptions C10_reads_spec_encoding.

(* re-serialisation of metadata read from another writer (merge, append, metadata update) - partial: for
   every struct in the class reser_ok (field ids 1..13 ascending, integers i32/i64 only, lists non-empty
   with elements i32 in C int range / binary / struct, any nesting and sizes) the object read_thrift builds
   from the specification's encoding serialises back to exactly those bytes: field ids and every wire type
   are kept (the i32/i64 distinction is restored from the "i32"/"i32list" markers read_thrift sets).
   Outside the class the pinned code changes the bytes: ids >= 14 are dropped, i8/i16 become i32/i64,
   list<i64> becomes list<i32>, an empty list loses its element type (findings). *)
Theorem C10_reserialise_partial : forall fs rest,
  (depth (TStruct fs) <= w_depth)%nat -> rwf (TStruct fs) = true -> rdable (TStruct fs) = true ->
  reser_ok (TStruct fs) = true ->
  exists v, from_buffer (wr (TStruct fs) ++ rest) = Some (v, rest) /\ ser v = Some (wr (TStruct fs)).
Proof.
  intros fs rest Hd Hw Hr Hk. exists (pv_of (TStruct fs)).
  split; [exact (from_buffer_spec fs rest Hd Hw Hr)|exact (reserialise ids13 ids13_asc 13 in_ids13 fs Hd Hk)].
Qed.
Print Assumptions C10_reserialise_partial.

(* refuted: an i16 field (RowGroup.ordinal) read from a conformant writer is re-serialised as i64 *)
Theorem C10_i16_reserialise_refuted : exists t v bs,
  from_buffer (wr t) = Some (v, []) /\ ser v = Some bs /\ bs <> wr t.
Proof.
  exists (TStruct [(3, TI64 5); (7, TI16 2)]).
  exists (pv_of (TStruct [(3, TI64 5); (7, TI16 2)])).
  exists (match ser (pv_of (TStruct [(3, TI64 5); (7, TI16 2)])) with Some b => b | None => [] end).
  vm_compute. repeat split. discriminate.
Qed.
Print Assumptions C10_i16_reserialise_refuted.

(* refuted (structs outside the property's own list): write_list has no list<bool> - a Python bool is an int, so
   ColumnIndex.null_pages = [True] denotes list<i32> [1]; the emitted bytes do not pass the IDL check, whatever
   the markers (here: IDL-consistent ones) *)
Theorem C10_list_bool_refuted : exists v t,
  v = PDict false (Some [4%Z]) [(1%Z, PList [PBool true]); (2%Z, PList [PBytes [97]]); (3%Z, PList [PBytes [98]]); (4%Z, PInt 0)]
  /\ t_top v = Some t /\ conforms pinned lenient (FStruct "ColumnIndex"%string) t = false.
Proof.
  eexists. eexists. split; [reflexivity|]. split; [vm_compute; reflexivity|]. vm_compute. reflexivity.
Qed.
Print Assumptions C10_list_bool_refuted.

(* refuted, cencoding.pyx `for i in range(1, 14)`: field id 14 (ColumnMetaData.bloom_filter_offset,
   LogicalType.UUID) is dropped; the parsed-back object is not equal to the original *)
Theorem C10_field14_refuted : exists b d',
  to_bytes 500000 w14 = OBytes b /\ from_buffer b = Some (d', []) /\ obj_eq w14 d' = false.
Proof. exact field14_dropped. Qed.
Print Assumptions C10_field14_refuted.

(* refuted, NumpyIO.write_byte: for ANY capacity, an object whose serialisation consists of
   single-byte writes (ints, bools, int lists, nesting) and is longer than the buffer comes out
   silently truncated to the buffer size - no error *)
Theorem C10_truncation_refuted : forall cap v ops, w_top v = Some ops -> all_wb ops = true ->
  to_bytes cap v = OBytes (firstn (N.to_nat cap) (flat ops)).
Proof. exact (silent_truncation ids13). Qed.
Print Assumptions C10_truncation_refuted.

(* refuted, write_thrift's memcpy: for ANY capacity there is an object (one binary field of cap+1
   bytes) whose serialisation copies past the end of the buffer *)
Theorem C10_overflow_refuted : forall cap, to_bytes cap (wbig (S (N.to_nat cap))) = OOob.
Proof. exact overflow_any_capacity. Qed.
Print Assumptions C10_overflow_refuted.

(* ---- the REPAIRED serialiser (no code corresponds to it yet: a proved target for a Cython rebuild) ----------
   `for i in range(1, 15)` and a bounds-checked buffer that grows.  The round trip needs no capacity hypothesis and
   covers every field id the IDL declares; only the guards that are about Python values outside the IDL remain
   (no floats, homogeneous lists, sizes below 2^31). *)
Theorem C10_roundtrip_full_repaired : forall a b c,
  CThriftSpec.dom ids14 63 (PDict a b c) = true ->
  exists bs, (forall cap0, to_bytes_grow ids14 cap0 (PDict a b c) = OBytes bs) /\
    exists v', from_buffer bs = Some (v', []) /\ obj_eq (PDict a b c) v' = true.
Proof. exact roundtrip_repaired. Qed.
Print Assumptions C10_roundtrip_full_repaired.

Theorem C10_conformance_bytes_repaired : forall v, CThrift.ser ids14 v = option_map wr (CThriftSpec.t_top ids14 v).
Proof. exact ser_spec_repaired. Qed.
Print Assumptions C10_conformance_bytes_repaired.

Theorem C10_reserialise_repaired : forall fs, (depth (TStruct fs) <= w_depth)%nat ->
  CThriftReser.reser_ok 14 (TStruct fs) = true -> CThrift.ser ids14 (pv_of (TStruct fs)) = Some (wr (TStruct fs)).
Proof. exact reserialise_repaired. Qed.
Print Assumptions C10_reserialise_repaired.

(* the witness of C10_field14_refuted round-trips under the repaired loop, whatever the initial buffer size *)
Theorem C10_field14_kept_repaired : CThriftSpec.dom ids14 63 w14 = true /\
  exists b d', (forall cap0, to_bytes_grow ids14 cap0 w14 = OBytes b) /\ from_buffer b = Some (d', []) /\ obj_eq w14 d' = true.
Proof. exact field14_kept. Qed.
Print Assumptions C10_field14_kept_repaired.

(* ---- wave 3: MINIMAL witnesses of the open .pyx findings, each next to the nearest input that is handled correctly (the extent of
   each defect = what its known-finding signature may suppress; the harness suppresses a failing case only when the bytes are exactly
   what this model of the pinned serialiser produces) *)
Theorem C10_field14_minimal_refuted :
  ser (PDict false None [(14%Z, PInt 0)]) = Some [0] /\ ser (PDict false None [(13%Z, PInt 0)]) = Some [214; 0; 0].
Proof. exact field14_minimal. Qed.
Print Assumptions C10_field14_minimal_refuted.

Theorem C10_small_ints_minimal_refuted :
  wr (TStruct [(1, TI8 0)]) = [19; 0; 0] /\ reser (TStruct [(1, TI8 0)]) = Some [22; 0; 0] /\
  wr (TStruct [(1, TI16 0)]) = [20; 0; 0] /\ reser (TStruct [(1, TI16 0)]) = Some [22; 0; 0] /\
  reser (TStruct [(1, TI32 0)]) = Some (wr (TStruct [(1, TI32 0)])) /\
  reser (TStruct [(1, TI64 0)]) = Some (wr (TStruct [(1, TI64 0)])).
Proof. exact small_ints_minimal. Qed.
Print Assumptions C10_small_ints_minimal_refuted.

Theorem C10_empty_list_minimal_refuted :
  wr (TStruct [(1, TList 12 [])]) = [25; 12; 0] /\
  ser (PDict false None [(1%Z, PList [])]) = Some [25; 0; 0] /\
  reser (TStruct [(1, TList 12 [TStruct []])]) = Some (wr (TStruct [(1, TList 12 [TStruct []])])).
Proof. exact empty_list_minimal. Qed.
Print Assumptions C10_empty_list_minimal_refuted.

Theorem C10_truncation_minimal_refuted :
  ser (PDict false None [(1%Z, PInt 0); (2%Z, PInt 0)]) = Some [22; 0; 22; 0; 0] /\
  to_bytes 4 (PDict false None [(1%Z, PInt 0); (2%Z, PInt 0)]) = OBytes [22; 0; 22; 0] /\
  to_bytes 5 (PDict false None [(1%Z, PInt 0); (2%Z, PInt 0)]) = OBytes [22; 0; 22; 0; 0].
Proof. exact truncation_minimal. Qed.
Print Assumptions C10_truncation_minimal_refuted.

Theorem C10_overflow_minimal_refuted :
  ser (PDict false None [(1%Z, PBytes [0])]) = Some [24; 1; 0; 0] /\
  to_bytes 2 (PDict false None [(1%Z, PBytes [0])]) = OOob /\
  to_bytes 4 (PDict false None [(1%Z, PBytes [0])]) = OBytes [24; 1; 0; 0].
Proof. exact overflow_minimal. Qed.
Print Assumptions C10_overflow_minimal_refuted.

(* ---- wave 3: the pickle path.  __reduce_ex__ = (from_buffer, (bytes(to_bytes()), name)): unpickling is from_buffer o to_bytes.
   For every object of the round-trip class (any struct, any number of fields / elements, any string length) whose serialisation
   fits the buffer, the unpickled object is equal under ThriftObject.__eq__.  Tie: streams `pickle` and `struct-sizes`. *)
Theorem C10_pickle_roundtrip_partial : forall a b c,
  dom 63 (PDict a b c) = true ->
  exists bs, ser (PDict a b c) = Some bs /\
    forall cap, len bs <= cap ->
      exists v', pickle_rt ids13 cap (PDict a b c) = Some v' /\ obj_eq (PDict a b c) v' = true.
Proof. exact pickle_roundtrip. Qed.
Print Assumptions C10_pickle_roundtrip_partial.

(* ---- wave 3, PARSE side: which bytes of a FILE reach the thrift parser (model of api.ParquetFile._parse_header) ----------
   Every data prefix, every footer length below 2^32 (no window, no size class; files shorter than any read-ahead included),
   magic verification on or off; pure _metadata files; a result is always a window of the file ending 8 bytes before its end. *)
Theorem C10_parse_header_hands_footer : forall (data footer : bytes) verify,
  (N.of_nat (List.length footer) < 2 ^ 32)%N ->
  (verify = true -> firstn 4 (data ++ footer) = magic) ->
  parse_header false verify (framed data footer) = Some (footer, N.of_nat (List.length footer)).
Proof. exact parse_header_framed. Qed.
Print Assumptions C10_parse_header_hands_footer.

Theorem C10_parse_header_metadata_file : forall (footer : bytes) verify,
  parse_header true verify (framed_md footer) = Some (footer, N.of_nat (List.length footer)).
Proof. exact parse_header_md. Qed.
Print Assumptions C10_parse_header_metadata_file.

Theorem C10_parse_header_window : forall (file : bytes) verify d hs,
  parse_header false verify file = Some (d, hs) ->
  exists pre, file = pre ++ d ++ skipn (List.length file - 8) file /\ N.of_nat (List.length d) = hs.
Proof. exact parse_header_result_is_window. Qed.
Print Assumptions C10_parse_header_window.

Theorem C10_parse_header_short_refused : forall (file : bytes) verify,
  (List.length file < 8)%nat -> parse_header false verify file = None.
Proof. exact parse_header_short_refused. Qed.
Print Assumptions C10_parse_header_short_refused.

(* non-vacuity: a KeyValue-shaped object with an i32-marked and an i64 field; its bytes; the strict
   specification reader gives back the denoted tree; a truncating capacity really truncates *)
Example C10_nonvacuous :
  let v := PDict false (Some [2%Z]) [(1%Z, PStr [107]); (2%Z, PInt 7); (3%Z, PInt (-1)); (4%Z, PList [PInt 1; PInt 2])] in
  ser v = Some [24; 1; 107; 21; 14; 22; 1; 25; 37; 2; 4; 0]
  /\ option_map fst (thrift_dec false [24; 1; 107; 21; 14; 22; 1; 25; 37; 2; 4; 0]) = t_top v
  /\ to_bytes 5 (PDict false None [(1%Z, PInt 1); (2%Z, PInt 2); (3%Z, PInt 3)]) = OBytes [22; 2; 22; 4; 22]
  /\ dom 63 v = true
  /\ typed_ok pinned 5 (FStruct "KeyValue"%string) 0 (PDict false None [(1%Z, PStr [107]); (2%Z, PStr [118])]) = true
  /\ typed_ok pinned 5 (FStruct "Statistics"%string) 0 (PDict true None [(3%Z, PInt 7)]) = false
  /\ option_map (fun p => obj_eq v (fst p)) (from_buffer [24; 1; 107; 21; 14; 22; 1; 25; 37; 2; 4; 0]) = Some true.
Proof. vm_compute. repeat split. Qed.

Example C10_parse_nonvacuous :
  parse_header false true (framed [80;65;82;49;9;9] [21;2;0]) = Some ([21;2;0], 3)
  /\ parse_header false true (framed [80;65;82;50;9;9] [21;2;0]) = None
  /\ parse_header false false [3;0;0;0;80;65;82;49] = None
  /\ parse_header true false (framed_md [21;2;0]) = Some ([21;2;0], 3).
Proof. vm_compute. repeat split. Qed.
