(* C01, page level - statements only (proofs: theories/Proofs/WLevelsProofs.v).
   What the writer puts into a data page is what the SPECIFICATION's decoder reads. *)
From Coq Require Import NArith List.
From Pq Require Import Base.Bytes Codec.Varint Codec.Bitpack Codec.Hybrid Impl.WLevels Proofs.WLevelsProofs.
Import ListNotations.
Open Scope nat_scope.

(* ---- page level: what the writer puts into a data page is what the SPECIFICATION's decoder reads ----
   (Impl/WLevels.v mirrors writer.make_definitions / encode_dict / the BOOLEAN branch of convert;
    Codec/Hybrid.v is the RLE/bit-packing hybrid of Encodings.md; `rest` = whatever follows in the page) *)

(* column without nulls, data page v1: the definition block is length-prefixed, decodes to n ones,
   and the reader stops exactly at its end - every n (the 64 / 8192 framing boundaries included) *)
Theorem C01_defs_nonull_v1_roundtrip : forall strict n rest, (0 < n)%N -> (n < 2 ^ 63)%N ->
  hyb_dec_len strict 1 n (wr_defs_nonull_v1 n ++ rest) = Some (repeat 1%N (N.to_nat n), rest).
Proof. exact defs_nonull_v1_dec. Qed.
Print Assumptions C01_defs_nonull_v1_roundtrip.

Theorem C01_defs_nonull_v2_roundtrip : forall strict n rest, (0 < n)%N ->
  hyb_dec strict 1 n (wr_defs_nonull_v2 n ++ rest) = Some (repeat 1%N (N.to_nat n), rest).
Proof. exact defs_nonull_v2_dec. Qed.
Print Assumptions C01_defs_nonull_v2_roundtrip.

(* the reader's shortcut for its own files (core.skip_definition_bytes, hand copy; the copy
   REGENERATED from the source is proved equal to the same length on every run: genproofs/GenSkipProofs.v)
   steps over exactly that block *)
Theorem C01_skip_is_block_length : forall num,
  skip_hand num = N.of_nat (length (wr_defs_nonull_v1 num)).
Proof. exact skip_hand_is_block_len. Qed.
Print Assumptions C01_skip_is_block_length.

(* column with nulls: one bit-packed run over the packed not-null mask (with the writer's extra
   padding byte when 8 | n) decodes to the mask - every mask, both page versions *)
Theorem C01_defs_nulls_v1_roundtrip : forall strict mask rest, is_bits mask -> 0 < length mask ->
  (N.of_nat (length mask) < 2 ^ 34)%N ->
  hyb_dec_len strict 1 (N.of_nat (length mask)) (wr_defs_nulls_v1 mask ++ rest) = Some (mask, rest).
Proof. exact defs_nulls_v1_dec. Qed.
Print Assumptions C01_defs_nulls_v1_roundtrip.

Theorem C01_defs_nulls_v2_roundtrip : forall strict mask rest, is_bits mask -> 0 < length mask ->
  hyb_dec strict 1 (N.of_nat (length mask)) (wr_defs_nulls_v2 mask ++ rest) = Some (mask, rest).
Proof. exact defs_nulls_v2_dec. Qed.
Print Assumptions C01_defs_nulls_v2_roundtrip.

(* BOOLEAN values as the writer packs them (np.pad by 8 - n % 8, LSB first) *)
Theorem C01_bools_roundtrip : forall bits rest, is_bits bits ->
  bp_dec 1 (N.of_nat (length bits)) (wr_bools bits ++ rest) = bits.
Proof. exact wr_bools_dec. Qed.
Print Assumptions C01_bools_roundtrip.

(* dictionary indices: raw k-byte codes under ONE bit-packed header of ceil(n/8) groups, last group
   not padded: the spec decoder (lenient about the cut-short last group) yields the codes, and so does
   the reader's raw shortcut for width 8/16/32 - every n, k = 1, 2, 4 (any k) *)
Theorem C01_dict_indices_roundtrip : forall k codes rest,
  0 < length codes -> Forall (fun c => (c < 256 ^ N.of_nat k)%N) codes ->
  option_map fst (hyb_dec false (8 * N.of_nat k) (N.of_nat (length codes))
                    (uleb_enc (2 * ((N.of_nat (length codes) + 7) / 8) + 1) ++ wr_codes k codes ++ rest))
  = Some codes.
Proof. exact dict_indices_dec. Qed.
Print Assumptions C01_dict_indices_roundtrip.

Theorem C01_dict_raw_shortcut : forall k codes rest, Forall (fun c => (c < 256 ^ N.of_nat k)%N) codes ->
  rd_raw k (length codes) (wr_codes k codes ++ rest) = Some codes.
Proof. exact rd_raw_codes. Qed.
Print Assumptions C01_dict_raw_shortcut.

Example C01_page_nonvacuous :
  wr_defs_nonull_v1 64 = [3; 0; 0; 0; 128; 1; 1]%N /\ skip_hand 64 = 7%N
  /\ wr_defs_nulls_v1 [1; 0; 1; 1; 1; 1; 1; 1]%N = [3; 0; 0; 0; 5; 253; 0]%N
  /\ hyb_dec_len true 1 8 (wr_defs_nulls_v1 [1; 0; 1; 1; 1; 1; 1; 1] ++ [9])%N = Some ([1; 0; 1; 1; 1; 1; 1; 1], [9])%N
  /\ wr_dict_indices 2 [1; 258; 3]%N = [16; 3; 1; 0; 2; 1; 3; 0]%N.
Proof. repeat split; vm_compute; reflexivity. Qed.

