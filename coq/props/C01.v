(* C01 — write -> read round trip returns the same table under every write option.
   Statements only; proofs in theories/Proofs/.  What is proved here is the part of the round trip
   that is arithmetic/framing logic; value conversion (numpy/pandas) is reached by the oracle runs.

   FULL STATEMENT (target, DESIGN.md section 6 C01): for every column, page split, page version,
   nullability: rd_chunk (wr_chunk cfg col) = canon col.  Proved so far (…_partial pieces of it):     *)
From Coq Require Import ZArith List Arith Sorted.
From Pq Require Import Impl.Offsets Proofs.OffsetsProofs.
Import ListNotations.

(* row_group_offsets = int: the row groups written are consecutive pieces of the frame that
   concatenate back to the frame - every length (0 included), every request k >= 0 *)
Theorem C01_rowgroups_partition_int : forall (A : Type) (data : list A) (k : Z), (0 <= k)%Z ->
  concat (slices (offsets_int (length data) k) data) = data.
Proof. exact @offsets_int_partition. Qed.
Print Assumptions C01_rowgroups_partition_int.

(* row_group_offsets = list: any non-decreasing list of starts beginning with 0 *)
Theorem C01_rowgroups_partition_list : forall (A : Type) (offs : list nat) (data : list A),
  Sorted le (0 :: offs) -> concat (slices (0 :: offs) data) = data.
Proof. exact @slices_partition. Qed.
Print Assumptions C01_rowgroups_partition_list.

(* no empty row group from an integer request *)
Theorem C01_rowgroup_starts_inside : forall n c, 0 < c -> Forall (fun s => s < n) (py_range0 n c).
Proof. exact py_range0_below. Qed.
Print Assumptions C01_rowgroup_starts_inside.

(* the pages of a column chunk concatenate to the chunk, every length and rows-per-page *)
Theorem C01_pages_partition : forall (A : Type) (rpp : nat) (data : list A), 0 < rpp ->
  concat (pages rpp data) = data.
Proof. exact @pages_partition. Qed.
Print Assumptions C01_pages_partition.

Example C01_nonvacuous :
  slices (offsets_int 10 4%Z) [0;1;2;3;4;5;6;7;8;9] = [[0;1;2;3]; [4;5;6;7]; [8;9]]
  /\ pages 4 [0;1;2;3;4;5;6;7] = [[0;1;2;3]; [4;5;6;7]]
  /\ offsets_int 0 3%Z = [] /\ offsets_int 7 0%Z = [0].
Proof. repeat split; vm_compute; reflexivity. Qed.
