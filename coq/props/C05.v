(* C05 — filtered reads never lose a qualifying row (row-group pruning is sound).
   Only statements here; proofs live in theories/Proofs/FilterLeafProofs.v (leaf decisions, on the
   committed copy of the translated api.py text; re-proved on the regenerated text on every run by
   genproofs/GenFilterProofs.v) and theories/Proofs/FilterProofs.v (row-group level, any sound leaf).

   Full statement (inside the model): for every list of row groups, every filter program (flat list
   = AND, list of lists = OR of ANDs) over the nine operators, if the statistics of every chunk are
   valid bounds of its non-null cells with an exact all-null indication (C04) and the partition value
   parsed from the path is what the rows hold (C08), then filter_row_groups returns an in-order
   sublist of the row groups that contains every row group holding a row that satisfies the program;
   the filtered read is the concatenation of the rows of those row groups and contains every
   satisfying row of the dataset.  A NULL/NaN cell satisfies nothing (weakest reading).
   Cells/constants are integers (floats are scaled dyadics, timestamps their integer value, booleans
   0/1) or str (lexicographic order of the text, what Python's str comparison is).                    *)
From Coq Require Import ZArith List String Bool.
From Pq Require Import Base.PyVal Impl.Filter Impl.FilterLeaf Proofs.PyValProofs Proofs.FilterProofs Proofs.FilterLeafProofs Proofs.FilterBoundsProofs.
Import ListNotations.
Open Scope string_scope.
Open Scope Z_scope.

(* every operator: a "skip" answer of filter_val is right for every cell inside valid bounds
   (bounds absent / scalar / length-1 ndarray; scalar constant or list of constants; integer cells
   against integer constants, str cells against str constants) *)
Theorem C05_leaf_sound :
  forall op c vmin vmax x, In op ops -> covered op c vmin vmax x ->
    ok_true (filter_val (PStr op) c vmin vmax) = true -> sat op x c = false.
Proof. exact leaf_all_sound. Qed.
Print Assumptions C05_leaf_sound.

(* ... and on those arguments the decision is a value: it never raises (no IndexError on an empty
   `in` list, no TypeError), so a well-typed program cannot make the filtered read fail in the leaf *)
Theorem C05_leaf_total :
  forall op c vmin vmax x, In op ops -> covered op c vmin vmax x ->
    exists b, filter_val (PStr op) c vmin vmax = Ok b.
Proof. exact leaf_all_total. Qed.
Print Assumptions C05_leaf_total.

Theorem C05_prune_sound :
  forall (R : Type) (cell : R -> string -> pv) (conv : string -> string -> pv -> pv * pv)
         (known : list string) (rgs : list (rowgroup R)) (f : filters) (kept : list (rowgroup R)),
    prog_good all_ops (normalize f) ->
    (forall rg, In rg rgs -> rg_valid R cell conv (normalize f) rg) ->
    filter_row_groups R filter_val conv known rgs f = Ok kept ->
    (exists keepf, kept = filter keepf rgs) /\
    (forall rg r, In rg rgs -> In r (rg_rows rg) -> sat_dnf R cell r (normalize f) = true -> In rg kept).
Proof. intros R cell conv. exact (prune_sound R cell filter_val conv all_ops leaf_all_sound). Qed.
Print Assumptions C05_prune_sound.

Theorem C05_read_sound :
  forall (R : Type) (cell : R -> string -> pv) (conv : string -> string -> pv -> pv * pv)
         (known : list string) (rgs : list (rowgroup R)) (f : filters) (rows : list R),
    prog_good all_ops (normalize f) ->
    (forall rg, In rg rgs -> rg_valid R cell conv (normalize f) rg) ->
    read_filtered R filter_val conv known rgs f = Ok rows ->
    (exists keepf, rows = flat_map rg_rows (filter keepf rgs)) /\
    (forall r, In r (flat_map rg_rows rgs) -> sat_dnf R cell r (normalize f) = true -> In r rows).
Proof. intros R cell conv. exact (read_sound R cell filter_val conv all_ops leaf_all_sound). Qed.
Print Assumptions C05_read_sound.

(* soundness needs VALID bounds only (below / above every non-null cell of the chunk), not the exact ones of C04:
   any such bounds - absent, scalar or length-1 array - never make the leaf skip a chunk holding a satisfying cell *)
Theorem C05_any_valid_bounds_sound :
  (forall op c vmin vmax cells, In op ops -> const_ok_int op c -> bounds_cover_int vmin vmax cells ->
     ok_true (filter_val (PStr op) c vmin vmax) = true -> forall z, In z cells -> sat op (PInt z) c = false) /\
  (forall op c vmin vmax cells, In op ops -> const_ok_str op c -> bounds_cover_str vmin vmax cells ->
     ok_true (filter_val (PStr op) c vmin vmax) = true -> forall s, In s cells -> sat op (PStr s) c = false).
Proof. exact (conj any_valid_bounds_sound_int any_valid_bounds_sound_str). Qed.
Print Assumptions C05_any_valid_bounds_sound.

(* widened or dropped bounds stay valid (a min cut to a prefix, a max rounded up, one-sided statistics) *)
Theorem C05_widened_bounds_valid :
  (forall m m' M M' cells, m' <= m -> M <= M' ->
     bounds_cover_int (PInt m) (PInt M) cells -> bounds_cover_int (PInt m') (PInt M') cells) /\
  (forall vmin vmax cells, bounds_cover_int vmin vmax cells ->
     bounds_cover_int PNone vmax cells /\ bounds_cover_int vmin PNone cells /\ bounds_cover_int PNone PNone cells) /\
  (forall vmin vmax cells, bounds_cover_str vmin vmax cells ->
     bounds_cover_str PNone vmax cells /\ bounds_cover_str vmin PNone cells /\ bounds_cover_str PNone PNone cells).
Proof. exact (conj widen_int (conj drop_bounds_int drop_bounds_str)). Qed.
Print Assumptions C05_widened_bounds_valid.

(* a max cut to a strict prefix of the stored max is not an upper bound: the chunk holding the value asked for is skipped *)
Theorem C05_truncated_max_refuted :
  exists c vmax s, s = "abz" /\ vmax = PStr "ab" /\ c = PStr "abz" /\
    ok_true (filter_val (PStr "==") c (PStr "ab") vmax) = true /\ sat "==" (PStr s) c = true.
Proof. exact truncated_max_refuted. Qed.
Print Assumptions C05_truncated_max_refuted.

(* a flat list means AND *)
Theorem C05_flat_is_and : forall (R : Type) (cell : R -> string -> pv) (r : R) (l : list cond),
  l <> [] -> sat_dnf R cell r (normalize (Flat l)) = sat_and R cell r l.
Proof. exact sat_flat. Qed.
Print Assumptions C05_flat_is_and.

(* the rule of the pinned tree (filter_not_in applied to every chunk: "skip when min or max is among
   the values") is unsound; repaired in filter_val by a fix: commit, see notes/C05.md *)
Theorem C05_not_in_refuted : exists vs vmin vmax z,
  lo_ok_int vmin z /\ hi_ok_int vmax z /\
  ok_true (filter_not_in (ints vs) vmin vmax) = true /\ sat "not in" (PInt z) (ints vs) = true.
Proof. exact not_in_helper_refuted. Qed.
Print Assumptions C05_not_in_refuted.

(* non-vacuity: three row groups of column x (values 0..4 | 5..9 with statistics | no statistics),
   program  x == 9 or (x not in [0..4] and x > 4): the first group is skipped, the others are kept, and the
   hypotheses of C05_leaf_sound are satisfiable with a "skip" answer *)
Definition ex_rg (n : Z) (st : option stats) (rows : list Z) : rowgroup Z :=
  {| rg_num_rows := n; rg_columns := [{| c_name := "x"; c_num_values := n; c_stats := st |}];
     rg_parts := None; rg_rows := rows |}.
Example C05_nonvacuous :
  read_filtered Z filter_val (fun _ _ c => (c, PNone)) ["x"]
    [ex_rg 5 (Some {| st_null_count := Some 0; st_min := PInt 0; st_max := PInt 4 |}) [0;1;2;3;4];
     ex_rg 5 (Some {| st_null_count := Some 0; st_min := PInt 5; st_max := PInt 9 |}) [5;6;7;8;9];
     ex_rg 2 None [3;11]]
    (Dnf [[("x", "==", PInt 9)]; [("x", "not in", ints [0;1;2;3;4]); ("x", ">", PInt 4)]])
  = Ok [5;6;7;8;9;3;11]
  /\ ok_true (filter_val (PStr "==") (PInt 9) (PInt 0) (PInt 4)) = true
  /\ covered "==" (PInt 9) (PInt 0) (PInt 4) (PInt 2)
  /\ ok_true (filter_val (PStr "in") (strs ["x"; "q"]) (PStr "a") (PArr [PStr "d"])) = true.
Proof.
  split; [vm_compute; reflexivity|split; [vm_compute; reflexivity|split; [|vm_compute; reflexivity]]].
  left. exists 2. split; [reflexivity|split; [left; split; [left; reflexivity|exists 9; reflexivity]|split]];
  right; [exists 0|exists 4]; (split; [left; reflexivity|discriminate]).
Qed.
