(* C01 - statements only (proofs: theories/Proofs/WScratchProofs.v, TzTextProofs.v).
   (1) the run headers are built in a SCRATCH buffer of fixed capacity whose writes past the end are ignored
       (NumpyIO.write_byte): when is the block the one Impl/WLevels.v describes (and C01_pages.v proves readable)?
   (2) the time zone of a fixed-offset column travels as text: what the writer records is what the reader parses. *)
From Coq Require Import NArith ZArith List.
From Pq Require Import Base.Bytes Codec.Varint Impl.WLevels Impl.WScratch Impl.TzText
                       Proofs.WScratchProofs Proofs.TzTextProofs.
Import ListNotations.

(* ---- (1) scratch buffers ---- *)

(* any scratch buffer of at least 6 bytes: for every page of fewer than 2^31 rows (num_values is an i32) the no-null
   definition block is the block of Impl/WLevels.v, both page versions.  The capacities found in the source are
   checked against `cap_needed` on every run (genproofs/GenScratchProofs.v over the regenerated table). *)
Theorem C01_scratch_defs_nonull_fits : forall cap n, (cap_needed <= cap)%nat -> (n < 2 ^ 31)%N ->
  wr_defs_nonull_v2_cap cap n = wr_defs_nonull_v2 n /\ wr_defs_nonull_v1_cap cap n = wr_defs_nonull_v1 n.
Proof. exact defs_nonull_cap_fits. Qed.
Print Assumptions C01_scratch_defs_nonull_fits.

(* the 10-byte buffer of the code: every length below 2^62 *)
Theorem C01_scratch10_defs_nonull : forall n, (n < 2 ^ 62)%N ->
  wr_defs_nonull_v2_cap 10 n = wr_defs_nonull_v2 n /\ wr_defs_nonull_v1_cap 10 n = wr_defs_nonull_v1 n.
Proof. exact defs_nonull_cap10. Qed.
Print Assumptions C01_scratch10_defs_nonull.

(* nulls branch: the header alone sits in the scratch buffer; 5 bytes are enough below 2^31 mask bytes *)
Theorem C01_scratch_defs_nulls_head_fits : forall cap outlen, (5 <= cap)%nat -> (outlen < 2 ^ 31)%N ->
  wr_defs_nulls_head_cap cap outlen = uleb_enc (2 * outlen + 1).
Proof. exact defs_nulls_head_fits. Qed.
Print Assumptions C01_scratch_defs_nulls_head_fits.

(* encode_dict: width byte + header in one buffer *)
Theorem C01_scratch_dict_head_fits : forall cap k n, (cap_needed <= cap)%nat -> (n < 2 ^ 31)%N ->
  wr_dict_head_cap cap k n = wr_dict_head k n.
Proof. exact dict_head_fits. Qed.
Print Assumptions C01_scratch_dict_head_fits.

Theorem C01_dict_indices_head : forall k codes,
  wr_dict_indices k codes = wr_dict_head k (N.of_nat (length codes)) ++ wr_codes k codes.
Proof. exact wr_dict_indices_head. Qed.
Print Assumptions C01_dict_indices_head.

(* a buffer of exactly the five bytes a 32-bit varint needs loses the byte written next to the header: 2^27 rows *)
Theorem C01_scratch5_nonull_refuted :
  exists n, (n < 2 ^ 31)%N /\ wr_defs_nonull_v1_cap 5 n <> wr_defs_nonull_v1 n /\
            wr_defs_nonull_v2_cap 5 n <> wr_defs_nonull_v2 n.
Proof. exact scratch5_nonull_refuted. Qed.
Print Assumptions C01_scratch5_nonull_refuted.

Theorem C01_scratch5_dict_refuted :
  exists n, (n < 2 ^ 31)%N /\ wr_dict_head_cap 5 1 n <> wr_dict_head 1 n.
Proof. exact scratch5_dict_refuted. Qed.
Print Assumptions C01_scratch5_dict_refuted.

(* ---- (2) time-zone text of fixed offsets ---- *)

(* EVERY fixed offset of whole seconds inside (-24h, 24h) - all of datetime.timezone at that resolution: the text
   util.get_column_metadata records, parsed by dataframe.tz_to_dt_tz, is a zone with the same offset
   (finite domain, bound in the statement, decided by evaluation) *)
Theorem C01_tz_text_roundtrip : forall s, (-86400 < s < 86400)%Z -> tz_roundtrip s = Some s.
Proof. exact tz_text_roundtrip. Qed.
Print Assumptions C01_tz_text_roundtrip.

(* direction of the minutes taken from the sign of int(hours): "-00:45" comes back as +00:45 *)
Theorem C01_tz_sign_of_hours_refuted :
  exists s t, (-86400 < s < 86400)%Z /\ tz_meta_text s = Some t /\
              tz_offset_of (tz_parse_sign_of_hours t) = Some (- s)%Z /\ s <> 0%Z.
Proof. exact tz_sign_of_hours_refuted. Qed.
Print Assumptions C01_tz_sign_of_hours_refuted.

(* the pinned reader (two fields only) refuses what the writer records for an offset that is not a whole minute
   (repaired in the tree: `fix: tz_to_dt_tz reads the seconds field`) *)
Theorem C01_tz_pinned_subminute_refuted :
  exists s t, (-86400 < s < 86400)%Z /\ tz_meta_text s = Some t /\ tz_parse_pinned t = TzErr.
Proof. exact tz_pinned_subminute_refuted. Qed.
Print Assumptions C01_tz_pinned_subminute_refuted.

Example C01_headers_nonvacuous :
  wr_defs_nonull_v1_cap 10 (2 ^ 27) = [6; 0; 0; 0; 128; 128; 128; 128; 1; 1]%N /\
  tz_meta_text (-2700) = Some [45; 48; 48; 58; 52; 53]%N /\ tz_parse [45; 48; 48; 58; 52; 53]%N = TzFixed (-2700).
Proof. vm_compute. repeat split. Qed.
