(* C03 - statements only (proofs: theories/Proofs/RAllocProofs.v).
   Foreign files with a 'pandas' key-value entry: the unit a timestamp column is allocated in comes from the entry
   (api._dtypes), the values from the file (convert) and numpy casts between the two on assignment.  The instant returned does
   not depend on the entry as long as it is representable in the recorded unit. *)
From Coq Require Import ZArith.
From Pq Require Import Impl.RConvert Impl.WConvert Impl.RAlloc Proofs.RAllocProofs.
Local Open Scope Z_scope.

Theorem C03_read_ts_instant_partial : forall recorded stored v,
  v <> NATZ ->
  (v * ns_per (unit_of_stored stored)) mod ns_per (alloc_unit recorded stored) = 0 ->
  instant_ns (read_ts recorded stored v) = v * ns_per (unit_of_stored stored).
Proof. exact read_ts_instant. Qed.
Print Assumptions C03_read_ts_instant_partial.

(* no entry, or a recorded unit at least as fine as the stored one (what pyarrow writes: datetime64[ns] over MILLIS / MICROS) *)
Theorem C03_read_ts_instant_finer : forall recorded stored v,
  v <> NATZ -> ns_per (alloc_unit recorded stored) <= ns_per (unit_of_stored stored) ->
  instant_ns (read_ts recorded stored v) = v * ns_per (unit_of_stored stored).
Proof. exact read_ts_instant_finer. Qed.
Print Assumptions C03_read_ts_instant_finer.

Theorem C03_read_ts_nat : forall recorded stored, snd (read_ts recorded stored NATZ) = NATZ.
Proof. exact read_ts_nat. Qed.
Print Assumptions C03_read_ts_nat.

(* the stored count VIEWED as the allocated unit (the rule of seeded C03-6): another instant as soon as the units differ *)
Theorem C03_read_ts_view_refuted :
  exists recorded stored v, v <> NATZ /\
    instant_ns (read_ts_view recorded stored v) <> v * ns_per (unit_of_stored stored) /\
    instant_ns (read_ts recorded stored v) = v * ns_per (unit_of_stored stored).
Proof. exact read_ts_view_refuted. Qed.
Print Assumptions C03_read_ts_view_refuted.
