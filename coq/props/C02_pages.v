(* C02 - statements only (proofs: theories/Proofs/WSpecPageProofs.v).
   Every page kind write_column emits, as modelled byte for byte in Impl/WChunk.v (w_data_page / w_dict_page / w_chunk; compared with
   the bytes of every real chunk on each run): data page v1 (levels + values + 8 zero bytes compressed as a whole) and v2 (levels outside
   the compressed section, is_compressed = codec is not UNCOMPRESSED, num_nulls), PLAIN values of every physical type incl. the writer's
   BOOLEAN packing, dictionary-encoded pages (bit-width byte + one bit-packed run of raw little-endian codes, last group not padded)
   with the dictionary page of the labels, optional / required, any codec with decompress (compress b) = b.
   (fastparquet writes BOOLEAN values PLAIN-packed, never RLE-encoded: there is no RLE-boolean page kind on the writer side.)
   The SPECIFICATION's page decoder (Format/Page.v dec_page, lenient about the unpadded last group) returns exactly the page's
   cells / NULL count / row count; the specification's page loop over the chunk returns the column; with the ColumnMetaData of the
   pos/diff bookkeeping the validator's chunk check accepts it. *)
From Coq Require Import NArith ZArith List.
From Pq Require Import Base.Bytes Base.ListX Format.Phys Format.Meta Format.Page Format.ChunkLayout Format.File Format.Enc
                       Impl.WChunk Proofs.WChunkProofs Proofs.WSpecPageProofs.
Import ListNotations.

Section Codec.
Variable compress : Z -> bytes -> bytes.
Variable decompress : Z -> N -> bytes -> option bytes.
Hypothesis codec_rt : forall codec b, decompress codec (lenN b) (compress codec b) = Some b.

Theorem C02_fp_write_page_v1_dec_partial : forall c p cells,
  wc_v2 c = false -> wp_ok c p -> w_page_cells c p = Some cells ->
  dec_page decompress false (cd_of c) (wc_codec c) (wc_labels c) (fst (w_data_page compress c p)) (snd (w_data_page compress c p))
  = ROk (CData (w_rows p) (w_rows p - w_nonnull p) cells).
Proof. exact (spec_page_v1_writer compress decompress codec_rt). Qed.

Theorem C02_fp_write_page_v2_dec_partial : forall c p cells,
  wc_v2 c = true -> wp_ok c p -> w_page_cells c p = Some cells ->
  dec_page decompress false (cd_of c) (wc_codec c) (wc_labels c) (fst (w_data_page compress c p)) (snd (w_data_page compress c p))
  = ROk (CData (w_rows p) (w_rows p - w_nonnull p) cells).
Proof. exact (spec_page_v2_writer compress decompress codec_rt). Qed.

Theorem C02_fp_write_dict_page_dec_partial : forall c labels,
  Forall (fun v => value_ok (wc_type c) (wc_tlen c) v = true) labels ->
  dec_page decompress false (cd_of c) (wc_codec c) None (fst (w_dict_page compress c labels)) (snd (w_dict_page compress c labels))
  = ROk (CDict labels).
Proof. exact (spec_dict_page_writer compress decompress codec_rt). Qed.

(* chunk level: the specification's page loop over the bytes of the writer's chunk *)
Theorem C02_fp_write_chunk_scan_partial : forall c clock cells,
  wchunk_ok compress c -> w_chunk_cells c = Some cells ->
  (length (w_chunk compress c) <= length clock)%nat ->
  scan_pages decompress clock false (cd_of c) (wc_codec c) None (w_chunk compress c) [] [] 0
  = ROk (w_chunk_summaries compress c, cells, w_chunk_nulls c).
Proof. exact (scan_chunk_writer compress decompress codec_rt). Qed.

(* bookkeeping invariant => decodes to the column AND passes the validator's chunk check, every page kind *)
Theorem C02_fp_write_chunk_all_kinds_partial : forall c clock cells (m : cmd) rg start encs,
  wchunk_ok compress c -> w_chunk_cells c = Some cells -> wc_pages c <> [] ->
  (length (w_chunk compress c) <= length clock)%nat ->
  let ps := w_chunk_summaries compress c in
  forallb (fun p => existsb (Z.eqb (p_enc p)) encs) ps = true ->
  cmeta_of m = wr_bookkeeping start (sumZ (map p_nvals (filter is_data ps))) encs ps ->
  cm_nvals m = rg_nrows rg ->
  (cm_null_count m = None \/ cm_null_count m = Some (Z.of_N (w_chunk_nulls c))) ->
  scan_pages decompress clock false (cd_of c) (wc_codec c) None (w_chunk compress c) [] [] 0 = ROk (ps, cells, w_chunk_nulls c) /\
  valid_chunk rg (CHere {| co_meta := m; co_pages := ps; co_cells := cells; co_nulls := w_chunk_nulls c |}) = ROk tt.
Proof. exact (fp_write_chunk_all_kinds compress decompress codec_rt). Qed.

End Codec.
Print Assumptions C02_fp_write_page_v1_dec_partial.
Print Assumptions C02_fp_write_page_v2_dec_partial.
Print Assumptions C02_fp_write_dict_page_dec_partial.
Print Assumptions C02_fp_write_chunk_scan_partial.
Print Assumptions C02_fp_write_chunk_all_kinds_partial.

(* a categorical INT32 chunk, data page v2, a NULL, identity "compression": dictionary page + index page through the
   specification's page loop, evaluated in the kernel *)
Example C02_pages_nonvacuous :
  let idc := fun (_ : Z) (b : bytes) => b in
  let idd := fun (_ : Z) (_ : N) (b : bytes) => Some b in
  let c := {| wc_v2 := true; wc_optional := true; wc_type := INT32; wc_tlen := 0%N; wc_codec := 0%Z; wc_k := 1%nat;
              wc_labels := Some [VNum 5%N; VNum 7%N]; wc_pages := [WDictP [Some 0%N; None; Some 1%N]; WDictP [Some 1%N]] |} in
  scan_pages idd (w_chunk idc c) false (cd_of c) 0%Z None (w_chunk idc c) [] [] 0%N
  = ROk (w_chunk_summaries idc c, [Some (VNum 5%N); None; Some (VNum 7%N); Some (VNum 7%N)], 1%N).
Proof. vm_compute. reflexivity. Qed.
