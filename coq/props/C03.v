(* C03 - valid flat Parquet files from any writer decode to exactly what they encode.
   Statements only (proofs in theories/Proofs/).

   The files of the C03 tie are produced by the specification-level encoder Format/Enc.v from layout
   descriptions; what they "encode" is the denotation `table_of`.  The theorems below are the layers of
   spec_roundtrip that make this encoder/decoder pair a verified reference (same lemmas as C02 group B,
   restated here because C03's oracle depends on them), the refusal of encodings outside the model by
   the specification decoder, and a whole-file instance evaluated in the kernel.

   FULL statement aimed at (DESIGN section 6), NOT yet proved:
     C03_fp_read_spec : supported l -> fp_read false (enc_file l t) = Some (canon t)
   where fp_read is the impl model of core.read_col / read_data_page / read_data_page_v2.
   Proved part: the impl model of the v1 page reader (Impl/RPages.v: read_data_page + the page part of
   read_col) reads every v1 data page of every layout (incl. DELTA_BINARY_PACKED) back to the page's
   denotation (C03_fp_read_page_v1_spec_partial), and so does the impl model of read_data_page_v2 with its
   in-place fast paths for every v2 page (C03_fp_read_page_v2_spec_partial), and the impl model of the page
   loop of read_col returns the denotation of every chunk (C03_fp_read_chunk_spec_partial).  Missing: the
   row-group/file level of the reader (api.py: schema -> dtypes, pre-allocation, row-group iteration), the
   categorical / row-filter variants, and the native decoders themselves (represented by the specification decoders; C11 proves the native
   hybrid reader equal to the specification for widths <= 24).  For the
   missing parts the reader is tied to the specification by the per-run oracle only
   (harness/props/C03.py: fastparquet's result = table_of on every generated file).                *)
From Coq Require Import String.
From Coq Require Import NArith ZArith List Bool Arith.
From Pq Require Import Base.Bytes Base.ListX Codec.Hybrid Thrift.Compact Format.Phys Format.Meta Format.Page
  Format.ChunkLayout Format.File Format.Enc
  Impl.RPages Proofs.HybridProofs Proofs.FormatCodecProofs Proofs.FormatPageProofs Proofs.FormatChunkProofs Proofs.RPagesProofs
  Proofs.FormatFileProofs Impl.RChunk Proofs.RChunkProofs Proofs.RefuseProofs.
Import ListNotations.
Open Scope list_scope.
Open Scope N_scope.

Definition id_c (_ : Z) (b : bytes) : bytes := b.
Definition id_d (_ : Z) (_ : N) (b : bytes) : option bytes := Some b.

Theorem C03_spec_page_roundtrip :
  forall (compress : Z -> bytes -> bytes) (decompress : Z -> N -> bytes -> option bytes),
  (forall codec b, decompress codec (lenN b) (compress codec b) = Some b) ->
  forall strict cd codec dict it c,
  item_wf cd it -> item_content cd dict it = Some c ->
  let hp := enc_item compress cd codec it in
  dec_page decompress strict cd codec dict (fst hp) (snd hp) = ROk c.
Proof. exact item_roundtrip. Qed.
Print Assumptions C03_spec_page_roundtrip.

Theorem C03_spec_chunk_roundtrip :
  forall (compress : Z -> bytes -> bytes) (decompress : Z -> N -> bytes -> option bytes),
  (forall codec b, decompress codec (lenN b) (compress codec b) = Some b) ->
  forall strict cd codec its clock dict pages cells nulls contents,
  Forall (item_wf cd) its ->
  Forall (fun it => phdr_wf (fst (enc_item compress cd codec it)) = true) its ->
  items_contents cd dict its = Some contents ->
  (length (concat (map (item_bytes compress cd codec) its)) <= length clock)%nat ->
  scan_pages decompress clock strict cd codec dict (concat (map (item_bytes compress cd codec) its)) pages cells nulls
  = ROk (rev pages ++ map (fun it => summary_of (enc_item compress cd codec it)) its,
         rev cells ++ concat (map content_cells contents),
         nulls + fold_right N.add 0 (map content_nulls contents)).
Proof. exact scan_pages_roundtrip. Qed.
Print Assumptions C03_spec_chunk_roundtrip.

(* what the generated files encode: the specification decoder reads every well-formed laid-out file back
   to its denotation (file level; the hypotheses are discussed in props/C02.v) *)
Theorem C03_spec_roundtrip_dec :
  forall (compress : Z -> bytes -> bytes) (decompress : Z -> N -> bytes -> option bytes),
  (forall codec b, decompress codec (lenN b) (compress codec b) = Some b) ->
  forall strict f t, lfile_wf compress f -> table_of f = Some t ->
  dec_file decompress strict (enc_file compress f) = ROk t.
Proof. exact spec_roundtrip_dec. Qed.
Print Assumptions C03_spec_roundtrip_dec.

(* impl model of fastparquet's v1 page reader (foreign files: selfmade = false) on the raw bytes of
   any v1 data page the specification encoder can write - optional or required, PLAIN for every
   physical type, dictionary indices of any width 0..32 in any mixture of RLE and bit-packed runs,
   RLE booleans, DELTA_BINARY_PACKED, any trailing bytes - returns exactly the cells the page denotes.
   (Full statement: the same for fp_read over whole files, see the header of this file.) *)
Theorem C03_fp_read_page_v1_spec_partial : forall cd dict p cs,
  page_wf cd p -> page_cells cd dict p = Some cs ->
  rd_col_page false cd dict (v1_header p) (v1_raw cd p) = ROk cs.
Proof. exact rd_col_page_v1_spec. Qed.
Print Assumptions C03_fp_read_page_v1_spec_partial.

(* impl model of core.read_data_page_v2 (flat column, no row filter, not read as categorical; Impl/RPages.v
   rd_page_v2: levels decoded only when the header announces NULLs, is_compressed None = True, the three
   PLAIN paths incl. the in-place ones (flag `inplace`), dictionary width 0, RLE booleans, DELTA with its
   no-NULL assertion) on the page the specification encoder writes (enc_v2_shape: these ARE the header
   fields, sizes and payload of enc_data_page) returns exactly the cells the page denotes - for either
   value of `inplace` (restricted to fixed-width numeric columns, where the code can take it). *)
Theorem C03_fp_read_page_v2_spec_partial :
  forall (compress : Z -> bytes -> bytes) (decompress : Z -> N -> bytes -> option bytes),
  (forall codec b, decompress codec (lenN b) (compress codec b) = Some b) ->
  forall inplace cd dict codec p cs,
  lp_v2 p = true -> page_wf cd p -> page_cells cd dict p = Some cs ->
  (inplace = true -> match lp_store p with SPlain _ => num_width (cd_type cd) <> None | _ => True end) ->
  (match lp_store p with SDelta _ _ _ => v2_nn cd p = 0 | _ => True end) ->
  rd_page_v2 decompress inplace cd dict codec (v2_header cd p)
             (lenN (v2_lb cd p) + lenN (store_bytes cd (lp_store p)))
             (lenN (v2_lb cd p) + lenN (v2_body compress cd codec p))
             (v2_lb cd p ++ v2_body compress cd codec p)
  = ROk cs.
Proof. exact rd_page_v2_spec. Qed.
Print Assumptions C03_fp_read_page_v2_spec_partial.

Theorem C03_v2_page_shape : forall (compress : Z -> bytes -> bytes) cd codec p, lp_v2 p = true ->
  enc_data_page compress cd codec p
  = ({| ph_usize := Z.of_N (lenN (v2_lb cd p)) + Z.of_N (lenN (store_bytes cd (lp_store p)));
        ph_csize := Z.of_N (lenN (v2_lb cd p)) + Z.of_N (lenN (v2_body compress cd codec p)); ph_crc := None;
        ph_body := PBData2 (v2_header cd p) |}%Z, v2_lb cd p ++ v2_body compress cd codec p).
Proof. exact enc_v2_shape. Qed.
Print Assumptions C03_v2_page_shape.

(* a v2 DELTA page that does hold NULLs is refused by the model exactly as by the code (AssertionError) *)
Example C03_v2_delta_with_nulls_refused :
  rd_page_v2 id_d false {| cd_type := INT32; cd_tlen := 0; cd_maxdef := 1 |} None 0%Z
             {| d2_nvals := 2; d2_nnulls := 1; d2_nrows := 2; d2_enc := E_DELTA; d2_dlen := 2; d2_rlen := 0; d2_iscomp := None |}
             10 10 [3; 1; 128; 1; 4; 1; 10; 0; 0; 0]
  = RBad "AssertionError: null delta-int not implemented".
Proof. vm_compute. reflexivity. Qed.

(* CHUNK level: impl model of the page loop of core.read_col (Impl/RChunk.v rd_chunk: driven by the row
   count, dictionary pages replace `dic`, v1 pages through read_data_page + scatter, v2 pages through
   read_data_page_v2, `num` advanced by num_values) over the bytes of ANY chunk the specification encoder
   writes - any number of pages, v1 and v2 mixed, several dictionary pages, PLAIN fallback, any codec -
   returns exactly the cells the chunk denotes. *)
Theorem C03_fp_read_chunk_spec_partial :
  forall (compress : Z -> bytes -> bytes) (decompress : Z -> N -> bytes -> option bytes),
  (forall codec b, decompress codec (lenN b) (compress codec b) = Some b) ->
  forall inplace cd codec rows its clock dict num acc contents,
  Forall (item_wf cd) its ->
  Forall (fun it => phdr_wf (fst (enc_item compress cd codec it)) = true) its ->
  Forall (item_reader_ok inplace cd) its ->
  items_contents cd dict its = Some contents ->
  (length (concat (map (item_bytes compress cd codec) its)) <= length clock)%nat ->
  rows = num + sumN (map item_nvals its) ->
  rd_chunk decompress clock inplace cd codec rows dict (concat (map (item_bytes compress cd codec) its)) num acc
  = ROk (rev acc ++ concat (map content_cells contents)).
Proof. exact rd_chunk_spec. Qed.
Print Assumptions C03_fp_read_chunk_spec_partial.

(* why the `selfmade` guard of the raw-codes shortcut matters (appendix B mutant "drop `and selfmade`"):
   with the shortcut taken on a foreign page of index width 8 the model does not return the denotation *)
Definition ex_sm_cd : coldesc := {| cd_type := INT32; cd_tlen := 0; cd_maxdef := 0 |}.
Definition ex_sm_page : lpage :=
  {| lp_v2 := false; lp_nvals := 3; lp_def := []; lp_store := SDict 8%Z 8 [RLE 3 1]; lp_iscomp := None; lp_trail := [] |}.
Theorem C03_selfmade_shortcut_on_foreign_page_refuted :
  page_cells ex_sm_cd (Some [VNum 10; VNum 20]) ex_sm_page = Some [Some (VNum 20); Some (VNum 20); Some (VNum 20)]
  /\ rd_col_page false ex_sm_cd (Some [VNum 10; VNum 20]) (v1_header ex_sm_page) (v1_raw ex_sm_cd ex_sm_page)
     = ROk [Some (VNum 20); Some (VNum 20); Some (VNum 20)]
  /\ rd_col_page true ex_sm_cd (Some [VNum 10; VNum 20]) (v1_header ex_sm_page) (v1_raw ex_sm_cd ex_sm_page)
     <> ROk [Some (VNum 20); Some (VNum 20); Some (VNum 20)].
Proof. repeat split; try (vm_compute; reflexivity). vm_compute. discriminate. Qed.
Print Assumptions C03_selfmade_shortcut_on_foreign_page_refuted.

(* C03_unsupported_refused on the impl models: for a value encoding outside the ones the reader implements
   (DELTA_LENGTH_BYTE_ARRAY 6, DELTA_BYTE_ARRAY 7, BYTE_STREAM_SPLIT 9, BIT_PACKED 4, anything unknown) neither
   page reader ever returns values, whatever the bytes *)
Theorem C03_unsupported_refused : forall selfmade cd h raw r decompress inplace dic codec h2 us cs payload r2,
  (supported_enc (d_enc h) = false -> rd_data_page selfmade cd h raw <> ROk r) /\
  (supported_enc (d2_enc h2) = false -> rd_page_v2 decompress inplace cd dic codec h2 us cs payload <> ROk r2).
Proof. intros. split; [apply rd_data_page_refuses|apply rd_page_v2_refuses]. Qed.
Print Assumptions C03_unsupported_refused.

(* the specification decoder never returns values for the value encodings outside the model: it says
   "unsupported" (DELTA_LENGTH_BYTE_ARRAY 6, DELTA_BYTE_ARRAY 7, BYTE_STREAM_SPLIT 9) whatever the bytes *)
Theorem C03_spec_unsupported_refused : forall strict cd dict enc n b,
  (enc = 6 \/ enc = 7 \/ enc = 9)%Z ->
  exists why, dec_values strict cd dict enc n b = RUns why.
Proof.
  intros strict cd dict enc n b [E|[E|E]]; subst; eexists; reflexivity.
Qed.
Print Assumptions C03_spec_unsupported_refused.

(* whole file in the kernel: three pages over two row groups, optional INT64 column, dictionary with a
   second dictionary page, fallback to PLAIN, a v2 page with NULLs *)
Definition ex3 : lfile :=
  {| l_leaves := [ {| ll_name := [99]; ll_type := INT64; ll_tlen := 0; ll_optional := true; ll_conv := None; ll_logical := None; ll_scale := None; ll_prec := None |} ];
     l_rgs := [ [ {| lc_codec := 0%Z; lc_stats := true;
                     lc_items := [ LDict 2%Z [VNum 5; VNum 18446744073709551615];
                                   LData {| lp_v2 := false; lp_nvals := 4; lp_def := [BP [1; 0; 1; 1]];
                                            lp_store := SDict 2%Z 1 [BP [1; 0; 1]]; lp_iscomp := None; lp_trail := [0; 0] |};
                                   LDict 0%Z [VNum 9];
                                   LData {| lp_v2 := true; lp_nvals := 2; lp_def := [RLE 2 1];
                                            lp_store := SDict 8%Z 0 [RLE 2 0]; lp_iscomp := None; lp_trail := [] |} ] |} ];
                [ {| lc_codec := 0%Z; lc_stats := false;
                     lc_items := [ LData {| lp_v2 := true; lp_nvals := 3; lp_def := [RLE 1 0; RLE 2 1];
                                            lp_store := SPlain [VNum 1; VNum 2]; lp_iscomp := Some true; lp_trail := [] |} ] |} ] ];
     l_created_by := Some [120] |}.

Example C03_nonvacuous :
  option_map snd (table_of ex3)
    = Some [[[Some (VNum 18446744073709551615); None; Some (VNum 5); Some (VNum 18446744073709551615); Some (VNum 9); Some (VNum 9)]];
            [[None; Some (VNum 1); Some (VNum 2)]]]
  /\ option_map snd (match dec_file id_d true (enc_file id_c ex3) with ROk r => Some r | _ => None end)
     = option_map snd (table_of ex3).
Proof. split; vm_compute; reflexivity. Qed.
Print Assumptions C03_nonvacuous.

(* ==== the logical level: what the stored value MEANS and what convert() makes of it (Impl/RConvert.v) =========
   logical_of = the meaning LogicalTypes.md gives a value of an annotated column; convert_model = the branch of
   converted_types.convert on one value with numpy's fixed-width arithmetic explicit; column_of = the cast of the
   assignment into the column typemap() allocated; denote = the numpy scalar read back (NaT = missing cell).
   The theorem ranges over the finite table of (physical type, converted type) pairs, for EVERY value of the type:
   wherever the representation can hold the value (`representable`), the reader's result means what the file says.
   Tied to the code on every run: convert_model = the real convert() on boundary and random values of every row
   (harness/props/C03.py convert_vs_model).  Outside: the float arithmetic of DECIMAL (the integer is covered),
   JSON / BSON / INTERVAL, UTF-8 validity. *)
From Pq Require Import Impl.RConvert Proofs.RConvertProofs.

Theorem C03_convert_table_partial :
  forall t conv, In (t, conv) conv_table ->
  forall tlen scale v l, value_ok t tlen v = true -> representable t conv None v = true ->
  logical_of t conv None scale v = Some l ->
  exists c, convert_model t conv None scale v = ROk c /\ denote (column_of conv c) = Some (pandas_of l).
Proof. exact convert_table_ok. Qed.
Print Assumptions C03_convert_table_partial.

Theorem C03_convert_logical_timestamp_partial :
  forall u conv scale n, (n <? 256 ^ 8)%N = true -> n <> NAT64 ->
  exists c, convert_model INT64 conv (Some u) scale (VNum n) = ROk c /\
            denote (column_of None c) = logical_of INT64 conv (Some u) scale (VNum n).
Proof. exact convert_logical_timestamp_ok. Qed.
Print Assumptions C03_convert_logical_timestamp_partial.

(* the two holes of `representable`, as theorems about the model (both reproduced on the real reader):
   a DATE beyond 2262-04-11 wraps around (open finding C03-date-beyond-ns-range: 9999-12-31 reads as 1816-03-29) *)
Theorem C03_date_beyond_ns_range_refuted :
  logical_of INT32 (Some 6%Z) None 0%Z (VNum 2932896) = Some (LDate 2932896%Z)
  /\ option_map (fun c => denote (column_of (Some 6%Z) c))
       (match convert_model INT32 (Some 6%Z) None 0%Z (VNum 2932896) with ROk c => Some c | _ => None end)
     = Some (Some (LTimestamp TNs (-4852202631933722624)%Z))
  /\ pandas_of (LDate 2932896%Z) = LTimestamp TNs 253402214400000000000%Z.
Proof. exact date_beyond_ns_wraps. Qed.
Print Assumptions C03_date_beyond_ns_range_refuted.

(* the timestamp -2^63 is numpy's in-band NaT: it reads as a missing cell *)
Theorem C03_timestamp_min_reads_as_missing_refuted :
  logical_of INT64 (Some 9%Z) None 0%Z (VNum NAT64) = Some (LTimestamp TMs (- 2 ^ 63)%Z)
  /\ (exists c, convert_model INT64 (Some 9%Z) None 0%Z (VNum NAT64) = ROk c /\ denote (column_of (Some 9%Z) c) = None).
Proof. exact timestamp_min_reads_as_missing. Qed.
Print Assumptions C03_timestamp_min_reads_as_missing_refuted.
