(* C03 - valid flat Parquet files from any writer decode to exactly what they encode.  Statements only.
   (first cut: theorems are added as the proofs land; see notes/C03.md)                               *)
From Coq Require Import NArith ZArith List Bool.
From Pq Require Import Base.Bytes Format.Phys Format.Meta Format.Page Format.File Format.Enc.
Import ListNotations.
Open Scope N_scope.
