(* C15 — LIST and MAP columns are assembled into the right per-row lists and dicts.
   Only statements here; proofs live in theories/Proofs/NestedProofs.v and CAssembleProofs.v.

   Spec  (Format/Nested.v, from the Dremel / Parquet documents): shred, assemble_spec.
   Impl  (Impl/CAssemble.v): cencoding.pyx _assemble_objects + the call shapes of core.read_col
         (v1: carried row index) and core.read_data_page_v2 (slice, prev_i = 0). *)
From Coq Require Import NArith List Bool.
From Pq Require Import Format.Nested Impl.CAssemble Impl.CAssembleFixed Proofs.NestedProofs Proofs.CAssembleProofs
  Proofs.CAssemblePagesProofs Proofs.NestedMapProofs Proofs.NestedInvProofs
  Proofs.CAssembleTightProofs Proofs.CAssembleFixedProofs Proofs.CAssembleV2Proofs
  Proofs.NestedStructProofs Proofs.CAssemblePyProofs
  Proofs.PyDictProofs Proofs.NestedPageProofs Proofs.HybridProofs Proofs.CAssembleEmptyProofs Impl.CShapes Proofs.CAssembleShapes Proofs.CShapesProofs Codec.Hybrid Base.Bytes.
Import ListNotations.
Open Scope N_scope.

(* spec, full: record assembly inverts shredding for every shape (optional/required list of
   optional/required elements) and every list of well-formed rows: null rows -> None, empty lists
   -> [], null elements -> None, element order kept *)
Theorem C15_assemble_shred : forall (V : Type) (sh : shape) (rows : list (row V)),
  wf_rows sh rows = true ->
  assemble_spec sh (fst (shred sh rows)) (snd (shred sh rows)) = Some rows.
Proof. exact assemble_shred. Qed.
Print Assumptions C15_assemble_shred.

(* spec, converse: the spec decoder accepts ONLY shreddings of well-formed rows, so "every stream
   assemble_spec accepts" (the hypothesis of C15_pages_partial) and "every shredding of
   well-formed rows" are the same set of streams; shred / assemble_spec are mutually inverse *)
Theorem C15_assemble_only_shreds : forall (V : Type) (sh : shape) (es : list entry) (vs : list V) (rows : list (row V)),
  assemble_spec sh es vs = Some rows -> wf_rows sh rows = true /\ shred sh rows = (es, vs).
Proof. exact assemble_spec_inv. Qed.
Print Assumptions C15_assemble_only_shreds.

(* impl, PARTIAL.  Full statement (the property's quantifier inside the model): for EVERY cut of an
   accepted level/value stream into non-empty v1 pages,  run_v1 sh (length rows) pages = AOk rows.
   That is false on the model of today's code (C15_null_continuation_refuted,
   C15_three_page_row_refuted below).  Proved: it holds for every stream the spec decoder accepts
   (no bound on rows, list lengths, number of pages) and every cut that satisfies good_split:
   each page is non-empty and either starts a row (cut at a row boundary), or the part of the
   continued row that it holds contains a non-null element before the next row starts, or it is
   the last page and holds only the continuation.  pages_aligned: each page carries exactly the
   values its definition levels announce (what a data page is).  run_v1 = the fold of
   _assemble_objects over the pages with read_col's carried row index and the parameters
   read_col computes from schema.py (null, max_defi). *)
Theorem C15_pages_partial :
  forall (V : Type) (sh : shape) (es : list entry) (vs : list V) (rows : list (row V)) (pages : list (page V)),
    assemble_spec sh es vs = Some rows ->
    pages_stream pages = (es, vs) ->
    pages_aligned sh pages = true -> good_split sh pages = true ->
    run_v1 sh (length rows) pages = AOk rows.
Proof. exact pages_v1_spec. Qed.
Print Assumptions C15_pages_partial.

(* impl, FULL: read_col as it is now (fix: the leading continuation of a page is appended by
   read_col itself, _assemble_objects is only called at a row boundary; run_v1_py).  The property's
   whole quantifier: EVERY cut of an accepted stream into aligned v1 pages - inside rows, only-null
   continuations, rows spanning any number of pages, empty pages - gives the rows. *)
Theorem C15_pages_full :
  forall (V : Type) (sh : shape) (es : list entry) (vs : list V) (rows : list (row V)) (pages : list (page V)),
    assemble_spec sh es vs = Some rows ->
    pages_stream pages = (es, vs) -> pages_aligned sh pages = true ->
    run_v1_py sh (length rows) pages = AOk rows.
Proof. exact pages_v1_full. Qed.
Print Assumptions C15_pages_full.

(* the statements below about run_v1 describe the call shape BEFORE that fix (every page handed to
   _assemble_objects with the carried index): they delimit the two .pyx defects of the function *)
(* the guard is exact: for every accepted stream cut into non-empty aligned v1 pages, the model of
   today's code returns the rows IF AND ONLY IF the cut satisfies good_split.  Outside the guard
   the result is never the rows (wrong rows, or a fault: slot k of a row whose continued part held
   no value keeps its shorter list; after a continuation-only page the carried row index is one
   too high and the read cannot end inside the array).  This is the precise extent of the two
   open .pyx findings. *)
Theorem C15_pages_exact :
  forall (V : Type) (sh : shape) (es : list entry) (vs : list V) (rows : list (row V)) (pages : list (page V)),
    assemble_spec sh es vs = Some rows ->
    pages_stream pages = (es, vs) ->
    pages_aligned sh pages = true -> nonempty_b pages = true ->
    (run_v1 sh (length rows) pages = AOk rows <-> good_split sh pages = true).
Proof. exact pages_v1_iff. Qed.
Print Assumptions C15_pages_exact.

(* the FULL statement of the property's quantifier - every cut of an accepted stream into aligned
   pages, no guard, empty pages allowed - holds for the model of the PROPOSED REPAIR of
   _assemble_objects (Impl/CAssembleFixed.v: `if part:` instead of `if vali > 0:`, and a page
   without a new row returns i - 1).  The repair cannot be compiled here (.pyx), so the two
   defects stay open findings; the equivalent edit of the generated C was tried against this
   model and the property oracle (notes/C15.md). *)
Theorem C15_pages_full_repaired :
  forall (V : Type) (sh : shape) (es : list entry) (vs : list V) (rows : list (row V)) (pages : list (page V)),
    assemble_spec sh es vs = Some rows ->
    pages_stream pages = (es, vs) -> pages_aligned sh pages = true ->
    run_v1_fx sh (length rows) pages = AOk rows.
Proof. exact pages_v1_fixed. Qed.
Print Assumptions C15_pages_full_repaired.

(* the same for the rows a writer shredded (C15_assemble_shred + C15_pages_partial) *)
Theorem C15_pages_rows_partial :
  forall (V : Type) (sh : shape) (rows : list (row V)) (pages : list (page V)),
    wf_rows sh rows = true -> pages_stream pages = shred sh rows ->
    pages_aligned sh pages = true -> good_split sh pages = true ->
    run_v1 sh (length rows) pages = AOk rows.
Proof. exact pages_v1_shred. Qed.
Print Assumptions C15_pages_rows_partial.

(* v2 data pages (read_data_page_v2 as repaired by the fix: commits - null from the schema; the
   call is _assemble_objects(assign[idx:idx+num_rows], ..., prev_i=0); idx += num_rows).  A v2 page
   begins at a row boundary and announces its rows (DataPageHeaderV2.num_rows), i.e. every page is
   an accepted stream of its own: for every such page sequence the rows of all pages, in order. *)
Theorem C15_v2_pages :
  forall (V : Type) (sh : shape) (pages : list (page V * nat)) (rowss : list (list (row V))),
    Forall2 (v2_page_ok V sh) pages rowss ->
    run_v2 false sh (length (concat rowss)) pages = AOk (concat rowss).
Proof. exact pages_v2_spec. Qed.
Print Assumptions C15_v2_pages.

(* v2, stated on the whole stream of the chunk: an accepted stream cut into aligned pages that each
   start with rep = 0 and announce num_rows = their number of rep = 0 entries *)
Theorem C15_v2_pages_whole :
  forall (V : Type) (sh : shape) (es : list entry) (vs : list V) (rows : list (row V)) (pages : list (page V * nat)),
    assemble_spec sh es vs = Some rows ->
    pages_stream (map fst pages) = (es, vs) ->
    pages_aligned sh (map fst pages) = true -> forallb (v2_cut_ok V) pages = true ->
    run_v2 false sh (length rows) pages = AOk rows.
Proof. exact pages_v2_whole. Qed.
Print Assumptions C15_v2_pages_whole.

(* and conversely the pages of C15_v2_pages concatenate to an accepted stream with those rows *)
Theorem C15_v2_pages_stream :
  forall (V : Type) (sh : shape) (pages : list (page V * nat)) (rowss : list (list (row V))),
    Forall2 (v2_page_ok V sh) pages rowss ->
    assemble_spec sh (fst (pages_stream (map fst pages))) (snd (pages_stream (map fst pages)))
    = Some (concat rowss).
Proof. exact v2_pages_stream. Qed.
Print Assumptions C15_v2_pages_stream.

(* MAP, spec: the key and value leaf columns of MAP<required key, optional/required value> are
   shredded like lists; assembling both and pairing the k-th key with the k-th value of the same
   row gives the maps back (null map -> None, empty map -> no pairs, null values kept, order kept) *)
Theorem C15_map_assemble_shred :
  forall (K V : Type) (sh : shape) (rows : list (map_row K V)),
    forallb (wf_map_row sh) rows = true ->
    assemble_map_spec sh (fst (shred_map sh rows)) (snd (shred_map sh rows)) = Some rows.
Proof. exact assemble_map_shred. Qed.
Print Assumptions C15_map_assemble_shred.

(* MAP, impl, PARTIAL (same guard as C15_pages_partial, on both leaf chunks): the two object
   arrays read_col fills, zipped by read_row_group_arrays (dict(zip(k, v)) if k is not None else
   None), hold exactly the (key, value) pairs of every row, in order.  Python's dict itself
   (hashing, duplicate keys) is outside the model. *)
Theorem C15_map_pages_partial :
  forall (K V : Type) (sh : shape) (rows : list (map_row K V)) (kpages : list (page K)) (vpages : list (page V)),
    forallb (wf_map_row sh) rows = true ->
    pages_stream kpages = fst (shred_map sh rows) -> pages_stream vpages = snd (shred_map sh rows) ->
    pages_aligned (key_shape sh) kpages = true -> good_split (key_shape sh) kpages = true ->
    pages_aligned sh vpages = true -> good_split sh vpages = true ->
    match run_v1 (key_shape sh) (length rows) kpages, run_v1 sh (length rows) vpages with
    | AOk ka, AOk va => zip_maps ka va = Some (map (pairs_of K V) rows)
    | _, _ => False
    end.
Proof. exact map_pages_v1. Qed.
Print Assumptions C15_map_pages_partial.

(* MAP cells are built by dict(zip(keys, values)) from the assembled pairs: in the dict built from a
   pair list with possibly repeated keys the LAST value of a key wins and the keys keep the order of
   their first occurrence *)
Theorem C15_dict_last_wins :
  forall (K V : Type) (keqb : K -> K -> bool), (forall a b, reflect (a = b) (keqb a b)) ->
  forall (pairs : list (K * V)) (k : K),
    alookup K V keqb k (py_dict K V keqb pairs) = alookup K V keqb k (rev pairs).
Proof. exact py_dict_last_wins. Qed.
Print Assumptions C15_dict_last_wins.

Theorem C15_dict_keys_first_occurrence :
  forall (K V : Type) (keqb : K -> K -> bool) (pairs : list (K * V)),
    map fst (py_dict K V keqb pairs) = first_occurrences K keqb (map fst pairs).
Proof. exact py_dict_keys. Qed.
Print Assumptions C15_dict_keys_first_occurrence.

(* nested page streams embed into the page payload framing with the proved hybrid codec: for any
   runs that spell the repetition / definition levels of a page's entries, the spec decoder of the
   v1 payload (le32 |R| R le32 |D| D values) and of the v2 payload (R D values, byte lengths from
   the header) returns exactly those entries and leaves the value bytes untouched *)
Theorem C15_page_payload_v1 : forall rw dw rruns druns vbytes (es : list entry),
  Forall (run_wf rw) rruns -> Forall (run_wf dw) druns ->
  allvals rruns = map fst es -> allvals druns = map snd es ->
  N.of_nat (length (hyb_enc rw rruns)) < 2 ^ 32 -> N.of_nat (length (hyb_enc dw druns)) < 2 ^ 32 ->
  dec_nested_v1 rw dw (N.of_nat (length es)) (nested_v1_payload rw dw rruns druns vbytes) = Some (es, vbytes).
Proof. exact nested_v1_roundtrip. Qed.
Print Assumptions C15_page_payload_v1.

Theorem C15_page_payload_v2 : forall rw dw rruns druns vbytes (es : list entry),
  Forall (run_wf rw) rruns -> Forall (run_wf dw) druns ->
  allvals rruns = map fst es -> allvals druns = map snd es ->
  dec_nested_v2 rw dw (N.of_nat (length es)) (N.of_nat (length (hyb_enc rw rruns))) (N.of_nat (length (hyb_enc dw druns)))
                (nested_v2_payload rw dw rruns druns vbytes) = Some (es, vbytes).
Proof. exact nested_v2_roundtrip. Qed.
Print Assumptions C15_page_payload_v2.

(* LIST / MAP groups below struct groups (flattened column "s1....sk.NAME"): every optional
   ancestor adds one definition level meaning "no collection in this row".  Spec side: folding
   those levels (fold_def with the shift core._nested_levels computes) turns the entries of a
   struct-nested row into the entries of the flattened row in the one-level shape flat_shape, so
   all theorems above apply to such columns. *)
Theorem C15_struct_levels :
  forall (V : Type) (s_off : N) (sh : shape) (x : srow V), wf_srow V s_off sh x = true ->
    map (fun e : entry => (fst e, fold_def (lshift s_off sh) (snd e))) (srow_entries V s_off sh x)
      = row_entries (flat_shape s_off sh) (flatten V x) /\
    srow_values V x = row_values (flatten V x) /\
    wf_row (flat_shape s_off sh) (flatten V x) = true /\
    smax_def s_off sh - lshift s_off sh = max_def (flat_shape s_off sh).
Proof. exact struct_levels_fold. Qed.
Print Assumptions C15_struct_levels.

(* impl side: the model of core._nested_levels (count of non-REQUIRED groups on path[:-2]) yields
   exactly that fold, that null flag and that max level for any stack of ancestor structs *)
Theorem C15_nested_levels_model :
  forall (outer : list bool) (sh : shape) (defi : list N),
    nested_levels (struct_path outer sh) defi (smax_def (count_true outer) sh)
    = (row_opt (flat_shape (count_true outer) sh),
       map (fold_def (lshift (count_true outer) sh)) defi,
       max_def (flat_shape (count_true outer) sh)).
Proof. exact nested_levels_struct. Qed.
Print Assumptions C15_nested_levels_model.

(* core.py defect (repaired by a fix: commit): before, null came from the outermost group only and
   the levels were passed unfolded - a null list inside an optional struct read as [] *)
Theorem C15_struct_unfolded_refuted :
  exists (s_off : N) (sh : shape) (x : srow N) (wrong : row N),
    wf_srow N s_off sh x = true /\
    read_col_v1 true (smax_def s_off sh) (empty_arr 1) 0 [(srow_entries N s_off sh x, srow_values N x)] = AOk [wrong] /\
    wrong <> flatten N x /\
    read_col_v1 (row_opt (flat_shape s_off sh)) (max_def (flat_shape s_off sh)) (empty_arr 1) 0
      [(map (fun e : entry => (fst e, fold_def (lshift s_off sh) (snd e))) (srow_entries N s_off sh x), srow_values N x)]
    = AOk [flatten N x].
Proof. exact struct_unfolded_refuted. Qed.
Print Assumptions C15_struct_unfolded_refuted.

(* the parameters read_col derives through schema.py (max_repetition_level, max_definition_level,
   null = not is_required(path[0])) for the three-level LIST / MAP leaf paths are the
   specification's levels *)
Theorem C15_schema_levels : forall sh : shape,
  sch_max_rep (shape_path sh) = 1 /\ sch_max_def (shape_path sh) = max_def sh /\
  call_null (shape_path sh) = row_opt sh.
Proof. intro sh. repeat split. apply sch_max_rep_shape. apply sch_max_def_shape. apply call_null_shape. Qed.
Print Assumptions C15_schema_levels.

(* .pyx defect 1 (open finding): continuation of a row across a v1 page boundary whose continued
   part holds only null elements moves elements into the next row *)
Theorem C15_null_continuation_refuted :
  exists (sh : shape) (rows : list (row N)) (pages : list (page N)) (wrong : list (row N)),
    wf_rows sh rows = true /\ pages_stream pages = shred sh rows /\ nonempty_pages pages /\
    pages_aligned sh pages = true /\ good_split sh pages = false /\
    run_v1 sh (length rows) pages = AOk wrong /\ wrong <> rows.
Proof. exact null_continuation_refuted. Qed.
Print Assumptions C15_null_continuation_refuted.

(* .pyx defect 2 (open finding, also C12): a page holding only the continuation of a row shifts the
   carried row index; the next page writes past the end of the output array *)
Theorem C15_three_page_row_refuted :
  exists (sh : shape) (rows : list (row N)) (pages : list (page N)),
    wf_rows sh rows = true /\ pages_stream pages = shred sh rows /\ nonempty_pages pages /\
    pages_aligned sh pages = true /\ good_split sh pages = false /\
    run_v1 sh (length rows) pages = AErr (OobWrite (length rows)).
Proof. exact three_page_row_refuted. Qed.
Print Assumptions C15_three_page_row_refuted.

(* core.py defect (repaired by a fix: commit): v2 pages were assembled with null=True whatever
   the schema says; with the schema's value the same pages give the rows *)
Theorem C15_v2_null_true_refuted :
  exists (sh : shape) (rows : list (row N)) (pages : list (page N * nat)) (wrong : list (row N)),
    wf_rows sh rows = true /\ pages_stream (map fst pages) = shred sh rows /\
    run_v2 true sh (length rows) pages = AOk wrong /\ wrong <> rows /\
    run_v2 false sh (length rows) pages = AOk rows.
Proof. exact v2_null_true_refuted. Qed.
Print Assumptions C15_v2_null_true_refuted.

(* core.py defect (repaired by a fix: commit): v2 pages of a LIST/MAP leaf with PLAIN values took
   the flat branch of read_data_page_v2 (rows indexed by level entries: IndexError / scalars in
   rows); the repaired chain sends PLAIN and dictionary pages of a repeated leaf to record assembly *)
Theorem C15_v2_plain_refuted :
  exists enc, v2_branch true 1 enc = BFlat /\ v2_branch false 1 enc = BAssemble.
Proof. exact v2_plain_refuted. Qed.
Print Assumptions C15_v2_plain_refuted.

Theorem C15_v2_branch : forall max_rep enc, 0 < max_rep -> (enc = EPlain \/ enc = EDict) ->
  v2_branch false max_rep enc = BAssemble.
Proof. exact v2_branch_repaired. Qed.
Print Assumptions C15_v2_branch.

Example C15_nonvacuous :
  let sh := mkShape true true in
  let rows : list (row N) := [Some [Some 1; None; Some 3]; None; Some []; Some [None]] in
  wf_rows sh rows = true /\
  shred sh rows = ([(0,3);(1,2);(1,3);(0,0);(0,1);(0,2)], [1;3]) /\
  assemble_spec sh (fst (shred sh rows)) (snd (shred sh rows)) = Some rows /\
  let pages := [([(0,3);(1,2)], [1]); ([(1,3);(0,0)], [3]); ([(0,1);(0,2)], [])] in
  pages_stream pages = shred sh rows /\ pages_aligned sh pages = true /\ good_split sh pages = true /\
  run_v1 sh 4 pages = AOk rows.
Proof. vm_compute. repeat split; reflexivity. Qed.

Example C15_nonvacuous_v2_map :
  let sh := mkShape true true in
  let p1 : page N := ([(0,3);(1,2);(0,0)], [5]) in
  let p2 : page N := ([(0,1);(0,3);(1,3)], [6;7]) in
  v2_page_ok N sh (p1, 2%nat) [Some [Some 5; None]; None] /\
  v2_page_ok N sh (p2, 2%nat) [Some []; Some [Some 6; Some 7]] /\
  forallb (v2_cut_ok N) [(p1, 2%nat); (p2, 2%nat)] = true /\
  run_v2 false sh 4 [(p1, 2%nat); (p2, 2%nat)] = AOk [Some [Some 5; None]; None; Some []; Some [Some 6; Some 7]] /\
  let rows : list (map_row N N) := [Some [(1, Some 10); (2, None)]; None; Some []; Some [(3, Some 30)]] in
  forallb (wf_map_row sh) rows = true /\
  shred_map sh rows = (([(0,2);(1,2);(0,0);(0,1);(0,2)], [1;2;3]), ([(0,3);(1,2);(0,0);(0,1);(0,3)], [10;30])) /\
  assemble_map_spec sh (fst (shred_map sh rows)) (snd (shred_map sh rows)) = Some rows.
Proof. vm_compute. repeat split; try reflexivity; try discriminate. Qed.

(* ---- wave 3: data pages with ZERO entries are neutral, v1 (repaired page loop) and v2, whatever the other pages are ---- *)
Theorem C15_empty_pages_neutral_v1 : forall (V : Type) null md (pages : list (page V)) a i,
  read_col_v1_py null md a i pages = read_col_v1_py null md a i (drop_empty pages).
Proof. intros V. exact (@read_col_v1_py_drop_empty V). Qed.
Print Assumptions C15_empty_pages_neutral_v1.

Theorem C15_empty_pages_neutral_v2 : forall (V : Type) null md (pages : list (page V * nat)) a idx,
  read_col_v2 null md a idx pages = read_col_v2 null md a idx (filter has_entries2 pages).
Proof. intros V. exact (@read_col_v2_drop_empty V). Qed.
Print Assumptions C15_empty_pages_neutral_v2.

(* C15_pages_full with zero-entry pages anywhere in the chunk *)
Theorem C15_pages_full_with_empty :
  forall (V : Type) (sh : shape) (es : list entry) (vs : list V) (rows : list (row V)) (pages : list (page V)),
    assemble_spec sh es vs = Some rows ->
    pages_stream (drop_empty pages) = (es, vs) -> pages_aligned sh (drop_empty pages) = true ->
    run_v1_py sh (length rows) pages = AOk rows.
Proof. exact pages_v1_full_with_empty. Qed.
Print Assumptions C15_pages_full_with_empty.

(* ---- wave 3: shapes the one-level assembly does not represent -------------------------------------------------------------
   (a) LIST / MAP below a REPEATED group: two repetition levels, but the loop only asks rep == 0 - two different records
       (one list [7, 8] / two lists [7], [8] in one row) give the same cell.  The reader REFUSES such columns (model `refuses` of the
       NotImplementedError in core._nested_levels; real refusal checked in the refusal stage). *)
Theorem C15_two_rep_levels_merged_refuted :
  exists (sh : shape) (es1 es2 : list entry) (vs : list N) (r : list (row N)),
    es1 <> es2 /\ map snd es1 = map snd es2 /\
    run_v1_py sh 1 [(es1, vs)] = AOk r /\ run_v1_py sh 1 [(es2, vs)] = AOk r /\
    refuses [REPEATED; OPTIONAL; REPEATED; OPTIONAL] = true /\
    refuses [OPTIONAL; REPEATED; OPTIONAL] = false.
Proof. exact two_rep_levels_merged_refuted. Qed.
Print Assumptions C15_two_rep_levels_merged_refuted.

(* (b) two-level legacy lists: legal (LogicalTypes.md backward-compatibility rules), same level streams as the three-level shape with a
       required element, but never list-like for the reader: every row of the exposed column is None.  OPEN FINDING C15-two-level-list-all-none *)
Theorem C15_two_level_list_refuted :
  exists (rows : list (row N)),
    wf_rows (mkShape true false) rows = true /\
    assemble_spec (mkShape true false) (fst (shred (mkShape true false) rows)) (snd (shred (mkShape true false) rows)) = Some rows /\
    (forall a n1 n2 mid leaf, is_list_like 2 a n1 n2 mid leaf = false) /\
    column_cells false rows (length rows) <> map Some rows.
Proof. exact two_level_list_refuted. Qed.
Print Assumptions C15_two_level_list_refuted.

(* ---- wave 4: nested collections of depth > 1.  The reader REFUSES (NotImplementedError in core._nested_levels, model `refuses`) exactly
   the columns with more than one REPEATED element on their path - LIST<LIST<..>>, MAP<k, LIST<..>>, LIST<MAP<..>>, collections below a
   repeated group, at any depth - and no one-level LIST / MAP column below any stack of structs.  (What the one-level loop would do
   with two repetition levels: C15_two_rep_levels_merged_refuted.) *)
Theorem C15_refused_iff_two_repeated : forall p, refuses p = true <-> (2 <= n_rep p)%nat.
Proof. exact refuses_iff. Qed.
Print Assumptions C15_refused_iff_two_repeated.

Theorem C15_nested_collection_refused : forall a b c : list reptype, refuses (a ++ REPEATED :: b ++ REPEATED :: c) = true.
Proof. exact nested_collection_refused. Qed.
Print Assumptions C15_nested_collection_refused.

Theorem C15_one_level_not_refused : forall (outer : list bool) (sh : shape),
  refuses (map (fun o : bool => if o then OPTIONAL else REQUIRED) outer ++ shape_path sh) = false.
Proof. exact one_level_not_refused. Qed.
Print Assumptions C15_one_level_not_refused.
