(* C07 — append adds rows at the end and leaves existing data untouched.
   Only statements here; models in theories/Dataset/{Append,FS,Crash}.v and Impl/KV.v, proofs in
   theories/Proofs/{AppendProofs,CrashProofs}.v.

   Single file (writer.write_simple, append=True): the file is opened without truncation, the
   cursor is put on the old footer (found through the length field at the end), everything is
   written sequentially from there.  Inside the model:
     * whatever is written, every byte below the old footer start is unchanged (all existing row
       groups lie there) - for ANY file in which the footer is found, ANY written chunks;
     * the result is again  data ++ new row groups ++ footer' ++ le32 ++ PAR1  (no truncate is
       needed as long as what is written is not shorter than the old footer - refuted otherwise);
     * for ANY sequence of appends, each of ANY list of row groups, a reader that takes the row
       groups from the byte ranges the footer lists sees the old rows followed by the rows of every
       batch in order; `dec_rg` (page decoding: C01/C03) is an arbitrary function, the footer's
       thrift content (C10) is abstracted by enc_footer/parse_footer with the stated hypotheses.
   Multi-file (writer.write_multi, append=True): for EVERY call trace in the validated relation
   `safe_trace refs tr` (C19; the extracted checker runs on the recorded trace of every real
   append) no referenced file is opened for writing, renamed or removed, and every referenced
   file is byte-identical after the whole trace.

   NOT proved here (finding, see findings.d/C07.json): "every value intact including categorical
   columns whose later batches carry different category sets" fails on the real code - the reader
   (core.read_col) takes the labels from each dictionary page in turn, so the codes of earlier row
   groups are finally interpreted with the LAST dictionary.                                       *)
From Coq Require Import NArith Arith List Bool.
From Pq Require Import Base.Bytes Impl.KV Dataset.Append Dataset.FS Dataset.FsPaths Dataset.Crash Dataset.CrashGen Proofs.CrashGenProofs Dataset.Ops Dataset.CatRead
  Proofs.AppendProofs Proofs.CrashProofs Proofs.OpsProofs Proofs.CatReadProofs.
Import ListNotations.

Theorem C07_simple_prefix : forall file chunks footer' file' loc,
  footer_loc false file = Some loc -> append_simple file chunks footer' = Some file' ->
  firstn loc file' = firstn loc file.
Proof. exact append_simple_prefix. Qed.
Print Assumptions C07_simple_prefix.

(* the validated relation: evaluated by the extracted checker on (bytes before, bytes after) of every
   real single-file append; whatever else the writer does, every byte range below the old footer
   start - all existing row groups - is unchanged *)
Theorem C07_simple_relation_sound : forall before after,
  check_append_rel before after = true <-> append_rel before after.
Proof. exact check_append_rel_sound. Qed.
Print Assumptions C07_simple_relation_sound.

Theorem C07_simple_old_row_groups_untouched : forall before after, append_rel before after ->
  exists loc, footer_loc false before = Some loc /\
    forall off len, (off + len <= loc)%nat -> slice off len after = slice off len before.
Proof. exact append_rel_old_slices. Qed.
Print Assumptions C07_simple_old_row_groups_untouched.

Theorem C07_simple_model_in_relation : forall data footer chunks footer' f',
  (N.of_nat (length footer) < 2 ^ 32)%N -> (N.of_nat (length footer') < 2 ^ 32)%N ->
  (length footer <= length (concat chunks) + length footer')%nat ->
  append_simple (framed data footer) chunks footer' = Some f' -> append_rel (framed data footer) f'.
Proof. exact append_simple_in_rel. Qed.
Print Assumptions C07_simple_model_in_relation.

Theorem C07_simple_framed : forall data footer chunks footer',
  (N.of_nat (length footer) < 2 ^ 32)%N ->
  (length footer <= length (concat chunks) + length footer')%nat ->
  append_simple (framed data footer) chunks footer' = Some (framed (data ++ concat chunks) footer').
Proof. exact append_simple_framed. Qed.
Print Assumptions C07_simple_framed.

(* there is no truncate in write_simple: were the written tail shorter than the old footer, old bytes
   would survive behind the new magic (cannot happen when the new footer lists a superset of the
   old row groups and serialisation is monotone - hypothesis enc_mono below) *)
Theorem C07_simple_shorter_tail_refuted : forall data footer chunks footer' f',
  (N.of_nat (length footer) < 2 ^ 32)%N ->
  (length (concat chunks) + length footer' < length footer)%nat ->
  append_simple (framed data footer) chunks footer' = Some f' ->
  f' <> framed (data ++ concat chunks) footer'.
Proof. exact append_simple_short_refuted. Qed.
Print Assumptions C07_simple_shorter_tail_refuted.

Theorem C07_rows_simple :
  forall (row : Type) (dec_rg : bytes -> list row)
         (enc_footer : list (nat * nat) -> bytes) (parse_footer : bytes -> option (list (nat * nat))),
    (forall l, parse_footer (enc_footer l) = Some l) ->
    (forall l, (N.of_nat (length (enc_footer l)) < 2 ^ 32)%N) ->
    (forall l l', (length (enc_footer l) <= length (enc_footer (l ++ l')))%nat) ->
  forall (batches : list (list bytes)) (data : bytes) (descs : list (nat * nat)),
    Forall (fun d => (fst d + snd d <= length data)%nat) descs ->
    exists f', appends enc_footer parse_footer (framed data (enc_footer descs)) batches = Some f'
      /\ read_simple row dec_rg parse_footer f'
         = Some (rows_of row dec_rg data descs ++ concat (map dec_rg (concat batches)))
      /\ firstn (length data) f' = data.
Proof. exact appends_rows. Qed.
Print Assumptions C07_rows_simple.

Theorem C07_multi_existing_untouched : forall refs tr, safe_trace refs tr ->
  (forall s q, In q refs -> lookup q (run_trace tr s) = lookup q s)
  /\ (forall p t, In (OpenW p t) tr -> ~ In p refs)
  /\ (forall c, In c tr ->
        match c with Rename a b => ~ In a refs /\ ~ In b refs | Remove p => ~ In p refs | _ => True end).
Proof. exact multi_existing_untouched. Qed.
Print Assumptions C07_multi_existing_untouched.

(* the same for the relation the tie evaluates (summary files in either order, see props/C19.v) *)
Theorem C07_multi_existing_untouched_either_order : forall refs tr, safe_trace_sym refs tr ->
  (forall s q, In q refs -> lookup q (run_trace tr s) = lookup q s)
  /\ (forall p t, In (OpenW p t) tr -> ~ In p refs)
  /\ (forall c, In c tr ->
        match c with Rename a b => ~ In a refs /\ ~ In b refs | Remove p => ~ In p refs | _ => True end).
Proof. exact sym_existing_untouched. Qed.
Print Assumptions C07_multi_existing_untouched_either_order.

(* fresh names: with off = find_max_part of the referenced paths, every file the append creates
   (row group i of the append is part.<off+i>.parquet in each of its partition directories) is
   none of the referenced files and none of the two summary files *)
Theorem C07_fresh_names : forall refs off rgs, find_max_part refs = Some off -> good_dirs rgs = true ->
  forall p, In p (new_paths off rgs) -> ~ In p refs /\ p <> md_name /\ p <> cmd_name.
Proof. exact new_paths_fresh. Qed.
Print Assumptions C07_fresh_names.

(* rows of a multi-file dataset after one complete append = old rows ++ rows of the new files in
   the order they were written, and the summary then lists old ++ new references, which is the
   premise of the next append (so the statement chains over any sequence of appends);
   dec_file (decoding of one part file) and parse_md are arbitrary *)
Theorem C07_rows_multi :
  forall (row : Type) (parse_md : bytes -> option (list path)) (dec_file : bytes -> list row)
         refs partitioned rgs md cmd tr off s old_rows,
    refs_of parse_md s = Some refs ->
    read_dataset (list row) parse_md (rows_decode row dec_file) s = Some old_rows ->
    find_max_part refs = Some off ->
    append_trace refs partitioned rgs md cmd = Some tr -> good_dirs rgs = true ->
    NoDup (new_paths off rgs) ->
    parse_md (concat md) = Some (refs ++ new_paths off rgs) ->
    read_dataset (list row) parse_md (rows_decode row dec_file) (run_trace tr s)
      = Some (old_rows ++ concat (map dec_file (new_contents off rgs)))
    /\ refs_of parse_md (run_trace tr s) = Some (refs ++ new_paths off rgs).
Proof. exact append_rows_multi. Qed.
Print Assumptions C07_rows_multi.

(* ... and so for ANY sequence of multi-file appends (induction over the list of appends): *)
Theorem C07_rows_multi_sequence :
  forall (row : Type) (parse_md : bytes -> option (list path)) (dec_file : bytes -> list row)
         (steps : list step_in) refs s old_rows,
    steps_ok parse_md steps refs -> refs_of parse_md s = Some refs ->
    read_dataset (list row) parse_md (rows_decode row dec_file) s = Some old_rows ->
    exists refs' s', run_appends steps refs s = Some (refs', s')
      /\ read_dataset (list row) parse_md (rows_decode row dec_file) s'
         = Some (old_rows ++ concat (map dec_file (all_new_contents steps refs)))
      /\ refs_of parse_md s' = Some refs'
      /\ (forall q, In q refs -> lookup q s' = lookup q s).
Proof. exact appends_rows_multi. Qed.
Print Assumptions C07_rows_multi_sequence.

(* categorical columns (Dataset/CatRead.v: ONE label list for the whole output column, replaced by
   every dictionary page read; codes copied as they are).
   Full statement wanted by the property:  forall init chunks, read_cat init chunks = expected_cat chunks.
   It is FALSE on the faithful model of today's reader (refuted below; finding C07-categorical-relabel,
   the model's wrong output is compared with the real wrong output on every run); what holds is the
   partial statement for appends that keep the category list. *)
Theorem C07_categorical_same_labels_partial : forall d init chunks,
  Forall (fun ch => fst ch = Some d) chunks -> read_cat init chunks = expected_cat chunks.
Proof. exact read_cat_same_labels. Qed.
Print Assumptions C07_categorical_same_labels_partial.

Theorem C07_categorical_relabel_refuted :
  exists init chunks, read_cat init chunks <> expected_cat chunks
    /\ (forall ch, In ch chunks -> exists d, fst ch = Some d /\ forall c, In (Some c) (snd ch) -> (c < length d)%nat).
Proof. exact read_cat_relabel_refuted. Qed.
Print Assumptions C07_categorical_relabel_refuted.

(* non-vacuity: a 3-byte data region with one row group, two appends (1 and 2 row groups);
   footer = the descriptor list written as bytes (off, len pairs), parse = its inverse *)
Definition ex_enc (l : list (nat * nat)) : bytes := concat (map (fun d => [N.of_nat (fst d); N.of_nat (snd d)]) l).
Fixpoint ex_parse (b : bytes) : option (list (nat * nat)) :=
  match b with
  | [] => Some []
  | o :: l :: r => option_map (cons (N.to_nat o, N.to_nat l)) (ex_parse r)
  | _ => None
  end.
Example C07_nonvacuous :
  let f0 := framed [80;65;82;49;7;7;7]%N (ex_enc [(4,3)%nat]) in
  exists f', appends ex_enc ex_parse f0 [[[1;2]%N]; [[3]%N; [4;5;6]%N]] = Some f'
    /\ read_simple N (fun b => b) ex_parse f' = Some [7;7;7;1;2;3;4;5;6]%N
    /\ firstn 7 f' = [80;65;82;49;7;7;7]%N.
Proof. eexists. vm_compute. repeat split; reflexivity. Qed.

(* wave 3: the same for every trace in the GENERAL commit-point relation (Dataset/CrashGen.v), which is what the recorded
   trace of every real multi-file append is checked against: no existing data file opened for writing, renamed, removed
   (nor a directory holding one), every one byte-identical after the whole trace *)
Theorem C07_multi_existing_untouched_general : forall refs tr, safe_gen refs tr ->
  (forall p t, In (OpenW p t) tr -> ~ In p refs)
  /\ (forall a b q, In (Rename a b) tr -> In q refs -> under a q = false /\ under b q = false)
  /\ (forall p q, In (Remove p) tr -> In q refs -> under p q = false)
  /\ forall s q, In q refs -> lookup q (run_trace tr s) = lookup q s.
Proof. exact gen_existing_untouched. Qed.
Print Assumptions C07_multi_existing_untouched_general.
