(* C20 — concurrent reads and derived handles give the same results as sequential use.
   Only statements here; models in theories/Conc/Interleave.v, proofs in theories/Proofs/InterleaveProofs.v.

   Full statement of the property: for ALL interleavings of 2..16 threads issuing read-only
   operations on a shared handle each thread obtains the result it obtains alone and no call fails
   because of another; part-file writers produce the bytes they produce one after another.

   What is proved (level: partial): the statement inside the interleaving model, whose atomic
   actions are single dict/attribute reads and writes, for ANY number of threads and EVERY schedule,
   for every family of threads that satisfies the per-operation footprint premise [ok] (memo
   discipline) resp. [respects] (ownership discipline).  That today's operations satisfy the premise
   is the tie (line-granular footprint monitor, harness/props/C20.py); preemption inside one source
   line and inside C extensions is below the model.                                              *)
From Coq Require Import NArith Arith List Bool.
From Pq Require Import Conc.Interleave Proofs.InterleaveProofs.
Import ListNotations.

(* every schedule: results = solo results, no destructive write is ever executed, the final store is
   the initial store plus the union of the memo entries written by the threads *)
Theorem C20_memo_confluence_partial :
  forall (V R : Type) (memo : N -> option V) (base : store V)
         (ps : pool V R) (rs : nat -> R) (s0 : store V),
    (forall i, ok memo base nothing (ps i) (rs i)) -> consistent memo base s0 ->
  forall (veqb : V -> V -> bool), (forall a, veqb a a = true) ->
  forall sched : list nat,
    let c := exec sched (init ps s0) in
    (forall i r, result c i = Some r -> r = fst (solo (ps i) s0)) /\
    Forall (fun k => k <> KDestructiveWrite) (kinds veqb sched (init ps s0)) /\
    (forall k, c_store c k = union_store memo s0 (c_log c) k) /\
    consistent memo base (c_store c).
Proof. exact memo_confluence. Qed.
Print Assumptions C20_memo_confluence_partial.

(* ... and no thread is ever blocked or diverted: a schedule that gives a thread as many turns as
   its longest path finishes it (so the previous theorem is about results that exist) *)
Theorem C20_every_fair_schedule_finishes :
  forall (V R : Type) (sched : list nat) (c : config V R) (i n : nat),
    bounded (c_pool c i) n -> n <= count_occ Nat.eq_dec sched i ->
    exists r, result (exec sched c) i = Some r.
Proof. exact bounded_finishes. Qed.
Print Assumptions C20_every_fair_schedule_finishes.

(* part-file writers: threads that write only what they own (their part file, their row group) and
   read only that and the shared schema / metadata template perform no shared write at all, and for
   every schedule produce the result and the file content of the sequential run *)
Theorem C20_part_writer :
  forall (V R : Type) (own : N -> option nat) (ps : pool V R) (s0 : store V),
    (forall i, respects own i (ps i)) ->
  forall sched : list nat,
    let c := exec sched (init ps s0) in
    (forall k, own k = None -> c_store c k = s0 k) /\
    Forall (fun e => own (snd e) = Some (fst e)) (c_log c) /\
    (forall i r, result c i = Some r ->
       r = fst (solo (ps i) s0) /\ forall k, own k = Some i -> c_store c k = snd (solo (ps i) s0) k).
Proof. exact part_writer. Qed.
Print Assumptions C20_part_writer.

(* the pinned tree: a derived handle re-runs schema_tree on the SHARED schema elements
   (root["children"] = OrderedDict(), then refilled).  Explicit schedule - slicer performs its first
   write, then the reader looks column 2 up - the reader gets KeyError (result 1) although alone it
   finds the column (result 0); the executed write is a destructive one.  Repaired by a fix: commit
   (derived handles reuse the parent's helper), after which the slicer performs no write at all. *)
Theorem C20_rebuild_refuted :
  exists ws, tree_writes (flat_schema 3) = Some ws /\
  exists sched,
    result (exec sched (init (rebuild_pool ws 2%N) (built ws))) 1 = Some 1%N /\
    fst (solo (rebuild_pool ws 2%N 1) (built ws)) = 0%N /\
    In KDestructiveWrite (kinds list_eqb sched (init (rebuild_pool ws 2%N) (built ws))).
Proof. exact rebuild_refuted_3. Qed.
Print Assumptions C20_rebuild_refuted.

(* the checker run on the footprint traces of the real operations is sound: acceptance means that
   inside every trace the fingerprinted state only grows (every transition is a memo add) and that
   one table holds every value ever seen under a key (the value is a function of the key) *)
Theorem C20_trace_checker_sound : forall (trs : list (list snapshot)) t,
  forallb trace_ok trs = true -> merge [] (concat trs) = Some t ->
  (forall tr, In tr trs -> forall m n a b, m <= n -> nth_error tr m = Some a -> nth_error tr n = Some b ->
     forall k v, lookup k a = Some v -> lookup k b = Some v) /\
  (forall tr s, In tr trs -> In s tr -> forall k v, lookup k s = Some v -> lookup k t = Some v).
Proof. exact traces_accepted_sound. Qed.
Print Assumptions C20_trace_checker_sound.

(* ... and it is the right thing to check: the stores a memo-disciplined thread passes through when
   run alone grow monotonically and stay inside the memo table, so a rejected trace refutes [ok] *)
Theorem C20_disciplined_traces_grow :
  forall (R : Type) (memo : N -> option N) (base : store N) (p : prog N R) kn r s,
    ok memo base kn p r -> consistent memo base s -> knows memo kn s ->
    forall s', In s' (solo_trace R p s) -> grows s s' /\ consistent memo base s'.
Proof. exact ok_solo_trace_grows. Qed.
Print Assumptions C20_disciplined_traces_grow.

(* the memoising operations of api.py (filter_out_stats' converted_min/max, statistics, key_value_metadata,
   pandas_metadata, categories: look up, compute from immutable data when absent, store, read back) obey
   the discipline, for ANY number of memoised values consulted, with early exit *)
Theorem C20_memo_ops_disciplined :
  forall (V R : Type) (memo : N -> option V) (base : store V)
         (f : N -> list (option V) -> V) (stop : list V -> option R) (fin : list V -> R) (err : R)
         (l : list (N * list N)),
    table_ok V memo base f l ->
    forall acc kn, ok memo base kn (memo_seq f stop fin err l acc) (pure_seq f stop fin base l acc).
Proof. exact ok_memo_seq. Qed.
Print Assumptions C20_memo_ops_disciplined.

(* ... hence any number of threads, each filtering on its own columns / row groups of the shared handle,
   obtain under EVERY schedule the pure function of the immutable statistics *)
Theorem C20_memo_ops_confluent :
  forall (V R : Type) (memo : N -> option V) (base : store V)
         (f : N -> list (option V) -> V) (stop : list V -> option R) (fin : list V -> R) (err : R)
         (ls : nat -> list (N * list N)) (s0 : store V),
    (forall i, table_ok V memo base f (ls i)) -> consistent memo base s0 ->
    forall sched i r,
      result (exec sched (init (fun j => memo_seq f stop fin err (ls j) []) s0)) i = Some r ->
      r = pure_seq f stop fin base (ls i) [].
Proof. exact memo_ops_confluent. Qed.
Print Assumptions C20_memo_ops_confluent.

(* the repaired code (fix 6a5872c: a derived handle takes the parent's helper, _set_attrs(helper) only reads
   the shared tree): for EVERY schema-tree write log, every column of the root and EVERY schedule of one
   deriving thread and any number of readers, every lookup succeeds, nothing is written *)
Theorem C20_rebuild_repaired :
  forall (ws : wlog) (ks : list N) (name : N),
    built ws 0%N = Some ks -> existsb (N.eqb name) ks = true ->
    forall sched,
      (forall i r, result (exec sched (init (repaired_pool name) (built ws))) i = Some r -> r = 0%N) /\
      Forall (fun k => k <> KDestructiveWrite) (kinds list_eqb sched (init (repaired_pool name) (built ws))) /\
      (forall k, c_store (exec sched (init (repaired_pool name) (built ws))) k = built ws k).
Proof. exact rebuild_repaired. Qed.
Print Assumptions C20_rebuild_repaired.

(* non-vacuity: two threads that memoise the same converted statistic (key 7, value 42, computed
   from immutable key 1 when absent) and a third that only reads; interleaved schedule: all finish
   with their solo results, the store ends as base + the memo entry *)
Definition nv_memo (k : N) : option N := if N.eqb k 7 then Some 42%N else None.
Definition nv_base : store N := fun k => if N.eqb k 1 then Some 41%N else None.
Definition nv_filter : prog N N :=
  Get 7%N (fun o => match o with
                    | Some v => Ret v
                    | None => Get 1%N (fun b => match b with
                                                | Some x => Put 7%N (N.succ x) (Get 7%N (fun o' => match o' with Some v => Ret v | None => Ret 0%N end))
                                                | None => Ret 0%N
                                                end)
                    end).
Definition nv_pool : pool N N := fun i => match i with 0 | 1 => nv_filter | _ => Get 1%N (fun b => Ret (match b with Some x => x | None => 0%N end)) end.

(* the premise of C20_memo_confluence_partial holds for these threads *)
Example C20_nonvacuous_premise :
  forall i, ok nv_memo nv_base nothing (nv_pool i) (match i with 0 | 1 => 42%N | _ => 41%N end).
Proof.
  assert (ok nv_memo nv_base nothing nv_filter 42%N) as H.
  { eapply ok_get_memo; [reflexivity| |constructor].
    eapply ok_get_imm; [reflexivity|]. cbn.
    eapply ok_put; [reflexivity|]. eapply ok_get_known; [reflexivity|reflexivity|constructor]. }
  intros [|[|i]]; [exact H|exact H|]. eapply ok_get_imm; [reflexivity|constructor].
Qed.

Example C20_nonvacuous :
  let c := exec [0; 1; 0; 2; 1; 0; 1; 1; 0; 2] (init nv_pool nv_base) in
  result c 0 = Some 42%N /\ result c 1 = Some 42%N /\ result c 2 = Some 41%N /\
  fst (solo (nv_pool 0) nv_base) = 42%N /\ c_store c 7%N = Some 42%N /\
  c_log c = [(1, 7%N); (0, 7%N)] /\
  kinds N.eqb [0; 1; 0; 1; 0; 1] (init nv_pool nv_base) = [KRead; KRead; KRead; KRead; KMemoWrite; KMemoWrite] /\
  trace_ok [[(1, 5)]; [(1, 5); (2, 6)]; [(2, 6); (1, 5); (3, 7)]]%N = true /\
  trace_ok [[(1, 5); (2, 6)]; [(1, 5)]; [(1, 5); (2, 6)]]%N = false /\
  tree_writes [(0, 2); (1, 1); (2, 0); (3, 0)]%N = Some [(0, []); (0, [1%N]); (1, []); (1, [2%N]); (0, [1%N; 3%N])] /\
  (* two filter threads over statistics 10 (from raw 1) and 11 (from raw 2), a third over 11 only: interleaved *)
  (let ff := fun (_ : N) (vals : list (option N)) => match vals with [Some x] => N.succ x | _ => 0%N end in
   let st := fun (vs : list N) => match vs with v :: _ => if N.eqb v 42%N then Some 1000%N else None | [] => None end in
   let fi := fun (vs : list N) => fold_left N.add vs 0%N in
   let ls := fun i : nat => match i with 2%nat => [(11%N, [2%N])] | _ => [(10%N, [1%N]); (11%N, [2%N])] end in
   let b := fun k : N => if N.eqb k 1%N then Some 5%N else if N.eqb k 2%N then Some 8%N else None in
   let c := exec [0; 1; 2; 0; 0; 1; 2; 2; 1; 0; 0; 1; 1; 2; 2; 0; 0; 0; 1; 1; 1; 0; 1; 0; 1] (init (fun j => memo_seq ff st fi 999%N (ls j) []) b) in
   result c 0 = Some 15%N /\ result c 1 = Some 15%N /\ result c 2 = Some 9%N /\
   pure_seq ff st fi b (ls 0) [] = 15%N /\ c_store c 10%N = Some 6%N /\ c_store c 11%N = Some 9%N) /\
  (exists ks, built [(0, []); (0, [1%N]); (0, [1%N; 3%N])] 0%N = Some ks /\ existsb (N.eqb 3%N) ks = true).
Proof. vm_compute. repeat split; try reflexivity. eexists; split; reflexivity. Qed.
