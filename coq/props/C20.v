(* C20 — concurrent reads and derived handles give the same results as sequential use.
   Only statements here; models in theories/Conc/Interleave.v, proofs in theories/Proofs/InterleaveProofs.v.

   Full statement of the property: for ALL interleavings of 2..16 threads issuing read-only
   operations on a shared handle each thread obtains the result it obtains alone and no call fails
   because of another; part-file writers produce the bytes they produce one after another.

   What is proved (level: partial): the statement inside the interleaving model, whose atomic
   actions are single dict/attribute reads and writes, for ANY number of threads and EVERY schedule,
   for every family of threads that satisfies the per-operation footprint premise [ok] (memo
   discipline) resp. [respects] (ownership discipline).  That today's operations satisfy the premise
   is the tie (line-granular footprint monitor, harness/props/C20.py); preemption inside one source
   line and inside C extensions is below the model.                                              *)
From Coq Require Import NArith Arith List Bool.
From Pq Require Import Conc.Interleave Proofs.InterleaveProofs.
Import ListNotations.

(* every schedule: results = solo results, no destructive write is ever executed, the final store is
   the initial store plus the union of the memo entries written by the threads *)
Theorem C20_memo_confluence_partial :
  forall (V R : Type) (memo : N -> option V) (base : store V)
         (ps : pool V R) (rs : nat -> R) (s0 : store V),
    (forall i, ok memo base nothing (ps i) (rs i)) -> consistent memo base s0 ->
  forall (veqb : V -> V -> bool), (forall a, veqb a a = true) ->
  forall sched : list nat,
    let c := exec sched (init ps s0) in
    (forall i r, result c i = Some r -> r = fst (solo (ps i) s0)) /\
    Forall (fun k => k <> KDestructiveWrite) (kinds veqb sched (init ps s0)) /\
    (forall k, c_store c k = union_store memo s0 (c_log c) k) /\
    consistent memo base (c_store c).
Proof. exact memo_confluence. Qed.
Print Assumptions C20_memo_confluence_partial.

(* ... and no thread is ever blocked or diverted: a schedule that gives a thread as many turns as
   its longest path finishes it (so the previous theorem is about results that exist) *)
Theorem C20_every_fair_schedule_finishes :
  forall (V R : Type) (sched : list nat) (c : config V R) (i n : nat),
    bounded (c_pool c i) n -> n <= count_occ Nat.eq_dec sched i ->
    exists r, result (exec sched c) i = Some r.
Proof. exact bounded_finishes. Qed.
Print Assumptions C20_every_fair_schedule_finishes.

(* part-file writers: threads that write only what they own (their part file, their row group) and
   read only that and the shared schema / metadata template perform no shared write at all, and for
   every schedule produce the result and the file content of the sequential run *)
Theorem C20_part_writer :
  forall (V R : Type) (own : N -> option nat) (ps : pool V R) (s0 : store V),
    (forall i, respects own i (ps i)) ->
  forall sched : list nat,
    let c := exec sched (init ps s0) in
    (forall k, own k = None -> c_store c k = s0 k) /\
    Forall (fun e => own (snd e) = Some (fst e)) (c_log c) /\
    (forall i r, result c i = Some r ->
       r = fst (solo (ps i) s0) /\ forall k, own k = Some i -> c_store c k = snd (solo (ps i) s0) k).
Proof. exact part_writer. Qed.
Print Assumptions C20_part_writer.

(* the pinned tree: a derived handle re-runs schema_tree on the SHARED schema elements
   (root["children"] = OrderedDict(), then refilled).  Explicit schedule - slicer performs its first
   write, then the reader looks column 2 up - the reader gets KeyError (result 1) although alone it
   finds the column (result 0); the executed write is a destructive one.  Repaired by a fix: commit
   (derived handles reuse the parent's helper), after which the slicer performs no write at all. *)
Theorem C20_rebuild_refuted :
  exists ws, tree_writes (flat_schema 3) = Some ws /\
  exists sched,
    result (exec sched (init (rebuild_pool ws 2%N) (built ws))) 1 = Some 1%N /\
    fst (solo (rebuild_pool ws 2%N 1) (built ws)) = 0%N /\
    In KDestructiveWrite (kinds list_eqb sched (init (rebuild_pool ws 2%N) (built ws))).
Proof. exact rebuild_refuted_3. Qed.
Print Assumptions C20_rebuild_refuted.

(* the checker run on the footprint traces of the real operations is sound: acceptance means that
   inside every trace the fingerprinted state only grows (every transition is a memo add) and that
   one table holds every value ever seen under a key (the value is a function of the key) *)
Theorem C20_trace_checker_sound : forall (trs : list (list snapshot)) t,
  forallb trace_ok trs = true -> merge [] (concat trs) = Some t ->
  (forall tr, In tr trs -> forall m n a b, m <= n -> nth_error tr m = Some a -> nth_error tr n = Some b ->
     forall k v, lookup k a = Some v -> lookup k b = Some v) /\
  (forall tr s, In tr trs -> In s tr -> forall k v, lookup k s = Some v -> lookup k t = Some v).
Proof. exact traces_accepted_sound. Qed.
Print Assumptions C20_trace_checker_sound.

(* ... and it is the right thing to check: the stores a memo-disciplined thread passes through when
   run alone grow monotonically and stay inside the memo table, so a rejected trace refutes [ok] *)
Theorem C20_disciplined_traces_grow :
  forall (R : Type) (memo : N -> option N) (base : store N) (p : prog N R) kn r s,
    ok memo base kn p r -> consistent memo base s -> knows memo kn s ->
    forall s', In s' (solo_trace R p s) -> grows s s' /\ consistent memo base s'.
Proof. exact ok_solo_trace_grows. Qed.
Print Assumptions C20_disciplined_traces_grow.

(* the memoising operations of api.py (filter_out_stats' converted_min/max, statistics, key_value_metadata,
   pandas_metadata, categories: look up, compute from immutable data when absent, store, read back) obey
   the discipline, for ANY number of memoised values consulted, with early exit *)
Theorem C20_memo_ops_disciplined :
  forall (V R : Type) (memo : N -> option V) (base : store V)
         (f : N -> list (option V) -> V) (stop : list V -> option R) (fin : list V -> R) (err : R)
         (l : list (N * list N)),
    table_ok V memo base f l ->
    forall acc kn, ok memo base kn (memo_seq f stop fin err l acc) (pure_seq f stop fin base l acc).
Proof. exact ok_memo_seq. Qed.
Print Assumptions C20_memo_ops_disciplined.

(* ... hence any number of threads, each filtering on its own columns / row groups of the shared handle,
   obtain under EVERY schedule the pure function of the immutable statistics *)
Theorem C20_memo_ops_confluent :
  forall (V R : Type) (memo : N -> option V) (base : store V)
         (f : N -> list (option V) -> V) (stop : list V -> option R) (fin : list V -> R) (err : R)
         (ls : nat -> list (N * list N)) (s0 : store V),
    (forall i, table_ok V memo base f (ls i)) -> consistent memo base s0 ->
    forall sched i r,
      result (exec sched (init (fun j => memo_seq f stop fin err (ls j) []) s0)) i = Some r ->
      r = pure_seq f stop fin base (ls i) [].
Proof. exact memo_ops_confluent. Qed.
Print Assumptions C20_memo_ops_confluent.

(* the repaired code (fix 6a5872c: a derived handle takes the parent's helper, _set_attrs(helper) only reads
   the shared tree): for EVERY schema-tree write log, every column of the root and EVERY schedule of one
   deriving thread and any number of readers, every lookup succeeds, nothing is written *)
Theorem C20_rebuild_repaired :
  forall (ws : wlog) (ks : list N) (name : N),
    built ws 0%N = Some ks -> existsb (N.eqb name) ks = true ->
    forall sched,
      (forall i r, result (exec sched (init (repaired_pool name) (built ws))) i = Some r -> r = 0%N) /\
      Forall (fun k => k <> KDestructiveWrite) (kinds list_eqb sched (init (repaired_pool name) (built ws))) /\
      (forall k, c_store (exec sched (init (repaired_pool name) (built ws))) k = built ws k).
Proof. exact rebuild_repaired. Qed.
Print Assumptions C20_rebuild_repaired.

(* non-vacuity: two threads that memoise the same converted statistic (key 7, value 42, computed
   from immutable key 1 when absent) and a third that only reads; interleaved schedule: all finish
   with their solo results, the store ends as base + the memo entry *)
Definition nv_memo (k : N) : option N := if N.eqb k 7 then Some 42%N else None.
Definition nv_base : store N := fun k => if N.eqb k 1 then Some 41%N else None.
Definition nv_filter : prog N N :=
  Get 7%N (fun o => match o with
                    | Some v => Ret v
                    | None => Get 1%N (fun b => match b with
                                                | Some x => Put 7%N (N.succ x) (Get 7%N (fun o' => match o' with Some v => Ret v | None => Ret 0%N end))
                                                | None => Ret 0%N
                                                end)
                    end).
Definition nv_pool : pool N N := fun i => match i with 0 | 1 => nv_filter | _ => Get 1%N (fun b => Ret (match b with Some x => x | None => 0%N end)) end.

(* the premise of C20_memo_confluence_partial holds for these threads *)
Example C20_nonvacuous_premise :
  forall i, ok nv_memo nv_base nothing (nv_pool i) (match i with 0 | 1 => 42%N | _ => 41%N end).
Proof.
  assert (ok nv_memo nv_base nothing nv_filter 42%N) as H.
  { eapply ok_get_memo; [reflexivity| |constructor].
    eapply ok_get_imm; [reflexivity|]. cbn.
    eapply ok_put; [reflexivity|]. eapply ok_get_known; [reflexivity|reflexivity|constructor]. }
  intros [|[|i]]; [exact H|exact H|]. eapply ok_get_imm; [reflexivity|constructor].
Qed.

Example C20_nonvacuous :
  let c := exec [0; 1; 0; 2; 1; 0; 1; 1; 0; 2] (init nv_pool nv_base) in
  result c 0 = Some 42%N /\ result c 1 = Some 42%N /\ result c 2 = Some 41%N /\
  fst (solo (nv_pool 0) nv_base) = 42%N /\ c_store c 7%N = Some 42%N /\
  c_log c = [(1, 7%N); (0, 7%N)] /\
  kinds N.eqb [0; 1; 0; 1; 0; 1] (init nv_pool nv_base) = [KRead; KRead; KRead; KRead; KMemoWrite; KMemoWrite] /\
  trace_ok [[(1, 5)]; [(1, 5); (2, 6)]; [(2, 6); (1, 5); (3, 7)]]%N = true /\
  trace_ok [[(1, 5); (2, 6)]; [(1, 5)]; [(1, 5); (2, 6)]]%N = false /\
  tree_writes [(0, 2); (1, 1); (2, 0); (3, 0)]%N = Some [(0, []); (0, [1%N]); (1, []); (1, [2%N]); (0, [1%N; 3%N])] /\
  (* two filter threads over statistics 10 (from raw 1) and 11 (from raw 2), a third over 11 only: interleaved *)
  (let ff := fun (_ : N) (vals : list (option N)) => match vals with [Some x] => N.succ x | _ => 0%N end in
   let st := fun (vs : list N) => match vs with v :: _ => if N.eqb v 42%N then Some 1000%N else None | [] => None end in
   let fi := fun (vs : list N) => fold_left N.add vs 0%N in
   let ls := fun i : nat => match i with 2%nat => [(11%N, [2%N])] | _ => [(10%N, [1%N]); (11%N, [2%N])] end in
   let b := fun k : N => if N.eqb k 1%N then Some 5%N else if N.eqb k 2%N then Some 8%N else None in
   let c := exec [0; 1; 2; 0; 0; 1; 2; 2; 1; 0; 0; 1; 1; 2; 2; 0; 0; 0; 1; 1; 1; 0; 1; 0; 1] (init (fun j => memo_seq ff st fi 999%N (ls j) []) b) in
   result c 0 = Some 15%N /\ result c 1 = Some 15%N /\ result c 2 = Some 9%N /\
   pure_seq ff st fi b (ls 0) [] = 15%N /\ c_store c 10%N = Some 6%N /\ c_store c 11%N = Some 9%N) /\
  (exists ks, built [(0, []); (0, [1%N]); (0, [1%N; 3%N])] 0%N = Some ks /\ existsb (N.eqb 3%N) ks = true).
Proof. vm_compute. repeat split; try reflexivity. eexists; split; reflexivity. Qed.

(* ============================================================================================ *)
(* wave 3: ANY set of shared locations, write patterns, the remaining operations                *)
(* ============================================================================================ *)
From Coq Require Import String.
From Pq Require Import Conc.Footprint Proofs.FootprintProofs.

(* The general footprint theorem.  Every shared location is classified Frozen (never written after publication),
   Idem v (written idempotently, always with the same value v) or Priv i (owned by thread i); the classification
   is ARBITRARY (the run-time monitor instantiates it with the regenerated inventory of module-level objects,
   default arguments, class attributes, attributes of shared thrift objects ...).  For any number of threads that
   obey it ([okp]) and EVERY schedule: each finished thread holds its solo result and has left in its own
   locations what it leaves there alone (part files = sequential bytes); Frozen locations never change; Idem
   locations hold nothing or their one value; every logged write is an Idem write or a write of the owner.
   C20_memo_confluence_partial (no Priv locations) and C20_part_writer (no Idem locations) are instances. *)
Theorem C20_footprint_confluence :
  forall (V R : Type) (cls : N -> lclass V) (base : store V)
         (ps : pool V R) (rs : nat -> R) (pfs : nat -> store V) (s0 : store V),
    (forall i, okp cls base i s0 nothing (ps i) (rs i) (pfs i)) -> consistentc cls base s0 ->
  forall sched : list nat,
    let c := exec sched (init ps s0) in
    (forall i r, result c i = Some r ->
       r = fst (solo (ps i) s0) /\ forall k, cls k = Priv i -> c_store c k = snd (solo (ps i) s0) k) /\
    (forall k, cls k = Frozen -> c_store c k = s0 k) /\
    consistentc cls base (c_store c) /\
    Forall (log_legal cls) (c_log c).
Proof. exact footprint_confluence. Qed.
Print Assumptions C20_footprint_confluence.

(* the memo discipline is the instance without Priv locations *)
Theorem C20_memo_discipline_is_instance :
  forall (V R : Type) (cls : N -> lclass V) (base : store V) i pv kn (p : prog V R) r,
    (forall k, memo_of cls k = None -> cls k = Frozen) ->
    ok (memo_of cls) base kn p r -> okp cls base i pv kn p r pv.
Proof. exact ok_okp. Qed.
Print Assumptions C20_memo_discipline_is_instance.

(* the decidable footprint condition evaluated (extracted) on the write events the monitor observed for every
   location of the regenerated inventory: acceptance = ONE table exists under which every observed write is a
   memo write (absent -> the table value, or the table value again) and no write sits at a site of a refuted
   pattern; conversely every memo write passes the per-event test (a rejected log refutes the premise) *)
Theorem C20_footprint_check_sound : forall evs, footprint_ok evs = true ->
  exists memo : N -> option N, forall e, In e evs -> ev_legal memo e /\ pat_refuted (e_pat e) = false.
Proof. exact footprint_ok_sound. Qed.
Print Assumptions C20_footprint_check_sound.

Theorem C20_footprint_check_necessary : forall memo e,
  ev_legal memo e -> pat_refuted (e_pat e) = false -> ev_ok e = true.
Proof. exact legal_ev_ok. Qed.
Print Assumptions C20_footprint_check_necessary.

(* ---- write patterns (finer step relation: one Get / Put per load / store of the pattern) ---- *)
(* confluent: check-then-act without read-back, unconditional store of the one value, non-publishing peek
   (with read-back: C20_memo_ops_disciplined) *)
Theorem C20_check_then_act_confluent :
  forall (V R : Type) (memo : N -> option V) (base : store V) k ks g (cont : V -> prog V R) kn r,
    memo k = Some (g (map base ks)) -> frozen V memo ks ->
    (forall kn', ok memo base kn' (cont (g (map base ks))) r) -> ok memo base kn (cta_noreadback k ks g cont) r.
Proof. exact ok_cta_noreadback. Qed.
Print Assumptions C20_check_then_act_confluent.

Theorem C20_idem_store_confluent :
  forall (V R : Type) (memo : N -> option V) (base : store V) k ks g (cont : V -> prog V R) kn r,
    memo k = Some (g (map base ks)) -> frozen V memo ks ->
    (forall kn', ok memo base kn' (cont (g (map base ks))) r) -> ok memo base kn (idem_store k ks g cont) r.
Proof. exact ok_idem_store. Qed.
Print Assumptions C20_idem_store_confluent.

Theorem C20_peek_confluent :
  forall (V R : Type) (memo : N -> option V) (base : store V) k ks g (cont : V -> prog V R) kn r,
    memo k = Some (g (map base ks)) -> frozen V memo ks ->
    (forall kn', ok memo base kn' (cont (g (map base ks))) r) -> ok memo base kn (peek k ks g cont) r.
Proof. exact ok_peek. Qed.
Print Assumptions C20_peek_confluent.

(* refuted: read-modify-write / augmented assignment, for EVERY g that is not idempotent at the initial value *)
Theorem C20_rmw_refuted : forall (V : Type) (g : option V -> V) (s0 : store V) (k : N),
  g (Some (g (s0 k))) <> g (s0 k) ->
  let p : prog V (option V) := rmw k g (fun o => Ret o) in
  exists sched r, result (exec sched (init (fun _ => p) s0)) 1 = Some r /\ r <> fst (solo p s0).
Proof. exact rmw_refuted. Qed.
Print Assumptions C20_rmw_refuted.

Theorem C20_rmw_lost_update_refuted :
  let p : prog N (option N) := rmw 5%N bump (fun o => Ret o) in
  c_store (exec [0; 1; 0; 1; 0; 1] (init (two p p) empty)) 5%N = Some 1%N /\
  c_store (exec [0; 0; 0; 1; 1; 1] (init (two p p) empty)) 5%N = Some 2%N /\
  kinds N.eqb [0; 1; 0; 1] (init (two p p) empty) = [KRead; KRead; KMemoWrite; KMemoWrite] /\
  In KDestructiveWrite (kinds N.eqb [0; 0; 0; 1; 1] (init (two p p) empty)).
Proof. exact rmw_lost_update. Qed.
Print Assumptions C20_rmw_lost_update_refuted.

Theorem C20_set_restore_refuted :
  let s0 : store N := upd empty 5%N 10%N in
  let a : prog N (option N) := set_restore 5%N 99%N 0%N (fun cur => Ret cur) in
  let b : prog N (option N) := set_restore 5%N 77%N 0%N (fun cur => Ret cur) in
  result (exec [0; 0; 1] (init (two a (rd 5%N)) s0)) 1 = Some (Some 99%N) /\
  fst (solo (rd 5%N) s0) = Some 10%N /\
  In KDestructiveWrite (kinds N.eqb [0; 0] (init (two a (rd 5%N)) s0)) /\
  c_store (exec [0; 0; 1; 1; 0; 0; 1; 1] (init (two a b) s0)) 5%N = Some 99%N /\
  result (exec [0; 0; 1; 1; 0; 0; 1; 1] (init (two a b) s0)) 0 = Some (Some 77%N) /\
  fst (solo a s0) = Some 99%N.
Proof. exact set_restore_refuted. Qed.
Print Assumptions C20_set_restore_refuted.

Theorem C20_publish_update_refuted :
  let p : prog N N := publish_update 7%N 1000%N 42%N (fun v => Ret v) in
  result (exec [0; 0; 1] (init (two p p) empty)) 1 = Some 1000%N /\
  fst (solo p empty) = 42%N /\
  In KDestructiveWrite (kinds N.eqb [0; 0; 0] (init (two p p) empty)).
Proof. exact publish_update_refuted. Qed.
Print Assumptions C20_publish_update_refuted.

Theorem C20_scratch_refuted :
  let a : prog N (option N) := scratch 3%N 11%N (fun o => Ret o) in
  let b : prog N (option N) := scratch 3%N 22%N (fun o => Ret o) in
  result (exec [0; 1; 0] (init (two a b) empty)) 0 = Some (Some 22%N) /\
  fst (solo a empty) = Some 11%N /\
  In KDestructiveWrite (kinds N.eqb [0; 1] (init (two a b) empty)).
Proof. exact scratch_refuted. Qed.
Print Assumptions C20_scratch_refuted.

(* ---- the remaining operations of the property text ---- *)
(* statistics, count, filtered / column reads, head and slices (derived handle + read), iteration over row groups,
   pickling (the copy carries a memo when it is there and recomputes otherwise): each is disciplined and denotes a
   pure function of the immutable data ... *)
Theorem C20_api_ops_disciplined :
  forall (V R : Type) (memo : N -> option V) (base : store V) (f : N -> list (option V) -> V) (err : R)
         (o : opdesc V R) kn,
    op_wf V R memo base f o -> ok memo base kn (prog_of V R f err o) (pure_of V R base f o).
Proof. exact ok_prog_of. Qed.
Print Assumptions C20_api_ops_disciplined.

(* ... hence any number of threads issuing ANY mix of them on the shared handle obtain, under EVERY schedule, that
   pure function (= what each obtains alone) *)
Theorem C20_api_ops_confluent :
  forall (V R : Type) (memo : N -> option V) (base : store V) (f : N -> list (option V) -> V) (err : R)
         (ops : nat -> opdesc V R) (s0 : store V),
    (forall i, op_wf V R memo base f (ops i)) -> consistent memo base s0 ->
    forall sched i r,
      result (exec sched (init (fun j => prog_of V R f err (ops j)) s0)) i = Some r -> r = pure_of V R base f (ops i).
Proof. exact api_ops_confluent. Qed.
Print Assumptions C20_api_ops_confluent.

(* non-vacuity of the general theorem: key 1 frozen (schema), key 7 Idem 42 (a memo), keys 20/21 private to threads
   0/1 (their part files); both threads memoise 7 and write their own key from it; interleaved *)
Definition nv_cls (k : N) : lclass N :=
  if N.eqb k 1 then Frozen else if N.eqb k 7 then Idem 42%N else if N.eqb k 20 then Priv 0 else if N.eqb k 21 then Priv 1 else Frozen.
Definition nv_writer (mine : N) : prog N N :=
  Get 7%N (fun o => match o with
                    | Some v => Put mine v (Get mine (fun x => Ret (match x with Some y => y | None => 0%N end)))
                    | None => Get 1%N (fun b => Put 7%N (N.succ (match b with Some x => x | None => 0%N end))
                                (Put mine 42%N (Get mine (fun x => Ret (match x with Some y => y | None => 0%N end)))))
                    end).
Definition nv_pool2 : pool N N := fun i => match i with 0 => nv_writer 20%N | _ => nv_writer 21%N end.

Example C20_nonvacuous_footprint_premise :
  okp nv_cls nv_base 0 nv_base nothing (nv_pool2 0) 42%N (upd nv_base 20%N 42%N) /\
  okp nv_cls nv_base 1 nv_base nothing (nv_pool2 1) 42%N (upd nv_base 21%N 42%N).
Proof.
  split.
  - eapply p_get_idem; [reflexivity| |].
    + eapply p_get_frozen; [reflexivity|]. cbn. eapply p_put_idem; [reflexivity|].
      eapply p_put_priv; [reflexivity|]. eapply p_get_priv; [reflexivity|]. cbn. constructor.
    + eapply p_put_priv; [reflexivity|]. eapply p_get_priv; [reflexivity|]. cbn. constructor.
  - eapply p_get_idem; [reflexivity| |].
    + eapply p_get_frozen; [reflexivity|]. cbn. eapply p_put_idem; [reflexivity|].
      eapply p_put_priv; [reflexivity|]. eapply p_get_priv; [reflexivity|]. cbn. constructor.
    + eapply p_put_priv; [reflexivity|]. eapply p_get_priv; [reflexivity|]. cbn. constructor.
Qed.

Example C20_nonvacuous_footprint :
  let c := exec [0; 1; 0; 1; 0; 1; 1; 0; 0; 1; 1; 0] (init nv_pool2 nv_base) in
  result c 0 = Some 42%N /\ result c 1 = Some 42%N /\ c_store c 20%N = Some 42%N /\ c_store c 21%N = Some 42%N /\
  c_store c 7%N = Some 42%N /\ c_store c 1%N = Some 41%N /\
  footprint_ok [mkEv 7 None (Some 42%N) PCheckThenAct; mkEv 7 (Some 42%N) (Some 42%N) PPlain; mkEv 9 None (Some 1%N) PPlain] = true /\
  footprint_ok [mkEv 7 None (Some 1000%N) PCheckThenAct; mkEv 7 (Some 1000%N) (Some 42%N) PCheckThenAct] = false /\
  footprint_ok [mkEv 7 None (Some 42%N) PAugmented] = false /\
  footprint_ok [mkEv 7 None (Some 42%N) PPlain; mkEv 7 None (Some 43%N) PPlain] = false /\
  site_static_ok (mkSite 0 "writer.py"%string 10 10 PMutCall BGlobal false) = false /\
  site_static_ok (mkSite 0 "util.py"%string 10 10 PCheckThenAct BGlobal false) = true /\
  site_static_ok (mkSite 0 "writer.py"%string 10 10 PMutCall BGlobal true) = true.
Proof. vm_compute. repeat split; reflexivity. Qed.

(* ============================================================================================ *)
(* deletion of a location (lifted value space: None = tombstone; Footprint.v section 6) and the class Multi *)
(* ============================================================================================ *)
(* C20_footprint_confluence above now also covers the class Multi P (a location that may hold nothing or any value
   satisfying P at any time, written by anybody with such values, every reader coping with every answer). *)

(* invalidation (Del) is a legal action on a cache location, and the no-read-back use copes with it *)
Theorem C20_del_cache_disciplined :
  forall (W R : Type) (cls : N -> lclass (option W)) (base : store (option W)) i k ks g (cont : W -> prog (option W) R) pv kn r pf,
    cls k = Multi (cacheP (g (map base ks))) -> (forall x, In x ks -> cls x = Frozen) ->
    (forall kn', okp cls base i pv kn' (cont (g (map base ks))) r pf) ->
    okp cls base i pv kn (use_cache k ks g cont) r pf /\
    (forall p, okp cls base i pv kn p r pf -> okp cls base i pv kn (Del k p) r pf).
Proof.
  intros W R cls base i k ks g cont pv kn r pf M Fz Hc. split.
  - exact (okp_use_cache W R cls base i k ks g cont pv kn r pf M Fz Hc).
  - intros p Hp. exact (okp_del_cache W R cls base i k _ p pv kn r pf M Hp).
Qed.
Print Assumptions C20_del_cache_disciplined.

(* any number of invalidators and no-read-back users of one cache, EVERY schedule: users obtain the one value *)
Theorem C20_del_invalidate_confluent :
  forall (W R : Type) (cls : N -> lclass (option W)) (base : store (option W))
         (k : N) (ks : list N) (g : list (option (option W)) -> W) (out : W -> R) (r0 : R)
         (is_user : nat -> bool) (s0 : store (option W)),
    cls k = Multi (cacheP (g (map base ks))) -> (forall x, In x ks -> cls x = Frozen) ->
    consistentc cls base s0 ->
    let ps : pool (option W) R := fun i => if is_user i then use_cache k ks g (fun w => Ret (out w)) else Del k (Ret r0) in
    forall sched i r, result (exec sched (init ps s0)) i = Some r ->
      r = (if is_user i then out (g (map base ks)) else r0).
Proof. exact del_invalidate_confluent. Qed.
Print Assumptions C20_del_invalidate_confluent.

(* deleting a location that is only ever deleted is an idempotent write (the tombstone is its one value) *)
Theorem C20_del_only_confluent :
  forall (W R : Type) (cls : N -> lclass (option W)) (base : store (option W)) i k (p : prog (option W) R) pv kn r pf,
    cls k = Idem None -> okp cls base i pv (addk k kn) p r pf -> okp cls base i pv kn (Del k p) r pf.
Proof. exact okp_del_only. Qed.
Print Assumptions C20_del_only_confluent.

(* refuted: hasattr-then-getitem against an invalidator (seeded C20-6): KeyError; the no-read-back use under the same
   schedule is fine; the deletion is a destructive write *)
Theorem C20_del_readback_refuted :
  let s0 : store (option N) := upd (fun _ => None) 7%N (Some 42%N) in
  let reader : prog (option N) N := use_cache_readback 7%N [] (fun _ => 42%N) 999%N (fun w => Ret w) in
  let deleter : prog (option N) N := Del 7%N (Ret 0%N) in
  result (exec [0; 1; 0] (init (fun i => match i with 0 => reader | _ => deleter end) s0)) 0 = Some 999%N /\
  fst (solo reader s0) = 42%N /\
  result (exec [0; 1; 0] (init (fun i => match i with 0 => use_cache 7%N [] (fun _ => 42%N) (fun w => Ret w) | _ => deleter end) s0)) 0
    = Some 42%N /\
  In KDestructiveWrite (kinds (fun a b : option N => match a, b with Some x, Some y => N.eqb x y | None, None => true | _, _ => false end)
                              [0; 1] (init (fun i => match i with 0 => reader | _ => deleter end) s0)).
Proof. exact del_readback_refuted. Qed.
Print Assumptions C20_del_readback_refuted.

(* the monitor's view: a removal is classified ERemove, never accepted for a non-volatile location; relative to a set of
   volatile (Multi) locations the check is sound for all others *)
Theorem C20_removal_classified : forall e a, e_old e = Some a -> e_new e = None -> ev_kind e = ERemove /\ ev_ok e = false.
Proof. intros e a H1 H2. split; [exact (removal_kind e a H1 H2)|exact (removal_rejected e H2)]. Qed.
Print Assumptions C20_removal_classified.

Theorem C20_footprint_check_vol_sound : forall vol evs, footprint_ok_vol vol evs = true ->
  exists memo : N -> option N, forall e, In e evs -> vol (e_key e) = false -> ev_legal memo e /\ pat_refuted (e_pat e) = false.
Proof. exact footprint_ok_vol_sound. Qed.
Print Assumptions C20_footprint_check_vol_sound.

(* ============================================================================================ *)
(* the READ side, over a table "operation -> slots read / slots written" (regenerated by translators/opreads.py;   *)
(* instantiated on the regenerated table in genproofs/GenOpReadsProofs.v on every run)                             *)
(* ============================================================================================ *)
From Pq Require Import Conc.OpTable Proofs.OpTableProofs.

(* for ANY table in which no operation reads a slot that some operation writes non-idempotently, every operation - as the
   program its row denotes - is disciplined under the classification the whole table induces (never written: Frozen;
   written idempotently: Idem; written non-idempotently: Multi), with a pure function of the frozen slots as result *)
Theorem C20_table_ops_disciplined :
  forall (V R : Type) (f : N -> list (option V) -> V) (jv : N -> V) (err : R) (out : list (option V) -> R) (base : store V)
         (tbl : list oprow) (i : nat) (r : oprow) pv kn,
    table_disciplined tbl = true -> In r tbl ->
    okp (cls_tbl V f base tbl) base i pv kn (row_prog V R f jv err out tbl r) (row_pure V R f out base tbl r) pv.
Proof. exact row_prog_disciplined. Qed.
Print Assumptions C20_table_ops_disciplined.

Theorem C20_table_ops_confluent :
  forall (V R : Type) (f : N -> list (option V) -> V) (jv : N -> V) (err : R) (out : list (option V) -> R) (base : store V)
         (tbl : list oprow) (rows : nat -> oprow) (s0 : store V),
    table_disciplined tbl = true -> (forall i, In (rows i) tbl) -> consistentc (cls_tbl V f base tbl) base s0 ->
    forall sched i r,
      result (exec sched (init (fun j => row_prog V R f jv err out tbl (rows j)) s0)) i = Some r ->
      r = row_pure V R f out base tbl (rows i).
Proof. exact table_ops_confluent. Qed.
Print Assumptions C20_table_ops_confluent.

(* non-vacuity: a two-row table (reader of slots 0 and 1; memoiser of slot 1 that also bumps a counter slot 2 nobody reads)
   is disciplined; the same table with a row reading the counter is not *)
Example C20_nonvacuous_table :
  table_disciplined [mkRow "read" [0; 1]%N []; mkRow "memo" [0; 1]%N [(1%N, PCheckThenAct); (2%N, PAugmented)]] = true /\
  table_disciplined [mkRow "read" [0; 2]%N []; mkRow "memo" [0; 1]%N [(1%N, PCheckThenAct); (2%N, PAugmented)]] = false.
Proof. vm_compute. split; reflexivity. Qed.

(* a keyed memo whose value is not a function of its key (seeded C13-7: bounds cached under a key that does not name the file;
   C15-8: id() in the key; C05-7: repr() in the key) is not an idempotent publication although every single store is a
   publication of an absent key: the second thread uses the first one's value.  The static clause
   inv_memo_keys_determine_values (genproofs/GenSharedInvAdvisory.v) is the regenerated premise that excludes it. *)
Theorem C20_key_not_determining_refuted :
  let user (x : N) : prog N N := cta_noreadback 7%N [] (fun _ => (100 + x)%N) (fun v => Ret v) in
  result (exec [1; 1; 0] (init (two (user 1%N) (user 2%N)) empty)) 0 = Some 102%N /\
  fst (solo (user 1%N) empty) = 101%N /\
  kinds N.eqb [1; 1; 0] (init (two (user 1%N) (user 2%N)) empty) = [KRead; KMemoWrite; KRead].
Proof. exact key_not_determining_refuted. Qed.
Print Assumptions C20_key_not_determining_refuted.

(* ============================================================================================ *)
(* iteration over the key set of a shared container (deepcopy / pickling in Python / dict() / json walk dicts)   *)
(* ============================================================================================ *)
(* an iteration over a container nobody publishes NEW keys into is disciplined (it always goes through) ... *)
Theorem C20_iter_frozen_keys_confluent :
  forall (V R : Type) (memo : N -> option V) (base : store V) ks (okv errv : R) kn,
    (forall x, In x ks -> memo x = None) -> ok memo base kn (iterate ks okv errv) okv.
Proof. exact ok_iterate_frozen. Qed.
Print Assumptions C20_iter_frozen_keys_confluent.

(* ... but the idempotent publication of a NEW key - confluent for every reader of the key - is NOT disciplined against an
   iterator of the container: first look, publication, second look: RuntimeError (seeded C20-10: deepcopy of the row groups
   in __getitem__ against the first filtered read memoising converted_min/max; the wave-3 fix 051eed4 removed the same race
   from copy.deepcopy(pf)).  No executed action is a destructive write; with the key pre-existing the schedule is harmless. *)
Theorem C20_iter_vs_new_key_refuted :
  let s0 : store N := upd empty 8%N 5%N in
  let it : prog N N := iterate [7; 8]%N 0%N 1%N in
  let pub : prog N N := cta_noreadback 7%N [] (fun _ => 42%N) (fun v => Ret v) in
  result (exec [0; 0; 1; 1; 0; 0] (init (two it pub) s0)) 0 = Some 1%N /\
  fst (solo it s0) = 0%N /\
  result (exec [0; 0; 1; 1; 0; 0] (init (two it pub) s0)) 1 = Some 42%N /\
  ~ In KDestructiveWrite (kinds N.eqb [0; 0; 1; 1; 0; 0] (init (two it pub) s0)) /\
  result (exec [0; 0; 1; 1; 0; 0] (init (two it (Put 7%N 42%N (Ret 42%N))) (upd s0 7%N 42%N))) 0 = Some 0%N.
Proof. exact iter_vs_new_key_refuted. Qed.
Print Assumptions C20_iter_vs_new_key_refuted.
