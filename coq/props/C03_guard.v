(* C03 - statements only (proofs: theories/Proofs/RGuardProofs.v).
   "created_by is just a string": the reader's shortcuts for files it wrote itself are taken only behind a layout check
   (core._is_one_bitpacked_run / _is_one_rle_run; models Impl/RSelf.v guard_idx / guard_def).  On ARBITRARY page bytes a
   passing check makes the shortcut return exactly what the general decoder returns; a failing check runs the general decoder. *)
From Coq Require Import String NArith ZArith List.
From Pq Require Import Base.Bytes Base.ListX Codec.Varint Codec.Hybrid Format.Phys Format.Meta Format.Page Impl.WLevels Impl.RPages Impl.RSelf
                       Impl.RCat Impl.RAlias Proofs.WChunkProofs Proofs.RGuardProofs Proofs.RAliasProofs.
Import ListNotations.
Open Scope N_scope.

(* dictionary indices of 8, 16 or 32 bits: one bit-packed run holding at least the page's values, present in full (as the format
   requires) - reading the bytes behind the run header as little-endian integers = the specification's hybrid decoder *)
Theorem C03_guard_idx_sound : forall k nval body hd inp,
  k_ok k -> 0 < nval -> uleb_dec body = Some (hd, inp) -> guard_idx nval body = true ->
  bytes_ok inp -> (hd / 2) * 8 * N.of_nat k <= lenN inp ->
  exists ix rest,
    hyb_dec false (8 * N.of_nat k) nval body = Some (ix, rest) /\
    rd_codes_raw (N.of_nat k) ((hd / 2) * 8) nval inp = ROk ix.
Proof. exact guard_idx_sound. Qed.
Print Assumptions C03_guard_idx_sound.

(* definition levels of a flat optional column: a passing check means stepping over the block with skip_definition_bytes
   (hand copy skip_hand; the copy regenerated from the source is proved equal in C01) = decoding it: no NULL, same rest *)
Theorem C03_guard_def_sound : forall n raw, 0 < n -> bytes_ok raw -> guard_def 1 n raw = true ->
  rd_def 1 n raw = ROk (None, 0, dropN (skip_hand n) raw).
Proof. exact guard_def_sound. Qed.
Print Assumptions C03_guard_def_sound.

(* PAGE level (v1): whatever `selfmade` says, the reader model returns the same for the page - on any bytes (hypothesis about
   the run only when the check passes: header decodable, at least one value, run present in full) *)
Theorem C03_selfmade_irrelevant_v1_partial : forall skip cd h raw n defi nn bw body,
  z2n "negative num_values"%string (d_nvals h) = ROk n ->
  rd_def_sm skip (cd_maxdef cd) n raw = ROk (defi, nn, bw :: body) ->
  (guard_idx (n - nn) body = true ->
     exists hd inp, uleb_dec body = Some (hd, inp) /\ 0 < n - nn /\ bytes_ok inp /\ (hd / 2) * 8 * (bw / 8) <= lenN inp) ->
  rd_data_page_sm true skip cd h raw = rd_data_page_sm false skip cd h raw.
Proof. exact rd_data_page_selfmade_irrelevant. Qed.
Print Assumptions C03_selfmade_irrelevant_v1_partial.

(* the checks hold on what the writer lays out (so its own files still take the shortcuts) *)
Theorem C03_guards_hold_on_writer_pages : forall n rest nval g x,
  n < 2 ^ 31 -> nval <= 8 * g ->
  guard_def 1 n (wr_defs_nonull_v1 n ++ rest) = true /\ guard_idx nval (uleb_enc (2 * g + 1) ++ x) = true.
Proof. exact guards_hold_on_writer. Qed.
Print Assumptions C03_guards_hold_on_writer_pages.

(* the v2 categorical fast path (read_data_page_v2 with use_cat; Impl/RCat.v cat_prefix / cat_tail): same statement on arbitrary bytes.
   The byte copy over the codes array is taken only when the page has no NULL, the index width equals the item size of the codes
   array and the byte counts agree (repaired: a full last group of a foreign page, or a wider codes array, took it wrongly). *)
Theorem C03_selfmade_irrelevant_v2_cat_partial : forall decompress ak cd codec h usize csize payload n nn lv bw r,
  RCat.cat_prefix decompress cd codec h usize csize payload = ROk (n, nn, lv, bw, r) -> nn <= n ->
  (guard_idx (n - nn) r = true ->
     exists hd out, uleb_dec r = Some (hd, out) /\ 0 < n - nn /\ bytes_ok out /\ (hd / 2) * 8 * (bw / 8) <= lenN out) ->
  RCat.rd_page_v2_cat decompress true ak cd codec h usize csize payload = RCat.rd_page_v2_cat decompress false ak cd codec h usize csize payload.
Proof. exact rd_page_v2_cat_selfmade_irrelevant. Qed.
Print Assumptions C03_selfmade_irrelevant_v2_cat_partial.

(* ---- buffer lifetime (Impl/RAlias.v): the dictionary of a chunk is a view of the buffer its page was decoded into ---- *)
Theorem C03_fresh_buffers_keep_dictionary : forall kinds dict,
  match dict with Some (RAlias.Shared _) => False | _ => True end ->
  RAlias.dict_intact dict (map (fun k => (k, RAlias.Fresh)) kinds) = true.
Proof. exact RAliasProofs.fresh_buffers_keep_dictionary. Qed.
Print Assumptions C03_fresh_buffers_keep_dictionary.

Theorem C03_shared_buffer_refuted : forall f,
  RAlias.dict_intact None (map (fun k => (k, RAlias.origin_of [f])) [RAlias.KDict; RAlias.KData]) = false.
Proof. exact RAliasProofs.shared_buffer_refuted. Qed.
Print Assumptions C03_shared_buffer_refuted.
