(* C04 — column statistics are exact: min/max/null_count describe the stored chunk.
   Only statements here; proofs live in theories/Proofs/StatsProofs.v, the model in theories/Impl/Stats.v.

   Full statement (inside the model of writer.write_column's statistics part): for EVERY chunk - any
   number of pages of any sizes, any cells (null / physical value), any Parquet ordering of a fixed-width
   type (signed of any width, unsigned, IEEE float with NaN unordered and -0 = +0, INT96) or the
   byte-wise ordering of (FIXED_LEN_)BYTE_ARRAY - when the column is selected for statistics:
     - null_count is the number of null cells (the per-page tally sums to it for every page split);
     - if some non-null value has a defined order, min and max are present, ARE such values of the chunk,
       and bound every such value; otherwise neither min nor max is written;
   for any stats setting what is written satisfies `exact`; the statistics bytes decode back to the
   value (PLAIN, every physical type); a column listed by sorted_partitioned_columns is strictly
   increasing across row groups.  How pandas computes max()/min() of a Series and how a DataFrame cell
   maps to its physical value are NOT modelled (trusted glue, exercised by the oracle run).            *)
From Coq Require Import NArith ZArith List Bool.
From Pq Require Import Base.Bytes Impl.Stats Proofs.StatsProofs Proofs.StatsBoundsProofs Format.Utf8 Proofs.Utf8Proofs.
Import ListNotations.

Theorem C04_minmax_exact : forall o : ordk, minmax_exact_statement N (leb_of o) (ordered_of o).
Proof. exact minmax_exact_fixed. Qed.
Print Assumptions C04_minmax_exact.

Theorem C04_minmax_exact_bytes : minmax_exact_statement bytes lex_leb (fun _ => true).
Proof. exact minmax_exact_bytes. Qed.
Print Assumptions C04_minmax_exact_bytes.

(* the statement unfolded once, so that it can be read here (same theorem as C04_minmax_exact) *)
Theorem C04_minmax_exact_unfolded : forall (o : ordk) (optional : bool) (pages : list (list (option N))),
  (optional = false -> forall c, In c (concat pages) -> c <> None) ->
  let l := concat pages in
  let st := stats_of N (leb_of o) (ordered_of o) true optional pages in
  s_nulls st = count_nulls N l /\
  ((exists x, In (Some x) l /\ ordered_of o x = true) ->
     exists mn mx, s_min st = Some mn /\ s_max st = Some mx /\
       (In (Some mn) l /\ ordered_of o mn = true) /\ (In (Some mx) l /\ ordered_of o mx = true) /\
       (forall x, In (Some x) l /\ ordered_of o x = true -> leb_of o mn x = true) /\
       (forall x, In (Some x) l /\ ordered_of o x = true -> leb_of o x mx = true)) /\
  ((forall x, ~ (In (Some x) l /\ ordered_of o x = true)) -> s_min st = None /\ s_max st = None).
Proof. exact minmax_exact_fixed. Qed.
Print Assumptions C04_minmax_exact_unfolded.

(* every stats setting (True / False / 'auto' / list = some boolean `sel` per column) *)
Theorem C04_any_setting_exact : forall o sel optional (pages : list (cells N)),
  (optional = false -> forall c, In c (concat pages) -> c <> None) ->
  exact N (leb_of o) (ordered_of o) (concat pages) (stats_of N (leb_of o) (ordered_of o) sel optional pages).
Proof. exact any_setting_exact_fixed. Qed.
Print Assumptions C04_any_setting_exact.

Theorem C04_any_setting_exact_bytes : forall sel optional (pages : list (cells bytes)),
  (optional = false -> forall c, In c (concat pages) -> c <> None) ->
  exact bytes lex_leb (fun _ => true) (concat pages) (stats_of bytes lex_leb (fun _ => true) sel optional pages).
Proof. exact any_setting_exact_bytes. Qed.
Print Assumptions C04_any_setting_exact_bytes.

(* the null tally does not depend on how the chunk is cut into pages *)
Theorem C04_null_tally : forall (A : Type) (pages : list (cells A)),
  tally A true pages = count_nulls A (concat pages).
Proof. exact tally_optional. Qed.
Print Assumptions C04_null_tally.

(* the checker the tie evaluates on the real footer + the real stored pages is sound for `exact`,
   for any comparison function (no order axioms needed: it checks the bounds pointwise) *)
Theorem C04_check_sound : forall (A : Type) (leb : A -> A -> bool) (ordered : A -> bool) stored st,
  check_stats A leb ordered stored st = true -> exact A leb ordered stored st.
Proof. exact check_stats_sound. Qed.
Print Assumptions C04_check_sound.

Theorem C04_user_view : forall t v, wf_val t v ->
  exists b, enc_stat t v = Some b /\ dec_stat t b = Some v.
Proof. exact stat_roundtrip. Qed.
Print Assumptions C04_user_view.

(* the Parquet order of a UTF8 column (byte-wise lexicographic on the encoded text) IS the order in which Python/pandas
   compare str (lexicographic on code points): the bounds pandas computes on the text are the bounds of the stored bytes *)
Theorem C04_utf8_order : forall a b : list N,
  Forall (fun c => c < 0x110000)%N a -> Forall (fun c => c < 0x110000)%N b ->
  lex_leb (utf8_encode a) (utf8_encode b) = lex_leb a b.
Proof. exact utf8_order. Qed.
Print Assumptions C04_utf8_order.

Theorem C04_sorted_columns_sound : forall o (gs : list (rg N)),
  Forall (bounds_ok N (leb_of o)) gs ->
  sorted_col N (leb_of o) (map (fun g => Some (rg_min N g)) gs) (map (fun g => Some (rg_max N g)) gs) = true ->
  strictly_increasing N (leb_of o) gs.
Proof. exact sorted_sound_fixed. Qed.
Print Assumptions C04_sorted_columns_sound.

Theorem C04_sorted_columns_sound_bytes : forall (gs : list (rg bytes)),
  Forall (bounds_ok bytes lex_leb) gs ->
  sorted_col bytes lex_leb (map (fun g => Some (rg_min bytes g)) gs) (map (fun g => Some (rg_max bytes g)) gs) = true ->
  strictly_increasing bytes lex_leb gs.
Proof. exact sorted_sound_bytes. Qed.
Print Assumptions C04_sorted_columns_sound_bytes.

(* categorical chunks under the REPAIRED rule (fix: commit in /repo): whatever the category order, whichever
   categories are unused, however the codes are cut into pages - the statistics describe the decoded chunk
   (labels_of = dictionary page looked up through the codes of the data pages) *)
Theorem C04_categorical_exact : forall o sel optional (cats : list N) (pages : list (list (option nat))),
  (optional = false -> forall c, In c (labels_of N cats (concat pages)) -> c <> None) ->
  exact N (leb_of o) (ordered_of o) (labels_of N cats (concat pages))
        (cat_stats_of N (leb_of o) (ordered_of o) sel optional cats pages).
Proof. exact cat_exact_fixed. Qed.
Print Assumptions C04_categorical_exact.

Theorem C04_categorical_exact_bytes : forall sel optional (cats : list bytes) (pages : list (list (option nat))),
  (optional = false -> forall c, In c (labels_of bytes cats (concat pages)) -> c <> None) ->
  exact bytes lex_leb (fun _ => true) (labels_of bytes cats (concat pages))
        (cat_stats_of bytes lex_leb (fun _ => true) sel optional cats pages).
Proof. exact cat_exact_bytes. Qed.
Print Assumptions C04_categorical_exact_bytes.

(* the pinned tree took categorical min/max in CATEGORY order: min > max (repaired by a fix: commit) *)
Theorem C04_categorical_refuted :
  exists (cats : list N) (codes : list (option nat)) (mn mx : N),
    cat_minmax_old N cats codes = Some (mn, mx) /\
    In (Some mn) (labels_of N cats codes) /\ In (Some mx) (labels_of N cats codes) /\
    ltb N (leb_of OUnsigned) mx mn = true.
Proof. exact cat_old_refuted. Qed.
Print Assumptions C04_categorical_refuted.

(* non-vacuity: a two-page optional DOUBLE chunk with NaN, -0.0, +inf, a null; an all-null chunk;
   an INT32 chunk with negative numbers under the signed and the unsigned ordering *)
Example C04_nonvacuous :
  let nan := 0x7ff8000000000000%N in let ninf := 0xfff0000000000000%N in
  let mzero := 0x8000000000000000%N in let one := 0x3ff0000000000000%N in
  stats_of N (leb_of (OFloat 11 52)) (ordered_of (OFloat 11 52)) true true
           [[Some one; None; Some nan]; [Some mzero; Some ninf]]
    = mk_stats (Some ninf) (Some one) 1%N
  /\ stats_of N (leb_of (OFloat 11 52)) (ordered_of (OFloat 11 52)) true true [[None; Some nan]; [None]]
    = mk_stats None None 2%N
  /\ stats_of N (leb_of (OSigned 32)) (ordered_of (OSigned 32)) true false [[Some 0xffffffff; Some 5]]%N
    = mk_stats (Some 0xffffffff) (Some 5) 0%N
  /\ stats_of N (leb_of OUnsigned) (ordered_of OUnsigned) true false [[Some 0xffffffff; Some 5]]%N
    = mk_stats (Some 5) (Some 0xffffffff) 0%N
  /\ check_stats N (leb_of (OSigned 32)) (ordered_of (OSigned 32)) [Some 0xffffffff; Some 5]%N
       (mk_stats (Some 5) (Some 0xffffffff) 0)%N = false
  (* categories [30; 10; 20; 5] in that order, label 5 unused, one null, two pages *)
  /\ cat_stats_of N (leb_of OUnsigned) (ordered_of OUnsigned) true true [30; 10; 20; 5]%N
                  [[Some 1; None]; [Some 0; Some 2]]%nat = mk_stats (Some 10) (Some 30) 1%N
  /\ cat_minmax_old N [30; 10; 20; 5]%N [Some 1; None; Some 0; Some 2]%nat = Some (30, 20)%N.
Proof. vm_compute. repeat split; reflexivity. Qed.

(* ---- what exactness adds to "valid bounds" (BYTE_ARRAY / UTF8 columns, byte-wise order) -------------
   C05's pruning needs only valid bounds; C04 asks that min and max ARE stored values. *)
Theorem C04_exact_implies_valid_bounds : forall (l : cells bytes) (st : stats bytes),
  exact bytes lex_leb (fun _ => true) l st -> valid_bounds l st.
Proof. exact exact_valid_bounds. Qed.
Print Assumptions C04_exact_implies_valid_bounds.

Theorem C04_bytes_minmax_are_stored_values : forall (l : cells bytes) (st : stats bytes),
  exact bytes lex_leb (fun _ => true) l st ->
  (forall mn, s_min st = Some mn -> In (Some mn) l) /\ (forall mx, s_max st = Some mx -> In (Some mx) l).
Proof. exact exact_stored_values. Qed.
Print Assumptions C04_bytes_minmax_are_stored_values.

Theorem C04_bytes_exact_unique : forall (l : cells bytes) (st1 st2 : stats bytes) mn1 mn2 mx1 mx2,
  exact bytes lex_leb (fun _ => true) l st1 -> exact bytes lex_leb (fun _ => true) l st2 ->
  s_min st1 = Some mn1 -> s_min st2 = Some mn2 -> s_max st1 = Some mx1 -> s_max st2 = Some mx2 ->
  mn1 = mn2 /\ mx1 = mx2.
Proof. exact exact_unique. Qed.
Print Assumptions C04_bytes_exact_unique.

(* a statistic cut to a strict prefix p of the stored value p ++ t (every p, every non-empty t): as MIN it is a valid
   lower bound, yet not exact and rejected by the tie's relation check_stats; as MAX it is not even an upper bound *)
Theorem C04_prefix_min_valid_not_exact : forall (p t : bytes), t <> [] ->
  let l := [Some (p ++ t)] in
  valid_bounds l (mk_stats (Some p) (Some (p ++ t)) 0) /\
  ~ exact bytes lex_leb (fun _ => true) l (mk_stats (Some p) (Some (p ++ t)) 0) /\
  check_stats bytes lex_leb (fun _ => true) l (mk_stats (Some p) (Some (p ++ t)) 0) = false.
Proof. exact prefix_min_valid_not_exact. Qed.
Print Assumptions C04_prefix_min_valid_not_exact.

Theorem C04_prefix_max_not_a_bound : forall (p t : bytes), t <> [] ->
  ~ is_upper bytes lex_leb (fun _ => true) [Some (p ++ t)] p.
Proof. exact prefix_max_not_a_bound. Qed.
Print Assumptions C04_prefix_max_not_a_bound.
