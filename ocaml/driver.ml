(* Driver around the extracted model: reads one s-expression per line, prints Cmd.pqref_main of it (a name no model uses, so extraction never renames it).
   Tokens: ( )  xHEX / -xHEX integers,  #HEX byte strings,  bare symbols (become byte strings). *)
module M = Pqmodel

let hexval c = match c with
  | '0'..'9' -> Char.code c - 48 | 'a'..'f' -> Char.code c - 87 | 'A'..'F' -> Char.code c - 55
  | _ -> failwith "hex"

let pos_of_hex (s : string) : M.positive option =
  let acc = ref None in
  String.iter (fun c ->
    let d = hexval c in
    for b = 3 downto 0 do
      let bit = (d lsr b) land 1 in
      acc := (match !acc with
              | None -> if bit = 1 then Some M.XH else None
              | Some p -> Some (if bit = 1 then M.XI p else M.XO p))
    done) s;
  !acc

let rec pos_of_int n = if n = 1 then M.XH else if n land 1 = 0 then M.XO (pos_of_int (n lsr 1)) else M.XI (pos_of_int (n lsr 1))
let byte_tbl = Array.init 256 (fun i -> if i = 0 then M.N0 else M.Npos (pos_of_int i))

let rec int_of_pos p = match p with M.XH -> 1 | M.XO q -> 2 * int_of_pos q | M.XI q -> 2 * int_of_pos q + 1
let int_of_n n = match n with M.N0 -> 0 | M.Npos p -> int_of_pos p

let bytes_of_hex (s : string) : M.n list =
  let l = String.length s / 2 in
  let rec go i acc = if i < 0 then acc else
    go (i - 1) (byte_tbl.(hexval s.[2*i] * 16 + hexval s.[2*i+1]) :: acc) in
  go (l - 1) []

let hexdig = "0123456789abcdef"
let hex_of_pos (p : M.positive) : string =
  (* bits lsb first *)
  let bits = ref [] in
  let rec go p = match p with
    | M.XH -> bits := 1 :: !bits
    | M.XO q -> bits := 0 :: !bits; go q
    | M.XI q -> bits := 1 :: !bits; go q in
  go p;
  (* !bits is msb first *)
  let l = List.length !bits in
  let pad = (4 - l mod 4) mod 4 in
  let all = Array.of_list ((List.init pad (fun _ -> 0)) @ !bits) in
  let b = Buffer.create 16 in
  let i = ref 0 in
  while !i < Array.length all do
    Buffer.add_char b hexdig.[all.(!i) * 8 + all.(!i+1) * 4 + all.(!i+2) * 2 + all.(!i+3)];
    i := !i + 4
  done;
  Buffer.contents b

let rec parse (s : string) (pos : int ref) : M.sx =
  let n = String.length s in
  while !pos < n && (s.[!pos] = ' ' || s.[!pos] = '\t') do incr pos done;
  if s.[!pos] = '(' then begin
    incr pos;
    let items = ref [] in
    let fin = ref false in
    while not !fin do
      while !pos < n && (s.[!pos] = ' ' || s.[!pos] = '\t') do incr pos done;
      if s.[!pos] = ')' then (incr pos; fin := true)
      else items := parse s pos :: !items
    done;
    M.SL (List.rev !items)
  end else begin
    let st = !pos in
    while !pos < n && s.[!pos] <> ' ' && s.[!pos] <> '(' && s.[!pos] <> ')' && s.[!pos] <> '\t' do incr pos done;
    let tok = String.sub s st (!pos - st) in
    let l = String.length tok in
    if tok.[0] = '#' then M.SB (bytes_of_hex (String.sub tok 1 (l - 1)))
    else if tok.[0] = 'x' && l > 1 && (try ignore (hexval tok.[1]); true with _ -> false) then
      M.SZ (match pos_of_hex (String.sub tok 1 (l - 1)) with None -> M.Z0 | Some p -> M.Zpos p)
    else if l > 2 && tok.[0] = '-' && tok.[1] = 'x' then
      M.SZ (match pos_of_hex (String.sub tok 2 (l - 2)) with None -> M.Z0 | Some p -> M.Zneg p)
    else if l = 1 && (tok.[0] = '0' || tok.[0] = '1') then
      M.SZ (if tok.[0] = '0' then M.Z0 else M.Zpos M.XH)
    else M.SB (List.init l (fun i -> byte_tbl.(Char.code tok.[i])))
  end

let rec print (b : Buffer.t) (s : M.sx) : unit = match s with
  | M.SZ M.Z0 -> Buffer.add_string b "x0"
  | M.SZ (M.Zpos p) -> Buffer.add_char b 'x'; Buffer.add_string b (hex_of_pos p)
  | M.SZ (M.Zneg p) -> Buffer.add_string b "-x"; Buffer.add_string b (hex_of_pos p)
  | M.SB l -> Buffer.add_char b '#';
      List.iter (fun x -> let v = int_of_n x in
                  if v > 255 then Buffer.add_string b "??" else begin
                  Buffer.add_char b hexdig.[v lsr 4]; Buffer.add_char b hexdig.[v land 15] end) l
  | M.SL l -> Buffer.add_char b '(';
      List.iteri (fun i x -> if i > 0 then Buffer.add_char b ' '; print b x) l;
      Buffer.add_char b ')'

let () =
  try
    while true do
      let line = input_line stdin in
      if String.length line > 0 then begin
        let b = Buffer.create 256 in
        (try print b (M.pqref_main (parse line (ref 0)))
         with Stack_overflow -> Buffer.add_string b "(#6572726f72 #737461636b)"
            | Failure m -> Buffer.add_string b "(#6572726f72 #6661696c757265)");
        print_string (Buffer.contents b); print_newline ()
      end
    done
  with End_of_file -> ()
