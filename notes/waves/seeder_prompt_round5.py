import json, os, subprocess, glob, shutil, sys
props = {json.loads(l)["id"]: json.loads(l) for l in open("/verif/properties.jsonl")}
ids = sys.argv[1:]
for pid in ids:
    wt = "/tmp/seed-" + pid
    if not os.path.exists(wt):
        subprocess.check_call("git -C /repo worktree add -q --detach %s HEAD" % wt, shell=True)
        for f in glob.glob("/repo/fastparquet/*.c") + glob.glob("/repo/fastparquet/*.so"):
            shutil.copy(f, wt + "/fastparquet")
    prev = []
    for d in sorted(glob.glob("/verif/seeded/%s-*" % pid)):
        prev.append(json.load(open(d + "/meta.json"))["title"])
    p = props[pid]
    txt = """You are helping to evaluate a verification effort for the Python library dask/fastparquet (Apache Parquet reader/writer for pandas). Your job is to act as an adversarial but realistic maintainer: produce ONE code change to fastparquet which breaks the semantic property below while the library still imports/compiles and the repository's existing test suite still passes.

PROPERTY %s: %s
Statement: %s
Quantifier: %s

YOUR WORKSPACE: the git worktree %s (a private scratch checkout of the library at its current commit; the compiled extension modules cencoding/speedups are already present as .so files together with their Cython-generated .c files). Work ONLY inside that directory. Never modify /repo, and do NOT read or list anything under /verif (the verification machinery being evaluated must stay unknown to you so that your changes are independent of it). Run Python as: cd %s && PYTHONPATH=%s PYTHONHASHSEED=0 /venv/bin/python ...   (pandas 3, numpy 2.x, Python 3.12). There is no network and no Cython: a change to a .pyx file has no effect unless you make the equivalent edit in the generated .c file and rebuild the module with
  gcc -shared -fPIC -O2 -fwrapv -w -I/venv/lib/python3.12/site-packages/numpy/_core/include -I/root/.pyenv/versions/3.12.1/include/python3.12 fastparquet/<name>.c -o fastparquet/<name>.cpython-312-x86_64-linux-gnu.so
so strongly prefer changes to the .py files (if you do change native code, the patch must contain both the .pyx and the .c edit).

WHAT KIND OF CHANGE. The change must look like something a maintainer could plausibly commit (a refactoring, an optimisation, a 'simplification', a bug fix for something else, a new fast path) - not sabotage, no dead giveaways, small (typically 3-30 changed lines). It must NOT be exposed by ordinary use at once: it needs something specific to manifest, such as a particular interleaving of threads, a crash or I/O fault at a particular point, a multi-step sequence of operations on one handle/dataset, an unusual but legal input (size boundary such as 2**31 / 2**53 / 255-256 / 8192, rare dtype/option combination, a file produced by another writer), or two cooperating code sites that each look fine alone (for this round I am especially interested in changes a careful reviewer would approve because every line of the diff is locally reasonable, and in code paths and functions that the earlier changes listed below did NOT touch). The change must differ in kind and in location from these changes that were already produced earlier for this property (do not repeat them):
%s

REQUIREMENTS for the change (k = 9), written to %s/out/<k>/ :
  1. patch.diff  - `git diff` against the clean worktree (must apply with `git apply` to a clean checkout; include only the source change, not the demo).
  2. demo.py     - a self-contained program (no pytest needed, uses only fastparquet/pandas/numpy/stdlib, writes only into a tempfile directory it removes) that exits 0 on the clean tree and exits non-zero (with a short explanation printed) on the changed tree, demonstrating that the property is violated (state in a comment which clause of the property fails). The demo must judge by the property's own terms (e.g. compare data read back with data written), not by looking at the changed code.
  3. meta.json   - {"property": "%s", "title": one line, "files": [...], "what_it_breaks": paragraph, "needs_to_manifest": paragraph, "baseline_339_still_pass": true, "demo_pass_clean": true, "demo_fail_changed": true, "commands_run": [...]}.
  4. The existing test suite must still pass with the change: run `python3 /tmp/seedtools/baseline_cmp.py %s` (runs the whole suite in ~40 s and compares with the 339 tests of the pinned baseline; it must print 'stable tests no longer passing: 0'; about 34 other tests fail already on the clean tree for unrelated reasons - ignore those).
  5. Verify all of it yourself: demo on clean tree (exit 0), apply change, demo (exit != 0), baseline intact; then `git checkout -- .` so the worktree is clean when you finish (leave only the untracked out/ directory, the .c and the .so files; rebuild the .so from the clean .c if you touched native code).

Read the code the property is about first (start from fastparquet/writer.py, api.py, core.py, util.py, and for native codecs cencoding.pyx / speedups.pyx) and find places where a plausible edit silently breaks the property under specific circumstances. If a candidate change makes a baseline test fail, or the demo cannot show a violation of the property as stated, discard it and find another. Your final message: one paragraph (title, what triggers it, how the demo shows it) plus the exact commands you ran with their outcomes.
""" % (pid, p["title"], p["statement"], p["quantifier"]["text"], wt, wt, wt, "\n".join("  - " + t for t in prev), wt, pid, wt)
    open("/tmp/seedtools/prompt-%s.txt" % pid, "w").write(txt)
    print(pid, len(txt))
