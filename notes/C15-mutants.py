#!/usr/bin/env python3
"""notes/C15-mutants.py NAME [SEED]: apply mutant NAME (table in notes/C15.md) to the working tree of $VERIF_REPO (a scratch
worktree with the generated .c files), run ./check C15 --tier quick, print the outcome, restore the file."""
import subprocess, sys, os, re
R = os.environ.get("VERIF_REPO", "/repo").rstrip("/") + "/fastparquet/"   # a scratch worktree, never /repo itself
MUT = {
 "M1_rowidx": ("core.py", "row_idx[0] = 1 + encoding._assemble_objects(", "row_idx[0] = encoding._assemble_objects("),
 "M2_maxdef": ("schema.py", "            if element.repetition_type != parquet_thrift.FieldRepetitionType.REQUIRED:\n                max_level += 1",
               "            if element.repetition_type == parquet_thrift.FieldRepetitionType.OPTIONAL:\n                max_level += 1"),
 "M3_null_true_v1": ("core.py", "    return n_opt > 0, defi, max_def - shift", "    return True, defi, max_def - shift"),
 "M4_v2_idx_not_advanced": ("core.py", "                    null=null, null_val=False, max_defi=max_def, prev_i=0\n                )\n            idx[0] += data_header2.num_rows\n        elif data_header2.num_nulls:",
                            "                    null=null, null_val=False, max_defi=max_def, prev_i=0\n                )\n        elif data_header2.num_nulls:"),
 "M5_kv_swapped": ("core.py", "                    value, key = out[name], maps[name]", "                    key, value = out[name], maps[name]"),
 "M6_maplike_key_optional_ok": ("schema.py", "    if set(se2[\"children\"]) != {'key', 'value'}:\n        return False", "    if set(se2[\"children\"]) != {'key', 'value'}:\n        return True"),
 "M7_c_i_plus_2": ("cencoding.c", "        __pyx_v_i = (__pyx_v_i + 1);", "        __pyx_v_i = (__pyx_v_i + 2);"),
 "M8_c_vali_ge_0": ("cencoding.c", "        __pyx_t_1 = (__pyx_v_vali > 0);", "        __pyx_t_1 = (__pyx_v_vali >= 0);"),
 "M9_maxrep": ("schema.py", "            if element.repetition_type == parquet_thrift.FieldRepetitionType.REPEATED:\n                max_level += 1",
               "            if element.repetition_type == parquet_thrift.FieldRepetitionType.REPEATED and i > 1:\n                max_level += 1"),
 "M10_v2_null_true": ("core.py", "                    null=null, null_val=False, max_defi=max_def, prev_i=0\n                )\n            idx[0] += data_header2.num_rows\n        elif data_header2.num_nulls:",
                      "                    null=True, null_val=False, max_defi=max_def, prev_i=0\n                )\n            idx[0] += data_header2.num_rows\n        elif data_header2.num_nulls:"),
 "M11_v2_plain_flat": ("core.py", "    if max_rep and data_header2.encoding == parquet_thrift.Encoding.PLAIN:", "    if False and data_header2.encoding == parquet_thrift.Encoding.PLAIN:"),
 "M12_v2_level_len": ("core.py", "encoding.read_rle_bit_packed_hybrid(io_obj, bit_width, data_header2.repetition_levels_byte_length,", "encoding.read_rle_bit_packed_hybrid(io_obj, bit_width, data_header2.num_values,"),
 "M13_d_flag": ("core.py", "                    assign, ldefi, lrep, lval, dic, d,\n", "                    assign, ldefi, lrep, lval, dic, False,\n"),
 "M14_listlike_drop_repeated_check": ("schema.py", "    if se2.repetition_type != parquet_thrift.FieldRepetitionType.REPEATED:\n        return False\n    se3 = list(se2[\"children\"].values())[0]", "    se3 = list(se2[\"children\"].values())[0]"),
 "M15_c_de_ge_null": ("cencoding.c", "    __pyx_t_1 = (__pyx_v_de > __pyx_v_null);", "    __pyx_t_1 = (__pyx_v_de >= __pyx_v_null);"),
 "M16_name_path": ("core.py", "            name = \".\".join(column.meta_data.path_in_schema[:-2])", "            name = \".\".join(column.meta_data.path_in_schema[:-1])"),
 "M6b_maplike_key_required_check_dropped": ("schema.py", "    se3 = se2[\"children\"]['key']\n    if se3.repetition_type != parquet_thrift.FieldRepetitionType.REQUIRED:\n        return False\n", "    se3 = se2[\"children\"]['key']\n"),
 "M17_pyx_edit": ("cencoding.pyx", "                if vali > 0:\n                    assign[i - 1].extend(part) # add the items to previous row", "                if vali >= 0:\n                    assign[i - 1].extend(part) # add the items to previous row"),
 "M18_isrequired_path0": ("core.py", "        for i in range(len(path) - 2))", "        for i in range(len(path) - 1))"),
 "M19_v2_numrows_as_numvalues": ("core.py", "            idx[0] += data_header2.num_rows\n        elif data_header2.num_nulls:", "            idx[0] += data_header2.num_values\n        elif data_header2.num_nulls:"),
 "M20_dict_page_ignored_second_rg": ("core.py", "            dic = dic2\n", "            dic = dic2 if dic is None else dic\n"),
 "M21_key_by_column_name": ("core.py", "if column.meta_data.path_in_schema[-1] == 'key':", "if column.meta_data.path_in_schema[0] == 'key':"),
 "M22_num_counts_values": ("core.py", "        num += len(defi) if defi is not None else len(val)\n\n\ndef read_row_group_arrays", "        num += len(val)\n\n\ndef read_row_group_arrays"),
 "M24_v2_nvalues": ("core.py", "    n_values = data_header2.num_values - data_header2.num_nulls\n", "    n_values = data_header2.num_values\n"),
 "M25_d_only_rle_dictionary": ("core.py", "        d = ph.data_page_header.encoding in [parquet_thrift.Encoding.PLAIN_DICTIONARY,\n                                             parquet_thrift.Encoding.RLE_DICTIONARY]", "        d = ph.data_page_header.encoding in [parquet_thrift.Encoding.RLE_DICTIONARY]"),
 "M26_empty_map_none": ("core.py", "                out[name][:] = [dict(zip(k, v)) if k is not None else None", "                out[name][:] = [dict(zip(k, v)) if k else None"),
 "M27_rowidx_only_multi": ("core.py", "            row_idx[0] = 1 + encoding._assemble_objects(", "            row_idx[0] = (1 if len(rep) > 1 else 0) + encoding._assemble_objects("),
 "M28_no_struct_shift": ("core.py", "    shift = max(n_opt - 1, 0)\n", "    shift = 0\n"),
 "M29_null_from_path0": ("core.py", "    return n_opt > 0, defi, max_def - shift", "    return (not schema_helper.is_required(path[0])), defi, max_def - shift"),
 "M30_cont_only_not_handled": ("core.py", "            lead = int(starts[0]) if len(starts) else len(rep)\n", "            lead = int(starts[0]) if len(starts) else 0\n"),
 "M31_lead_nulls_dropped": ("core.py", "                    elif de > null:\n                        items.append(None)\n                assign[row_idx[0] - 1].extend(items)", "                assign[row_idx[0] - 1].extend(items)"),
 "M32_lead_values_offset": ("core.py", "                lrep, lval = rep[lead:], val[nv:]", "                lrep, lval = rep[lead:], val[lead:]"),
 "M33_always_call": ("core.py", "            if len(lrep):\n                row_idx[0] = 1 + encoding._assemble_objects(", "            if True:\n                row_idx[0] = 1 + encoding._assemble_objects("),
 "M34_lead_only_if_value": ("core.py", "                assign[row_idx[0] - 1].extend(items)\n", "                if nv:\n                    assign[row_idx[0] - 1].extend(items)\n"),
 "M35_lead_no_dict": ("core.py", "                vals = iter(dic[val[:nv]] if d else val[:nv])", "                vals = iter(val[:nv])"),
 "M37_no_refusal_two_levels": ("core.py", "    if schema_helper.max_repetition_level(path) > 1:", "    if False:"),
 "M38_v2_empty_page_not_skipped": ("core.py", "    if len(repi) == 0:\n        return False", "    if len(repi) == 0:\n        return True"),
 "M39_v2_inside_row_not_refused": ("core.py", "    if repi[0] != 0:\n        raise ValueError", "    if False:\n        raise ValueError"),
 "M36_stats_null_count": ("core.py", None, None),
 "N1_rename_local": ("core.py", None, None),
 "N2_reorder": ("core.py", "            null, ldefi, lmax_defi = _nested_levels(schema_helper, cmd.path_in_schema, defi, max_defi)\n            null_val = (se.repetition_type !=\n                        parquet_thrift.FieldRepetitionType.REQUIRED)\n",
                "            null_val = (se.repetition_type !=\n                        parquet_thrift.FieldRepetitionType.REQUIRED)\n            null, ldefi, lmax_defi = _nested_levels(schema_helper, cmd.path_in_schema, defi, max_defi)\n"),
 "N3_maxdef_equiv": ("schema.py", "            if element.repetition_type != parquet_thrift.FieldRepetitionType.REQUIRED:\n                max_level += 1",
               "            if not (element.repetition_type == parquet_thrift.FieldRepetitionType.REQUIRED):\n                max_level = max_level + 1"),
 "N4_v2_slice_open": ("core.py", "                assign[idx[0]:idx[0]+data_header2.num_rows], defi, repi, out, dic, d=True,", "                assign[idx[0]:][:data_header2.num_rows], defi, repi, out, dic, d=True,"),
}
name = sys.argv[1]
f, old, new = MUT[name]
p = R + f
src = open(p).read()
if name == "M36_stats_null_count":
    import subprocess as sp
    sp.check_call(["git", "-C", os.path.dirname(R.rstrip("/")), "apply", os.path.join(os.path.dirname(os.path.dirname(os.path.abspath(__file__))), "seeded", "C15-3", "patch.diff")])
    new_src = open(p).read()
elif name == "N1_rename_local":
    new_src = src.replace("row_idx", "list_row_index")
    assert new_src != src
else:
    assert src.count(old) >= 1, "pattern not found"
    new_src = src.replace(old, new)
open(p, "w").write(new_src)
try:
    env = dict(os.environ, VERIF_REPO=os.environ.get("VERIF_REPO", "/repo"), VERIF_SEED=sys.argv[2] if len(sys.argv) > 2 else "1")
    r = subprocess.run(["timeout", "900", "./check", "C15", "--tier", "quick"], cwd=os.path.dirname(os.path.dirname(os.path.abspath(__file__))), env=env,
                       stdout=subprocess.PIPE, stderr=subprocess.STDOUT)
    out = r.stdout.decode()
    lines = [l for l in out.split("\n") if l.startswith("VIOLATION") or l.startswith("C15 quick") or "Traceback" in l or "Error" in l]
    print(name, "rc=%d" % r.returncode)
    for l in lines[:6]:
        print("   ", l[:600])
    pass
finally:
    open(p, "w").write(src)
