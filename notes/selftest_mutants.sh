#!/bin/bash
# usage: mutants.sh  -- runs the C11/C12 mutant table; output in /tmp/verif-codec/mutants.log
export VERIF_REPO=/work/codec/repo
R=/work/codec/repo
V=/work/codec/verif
LOG=/tmp/verif-codec/mutants.log
: > $LOG
runcheck() { # pid name
  cd $V && rm -rf replays/$1
  out=$(timeout 1500 ./check $1 2>&1 | grep -v "^WARNING\|KNOWN-F")
  nv=$(echo "$out" | grep -c "^VIOLATION")
  first=$(echo "$out" | grep "^VIOLATION" | head -1 | cut -c1-160)
  rep=$(ls $V/replays/$1/*.json 2>/dev/null | grep -v broken | head -1)
  what=""
  if [ -n "$rep" ]; then what=$(./check $1 --replay $rep 2>&1 | grep -v "^WARNING" | grep "PROPERTY FAILS\|correspondence differs" | head -2 | cut -c1-260 | tr '\n' '|'); fi
  echo "== $2 [$1]: violations=$nv :: $first :: $what" >> $LOG
}
restore() { cd $R && git checkout -- . && cp /tmp/verif-codec/cencoding.c.orig fastparquet/cencoding.c && cp /tmp/verif-codec/speedups.c.orig fastparquet/speedups.c; }
cp $R/fastparquet/speedups.c /tmp/verif-codec/speedups.c.orig
restore
# ---- M3 .c read_bitpacked capacity off by one
sed -i '21115s/<=/</' $R/fastparquet/cencoding.c; runcheck C11 "M3 cencoding.c read_bitpacked: outptr <= endptr -> <"; restore
# ---- M4 .c varint shift += 8
sed -i '21555s/+ 7/+ 8/' $R/fastparquet/cencoding.c; runcheck C11 "M4 cencoding.c read_unsigned_var_int: shift += 7 -> += 8"; restore
# ---- M5 .c read_rle width
sed -i '19406s/(__pyx_v_bit_width + 7)/(__pyx_v_bit_width + 0)/' $R/fastparquet/cencoding.c; runcheck C11 "M5 cencoding.c read_rle: width = (bit_width+7)//8 -> bit_width//8"; restore
# ---- M6 .c read_bitpacked1 cursor
sed -i '20239s/(__pyx_v_startcount + 7)/(__pyx_v_startcount + 0)/' $R/fastparquet/cencoding.c; runcheck C11 "M6 cencoding.c read_bitpacked1: loc += (count+7)//8 -> count//8"; restore
# ---- M7 speedups.c unpack_byte_array bytecount
sed -i '22659s/(4 + __pyx_v_itemlen)/(5 + __pyx_v_itemlen)/' $R/fastparquet/speedups.c; runcheck C11 "M7 speedups.c unpack_byte_array: bytecount -= 4+len -> 5+len"; restore
# ---- M8 writer.py bool packing order
sed -i 's/out = np.packbits(padded.reshape(-1, 8)\[:, ::-1\].ravel())/out = np.packbits(padded.reshape(-1, 8).ravel())/' $R/fastparquet/writer.py; runcheck C11 "M8 writer.py convert: drop [:, ::-1] (MSB-first booleans)"; restore
# ---- M9 .c delta shift-out threshold
sed -i '22161s/> 8/> 16/' $R/fastparquet/cencoding.c; runcheck C11 "M9 cencoding.c delta_read_bitpacked: right > 8 -> right > 16"; restore
# ---- N1 neutral: pad (8 - n%8) % 8
sed -i 's/padded = np.pad(data.values, (0, 8 - (len(data) % 8)),/padded = np.pad(data.values, (0, (8 - (len(data) % 8)) % 8),/' $R/fastparquet/writer.py; runcheck C11 "N1 neutral writer.py convert: pad (8 - n%8) % 8"; restore
# ---- N2 neutral: read_plain_boolean slice spelled differently, renamed local
sed -i 's/    data = np.frombuffer(raw_bytes, dtype=.uint8.)/    buf = np.frombuffer(raw_bytes, dtype="uint8")/; s/read_bitpacked1(NumpyIO(data), count, NumpyIO(out.view(.uint8.)))/read_bitpacked1(NumpyIO(buf), count, NumpyIO(out.view("uint8")))/; s/    return out\[:count\]$/    return out[0:count]/' $R/fastparquet/encoding.py; runcheck C11 "N2 neutral encoding.py read_plain_boolean: renamed local, out[0:count]"; restore
# ---- N3 neutral: encode_dict header computed differently
sed -i 's|    bit_packed_count = (len(data) + 7) // 8$|    bit_packed_count = -(-len(data) // 8)|' $R/fastparquet/writer.py; runcheck C11 "N3 neutral writer.py encode_dict: ceil division spelled -(-n//8)"; restore
# ---- C12 mutants
sed -i '24793s/.*/  __pyx_t_1 = 0;/' $R/fastparquet/cencoding.c; runcheck C12 "M11 cencoding.c NumpyIO.write_byte: bounds check removed"; restore
sed -i '21115s/<=/>=/; 21115s/__pyx_v_outptr >= __pyx_v_endptr/1/' $R/fastparquet/cencoding.c; runcheck C12 "M12 cencoding.c read_bitpacked: output guard outptr <= endptr removed"; restore
cd $R && git status --short >> $LOG
echo DONE >> $LOG
