From Coq Require Import NArith List.
Import ListNotations.
Open Scope N_scope.
Record st := { data : N; left : N; right : N; inp : list N; cnt : N; out : list N }.
Definition step (w mask : N) (s : st) : option st :=
  if 8 <? right s then
    Some {| data := N.shiftr (data s) 8; left := left s - 8; right := right s - 8; inp := inp s; cnt := cnt s; out := out s |}
  else if left s - right s <? w then
    match inp s with
    | [] => None
    | b :: r =>
      if 32 <=? left s then None else
      Some {| data := N.lor (data s) (N.land (N.shiftl b (left s)) 4294967295); left := left s + 8; right := right s; inp := r; cnt := cnt s; out := out s |}
    end
  else
    Some {| data := data s; left := left s; right := right s + w; inp := inp s; cnt := cnt s - 1;
          out := (N.land (N.shiftr (data s) (right s)) mask) :: out s |}.
(* binary fuel: loop p runs at least (Pos.to_nat p) steps' worth: 2^|p| *)
Fixpoint loop (p : positive) (w mask : N) (s : st) : option st :=
  if cnt s =? 0 then Some s else
  match p with
  | xH => step w mask s
  | xO q | xI q => match loop q w mask s with Some s' => loop q w mask s' | None => None end
  end.
Definition decode (w : N) (bytes : list N) (count : N) : option (list N) :=
  match bytes with
  | [] => None
  | b :: r =>
    match loop (Pos.shiftl 1 40) w (N.ones w) {| data := b; left := 8; right := 0; inp := r; cnt := count; out := [] |} with
    | Some s' => if cnt s' =? 0 then Some (rev_append (out s') []) else None
    | None => None
    end
  end.
Eval vm_compute in decode 3 [136; 198; 250]%N 8.
Require Extraction.
Require Import ExtrOcamlBasic.
Extraction "bs.ml" decode.
