From Coq Require Import NArith List Lia Bool.
Import ListNotations.
Open Scope N_scope.

(* input bytes as little-endian natural *)
Fixpoint le2n (l : list N) : N :=
  match l with [] => 0 | b :: r => b + 256 * le2n r end.

Definition bytes_ok (l : list N) := Forall (fun b => b < 256) l.

(* spec: k-th w-bit value *)
Definition bp_get (w : N) (S : N) (k : N) : N := (S / 2 ^ (k * w)) mod 2 ^ w.

(* impl model of cencoding.read_bitpacked main loop, uint32 accumulator.
   Err: OOB read or UB shift *)
Inductive res (A : Type) := Ok (a : A) | OOB | UB | Fuel.
Arguments Ok {A}. Arguments OOB {A}. Arguments UB {A}. Arguments Fuel {A}.

Record st := { data : N; left : N; right : N; inp : list N; cnt : N; out : list N }.

Definition step (w : N) (s : st) : res st :=
  if 8 <? right s then
    Ok {| data := data s / 256; left := left s - 8; right := right s - 8; inp := inp s; cnt := cnt s; out := out s |}
  else if left s - right s <? w then   (* left >= right is an invariant, so N subtraction is exact *)
    match inp s with
    | [] => OOB
    | b :: r =>
      if 32 <=? left s then UB else
      Ok {| data := N.lor (data s) ((b * 2 ^ left s) mod 2 ^ 32); left := left s + 8; right := right s; inp := r; cnt := cnt s; out := out s |}
    end
  else
    Ok {| data := data s; left := left s; right := right s + w; inp := inp s; cnt := cnt s - 1;
          out := ((data s / 2 ^ right s) mod 2 ^ w) :: out s |}.

Fixpoint run (fuel : nat) (w : N) (s : st) : res st :=
  if cnt s =? 0 then Ok s else
  match fuel with
  | O => Fuel
  | S f => match step w s with Ok s' => run f w s' | e => e end
  end.

(* Invariant relating the state to the stream S *)
Definition inv (w S : N) (total : N) (s : st) : Prop :=
  exists base k,
    data s = (S / 2 ^ (8 * base)) mod 2 ^ left s /\
    le2n (inp s) = S / 2 ^ (8 * base + left s) /\
    8 * base + right s = k * w /\
    k + cnt s = total /\
    left s mod 8 = 0 /\ right s <= left s /\ left s <= 32 /\
    bytes_ok (inp s) /\
    out s = rev (map (bp_get w S) (map N.of_nat (seq 0 (N.to_nat k)))).

Lemma pow256 : 256 = 2 ^ 8. Proof. reflexivity. Qed.

Lemma div_div_pow a x y : a / 2 ^ x / 2 ^ y = a / 2 ^ (x + y).
Proof. rewrite N.div_div by (apply N.pow_nonzero; lia). now rewrite N.pow_add_r. Qed.

Lemma mod_pow_div a l r : r <= l -> (a mod 2 ^ l) / 2 ^ r = (a / 2 ^ r) mod 2 ^ (l - r).
Proof.
  intros H. replace l with (r + (l - r)) at 1 by lia.
  rewrite N.pow_add_r.
  rewrite N.mod_mul_r by (apply N.pow_nonzero; lia).
  rewrite N.mul_comm, N.div_add by (apply N.pow_nonzero; lia).
  rewrite N.div_small by (apply N.mod_upper_bound, N.pow_nonzero; lia).
  reflexivity.
Qed.

Lemma mod_mod_pow a x y : y <= x -> (a mod 2 ^ x) mod 2 ^ y = a mod 2 ^ y.
Proof.
  intros H. replace x with (y + (x - y)) by lia. rewrite N.pow_add_r.
  rewrite N.mod_mul_r by (apply N.pow_nonzero; lia).
  rewrite N.mul_comm, N.mod_add by (apply N.pow_nonzero; lia).
  apply N.mod_mod. apply N.pow_nonzero; lia.
Qed.

(* emitted value is the spec value *)
Lemma emit_ok w S base l r k :
  r + w <= l -> 8 * base + r = k * w ->
  (((S / 2 ^ (8 * base)) mod 2 ^ l) / 2 ^ r) mod 2 ^ w = bp_get w S k.
Proof.
  intros H1 H2. unfold bp_get.
  rewrite mod_pow_div by lia. rewrite mod_mod_pow by lia.
  rewrite div_div_pow. now rewrite H2.
Qed.

(* loading one more byte extends the window *)
Lemma load_ok S base l b rest :
  l <= 24 -> b < 256 ->
  b + 256 * rest = S / 2 ^ (8 * base + l) ->
  N.lor ((S / 2 ^ (8 * base)) mod 2 ^ l) ((b * 2 ^ l) mod 2 ^ 32) = (S / 2 ^ (8 * base)) mod 2 ^ (l + 8).
Proof.
  intros Hl Hb Hs.
  assert (Hp : 2 ^ l <> 0) by (apply N.pow_nonzero; lia).
  set (A := S / 2 ^ (8 * base)) in *.
  assert (HA : A / 2 ^ l = b + 256 * rest).
  { unfold A. rewrite div_div_pow. now rewrite Hs. }
  assert (Hsmall : b * 2 ^ l < 2 ^ 32).
  { replace 32 with (8 + 24) by lia. rewrite N.pow_add_r.
    assert (2 ^ l <= 2 ^ 24) by (apply N.pow_le_mono_r; lia). change (2^8) with 256. nia. }
  rewrite (N.mod_small (b * 2 ^ l)) by exact Hsmall.
  (* A mod 2^(l+8) = A mod 2^l + 2^l * ((A / 2^l) mod 2^8) *)
  rewrite N.pow_add_r. rewrite N.mod_mul_r by (try apply N.pow_nonzero; lia).
  rewrite HA. change (2 ^ 8) with 256.
  replace ((b + 256 * rest) mod 256) with b.
  2:{ rewrite N.mul_comm, N.mod_add by lia. now rewrite N.mod_small. }
  (* lor of disjoint = add *)
  rewrite (N.mul_comm (2 ^ l) b).
  rewrite <- N.lxor_lor.
  - rewrite <- N.add_nocarry_lxor; [reflexivity|].
    apply N.bits_inj_0. intros n. rewrite N.land_spec.
    destruct (N.ltb_spec n l).
    + rewrite N.mul_pow2_bits_low by lia. apply andb_false_r.
    + rewrite N.mod_pow2_bits_high by lia. reflexivity.
  - apply N.bits_inj_0. intros n. rewrite N.land_spec.
    destruct (N.ltb_spec n l).
    + rewrite N.mul_pow2_bits_low by lia. apply andb_false_r.
    + rewrite N.mod_pow2_bits_high by lia. reflexivity.
Qed.

Definition avail (s : st) (base : N) : N := 8 * base + left s + 8 * N.of_nat (length (inp s)).

Lemma le2n_cons b r : le2n (b :: r) = b + 256 * le2n r. Proof. reflexivity. Qed.

Lemma seq_snoc_map (f : N -> N) k :
  rev (map f (map N.of_nat (seq 0 (S k)))) = f (N.of_nat k) :: rev (map f (map N.of_nat (seq 0 k))).
Proof.
  rewrite seq_S. rewrite !map_app. cbn [map]. rewrite rev_app_distr. reflexivity.
Qed.

Lemma step_inv w S total s :
  0 < w -> w <= 24 -> inv w S total s -> 0 < cnt s ->
  (forall base k, 8 * base + right s = k * w -> k + cnt s = total -> total * w <= avail s base) ->
  exists s', step w s = Ok s' /\ inv w S total s' /\
     (forall base k, 8 * base + right s' = k * w -> k + cnt s' = total -> total * w <= avail s' base).
Proof.
  intros Hw0 Hw (base & k & Hd & Hi & Hk & Ht & Hm & Hrl & Hl & Hb & Ho) Hc Hav.
  unfold step.
  destruct (N.ltb_spec 8 (right s)) as [Hr|Hr].
  - (* shift out a byte *)
    eexists; split; [reflexivity|]. split.
    + exists (base + 1), k. cbn [data left right inp cnt out].
      assert (8 <= left s) by lia.
      repeat split; try lia; try assumption.
      * rewrite Hd. change 256 with (2 ^ 8). rewrite mod_pow_div by lia.
        rewrite div_div_pow. f_equal. f_equal. f_equal. lia.
      * rewrite Hi. f_equal. f_equal. lia.
      * (* (left-8) mod 8 = 0 *)
        replace (left s) with ((left s - 8) + 1 * 8) in Hm by lia.
        rewrite N.mod_add in Hm by lia. exact Hm.
    + intros base' k' H1 H2. cbn [right cnt] in *. unfold avail in *. cbn [left inp].
      specialize (Hav (base' - 1) k'). 
      assert (1 <= base').
      { destruct (N.eq_dec base' 0); [|lia]. subst. 
        (* 8*0 + (right-8) = k'*w and 8*base+right = k*w with same cnt -> k'=k *)
        assert (k' = k) by lia. subst. lia. }
      assert (k' = k) by lia. subst k'.
      assert (left s >= 8) by lia.
      specialize (Hav ltac:(lia) ltac:(lia)). lia.
  - destruct (N.ltb_spec (left s - right s) w) as [Hlw|Hlw].
    + (* load *)
      assert (Hneed : total * w <= avail s base) by (apply (Hav base k); assumption).
      unfold avail in Hneed.
      destruct (inp s) as [|b r] eqn:Ei.
      * exfalso. cbn [length] in Hneed. assert ((k + 1) * w <= total * w) by (apply N.mul_le_mono_r; lia). lia.
      * assert (Hl24 : left s <= 24).
        { assert (left s < 32) by lia.
          (* left multiple of 8 and < 32 *)
          assert (left s = 8 * (left s / 8)) by (rewrite (N.div_mod (left s) 8) at 1 by lia; lia).
          lia. }
        destruct (N.leb_spec 32 (left s)) as [Hub|_]; [lia|].
        eexists; split; [reflexivity|]. split.
        -- exists base, k. cbn [data left right inp cnt out].
           inversion Hb as [|? ? Hb1 Hb2]; subst.
           rewrite le2n_cons in Hi.
           repeat split; try lia; try assumption.
           ++ rewrite Hd. eapply load_ok; eauto.
           ++ (* le2n r = S / 2^(8 base + left + 8) *)
              replace (8 * base + (left s + 8)) with ((8 * base + left s) + 8) by lia.
              rewrite <- div_div_pow. rewrite <- Hi. change (2 ^ 8) with 256.
              rewrite N.mul_comm, N.div_add by lia. rewrite N.div_small by assumption. reflexivity.
           ++ replace (left s + 8) with (left s + 1 * 8) by lia. rewrite N.mod_add by lia. exact Hm.
        -- intros base' k' H1 H2. cbn [right cnt] in *. unfold avail. cbn [left inp].
           assert (k' = k) by nia. subst k'. assert (base' = base) by lia. subst base'.
           cbn [length] in Hneed. lia.
    + (* emit *)
      eexists; split; [reflexivity|]. split.
      * exists base, (k + 1). cbn [data left right inp cnt out].
        repeat split; try lia; try assumption.
        rewrite Hd. rewrite (emit_ok w S base (left s) (right s) k) by lia.
        rewrite Ho. replace (N.to_nat (k + 1)) with (Datatypes.S (N.to_nat k)) by lia.
        rewrite seq_snoc_map. rewrite N2Nat.id. reflexivity.
      * intros base' k' H1 H2. cbn [right cnt] in *. unfold avail in *. cbn [left inp].
        assert (k' = k + 1) by lia. subst k'. assert (base' = base) by nia. subst base'.
        specialize (Hav base k Hk Ht). lia.
Qed.
