(* Feasibility probe for DESIGN.md 4.1 / C05: what py2coq could emit for api.filter_val
   (scalar operators) and an automation-only soundness proof.  Changing `gt_o val vmax`
   to `ge_o val vmax` in the first line (the mutant "== prunes when val >= max") leaves an
   open goal ("Attempt to save an incomplete proof"). *)
From Coq Require Import ZArith List Bool Lia String.
Import ListNotations.
Open Scope Z_scope.
Open Scope string_scope.

Definition is_some {A} (o : option A) := match o with Some _ => true | None => false end.
Definition str_in (s : string) (l : list string) := existsb (String.eqb s) l.
Definition gt_o (v : Z) (o : option Z) := match o with Some m => Z.gtb v m | None => false end.
Definition ge_o (v : Z) (o : option Z) := match o with Some m => Z.geb v m | None => false end.
Definition lt_o (v : Z) (o : option Z) := match o with Some m => Z.ltb v m | None => false end.
Definition le_o (v : Z) (o : option Z) := match o with Some m => Z.leb v m | None => false end.
Definition eq_oo (a b : option Z) := match a, b with Some x, Some y => Z.eqb x y | None, None => true | _, _ => false end.
Definition eq_o (v : Z) (o : option Z) := match o with Some m => Z.eqb v m | None => false end.

Definition filter_val (op : string) (val : Z) (vmin vmax : option Z) : bool :=
  if (is_some vmax) && ((str_in op ["=="; ">="; "="]) && gt_o val vmax) then true else
  if (is_some vmax) && ((String.eqb op ">") && ge_o val vmax) then true else
  if (is_some vmin) && ((str_in op ["=="; "<="; "="]) && lt_o val vmin) then true else
  if (is_some vmin) && ((String.eqb op "<") && le_o val vmin) then true else
  if (String.eqb op "!=") && is_some vmax && is_some vmin && eq_oo vmax vmin && eq_o val vmax then true
  else false.

Definition sat (op : string) (x v : Z) : bool :=
  if str_in op ["=="; "="] then Z.eqb x v else
  if String.eqb op "!=" then negb (Z.eqb x v) else
  if String.eqb op "<" then Z.ltb x v else
  if String.eqb op "<=" then Z.leb x v else
  if String.eqb op ">" then Z.gtb x v else
  if String.eqb op ">=" then Z.geb x v else false.

Definition ops := ["=="; "="; "!="; "<"; "<="; ">"; ">="].

Ltac crush :=
  unfold filter_val, sat, gt_o, ge_o, lt_o, le_o, eq_oo, eq_o, is_some; cbn;
  intros;
  repeat match goal with
  | H : context [Z.gtb ?a ?b] |- _ => destruct (Z.gtb_spec a b)
  | H : context [Z.geb ?a ?b] |- _ => destruct (Z.geb_spec a b)
  | H : context [Z.ltb ?a ?b] |- _ => destruct (Z.ltb_spec a b)
  | H : context [Z.leb ?a ?b] |- _ => destruct (Z.leb_spec a b)
  | H : context [Z.eqb ?a ?b] |- _ => destruct (Z.eqb_spec a b)
  | |- context [Z.gtb ?a ?b] => destruct (Z.gtb_spec a b)
  | |- context [Z.geb ?a ?b] => destruct (Z.geb_spec a b)
  | |- context [Z.ltb ?a ?b] => destruct (Z.ltb_spec a b)
  | |- context [Z.leb ?a ?b] => destruct (Z.leb_spec a b)
  | |- context [Z.eqb ?a ?b] => destruct (Z.eqb_spec a b)
  end; cbn in *; try congruence; try lia.

Definition bounded (x : Z) (vmin vmax : option Z) : Prop :=
  (forall m, vmin = Some m -> m <= x) /\ (forall m, vmax = Some m -> x <= m).

Theorem filter_val_sound : forall op, In op ops -> forall val vmin vmax x,
  bounded x vmin vmax -> filter_val op val vmin vmax = true -> sat op x val = false.
Proof.
  intros op Hop. unfold ops in Hop. cbn in Hop.
  unfold bounded.
  repeat (destruct Hop as [<-|Hop]; [ intros val vmin vmax x [Hlo Hhi];
     destruct vmin as [a|]; destruct vmax as [b|];
     try specialize (Hlo _ eq_refl); try specialize (Hhi _ eq_refl); crush | ]); try contradiction.
Qed.
Print Assumptions filter_val_sound.
