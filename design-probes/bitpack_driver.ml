open Bs
let rec n_of_int i = if i = 0 then N0 else Npos (pos_of_int i)
and pos_of_int i = if i = 1 then XH else if i land 1 = 0 then XO (pos_of_int (i lsr 1)) else XI (pos_of_int (i lsr 1))
let rec int_of_pos = function XH -> 1 | XO p -> 2 * int_of_pos p | XI p -> 2 * int_of_pos p + 1
let int_of_n = function N0 -> 0 | Npos p -> int_of_pos p
let () =
  let n = int_of_string Sys.argv.(1) in
  let bytes = List.init (n*3/8) (fun i -> n_of_int ((i * 37 + 11) land 255)) in
  let t = Sys.time () in
  (match decode (n_of_int 3) bytes (n_of_int n) with
   | Some l -> Printf.printf "decoded %d values, first %d, %.2fs\n" (List.length l) (int_of_n (List.hd l)) (Sys.time () -. t)
   | None -> print_endline "none")
