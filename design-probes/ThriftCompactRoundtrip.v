(* Feasibility probe: thrift compact protocol, nested values, spec writer / fuelled reader,
   round trip.  Varint and zigzag are section parameters here (proved in Codec/Varint.v in the
   real development). *)
From Coq Require Import NArith ZArith List Lia Bool.
Import ListNotations.
Open Scope N_scope.

Section Compact.
Variable uleb : N -> list N.
Variable unuleb : list N -> option (N * list N).
Hypothesis unuleb_uleb : forall n r, unuleb (uleb n ++ r) = Some (n, r).
Variable zz : Z -> N.
Variable unzz : N -> Z.
Hypothesis unzz_zz : forall z, unzz (zz z) = z.

Inductive tv :=
| TBool (b : bool)
| TInt (wide : bool) (z : Z)
| TBin (l : list N)
| TList (ety : N) (l : list tv)
| TStruct (fs : list (N * tv)).

Definition nib (v : tv) : N :=
  match v with
  | TBool true => 1 | TBool false => 2
  | TInt false _ => 5 | TInt true _ => 6
  | TBin _ => 8 | TList _ _ => 9 | TStruct _ => 12
  end.

Definition len {A} (l : list A) : N := N.of_nat (length l).

Definition list_header (ety n : N) : list N :=
  if n <? 15 then [n * 16 + ety] else (240 + ety) :: uleb n.

(* short-form field header only (delta 1..15), as every parquet writer emits *)
Definition field_header (delta nb : N) : list N := [delta * 16 + nb].

Fixpoint wr (v : tv) : list N :=
  match v with
  | TBool _ => []
  | TInt _ z => uleb (zz z)
  | TBin l => uleb (len l) ++ l
  | TList ety l => list_header ety (len l) ++
      (fix go (l : list tv) := match l with [] => [] | x :: r => wr x ++ go r end) l
  | TStruct fs =>
      (fix gof (last : N) (fs : list (N * tv)) :=
         match fs with
         | [] => [0]
         | (id, x) :: r => field_header (id - last) (nib x) ++ wr x ++ gof id r
         end) 0 fs
  end.

Definition wr_elems := (fix go (l : list tv) := match l with [] => [] | x :: r => wr x ++ go r end).
Definition wr_fields := (fix gof (last : N) (fs : list (N * tv)) :=
         match fs with
         | [] => [0]
         | (id, x) :: r => field_header (id - last) (nib x) ++ wr x ++ gof id r
         end).

Lemma wr_list ety l : wr (TList ety l) = list_header ety (len l) ++ wr_elems l.
Proof. reflexivity. Qed.
Lemma wr_struct fs : wr (TStruct fs) = wr_fields 0 fs.
Proof. reflexivity. Qed.

(* well-formedness: list elements all have the declared element nibble (and are not bools),
   field ids strictly increase by 1..15 *)
Fixpoint wf (v : tv) : Prop :=
  match v with
  | TList ety l => ety <> 1 /\ ety <> 2 /\ ety < 16 /\
      (fix all (l : list tv) := match l with [] => True | x :: r => nib x = ety /\ wf x /\ all r end) l
  | TStruct fs =>
      (fix allf (last : N) (fs : list (N * tv)) :=
         match fs with [] => True
         | (id, x) :: r => last < id /\ id - last < 16 /\ wf x /\ allf id r end) 0 fs
  | _ => True
  end.
Definition wf_elems ety := (fix all (l : list tv) := match l with [] => True | x :: r => nib x = ety /\ wf x /\ all r end).
Definition wf_fields := (fix allf (last : N) (fs : list (N * tv)) :=
         match fs with [] => True
         | (id, x) :: r => last < id /\ id - last < 16 /\ wf x /\ allf id r end).

Fixpoint size (v : tv) : nat :=
  match v with
  | TList _ l => S (S ((fix s (l : list tv) := match l with [] => O | x :: r => S (size x + s r) end) l))
  | TStruct fs => S (S ((fix s (fs : list (N * tv)) := match fs with [] => O | (_, x) :: r => S (size x + s r) end) fs))
  | _ => 1%nat
  end.
Definition size_elems := (fix s (l : list tv) := match l with [] => O | x :: r => S (size x + s r) end).
Definition size_fields := (fix s (fs : list (N * tv)) := match fs with [] => O | (_, x) :: r => S (size x + s r) end).

Definition take (n : N) (bs : list N) : option (list N * list N) :=
  if n <=? len bs then Some (firstn (N.to_nat n) bs, skipn (N.to_nat n) bs) else None.

Fixpoint rd (fuel : nat) (nb : N) (bs : list N) {struct fuel} : option (tv * list N) :=
  match fuel with O => None | S f =>
    if nb =? 1 then Some (TBool true, bs) else
    if nb =? 2 then Some (TBool false, bs) else
    if (nb =? 5) || (nb =? 6) then
      match unuleb bs with Some (n, r) => Some (TInt (nb =? 6) (unzz n), r) | None => None end else
    if nb =? 8 then
      match unuleb bs with
      | Some (n, r) => match take n r with Some (d, r') => Some (TBin d, r') | None => None end
      | None => None end else
    if nb =? 9 then
      match bs with
      | [] => None
      | h :: r =>
        let ety := h mod 16 in
        match (if h / 16 =? 15 then unuleb r else Some (h / 16, r)) with
        | Some (n, r') =>
          match rd_elems f (N.to_nat n) ety r' with
          | Some (l, r'') => Some (TList ety l, r'') | None => None end
        | None => None end
      end else
    if nb =? 12 then
      match rd_fields f 0 bs with Some (fs, r) => Some (TStruct fs, r) | None => None end
    else None
  end
with rd_elems (fuel : nat) (n : nat) (ety : N) (bs : list N) {struct fuel} : option (list tv * list N) :=
  match fuel with O => None | S f =>
    match n with
    | O => Some ([], bs)
    | S m => match rd f ety bs with
             | Some (x, r) => match rd_elems f m ety r with
                              | Some (l, r') => Some (x :: l, r') | None => None end
             | None => None end
    end
  end
with rd_fields (fuel : nat) (last : N) (bs : list N) {struct fuel} : option (list (N * tv) * list N) :=
  match fuel with O => None | S f =>
    match bs with
    | [] => None
    | h :: r =>
      if h =? 0 then Some ([], r) else
      let id := last + h / 16 in
      match rd f (h mod 16) r with
      | Some (x, r') => match rd_fields f id r' with
                        | Some (fs, r'') => Some ((id, x) :: fs, r'') | None => None end
      | None => None end
    end
  end.

Lemma take_app (d r : list N) : take (len d) (d ++ r) = Some (d, r).
Proof.
  unfold take, len. rewrite app_length.
  destruct (N.leb_spec (N.of_nat (length d)) (N.of_nat (length d + length r))); [|lia].
  rewrite Nat2N.id. rewrite firstn_app, skipn_app, Nat.sub_diag, firstn_all, skipn_all. cbn.
  now rewrite app_nil_r.
Qed.

Lemma nib_cases v : nib v = 1 \/ nib v = 2 \/ nib v = 5 \/ nib v = 6 \/ nib v = 8 \/ nib v = 9 \/ nib v = 12.
Proof. destruct v as [[]|[]| | |]; cbn; tauto. Qed.

Lemma hdr_split d nb : 0 < d -> d < 16 -> nb < 16 ->
  (d * 16 + nb) / 16 = d /\ (d * 16 + nb) mod 16 = nb /\ (d * 16 + nb =? 0) = false.
Proof.
  intros. repeat split.
  - rewrite N.div_add_l by lia. rewrite N.div_small by lia. lia.
  - rewrite N.add_comm, N.mod_add by lia. now apply N.mod_small.
  - apply N.eqb_neq. lia.
Qed.

Lemma nib_lt v : nib v < 16.
Proof. destruct (nib_cases v) as [H|[H|[H|[H|[H|[H|H]]]]]]; rewrite H; lia. Qed.

Theorem rd_wr : forall fuel,
  (forall v rest, (size v <= fuel)%nat -> wf v -> rd fuel (nib v) (wr v ++ rest) = Some (v, rest)) /\
  (forall l ety rest, (size_elems l < fuel)%nat -> wf_elems ety l ->
      rd_elems fuel (length l) ety (wr_elems l ++ rest) = Some (l, rest)) /\
  (forall fs last rest, (size_fields fs < fuel)%nat -> wf_fields last fs ->
      rd_fields fuel last (wr_fields last fs ++ rest) = Some (fs, rest)).
Proof.
  induction fuel as [|f [IHv [IHl IHf]]].
  - split; [|split].
    + intros v rest Hs Hw. exfalso. destruct v; cbn [size] in Hs; lia.
    + intros l ety rest Hs. exfalso. lia.
    + intros fs last rest Hs. exfalso. lia.
  - repeat split.
    + intros v rest Hs Hw. destruct v as [[]|w z|d|ety l|fs].
      * reflexivity.
      * reflexivity.
      * destruct w; cbn [rd nib wr]; cbn; rewrite unuleb_uleb, unzz_zz; reflexivity.
      * cbn [rd nib wr]. cbn. rewrite <- app_assoc, unuleb_uleb, take_app. reflexivity.
      * rewrite wr_list. cbn [nib rd]. cbn [N.eqb orb Pos.eqb].
        destruct Hw as (He1 & He2 & He16 & Hall).
        assert (Hsz : (size_elems l < f)%nat) by (cbn [size] in Hs; fold size_elems in Hs; lia).
        unfold list_header. destruct (N.ltb_spec (len l) 15) as [Hn|Hn].
        -- cbn [app].
           assert (Hd : (len l * 16 + ety) / 16 = len l) by (rewrite N.div_add_l by lia; rewrite N.div_small by lia; lia).
           assert (Hm : (len l * 16 + ety) mod 16 = ety) by (rewrite N.add_comm, N.mod_add by lia; now apply N.mod_small).
           rewrite Hd, Hm. destruct (N.eqb_spec (len l) 15); [lia|].
           unfold len. rewrite Nat2N.id.
           rewrite (IHl l ety rest) by (try lia; exact Hall). reflexivity.
        -- cbn [app].
           assert (Hd : (240 + ety) / 16 = 15) by (replace (240 + ety) with (15 * 16 + ety) by lia; rewrite N.div_add_l by lia; rewrite N.div_small by lia; lia).
           assert (Hm : (240 + ety) mod 16 = ety) by (replace (240 + ety) with (ety + 15 * 16) by lia; rewrite N.mod_add by lia; now apply N.mod_small).
           rewrite Hd, Hm. cbn [N.eqb Pos.eqb]. rewrite <- app_assoc, unuleb_uleb.
           unfold len. rewrite Nat2N.id.
           rewrite (IHl l ety rest) by (try lia; exact Hall). reflexivity.
      * rewrite wr_struct. cbn [nib rd]. cbn [N.eqb orb Pos.eqb].
        assert (Hsz : (size_fields fs < f)%nat) by (cbn [size] in Hs; fold size_fields in Hs; lia).
        rewrite (IHf fs 0 rest) by (try lia; exact Hw). reflexivity.
    + intros l ety rest Hs Hw. destruct l as [|x r].
      * reflexivity.
      * cbn [length rd_elems wr_elems]. fold wr_elems. destruct Hw as (Hn & Hx & Hr).
        cbn [size_elems] in Hs. fold size_elems in Hs.
        rewrite <- app_assoc. rewrite <- Hn.
        rewrite (IHv x) by (try lia; assumption).
        rewrite Hn.
        rewrite (IHl r ety rest) by (try lia; assumption). reflexivity.
    + intros fs last rest Hs Hw. destruct fs as [|[id x] r].
      * reflexivity.
      * cbn [wr_fields]. fold wr_fields. destruct Hw as (Hlt & Hd & Hx & Hr).
        cbn [size_fields] in Hs. fold size_fields in Hs.
        unfold field_header. cbn [app rd_fields].
        destruct (hdr_split (id - last) (nib x)) as (H1 & H2 & H3); try lia; [apply nib_lt|].
        rewrite H1, H2, H3. replace (last + (id - last)) with id by lia.
        rewrite <- app_assoc. rewrite (IHv x) by (try lia; assumption).
        rewrite (IHf r id rest) by (try lia; assumption). reflexivity.
Qed.
End Compact.
Print Assumptions rd_wr.
