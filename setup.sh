#!/bin/bash
# Offline build of the verification framework (MANIFEST.setup_cmd).
set -e
cd "$(dirname "$0")"
export PYTHONHASHSEED=0 PYTHONDONTWRITEBYTECODE=1 PIP_NO_INDEX=1
/venv/bin/python - <<'PY'
import sys, time
sys.path.insert(0, ".")
from harness import common as C
t = time.time()
C.coq_lib();            print("coq library built  %.0fs" % (time.time() - t))
C.pqref();              print("pqref built        %.0fs" % (time.time() - t))
C.shadow(False);        print("native + shadow    %.0fs" % (time.time() - t))
try:
    C.shadow(True);     print("sanitised native   %.0fs" % (time.time() - t))
except Exception as e:
    print("sanitised build failed (C12 will report it):", str(e)[:300])
bad = C.hygiene()
if bad:
    print("HYGIENE:", bad); sys.exit(1)
d = C.pyx_vs_c()
print("pyx-vs-c differing lines:", len(d))
PY
echo setup done
