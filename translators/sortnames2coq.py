"""sortnames2coq - Python `ast` -> Gallina for ParquetFile._sort_part_names (api.py), the two-pass renumbering of part files that
Dataset/Edit.v `sort_pnames_fixed` mirrors by hand (property C09).

The method is read statement by statement against the shape below; the PARAMETERS of the shape (what a file is keyed by, which index is
kept for a file, the comparison that selects the files to rename, the two file-name formats, which name is source / destination in which
pass, the order of the passes, what the row groups' paths are set to) are taken from the source and emitted as Gallina over the
vocabulary of Edit.v / PathPrelude.v:

    files = {}
    for rgid, rg in enumerate(self.fmd.row_groups):
        files.setdefault(rg.columns[0].file_path, (rgid, []))[1].append(rg)           key = path, first index kept
    renames = [(rgid, fname, rgs) for fname, (rgid, rgs) in files.items() if int(PART_ID.match(fname)['i']) != rgid]
    for rgid, fname, _ in renames:   rename(f'{basepath}/{fname}', join_path(basepath, partitions(fname), f'<TMP FORMAT>'))
    for rgid, fname, rgs in renames: rename(join_path(basepath, parts, f'<TMP FORMAT>'), join_path(basepath, join_path(parts, f'<FINAL FORMAT>')))
                                     + every column chunk of rgs: file_path = the final relative name

Anything else -> TranslatorError (fail closed: hand model + correspondence, recorded as translator_fallback).  The theorems over the
generated text are in coq/genproofs/GenSortNamesProofs.v."""
import ast
import os


class TranslatorError(Exception):
    pass


def _fail(node, msg):
    raise TranslatorError("%s at line %s: %s" % (msg, getattr(node, "lineno", "?"), ast.dump(node)[:220] if isinstance(node, ast.AST) else node))


def _method(tree, cls, name):
    for n in tree.body:
        if isinstance(n, ast.ClassDef) and n.name == cls:
            for m in n.body:
                if isinstance(m, ast.FunctionDef) and m.name == name:
                    return m
    raise TranslatorError("method %s.%s not found" % (cls, name))


def _src(n):
    return ast.unparse(n)


def _bytes_lit(s):
    return "[%s]" % "; ".join(str(c) for c in s.encode("utf-8"))


def _fstring_fmt(e, var):
    """f'PRE{var}SUF' -> (PRE, SUF)"""
    if not isinstance(e, ast.JoinedStr):
        _fail(e, "expected an f-string")
    pre, suf, seen = "", "", False
    for v in e.values:
        if isinstance(v, ast.Constant) and isinstance(v.value, str):
            if seen:
                suf += v.value
            else:
                pre += v.value
        elif isinstance(v, ast.FormattedValue) and isinstance(v.value, ast.Name) and v.value.id == var and v.conversion == -1 and v.format_spec is None and not seen:
            seen = True
        else:
            _fail(e, "f-string is not PRE{%s}SUF" % var)
    if not seen:
        _fail(e, "f-string does not hold {%s}" % var)
    return pre, suf


def _is_call(e, name, nargs=None):
    return isinstance(e, ast.Call) and isinstance(e.func, ast.Name) and e.func.id == name and not e.keywords and (nargs is None or len(e.args) == nargs)


def translate(tree):
    fn = _method(tree, "ParquetFile", "_sort_part_names")
    body = [s for s in fn.body if not (isinstance(s, ast.Expr) and isinstance(s.value, ast.Constant))]
    # --- 1. files = {} ; for rgid, rg in enumerate(self.fmd.row_groups): files.setdefault(KEY, (rgid, []))[1].append(rg)
    if not (len(body) >= 2 and _src(body[0]) == "files = {}"):
        _fail(body[0], "first statement is not files = {}")
    loop = body[1]
    if not (isinstance(loop, ast.For) and _src(loop.target) == "(rgid, rg)" and _src(loop.iter) == "enumerate(self.fmd.row_groups)"
            and len(loop.body) == 1 and not loop.orelse):
        _fail(loop, "second statement is not `for rgid, rg in enumerate(self.fmd.row_groups): <one statement>`")
    st = _src(loop.body[0])
    if st != "files.setdefault(rg.columns[0].file_path, (rgid, []))[1].append(rg)":
        _fail(loop.body[0], "files are not keyed by the path with the first row-group index kept (setdefault)")
    # --- 2. renames = [(rgid, fname, rgs) for fname, (rgid, rgs) in files.items() if int(PART_ID.match(fname)['i']) <op> rgid]
    rest = body[2:]
    ren = rest[0]
    if not (isinstance(ren, ast.Assign) and _src(ren.targets[0]) == "renames" and isinstance(ren.value, ast.ListComp)):
        _fail(ren, "third statement is not renames = [...]")
    lc = ren.value
    if not (_src(lc.elt) == "(rgid, fname, rgs)" and len(lc.generators) == 1 and _src(lc.generators[0].target) == "(fname, (rgid, rgs))"
            and _src(lc.generators[0].iter) == "files.items()" and len(lc.generators[0].ifs) == 1):
        _fail(lc, "renames is not [(rgid, fname, rgs) for fname, (rgid, rgs) in files.items() if <cond>]")
    cond = lc.generators[0].ifs[0]
    if not (isinstance(cond, ast.Compare) and len(cond.ops) == 1 and len(cond.comparators) == 1):
        _fail(cond, "condition is not a single comparison")
    sides = {_src(cond.left), _src(cond.comparators[0])}
    if sides != {"int(PART_ID.match(fname)['i'])", "rgid"}:
        _fail(cond, "condition does not compare int(PART_ID.match(fname)['i']) with rgid")
    if isinstance(cond.ops[0], ast.NotEq):
        keep = "negb (opt_N_eqb (part_id (snd ip)) (fst ip))"
    elif isinstance(cond.ops[0], ast.Eq):
        keep = "opt_N_eqb (part_id (snd ip)) (fst ip)"
    else:
        _fail(cond, "comparison operator outside the fragment")
    # --- 3. plumbing statements (basepath = ..., rename = ...) then exactly two loops over renames, then the summary write
    loops = [s for s in rest[1:] if isinstance(s, ast.For)]
    others = [s for s in rest[1:] if not isinstance(s, ast.For)]
    for s in others:
        t = _src(s)
        if not (t.startswith("basepath = self.basepath") or t.startswith("rename = ") or t.startswith("if write_fmd")):
            _fail(s, "statement outside the shape")
    if len(loops) != 2 or any(_src(l.iter) != "renames" or l.orelse for l in loops):
        _fail(fn, "expected exactly two `for ... in renames` loops (two-pass rename)")

    def env_of(loop_):
        """straight-line assignments of the loop body -> {name: expr}, the rename call, the remaining statements"""
        env, call, tail = {}, None, []
        for s in loop_.body:
            if isinstance(s, ast.Assign) and len(s.targets) == 1 and isinstance(s.targets[0], ast.Name) and call is None:
                env[s.targets[0].id] = s.value
            elif isinstance(s, ast.Expr) and _is_call(s.value, "rename", 2) and call is None:
                call = s.value
            else:
                tail.append(s)
        if call is None:
            _fail(loop_, "no rename(src, dst) call in the loop")
        return env, call, tail

    def resolve(e, env):
        return resolve(env[e.id], env) if isinstance(e, ast.Name) and e.id in env else e

    def rel_name(e, env):
        """expression for a path below basepath -> ('orig',) | ('fmt', PRE, SUF): the file's own name, or DIR/PRE<rgid>SUF"""
        e = resolve(e, env)
        if isinstance(e, ast.JoinedStr) and _src(e) in ("f'{basepath}/{fname}'",):
            return ("orig",)
        if _is_call(e, "join_path"):
            args = [resolve(a, env) for a in e.args]
            if args and _src(args[0]) == "basepath":
                args = args[1:]
            if len(args) == 1 and _is_call(args[0], "join_path"):
                args = [resolve(a, env) for a in args[0].args]
            if len(args) == 2 and _src(args[0]) == "partitions(fname)":
                return ("fmt",) + _fstring_fmt(args[1], "rgid")
            if len(args) == 1 and _src(args[0]) == "fname":
                return ("orig",)
        _fail(e, "path expression outside the fragment")

    e1, c1, t1 = env_of(loops[0])
    e2, c2, t2 = env_of(loops[1])
    if _src(loops[0].target) not in ("(rgid, fname, _)", "(rgid, fname, rgs)") or _src(loops[1].target) != "(rgid, fname, rgs)":
        _fail(loops[0], "loop targets are not (rgid, fname, _) / (rgid, fname, rgs)")
    if t1:
        _fail(t1[0], "first pass does more than rename")
    src1, dst1 = rel_name(c1.args[0], e1), rel_name(c1.args[1], e1)
    src2, dst2 = rel_name(c2.args[0], e2), rel_name(c2.args[1], e2)
    # the row groups of the file get the final relative name
    if not (len(t2) == 1 and isinstance(t2[0], ast.For) and _src(t2[0].iter) == "rgs" and len(t2[0].body) == 1
            and isinstance(t2[0].body[0], ast.For) and _src(t2[0].body[0].iter) == "rg.columns" and len(t2[0].body[0].body) == 1
            and isinstance(t2[0].body[0].body[0], ast.Assign) and _src(t2[0].body[0].body[0].targets[0]) == "col.file_path"):
        _fail(loops[1], "second pass does not set col.file_path of every column chunk of the file's row groups")
    newpath = t2[0].body[0].body[0].value
    np_ = resolve(newpath, e2)
    if not (_is_call(np_, "join_path", 2) and _src(resolve(np_.args[0], e2)) == "partitions(fname)"):
        _fail(newpath, "new file_path is not join_path(partitions(fname), f'...')")
    relabel_fmt = _fstring_fmt(resolve(np_.args[1], e2), "rgid")

    def g(nm):
        if nm[0] == "orig":
            return "(snd ip)"
        return "(join (dir_of (snd ip)) (py_fmt_i %s %s (fst ip)))" % (_bytes_lit(nm[1]), _bytes_lit(nm[2]))
    text = """(* GENERATED by translators/sortnames2coq.py from ParquetFile._sort_part_names (fastparquet/api.py) - do not edit. *)
From Coq Require Import NArith ZArith List Bool.
From Pq Require Import Base.Bytes Dataset.FS Dataset.FsPaths Dataset.PathPrelude Dataset.Edit.
Import ListNotations.
Open Scope N_scope.

(* renames = [... for fname, (rgid, rgs) in files.items() if %s]; files: path -> index of the FIRST row group it holds *)
Definition gen_keep (ip : N * path) : bool := %s.
Definition gen_renames (sum : list entry) : option (list (N * path)) :=
  if forallb (fun e => match part_id (fst e) with Some _ => true | None => false end) sum
  then Some (filter gen_keep (first_idx 0 sum []))
  else None.

(* 1st pass: rename(src, dst) for every entry, in order; 2nd pass likewise *)
Definition gen_pass1 (ip : N * path) : path * path := (%s, %s).
Definition gen_pass2 (ip : N * path) : path * path := (%s, %s).
(* the path the file's row groups carry afterwards *)
Definition gen_new_path (ip : N * path) : path := %s.

Definition gen_relabel (rn : list (N * path)) (e : entry) : entry :=
  match find (fun ip => bytes_eqb (snd ip) (fst e)) rn with
  | Some ip => (gen_new_path ip, snd e)
  | None => e
  end.

Definition gen_sort_pnames (s : state) : option state :=
  match gen_renames (st_sum s) with
  | None => None
  | Some rn =>
    match rename_all (map gen_pass1 rn) (st_dir s) with
    | None => None
    | Some d1 =>
      match rename_all (map gen_pass2 rn) d1 with
      | None => None
      | Some d2 => Some {| st_dir := d2; st_sum := map (gen_relabel rn) (st_sum s); st_num := st_num s;
                           st_part := st_part s; st_sch := st_sch s |}
      end
    end
  end.
""" % (_src(cond), keep, g(src1), g(dst1), g(src2), g(dst2), g(("fmt",) + relabel_fmt))
    return text.replace("(*", "(*").replace("['i']", "[i]")


def run(repo, gen_dir):
    try:
        tree = ast.parse(open(os.path.join(repo, "fastparquet", "api.py")).read())
        text = translate(tree)
    except (TranslatorError, SyntaxError, OSError, AttributeError, IndexError) as e:
        return {"status": "translator_fallback", "reason": str(e)[:400]}
    os.makedirs(gen_dir, exist_ok=True)
    path = os.path.join(gen_dir, "GenSortNames.v")
    with open(path, "w") as f:
        f.write(text)
    return {"status": "translated", "file": path, "text": text}


if __name__ == "__main__":
    import sys
    r = run(sys.argv[1], sys.argv[2])
    print(r.get("text") or r)
