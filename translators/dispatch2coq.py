#!/usr/bin/env python3
"""dispatch2coq: the Python-level DISPATCH around the native codecs -> Gallina (C11, C12).

  usage: dispatch2coq.py <fastparquet/encoding.py> <fastparquet/core.py>      (Gallina module on stdout)

What is regenerated (vocabulary of leaves: coq/theories/Impl/Dispatch.v):
  decode_typemap        encoding.DECODE_TYPEMAP as (parquet Type id, item size in bytes) pairs
  read_plain_dispatch   encoding.read_plain: the if/return tree -> pdec leaves
                          np.frombuffer(memoryview(raw_bytes), dtype=<d>, count=count)  PFixed <size of d> count
                          read_plain_boolean(raw_bytes, count)                          PBool count
                          np.array([bytes(raw_bytes)[.decode()]], dtype='O')            PWhole utf
                          unpack_byte_array(raw_bytes, count, utf=utf)                  PUnpack count utf
  v1_index_dispatch     core.read_data_page:    the if-chain on (bit_width, selfmade) that picks the index decoder
  v2_cat_dispatch       core.read_data_page_v2: the same chain of the categorical / RLE branch
  v2_deref_dispatch     core.read_data_page_v2: the same chain of the dictionary de-reference branch
                          leaves: an array view `'int%i' % bit_width`                    DFast
                                  read_rle_bit_packed_hybrid(.., NumpyIO(<buf>..), itemsize=k)   DGeneric <item size of buf's allocation> k
                                  np.zeros(..) and no decoder call                      DZeros
  read_plain_boolean_gen  encoding.read_plain_boolean: count handed to read_bitpacked1, allocation of the output, returned slice
  one_run_check         core._is_one_bitpacked_run: the condition on (run header, number of values)
  v1_delta_alloc        core.read_data_page: (item size of the np.empty handed to delta_binary_unpack, its longval argument)
Anything outside these shapes: fail closed (exit status 2, source location on stderr); the check then falls back to
the pinned text + the correspondence run on the real page readers and records `translator_fallback`.
"""
import ast
import sys


class Unsupported(Exception):
    pass


def fail(node, msg, fname="?"):
    raise Unsupported("%s:%d:%d: %s" % (fname, getattr(node, "lineno", 0), getattr(node, "col_offset", 0), msg))


TYPE_IDS = {"BOOLEAN": 0, "INT32": 1, "INT64": 2, "INT96": 3, "FLOAT": 4, "DOUBLE": 5, "BYTE_ARRAY": 6,
            "FIXED_LEN_BYTE_ARRAY": 7}
NP_SIZES = {"int8": 1, "uint8": 1, "bool": 1, "bool_": 1, "int16": 2, "uint16": 2, "int32": 4, "uint32": 4, "float32": 4,
            "int64": 8, "uint64": 8, "float64": 8}


def type_id(e, fname):
    """parquet_thrift.Type.X -> id"""
    if (isinstance(e, ast.Attribute) and e.attr in TYPE_IDS and isinstance(e.value, ast.Attribute) and e.value.attr == "Type"):
        return TYPE_IDS[e.attr]
    fail(e, "expected parquet_thrift.Type.<NAME>", fname)


def dtype_size(e, fname, nexpr=None):
    """item size (Gallina N expression) of a numpy dtype expression"""
    if isinstance(e, ast.Attribute) and isinstance(e.value, ast.Name) and e.value.id == "np" and e.attr in NP_SIZES:
        return str(NP_SIZES[e.attr])
    if isinstance(e, ast.Constant) and isinstance(e.value, str):
        s = e.value
        if s in NP_SIZES:
            return str(NP_SIZES[s])
        if s[:1] == "S" and s[1:].isdigit():
            return s[1:]
    if isinstance(e, ast.Call) and isinstance(e.func, ast.Attribute) and e.func.attr == "dtype" and len(e.args) == 1:
        a = e.args[0]
        if isinstance(a, ast.Constant):
            return dtype_size(a, fname, nexpr)
        # np.dtype('S%i' % width)
        if (isinstance(a, ast.BinOp) and isinstance(a.op, ast.Mod) and isinstance(a.left, ast.Constant)
                and a.left.value == "S%i" and nexpr is not None):
            return nexpr(a.right)
    if isinstance(e, ast.IfExp) and nexpr is not None:
        return "(if %s then %s else %s)" % (nexpr(e.test, boolean=True), dtype_size(e.body, fname, nexpr), dtype_size(e.orelse, fname, nexpr))
    fail(e, "unsupported dtype expression %s" % ast.unparse(e)[:60], fname)


class Tr:
    """expressions over a fixed vocabulary of names: N-valued and bool-valued"""

    def __init__(self, fname, nnames, bnames, env=None):
        self.fname, self.nn, self.bn = fname, dict(nnames), dict(bnames)
        self.env = dict(env or {})

    def n(self, e, boolean=False):
        if boolean:
            return self.b(e)
        if isinstance(e, ast.Constant) and isinstance(e.value, int) and not isinstance(e.value, bool) and e.value >= 0:
            return str(e.value)
        if isinstance(e, ast.Name) and e.id in self.env:
            return self.env[e.id]
        if isinstance(e, ast.Name) and e.id in self.nn:
            return self.nn[e.id]
        if isinstance(e, ast.Attribute) and ast.unparse(e) in self.nn:
            return self.nn[ast.unparse(e)]
        if isinstance(e, ast.Call) and isinstance(e.func, ast.Name) and e.func.id == "len" and len(e.args) == 1 \
                and ast.unparse(e) in self.nn:
            return self.nn[ast.unparse(e)]
        if isinstance(e, ast.IfExp):
            return "(if %s then %s else %s)" % (self.b(e.test), self.n(e.body), self.n(e.orelse))
        if isinstance(e, ast.Attribute) and e.attr in TYPE_IDS:
            return str(type_id(e, self.fname))
        fail(e, "unsupported integer expression %s" % ast.unparse(e)[:60], self.fname)

    def b(self, e):
        if isinstance(e, ast.Name) and e.id in self.bn:
            return self.bn[e.id]
        if isinstance(e, ast.Call) and isinstance(e.func, ast.Name) and e.func.id == "_is_one_bitpacked_run":
            # core._is_one_bitpacked_run(io, n): the index block is ONE bit-packed run holding at least n values
            return "one_run"
        if isinstance(e, ast.Constant) and e.value in (0, False):
            return "false"
        if isinstance(e, ast.Name) and (e.id in self.nn or e.id in self.env):
            return "negb (%s =? 0)" % self.n(e)
        if isinstance(e, ast.BoolOp):
            op = " && " if isinstance(e.op, ast.And) else " || "
            return "(" + op.join(self.b(v) for v in e.values) + ")"
        if isinstance(e, ast.UnaryOp) and isinstance(e.op, ast.Not):
            return "negb (%s)" % self.b(e.operand)
        if isinstance(e, ast.Compare) and len(e.ops) == 1:
            op, l, r = e.ops[0], e.left, e.comparators[0]
            if isinstance(op, ast.In) and isinstance(r, (ast.List, ast.Tuple)):
                return "memN %s [%s]" % (self.n(l), "; ".join(self.n(x) for x in r.elts))
            if isinstance(op, ast.In) and isinstance(r, ast.Name) and r.id == "DECODE_TYPEMAP":
                return "in_tab %s decode_typemap" % self.n(l)
            tab = {ast.Eq: "(%s =? %s)", ast.NotEq: "negb (%s =? %s)", ast.Lt: "(%s <? %s)", ast.LtE: "(%s <=? %s)",
                   ast.Gt: "(%s <? %s)", ast.GtE: "(%s <=? %s)"}
            if type(op) in tab:
                a, c = self.n(l), self.n(r)
                if isinstance(op, (ast.Gt, ast.GtE)):
                    a, c = c, a
                return tab[type(op)] % (a, c)
        fail(e, "unsupported condition %s" % ast.unparse(e)[:60], self.fname)


def is_doc(s):
    return isinstance(s, ast.Expr) and isinstance(s.value, ast.Constant) and isinstance(s.value.value, str)


# ------------------------------------------------------------------------------------------------
# encoding.py
# ------------------------------------------------------------------------------------------------

def typemap(tree, fname):
    for n in tree.body:
        if isinstance(n, ast.Assign) and len(n.targets) == 1 and isinstance(n.targets[0], ast.Name) \
                and n.targets[0].id == "DECODE_TYPEMAP":
            if not isinstance(n.value, ast.Dict):
                fail(n, "DECODE_TYPEMAP is not a dict literal", fname)
            return [(type_id(k, fname), int(dtype_size(v, fname))) for k, v in zip(n.value.keys, n.value.values)]
    raise Unsupported("%s: DECODE_TYPEMAP not found" % fname)


def read_plain(tree, fname):
    fn = [n for n in tree.body if isinstance(n, ast.FunctionDef) and n.name == "read_plain"]
    if len(fn) != 1:
        raise Unsupported("%s: function read_plain not found exactly once" % fname)
    fn = fn[0]
    args = [a.arg for a in fn.args.args]
    if args != ["raw_bytes", "type_", "count", "width", "utf", "stat"]:
        fail(fn, "read_plain parameters changed: %r" % (args,), fname)
    nn = {"type_": "type_", "count": "count", "width": "width", "len(raw_bytes)": "rawlen"}
    bn = {"utf": "utf", "stat": "stat"}

    def leaf(e, tr, dt):
        src = ast.unparse(e)
        if isinstance(e, ast.Call):
            f = ast.unparse(e.func)
            kw = {k.arg: k.value for k in e.keywords}
            if f == "np.frombuffer" and len(e.args) == 1 and ast.unparse(e.args[0]) == "memoryview(raw_bytes)" \
                    and set(kw) == {"dtype", "count"} and ast.unparse(kw["count"]) == "count":
                d = kw["dtype"]
                if isinstance(d, ast.Name) and d.id in dt:
                    return "PFixed %s count" % dt[d.id]
                return "PFixed %s count" % dtype_size(d, fname, tr.n)
            if f == "read_plain_boolean" and [ast.unparse(a) for a in e.args] == ["raw_bytes", "count"] and not kw:
                return "PBool count"
            if f == "unpack_byte_array" and [ast.unparse(a) for a in e.args] == ["raw_bytes", "count"] \
                    and set(kw) == {"utf"} and ast.unparse(kw["utf"]) == "utf":
                return "PUnpack count utf"
            if src == "np.array([bytes(raw_bytes).decode()], dtype='O')":
                return "PWhole true"
            if src == "np.array([bytes(raw_bytes)], dtype='O')":
                return "PWhole false"
        fail(e, "unsupported return value %s" % src[:70], fname)

    def block(stmts, env, dt, ind):
        pad = "  " * ind
        if not stmts:
            return pad + "PNone"
        s, rest = stmts[0], stmts[1:]
        tr = Tr(fname, nn, bn, env)
        if is_doc(s):
            return block(rest, env, dt, ind)
        if isinstance(s, ast.Return) and s.value is not None:
            return pad + leaf(s.value, tr, dt)
        if isinstance(s, ast.If):
            return (pad + "if %s then\n" % tr.b(s.test) + block(s.body + rest, env, dt, ind + 1) + "\n" + pad + "else\n"
                    + block(s.orelse + rest, env, dt, ind + 1))
        if isinstance(s, ast.Assign) and len(s.targets) == 1 and isinstance(s.targets[0], ast.Name):
            v = s.targets[0].id
            if v == "dtype":
                # dtype = DECODE_TYPEMAP[type_]   |   dtype = np.dtype('S%i' % width)
                if ast.unparse(s.value) == "DECODE_TYPEMAP[type_]":
                    return block(rest, env, dict(dt, dtype="(tab_get type_ decode_typemap)"), ind)
                return block(rest, env, dict(dt, dtype="(%s)" % dtype_size(s.value, fname, tr.n)), ind)
            if v == "width":
                return block(rest, dict(env, width="(%s)" % tr.n(s.value)), dt, ind)
        fail(s, "unsupported statement %s" % ast.unparse(s)[:70], fname)

    # PWhole carries `utf`: the two stat leaves are `if utf then PWhole true else PWhole false`
    return block(fn.body, {}, {}, 1)


ARITH = {ast.Add: "N.add", ast.Sub: "N.sub", ast.Mult: "N.mul", ast.FloorDiv: "N.div", ast.Mod: "N.modulo"}


def arith(e, names, fname):
    if isinstance(e, ast.Constant) and isinstance(e.value, int) and not isinstance(e.value, bool) and e.value >= 0:
        return str(e.value)
    if isinstance(e, ast.Name) and e.id in names:
        return names[e.id]
    if isinstance(e, ast.BinOp) and type(e.op) in ARITH:
        return "(%s %s %s)" % (ARITH[type(e.op)], arith(e.left, names, fname), arith(e.right, names, fname))
    if isinstance(e, ast.Call) and isinstance(e.func, ast.Name) and e.func.id == "len" and len(e.args) == 1 \
            and ast.unparse(e.args[0]) in names:
        return "(lenN %s)" % names[ast.unparse(e.args[0])]
    fail(e, "unsupported arithmetic %s" % ast.unparse(e)[:60], fname)


def read_plain_boolean(tree, fname):
    """data = np.frombuffer(raw_bytes, dtype='uint8'); out = out or np.empty(<cap>, dtype=bool);
       read_bitpacked1(NumpyIO(data), <count>, NumpyIO(out.view('uint8'))); return out[:<n>]
       -> c_read_bitpacked1 raw <count> <cap>, first <n> values"""
    fn = [n for n in tree.body if isinstance(n, ast.FunctionDef) and n.name == "read_plain_boolean"]
    if len(fn) != 1:
        raise Unsupported("%s: function read_plain_boolean not found exactly once" % fname)
    fn = fn[0]
    if [a.arg for a in fn.args.args] != ["raw_bytes", "count", "out"]:
        fail(fn, "read_plain_boolean parameters changed", fname)
    names = {"count": "count"}
    bufs = {}          # python name -> "raw" | "out"
    cap = cnt = sl = None
    for s_ in fn.body:
        if is_doc(s_):
            continue
        if isinstance(s_, ast.Assign) and len(s_.targets) == 1 and isinstance(s_.targets[0], ast.Name):
            v, e = s_.targets[0].id, s_.value
            src = ast.unparse(e)
            if src in ("np.frombuffer(raw_bytes, dtype='uint8')", "np.frombuffer(raw_bytes, dtype=np.uint8)"):
                bufs[v] = "raw"
                continue
            # out = out or np.empty(<cap>, dtype=bool)
            if isinstance(e, ast.BoolOp) and isinstance(e.op, ast.Or) and len(e.values) == 2 and ast.unparse(e.values[0]) == "out":
                e = e.values[1]
            if isinstance(e, ast.Call) and ast.unparse(e.func) == "np.empty" and len(e.args) == 1 \
                    and [ast.unparse(k.value) for k in e.keywords if k.arg == "dtype"] in (["bool"], ["np.bool_"], ["'bool'"]):
                cap = arith(e.args[0], names, fname)
                bufs[v] = "out"
                continue
            if isinstance(e, (ast.BinOp, ast.Constant, ast.Name)):
                names[v] = arith(e, names, fname)
                continue
        if isinstance(s_, ast.Expr) and isinstance(s_.value, ast.Call) and ast.unparse(s_.value.func) == "read_bitpacked1":
            a = s_.value.args
            if len(a) != 3 or s_.value.keywords:
                fail(s_, "read_bitpacked1 call shape changed", fname)
            i_ok = any(ast.unparse(a[0]) == "NumpyIO(%s)" % k for k, r in bufs.items() if r == "raw")
            o_ok = any(ast.unparse(a[2]) in ("NumpyIO(%s.view('uint8'))" % k, 'NumpyIO(%s.view("uint8"))' % k) for k, r in bufs.items() if r == "out")
            if not (i_ok and o_ok):
                fail(s_, "read_bitpacked1 is not handed the page bytes / the output array", fname)
            cnt = arith(a[1], names, fname)
            continue
        if isinstance(s_, ast.Return) and isinstance(s_.value, ast.Subscript) and isinstance(s_.value.slice, ast.Slice) \
                and bufs.get(ast.unparse(s_.value.value)) == "out":
            sli = s_.value.slice
            if (sli.lower is not None and ast.unparse(sli.lower) != "0") or sli.step is not None or sli.upper is None:
                fail(s_, "unsupported slice of the output", fname)
            sl = arith(sli.upper, names, fname)
            continue
        fail(s_, "unsupported statement %s" % ast.unparse(s_)[:70], fname)
    if None in (cap, cnt, sl):
        raise Unsupported("%s: read_plain_boolean: allocation / decoder call / returned slice not all found" % fname)
    return ("  match c_read_bitpacked1 raw %s %s with\n  | Ok d => Ok (takeN %s (d_vals d))\n  | OOB => OOB | UB => UB | Fuel => Fuel\n  end"
            % (cnt, cap, sl))


# ------------------------------------------------------------------------------------------------
# core.py
# ------------------------------------------------------------------------------------------------

def mentions(node, name):
    return any(isinstance(n, ast.Name) and n.id == name for n in ast.walk(node))


def calls(node, attr):
    return [n for n in ast.walk(node) if isinstance(n, ast.Call) and
            ((isinstance(n.func, ast.Attribute) and n.func.attr == attr) or (isinstance(n.func, ast.Name) and n.func.id == attr))]


def derived_names(fn):
    """locals that carry the outcome of core._is_one_bitpacked_run (e.g. `run_header`)"""
    out = set()
    for n in ast.walk(fn):
        if isinstance(n, ast.Assign) and len(n.targets) == 1 and isinstance(n.targets[0], ast.Name) \
                and isinstance(n.value, ast.Call) and isinstance(n.value.func, ast.Name) and n.value.func.id == "_is_one_bitpacked_run":
            out.add(n.targets[0].id)
    return out


def index_chains(fn):
    """outermost If statements whose test mentions bit_width (or a local derived from it through
    _is_one_bitpacked_run) and that contain the generic decoder call; with the statements of the same block
    that precede them (they may set the derived locals)"""
    out = []
    der = derived_names(fn)

    def walk(stmts):
        for i, s in enumerate(stmts):
            if isinstance(s, ast.If) and (mentions(s.test, "bit_width") or any(mentions(s.test, d) for d in der)) \
                    and calls(s, "read_rle_bit_packed_hybrid"):
                out.append((s, stmts[:i]))
                continue
            for field in ("body", "orelse", "finalbody"):
                sub = getattr(s, field, None)
                if isinstance(sub, list):
                    walk(sub)
    walk(fn.body)
    return out


def is_view(s):
    """an array view of the page bytes as integers of bit_width bits: `'int%i' % bit_width`"""
    return any(isinstance(x, ast.BinOp) and isinstance(x.op, ast.Mod) and isinstance(x.left, ast.Constant)
               and x.left.value in ("int%i", "uint%i") and ast.unparse(x.right) == "bit_width" for x in ast.walk(s))


def index_tree(chain_prefix, fname, allocs0):
    chain, prefix = chain_prefix
    nn = {"bit_width": "bit_width"}
    bn = {"selfmade": "selfmade", "n_values": "nonempty", "nval": "nonempty"}
    tr = Tr(fname, nn, bn)
    # derived locals set before the chain:  name = 0  /  if <cond>: name = _is_one_bitpacked_run(..)
    der = set()
    for n in ast.walk(chain):
        pass
    for s in prefix:
        for n in ast.walk(s):
            if isinstance(n, ast.Assign) and len(n.targets) == 1 and isinstance(n.targets[0], ast.Name) \
                    and isinstance(n.value, ast.Call) and isinstance(n.value.func, ast.Name) and n.value.func.id == "_is_one_bitpacked_run":
                der.add(n.targets[0].id)
    for s in prefix:
        if isinstance(s, ast.Assign) and len(s.targets) == 1 and isinstance(s.targets[0], ast.Name) and s.targets[0].id in der:
            tr.bn[s.targets[0].id] = "(%s)" % tr.b(s.value)
        elif isinstance(s, ast.If) and any(isinstance(x, ast.Assign) and isinstance(x.targets[0], ast.Name) and x.targets[0].id in der
                                           for x in ast.walk(s)):
            if s.orelse or len(s.body) != 1 or not isinstance(s.body[0], ast.Assign):
                fail(s, "unsupported setting of %s" % sorted(der), fname)
            v = s.body[0].targets[0].id
            if v not in tr.bn:
                fail(s, "%s is set before it is initialised" % v, fname)
            tr.bn[v] = "(if %s then %s else %s)" % (tr.b(s.test), tr.b(s.body[0].value), tr.bn[v])

    def buf_of(e, allocs, names):
        """the allocation a NumpyIO(...) output argument wraps"""
        if isinstance(e, ast.Name) and e.id in names:
            return names[e.id]
        src = ast.unparse(e)
        for v in allocs:
            if src in ("encoding.NumpyIO(%s)" % v, "encoding.NumpyIO(%s.view('uint8'))" % v, 'encoding.NumpyIO(%s.view("uint8"))' % v,
                       "NumpyIO(%s)" % v, "NumpyIO(%s.view('uint8'))" % v):
                return v
        fail(e, "cannot tell which allocation the decoder writes to: %s" % src[:60], fname)

    def block(stmts, allocs, names, ind):
        pad = "  " * ind
        for i, s in enumerate(stmts):
            rest = stmts[i + 1:]
            if isinstance(s, ast.If):
                if not (mentions(s.test, "bit_width") or mentions(s.test, "selfmade") or mentions(s.test, "n_values")
                        or any(mentions(s.test, d) for d in tr.bn)):
                    if calls(s, "read_rle_bit_packed_hybrid"):
                        fail(s, "decoder call under a condition outside the vocabulary: %s" % ast.unparse(s.test)[:60], fname)
                    if is_view(s):
                        # (read_data_page_v2: byte copy when the item sizes agree, else the typed view - the same bytes)
                        return pad + "DFast"
                    continue                                   # what happens to the decoded values afterwards
                try:
                    cond = tr.b(s.test)
                except Unsupported:
                    if not calls(s, "read_rle_bit_packed_hybrid") and is_view(s):
                        # (byte copy when item sizes agree and there are no nulls, else the typed view: the same bytes)
                        return pad + "DFast"
                    raise
                return (pad + "if %s then\n" % cond + block(s.body + rest, dict(allocs), dict(names), ind + 1) + "\n"
                        + pad + "else\n" + block(s.orelse + rest, dict(allocs), dict(names), ind + 1))
            if isinstance(s, ast.Assign) and len(s.targets) == 1 and isinstance(s.targets[0], ast.Name) \
                    and isinstance(s.value, ast.Call):
                v, c = s.targets[0].id, s.value
                f = ast.unparse(c.func)
                kw = {k.arg: k.value for k in c.keywords}
                if f in ("np.empty", "np.zeros") and "dtype" in kw:
                    allocs[v] = (f[3:], dtype_size(kw["dtype"], fname, tr.n))
                    continue
                if f in ("encoding.NumpyIO", "NumpyIO") and len(c.args) == 1:
                    names[v] = buf_of(c, allocs, names)
                    continue
            hy = calls(s, "read_rle_bit_packed_hybrid")
            if hy:
                if len(hy) != 1:
                    fail(s, "several decoder calls in one statement", fname)
                c = hy[0]
                kw = {k.arg: k.value for k in c.keywords}
                args = list(c.args)
                o = kw.get("o", args[3] if len(args) > 3 else None)
                if o is None or "itemsize" not in kw or len(args) < 3:
                    fail(c, "read_rle_bit_packed_hybrid call shape changed", fname)
                if ast.unparse(args[1]) != "bit_width":
                    fail(c, "the decoder is not told bit_width", fname)
                b = buf_of(o, allocs, names)
                k = kw["itemsize"]
                if isinstance(k, ast.Constant) and isinstance(k.value, int):
                    ks = str(k.value)
                elif ast.unparse(k) == "%s.dtype.itemsize" % b:
                    ks = allocs[b][1]
                else:
                    fail(k, "unsupported itemsize argument", fname)
                return pad + "DGeneric %s %s" % (allocs[b][1], ks)
            if is_view(s):
                return pad + "DFast"
        if any(kind == "zeros" for kind, _ in allocs.values()):
            return pad + "DZeros"
        return pad + "DNone"
    return block([chain], dict(allocs0), {}, 1)


def one_run_check(fns, fname):
    """core._is_one_bitpacked_run(io_obj, nval): header = read_unsigned_var_int(io_obj); if <cond(header, nval)>: return header;
    io_obj.seek(start); return 0   ->  the condition as a Gallina bool over (header, nval)"""
    fn = fns.get("_is_one_bitpacked_run")
    if fn is None:
        raise Unsupported("%s: function _is_one_bitpacked_run not found" % fname)
    if [a.arg for a in fn.args.args] != ["io_obj", "nval"]:
        fail(fn, "_is_one_bitpacked_run parameters changed", fname)
    body = [s for s in fn.body if not is_doc(s)]
    shape = [ast.unparse(s).split("\n")[0] for s in body]
    if len(body) != 5 or shape[0] != "start = io_obj.tell()" or shape[1] != "header = encoding.read_unsigned_var_int(io_obj)" \
            or not isinstance(body[2], ast.If) or ast.unparse(body[2].body[0]) != "return header" or len(body[2].body) != 1 or body[2].orelse \
            or shape[3] != "io_obj.seek(start)" or shape[4] != "return 0":
        fail(fn, "_is_one_bitpacked_run has another shape than: read header / if cond: return header / seek back / return 0", fname)

    def n(e):
        if isinstance(e, ast.Constant) and isinstance(e.value, int) and e.value >= 0:
            return str(e.value)
        if isinstance(e, ast.Name) and e.id in ("header", "nval"):
            return e.id
        ops = {ast.RShift: "N.shiftr", ast.LShift: "N.shiftl", ast.Mult: "N.mul", ast.Add: "N.add", ast.BitAnd: "N.land", ast.FloorDiv: "N.div",
               ast.Mod: "N.modulo"}
        if isinstance(e, ast.BinOp) and type(e.op) in ops:
            return "(%s %s %s)" % (ops[type(e.op)], n(e.left), n(e.right))
        fail(e, "unsupported arithmetic %s" % ast.unparse(e)[:50], fname)

    def b(e):
        if isinstance(e, ast.BoolOp):
            return "(" + (" && " if isinstance(e.op, ast.And) else " || ").join(b(v) for v in e.values) + ")"
        if isinstance(e, ast.Compare) and len(e.ops) == 1:
            tab = {ast.Eq: "(%s =? %s)", ast.NotEq: "negb (%s =? %s)", ast.Lt: "(%s <? %s)", ast.LtE: "(%s <=? %s)"}
            l, r, op = e.left, e.comparators[0], e.ops[0]
            if isinstance(op, (ast.Gt, ast.GtE)):
                l, r = r, l
                op = ast.Lt() if isinstance(op, ast.Gt) else ast.LtE()
            if type(op) in tab:
                return tab[type(op)] % (n(l), n(r))
        if isinstance(e, (ast.BinOp, ast.Name)):
            return "negb (%s =? 0)" % n(e)          # truthiness of an integer
        fail(e, "unsupported condition %s" % ast.unparse(e)[:50], fname)
    return b(body[2].test)


def delta_alloc(fn, fname):
    cs = calls(fn, "delta_binary_unpack")
    if len(cs) != 1:
        raise Unsupported("%s: expected one delta_binary_unpack call in read_data_page, found %d" % (fname, len(cs)))
    c = cs[0]
    kw = {k.arg: k.value for k in c.keywords}
    if "longval" not in kw:
        fail(c, "delta_binary_unpack is called without longval", fname)
    tr = Tr(fname, {"metadata.type": "type_"}, {})
    lv = tr.b(kw["longval"])
    # the np.empty assigned to `values` in the same branch
    sz = None
    for n in ast.walk(fn):
        if isinstance(n, (ast.If,)):
            for body in (n.body, n.orelse):
                if any(c in ast.walk(s) for s in body):
                    for s in body:
                        if isinstance(s, ast.Assign) and ast.unparse(s.targets[0]) == "values" and isinstance(s.value, ast.Call) \
                                and ast.unparse(s.value.func) == "np.empty":
                            kw2 = {k.arg: k.value for k in s.value.keywords}
                            sz = dtype_size(kw2["dtype"], fname, tr.n)
    if sz is None:
        fail(c, "allocation handed to delta_binary_unpack not found", fname)
    return "(%s, %s)" % (sz, lv)


def translate(enc_src, core_src, enc_name="encoding.py", core_name="core.py"):
    et = ast.parse(enc_src)
    ct = ast.parse(core_src)
    tm = typemap(et, enc_name)
    rp = read_plain(et, enc_name)
    rpb = read_plain_boolean(et, enc_name)
    fns = {n.name: n for n in ct.body if isinstance(n, ast.FunctionDef)}
    for need in ("read_data_page", "read_data_page_v2"):
        if need not in fns:
            raise Unsupported("%s: function %s not found" % (core_name, need))
    c1 = index_chains(fns["read_data_page"])
    c2 = index_chains(fns["read_data_page_v2"])
    if len(c1) != 1 or len(c2) != 2:
        raise Unsupported("%s: expected 1 + 2 index-decoder chains on bit_width, found %d + %d" % (core_name, len(c1), len(c2)))
    v1 = index_tree(c1[0], core_name, {})
    v2c = index_tree(c2[0], core_name, {})
    # the de-reference branch allocates `out = np.zeros(n_values, dtype='uint32')` before the chain
    out_alloc = {}
    for n in ast.walk(fns["read_data_page_v2"]):
        if isinstance(n, ast.Assign) and ast.unparse(n.targets[0]) == "out" and isinstance(n.value, ast.Call) \
                and ast.unparse(n.value.func) in ("np.zeros", "np.empty") and n.lineno < c2[1][0].lineno:
            kw = {k.arg: k.value for k in n.value.keywords}
            out_alloc = {"out": (ast.unparse(n.value.func)[3:], dtype_size(kw["dtype"], core_name))}
    v2d = index_tree(c2[1], core_name, out_alloc)
    da = delta_alloc(fns["read_data_page"], core_name)
    orc = one_run_check(fns, core_name)
    out = []
    out.append("(* generated by translators/dispatch2coq.py from fastparquet/encoding.py and fastparquet/core.py - do not edit *)")
    out.append("From Coq Require Import NArith List Bool.")
    out.append("From Pq Require Import Base.Bytes Base.Err Base.ListX Impl.CBitpack Impl.Dispatch.")
    out.append("Import ListNotations.\nOpen Scope bool_scope.\nOpen Scope N_scope.\n")
    out.append("Definition decode_typemap : list (N * N) := [%s].\n" % "; ".join("(%d, %d)" % p for p in tm))
    out.append("Definition read_plain_dispatch (type_ count width rawlen : N) (utf stat : bool) : pdec :=\n%s.\n" % rp)
    out.append("Definition read_plain_boolean_gen (raw : bytes) (count : N) : res (list N) :=\n%s.\n" % rpb)
    out.append("Definition v1_index_dispatch (nonempty : bool) (bit_width : N) (selfmade one_run : bool) : idec :=\n%s.\n" % v1)
    out.append("Definition v2_cat_dispatch (nonempty : bool) (bit_width : N) (selfmade one_run : bool) : idec :=\n%s.\n" % v2c)
    out.append("Definition v2_deref_dispatch (nonempty : bool) (bit_width : N) (selfmade one_run : bool) : idec :=\n%s.\n" % v2d)
    out.append("Definition v1_delta_alloc (type_ : N) : N * bool := %s.\n" % da)
    out.append("(* core._is_one_bitpacked_run: when does the run header at the cursor count as THE one bit-packed run holding nval values *)")
    out.append("Definition one_run_check (header nval : N) : bool := %s.\n" % orc)
    return "\n".join(out)


def main():
    if len(sys.argv) != 3:
        sys.stderr.write(__doc__)
        return 2
    try:
        sys.stdout.write(translate(open(sys.argv[1]).read(), open(sys.argv[2]).read(), sys.argv[1], sys.argv[2]))
    except Unsupported as e:
        sys.stderr.write("dispatch2coq: %s\n" % e)
        return 2
    except SyntaxError as e:
        sys.stderr.write("dispatch2coq: syntax error: %s\n" % e)
        return 2
    return 0


if __name__ == "__main__":
    sys.exit(main())
