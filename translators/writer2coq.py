#!/usr/bin/env python3
"""writer2coq: the byte arithmetic of writer.make_definitions and writer.encode_dict -> Gallina (C11).

  usage: writer2coq.py <fastparquet/writer.py>          (Gallina module on stdout)

Both functions assemble a few header bytes in a 10-byte NumpyIO scratch buffer and glue them to a body.  Supported
subset (anything else: fail closed, exit status 2 with the source location):
  X = np.empty(<int>, dtype=np.uint8) ; T = NumpyIO(X)            a scratch buffer of that capacity (checked writes:
                                                                 whatever does not fit is dropped, as NumpyIO.write_byte does)
  cencoding.encode_unsigned_varint(<n>, T) ; T.write_byte(<n>)    append ULEB128(<n>) / one byte
  name = <n-expr> | <bytes-expr>                                  locals
  if no_nulls: / if datapage_version == 1: ... else: ...          the two parameters
  return <bytes-expr>[, anything]                                 the block (make_definitions also returns the data: ignored)
  A = data.values ; A = A.astype(..) / A.view(..) (also under an `if`)   locals holding the codes array: `codes` or `cast`
  n-expr:     int literals, len(data), len(A), A.dtype.itemsize, len(<bytes local>), T.tell(), width (= 8 * itemsize), + - * // << | (with literals)
  bytes-expr: T.so_far(), bytes(..), struct.pack('<I', <n>), a + b, data.values.tobytes() (the codes, little endian),
              encode_plain(<notnull mask>, <BOOLEAN element>) = the parameter `packed` (PLAIN booleans of the not-null mask as
              writer.convert packs them: its own relation 'decodes to the input' is proved / checked separately)
Output: gen_make_definitions (no_nulls : bool) (version n : N) (packed : bytes) : bytes
        gen_encode_dict (k : nat) (codes : list N) : bytes
"""
import ast
import sys


class Unsupported(Exception):
    pass


def fail(node, msg):
    raise Unsupported("writer.py:%d:%d: %s" % (getattr(node, "lineno", 0), getattr(node, "col_offset", 0), msg))


class Fn:
    def __init__(self, fn, nparams, bparams, data_len, body_bytes):
        self.fn = fn
        self.nparams, self.bparams = nparams, bparams
        self.data_len = data_len            # Gallina for len(data)
        self.body_bytes = body_bytes        # Gallina for data.values.tobytes() (or None)

    # -- expressions ------------------------------------------------------------------------
    def n(self, e, st):
        if isinstance(e, ast.Constant) and isinstance(e.value, int) and not isinstance(e.value, bool) and e.value >= 0:
            return str(e.value)
        if isinstance(e, ast.Name):
            if e.id in st["n"]:
                return st["n"][e.id]
            if e.id in self.nparams:
                return self.nparams[e.id]
        src = ast.unparse(e)
        if src == "len(data)":
            return self.data_len
        if src == "data.values.dtype.itemsize" and "itemsize" in self.nparams:
            return self.nparams["itemsize"]
        if isinstance(e, ast.Attribute) and e.attr == "itemsize" and isinstance(e.value, ast.Attribute) and e.value.attr == "dtype" \
                and isinstance(e.value.value, ast.Name) and e.value.value.id in st["arrl"] and "itemsize" in self.nparams:
            # item size of a local that holds the codes: the codes' own, or that of whatever they were cast to
            return self.nparams["itemsize"] if st["arrl"][e.value.value.id] == "codes" else "(N.of_nat castk)"
        if isinstance(e, ast.Call) and isinstance(e.func, ast.Name) and e.func.id == "len" and len(e.args) == 1 \
                and isinstance(e.args[0], ast.Name) and e.args[0].id in st["arrl"]:
            return self.data_len
        if isinstance(e, ast.Call) and isinstance(e.func, ast.Name) and e.func.id == "len" and len(e.args) == 1:
            return "(lenN %s)" % self.b(e.args[0], st)
        if isinstance(e, ast.Call) and isinstance(e.func, ast.Attribute) and e.func.attr == "tell" and not e.args \
                and isinstance(e.func.value, ast.Name) and e.func.value.id in st["io"]:
            return "(lenN %s)" % self.sofar(e.func.value.id, st)
        if isinstance(e, ast.BinOp):
            ops = {ast.Add: "N.add", ast.Sub: "N.sub", ast.Mult: "N.mul", ast.FloorDiv: "N.div", ast.LShift: "N.shiftl", ast.BitOr: "N.lor"}
            if type(e.op) in ops:
                return "(%s %s %s)" % (ops[type(e.op)], self.n(e.left, st), self.n(e.right, st))
        fail(e, "unsupported integer expression %s" % src[:60])

    def sofar(self, io, st):
        cap, parts = st["io"][io]
        return "(takeN %s (%s))" % (cap, " ++ ".join(parts) if parts else "[]")

    def b(self, e, st):
        src = ast.unparse(e)
        if isinstance(e, ast.Name) and e.id in st["b"]:
            return st["b"][e.id]
        if isinstance(e, ast.Call) and isinstance(e.func, ast.Attribute) and e.func.attr == "so_far" and not e.args \
                and isinstance(e.func.value, ast.Name) and e.func.value.id in st["io"]:
            return self.sofar(e.func.value.id, st)
        if isinstance(e, ast.Call) and isinstance(e.func, ast.Name) and e.func.id == "bytes" and len(e.args) == 1:
            return self.b(e.args[0], st)
        if isinstance(e, ast.Call) and src.startswith("struct.pack('<I', ") and len(e.args) == 2:
            return "(le_enc 4 %s)" % self.n(e.args[1], st)
        if src == "data.values.tobytes()" and self.body_bytes:
            return self.body_bytes
        if isinstance(e, ast.Call) and isinstance(e.func, ast.Attribute) and e.func.attr == "tobytes" and not e.args \
                and isinstance(e.func.value, ast.Name) and e.func.value.id in st["arrl"] and self.body_bytes:
            if st["arrl"][e.func.value.id] == "codes":
                return self.body_bytes
            self.cast = True
            return "(wr_codes castk codes)"
        if isinstance(e, ast.Call) and isinstance(e.func, ast.Name) and e.func.id == "encode_plain" and len(e.args) == 2 \
                and isinstance(e.args[0], ast.Name) and e.args[0].id in st["mask"] and isinstance(e.args[1], ast.Name) \
                and e.args[1].id in st["boolse"]:
            return "packed"
        if isinstance(e, ast.BinOp) and isinstance(e.op, ast.Add):
            return "(%s ++ %s)" % (self.b(e.left, st), self.b(e.right, st))
        fail(e, "unsupported bytes expression %s" % src[:60])

    def cond(self, e):
        src = ast.unparse(e)
        if src in self.bparams:
            return self.bparams[src]
        if isinstance(e, ast.Compare) and len(e.ops) == 1 and isinstance(e.ops[0], ast.Eq) and isinstance(e.left, ast.Name) \
                and e.left.id in self.nparams and isinstance(e.comparators[0], ast.Constant):
            return "(%s =? %d)" % (self.nparams[e.left.id], e.comparators[0].value)
        fail(e, "unsupported condition %s" % src[:60])

    def recasts(self, s, st):
        """an `if` that only re-represents the codes array (astype / view): whatever the condition, the bytes behind the header
        may then be another representation than the codes themselves"""
        stmts = s.body + s.orelse
        ok = stmts and all(isinstance(x, ast.Assign) and len(x.targets) == 1 and isinstance(x.targets[0], ast.Name)
                           and x.targets[0].id in st["arrl"] and isinstance(x.value, ast.Call) and isinstance(x.value.func, ast.Attribute)
                           and x.value.func.attr in ("astype", "view") for x in stmts)
        if ok:
            for x in stmts:
                st["arrl"][x.targets[0].id] = "cast"
        return ok

    # -- statements -------------------------------------------------------------------------
    def block(self, stmts, st, ind):
        pad = "  " * ind
        st = {k: (dict(v) if isinstance(v, dict) else set(v)) for k, v in st.items()}
        st.setdefault("arrl", {})
        st["io"] = {k: (c, list(p)) for k, (c, p) in st["io"].items()}
        for i, s in enumerate(stmts):
            rest = stmts[i + 1:]
            if isinstance(s, ast.Expr) and isinstance(s.value, ast.Constant) and isinstance(s.value.value, str):
                continue
            if isinstance(s, ast.If) and self.body_bytes and self.recasts(s, st):
                continue
            if isinstance(s, ast.If):
                return (pad + "if %s then\n" % self.cond(s.test) + self.block(s.body + rest, st, ind + 1) + "\n" + pad + "else\n"
                        + self.block(s.orelse + rest, st, ind + 1))
            if isinstance(s, ast.Return):
                v = s.value
                if isinstance(v, ast.Tuple):
                    v = v.elts[0]
                return pad + self.b(v, st)
            if isinstance(s, ast.Assign) and len(s.targets) == 1 and isinstance(s.targets[0], ast.Name):
                name, e = s.targets[0].id, s.value
                src = ast.unparse(e)
                if isinstance(e, ast.Call) and ast.unparse(e.func) == "np.empty" and len(e.args) == 1 \
                        and [ast.unparse(k.value) for k in e.keywords] == ["np.uint8"]:
                    st["arr"][name] = self.n(e.args[0], st)
                    continue
                if isinstance(e, ast.Call) and ast.unparse(e.func) == "NumpyIO" and len(e.args) == 1 \
                        and isinstance(e.args[0], ast.Name) and e.args[0].id in st["arr"]:
                    st["io"][name] = (st["arr"][e.args[0].id], [])
                    continue
                if self.body_bytes and src == "data.values":
                    st["arrl"][name] = "codes"
                    continue
                if self.body_bytes and isinstance(e, ast.Call) and isinstance(e.func, ast.Attribute) and e.func.attr in ("astype", "view") \
                        and isinstance(e.func.value, ast.Name) and e.func.value.id in st["arrl"]:
                    st["arrl"][name] = "cast"         # another representation of the codes follows the header
                    continue
                if src == "data.notnull()":
                    st["mask"].add(name)
                    continue
                if src == "parquet_thrift.SchemaElement(type=parquet_thrift.Type.BOOLEAN)":
                    st["boolse"].add(name)
                    continue
                if src == "data" or src.startswith("data["):
                    continue                                      # the values handed on to the page writer
                try:
                    st["n"][name] = self.n(e, st)
                    continue
                except Unsupported:
                    pass
                st["b"][name] = self.b(e, st)
                continue
            if isinstance(s, ast.Expr) and isinstance(s.value, ast.Call):
                c = s.value
                f = ast.unparse(c.func)
                if f == "cencoding.encode_unsigned_varint" and len(c.args) == 2 and isinstance(c.args[1], ast.Name) \
                        and c.args[1].id in st["io"]:
                    st["io"][c.args[1].id][1].append("uleb_enc %s" % self.n(c.args[0], st))
                    continue
                if isinstance(c.func, ast.Attribute) and c.func.attr == "write_byte" and isinstance(c.func.value, ast.Name) \
                        and c.func.value.id in st["io"] and len(c.args) == 1:
                    st["io"][c.func.value.id][1].append("[%s]" % self.n(c.args[0], st))
                    continue
            fail(s, "unsupported statement %s" % ast.unparse(s)[:70])
        fail(self.fn, "function ends without a return")


def translate(src):
    tree = ast.parse(src)
    fns = {n.name: n for n in tree.body if isinstance(n, ast.FunctionDef)}
    for need in ("make_definitions", "encode_dict"):
        if need not in fns:
            raise Unsupported("writer.py: function %s not found" % need)
    md = fns["make_definitions"]
    if [a.arg for a in md.args.args] != ["data", "no_nulls", "datapage_version"]:
        fail(md, "make_definitions parameters changed")
    empty = {"n": {}, "b": {}, "io": {}, "arr": {}, "mask": set(), "boolse": set(), "arrl": {}}
    t1 = Fn(md, {"datapage_version": "version"}, {"no_nulls": "no_nulls"}, "n", None).block(md.body, empty, 1)
    ed = fns["encode_dict"]
    if len(ed.args.args) != 2 or ed.args.args[0].arg != "data":
        fail(ed, "encode_dict parameters changed")
    f2 = Fn(ed, {"itemsize": "(N.of_nat k)"}, {}, "(lenN codes)", "(wr_codes k codes)")
    f2.cast = False
    t2 = f2.block(ed.body, empty, 1)
    out = ["(* generated by translators/writer2coq.py from fastparquet/writer.py - do not edit *)",
           "From Coq Require Import NArith List Bool.",
           "From Pq Require Import Base.Bytes Base.ListX Codec.Varint Impl.WLevels.",
           "Import ListNotations.\nOpen Scope N_scope.\n",
           "Definition gen_make_definitions (no_nulls : bool) (version n : N) (packed : bytes) : bytes :=\n%s.\n" % t1,
           "(* are the bytes behind the run header the codes array itself (signed integers of k bytes, as pandas holds them)? *)",
           "Definition gen_encode_dict_keeps_codes : bool := %s.\n" % ("false" if f2.cast else "true"),
           "Definition gen_encode_dict (k : nat) %s(codes : list N) : bytes :=\n%s.\n" % ("(castk : nat) " if f2.cast else "", t2)]
    return "\n".join(out)


def main():
    if len(sys.argv) != 2:
        sys.stderr.write(__doc__)
        return 2
    try:
        sys.stdout.write(translate(open(sys.argv[1]).read()))
    except Unsupported as e:
        sys.stderr.write("writer2coq: %s\n" % e)
        return 2
    except SyntaxError as e:
        sys.stderr.write("writer2coq: syntax error: %s\n" % e)
        return 2
    return 0


if __name__ == "__main__":
    sys.exit(main())
