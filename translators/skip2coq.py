#!/usr/bin/env python3
"""skip2coq: core.skip_definition_bytes (Python ast) -> Gallina (DESIGN 4.1, C01).

The function only moves a cursor: `io_obj.seek(K, 1)` statements, integer locals, one `while`.
Supported subset (anything else: fail closed with the source location, exit status 2):
  io_obj.seek(<int expr>, 1)                      cursor += expr
  name = <int expr>          name op= <int expr>   (op in //, >>, +, -, *)
  while <cond>: <stmts>                           cond: name | name > 0 | name != 0 | name >= 1
  int expr: literals, parameter `num`, locals, //, >>, <<, +, *, - (binary)
Output: a Coq module with
  Definition skip_definition_bytes (num : N) : option N     (None = fuel exhausted; fuel = bits of num + 2)
the cursor displacement.  State threaded through the loop = (cursor, all locals) as nested pairs.
"""
import ast
import sys


class Unsupported(Exception):
    pass


def fail(node, msg):
    raise Unsupported("core.py:%d:%d: %s" % (getattr(node, "lineno", 0), getattr(node, "col_offset", 0), msg))


BIN = {ast.FloorDiv: "N.div", ast.RShift: "N.shiftr", ast.LShift: "N.shiftl", ast.Add: "N.add", ast.Mult: "N.mul",
       ast.Sub: "N.sub"}


def expr(e, env):
    if isinstance(e, ast.Constant) and isinstance(e.value, int) and not isinstance(e.value, bool) and e.value >= 0:
        return "%d" % e.value
    if isinstance(e, ast.Name):
        if e.id not in env:
            fail(e, "unknown name %s" % e.id)
        return e.id
    if isinstance(e, ast.BinOp) and type(e.op) in BIN:
        return "(%s %s %s)" % (BIN[type(e.op)], expr(e.left, env), expr(e.right, env))
    fail(e, "unsupported expression %s" % ast.dump(e)[:80])


def cond(e, var_env):
    """returns Gallina bool expression"""
    if isinstance(e, ast.Name):
        return "negb (%s =? 0)" % expr(e, var_env)
    if isinstance(e, ast.Compare) and len(e.ops) == 1 and isinstance(e.comparators[0], ast.Constant):
        c = e.comparators[0].value
        l = expr(e.left, var_env)
        if isinstance(e.ops[0], ast.Gt) and c == 0:
            return "negb (%s =? 0)" % l
        if isinstance(e.ops[0], ast.NotEq) and c == 0:
            return "negb (%s =? 0)" % l
        if isinstance(e.ops[0], ast.GtE) and c == 1:
            return "negb (%s =? 0)" % l
    fail(e, "unsupported loop condition")


def assigned(stmts):
    out = []
    for s in stmts:
        if isinstance(s, ast.Assign) and len(s.targets) == 1 and isinstance(s.targets[0], ast.Name):
            out.append(s.targets[0].id)
        elif isinstance(s, ast.AugAssign) and isinstance(s.target, ast.Name):
            out.append(s.target.id)
        elif isinstance(s, ast.While):
            out += assigned(s.body)
    return out


def block(stmts, env, io, indent, tail):
    """emit nested lets for stmts, ending with `tail` (a Gallina expression over env + cur)."""
    pad = "  " * indent
    if not stmts:
        return pad + tail
    s, rest = stmts[0], stmts[1:]
    if isinstance(s, ast.Expr) and isinstance(s.value, ast.Constant) and isinstance(s.value.value, str):
        return block(rest, env, io, indent, tail)     # docstring
    if isinstance(s, ast.Expr) and isinstance(s.value, ast.Call):
        c = s.value
        f = c.func
        if (isinstance(f, ast.Attribute) and f.attr == "seek" and isinstance(f.value, ast.Name) and f.value.id == io
                and len(c.args) == 2 and isinstance(c.args[1], ast.Constant) and c.args[1].value == 1 and not c.keywords):
            return pad + "let cur := N.add cur %s in\n" % expr(c.args[0], env) + block(rest, env, io, indent, tail)
        fail(s, "unsupported call")
    if isinstance(s, ast.Assign) and len(s.targets) == 1 and isinstance(s.targets[0], ast.Name):
        v = s.targets[0].id
        e = expr(s.value, env)
        return pad + "let %s := %s in\n" % (v, e) + block(rest, env | {v}, io, indent, tail)
    if isinstance(s, ast.AugAssign) and isinstance(s.target, ast.Name) and type(s.op) in BIN:
        v = s.target.id
        if v not in env:
            fail(s, "augmented assignment to unknown %s" % v)
        return pad + "let %s := (%s %s %s) in\n" % (v, BIN[type(s.op)], v, expr(s.value, env)) + block(rest, env, io, indent, tail)
    if isinstance(s, ast.While) and not s.orelse:
        vs = sorted(set(assigned(s.body)))
        for v in vs:
            if v not in env:
                fail(s, "loop assigns %s before it is defined" % v)
        st = "(cur, %s)" % ", ".join(vs) if vs else "cur"
        pat = "'" + st
        body = block(s.body, env, io, indent + 2, st)
        txt = pad + "match while_fuel fuel (fun %s => %s)\n" % (pat, cond(s.test, env))
        txt += pad + "    (fun %s =>\n%s) %s with\n" % (pat, body, st)
        txt += pad + "| None => None\n"
        txt += pad + "| Some %s =>\n" % st
        # the continuation returns an option: wrap tail accordingly (tail is already `Some ...` at top level)
        txt += block(rest, env, io, indent + 1, tail) + "\n" + pad + "end"
        return txt
    fail(s, "unsupported statement %s" % type(s).__name__)


def translate(src):
    tree = ast.parse(src)
    fn = [n for n in tree.body if isinstance(n, ast.FunctionDef) and n.name == "skip_definition_bytes"]
    if len(fn) != 1:
        raise Unsupported("core.py: function skip_definition_bytes not found exactly once")
    fn = fn[0]
    args = [a.arg for a in fn.args.args]
    if len(args) != 2 or fn.args.vararg or fn.args.kwarg or fn.args.kwonlyargs or fn.args.defaults:
        fail(fn, "expected exactly two positional parameters (io_obj, num)")
    io, num = args
    body = block(fn.body, {num}, io, 1, "Some cur")
    txt = "(* GENERATED by translators/skip2coq.py from fastparquet/core.py:%d skip_definition_bytes - do not edit *)\n" % fn.lineno
    txt += "From Coq Require Import NArith.\nFrom Pq Require Import Impl.While.\nOpen Scope N_scope.\n\n"
    txt += "Definition skip_definition_bytes (%s : N) : option N :=\n" % num
    txt += "  let fuel := S (S (N.to_nat (N.size %s))) in\n  let cur := 0 in\n" % num
    txt += body + ".\n"
    return txt


if __name__ == "__main__":
    try:
        sys.stdout.write(translate(open(sys.argv[1]).read()))
    except Unsupported as e:
        sys.stderr.write("skip2coq: unsupported: %s\n" % e)
        sys.exit(2)
