"""opreads — per public operation of the property's quantifier: the shared SLOTS it may READ and WRITE (C20, read side of
the footprint premise), regenerated from the source on every run.

A slot is named by the attribute / constant key it is reached by (`_statistics`, `converted_max`, `row_groups`, `seps[*]` for
computed subscripts of a module global).  Conservative on purpose:

* implicit dispatch: `x[i]`, `len(x)`, `str(x)`, comparisons, iteration, truth tests, f-strings, copy/deepcopy/pickle calls are
  calls of the corresponding dunder methods of EVERY package class;
* call graph by name: `f(...)` resolves to the module-level function f of the same module or to the imported package
  function; `x.m(...)` resolves to EVERY method m of EVERY package class (and to module function m when x is an imported
  package module); an attribute load `x.p` where p is a property of some package class is also a call of that property;
* reads(function) = every attribute load (any receiver, callees of method-style calls included), every constant-key subscript load, every hasattr/getattr with a
  constant name, every load of a mutable module global; reads(op) = union over the functions reachable from its entries;
* writes(function) = the write sites of translators/sharedstate.py in that function whose base can be shared
  (self outside constructors, global, default, classattr, param), with their pattern.

Output: data + Gallina text `PqGen/OpReads.v` (`slot_names`, `op_rows : list oprow`).  The Coq side (Conc/Footprint.v
section 7) classifies every slot Frozen / Memo / Bad from ALL rows and proves, for the regenerated table, that every
operation reading no Bad slot denotes a pure function of the frozen slots (genproofs/GenOpReadsProofs.v)."""
import ast
import os

from translators import sharedstate as SS

# operation kind of the harness -> entry points (module, qualified name)
ENTRIES = {
    "to_pandas": [("api", "ParquetFile.to_pandas")],
    "slice": [("api", "ParquetFile.__getitem__"), ("api", "ParquetFile.to_pandas"), ("api", "ParquetFile.count")],
    "iter": [("api", "ParquetFile.iter_row_groups")],
    "head": [("api", "ParquetFile.head")],
    "statistics": [("api", "ParquetFile.statistics")],
    "count": [("api", "ParquetFile.count")],
    "columns": [("api", "ParquetFile.columns"), ("api", "ParquetFile.info")],
    "pickle": [("api", "ParquetFile.__getstate__"), ("api", "ParquetFile.__setstate__"), ("api", "ParquetFile.to_pandas")],
    "copy": [("api", "ParquetFile.__copy__"), ("api", "ParquetFile.__deepcopy__"), ("api", "ParquetFile.to_pandas")],
    "stats_fn": [("api", "statistics")],
    "sorted_cols": [("api", "sorted_partitioned_columns")],
    "filter_rgs": [("api", "filter_row_groups")],
    "meta": [("api", "ParquetFile.key_value_metadata"), ("api", "ParquetFile.pandas_metadata"), ("api", "ParquetFile.categories"),
             ("api", "ParquetFile.has_pandas_metadata"), ("api", "ParquetFile.__str__"), ("api", "ParquetFile.info")],
    "schema_text": [("schema", "SchemaHelper.text"), ("schema", "SchemaHelper.__str__")],
    "part": [("writer", "make_part_file")],
}

SHARED_BASES = ("self", "global", "default", "classattr", "param")   # local: only sites that name a slot by a constant key


class Fn:
    def __init__(self, module, qual, node, cls):
        self.module, self.qual, self.node, self.cls = module, qual, node, cls
        self.reads, self.calls_bare, self.calls_meth, self.calls_mod = set(), set(), set(), set()
        self.calls_self = set()
        self.deep_iters = []        # (line, callee, argument text, shared?)  library code that walks every nested container
        self.keyset_reads = set()   # slots whose KEY SET the function iterates (.items() / .keys() / .values() / dict() / list())
        self.value_meths = set()
        self.is_property = any((SS.dotted(d) or "").split(".")[-1] in ("property", "cached_property") for d in node.decorator_list)


def scan(repo):
    external = {}           # module -> names bound by imports of NON-package modules (np, pd, os, re, json ...)

    def receiver_kind(node, fn, m):
        """what the ast gives away about the receiver of a method call / attribute load"""
        n = node
        while isinstance(n, (ast.Attribute, ast.Subscript)):
            n = n.value
        if isinstance(n, (ast.Constant, ast.JoinedStr, ast.List, ast.Dict, ast.Set, ast.Tuple, ast.ListComp, ast.DictComp, ast.SetComp,
                          ast.BinOp, ast.Compare)):
            return "external"
        if isinstance(n, ast.Call) and isinstance(n.func, ast.Attribute):
            r = n.func.value
            while isinstance(r, (ast.Attribute, ast.Subscript)):
                r = r.value
            if isinstance(r, ast.Name) and r.id in external.get(m, ()):
                return "external"                                # np.array(...).view(...)
        if isinstance(n, ast.Name):
            if n.id in external.get(m, ()):
                return "external"
            if fn.cls and fn.node.args.args and n.id == fn.node.args.args[0].arg and node is n:
                return "self"
        return "unknown"

    pkg = os.path.join(repo, "fastparquet")
    files = [f for f in sorted(os.listdir(pkg)) if f.endswith(".py")]
    mods = {f[:-3] for f in files}
    fns = {}            # (module, qual) -> Fn
    by_method = {}      # simple method name -> [(module, qual)]
    class_bases = {}    # class name -> base class names (package-local inheritance)
    by_modfunc = {}     # (module, name) -> (module, qual)
    properties = set()
    imports = {}        # module -> {local name: ("mod", module) | ("func", module, name)}
    mutable_globals = {}  # module -> set of names bound to non-constant values at module level
    for f in files:
        m = f[:-3]
        tree = ast.parse(open(os.path.join(pkg, f)).read(), filename=f)
        imports[m] = {}
        mutable_globals[m] = set()
        external[m] = set()
        for st in ast.walk(tree):
            if isinstance(st, ast.Import):
                external[m] |= {(a.asname or a.name).split(".")[0] for a in st.names if not a.name.startswith("fastparquet")}
            elif isinstance(st, ast.ImportFrom) and st.level == 0 and not (st.module or "").startswith("fastparquet"):
                external[m] |= {(a.asname or a.name) for a in st.names}
        for st in tree.body:
            if isinstance(st, ast.ImportFrom) and (st.level > 0 or (st.module or "").startswith("fastparquet")):
                base = (st.module or "").replace("fastparquet.", "").replace("fastparquet", "")
                for a in st.names:
                    local = a.asname or a.name
                    if not base and a.name in mods:
                        imports[m][local] = ("mod", a.name)
                    elif base.split(".")[0] in mods:
                        imports[m][local] = ("func", base.split(".")[0], a.name)
            elif isinstance(st, (ast.Assign, ast.AnnAssign, ast.AugAssign)):
                for t in (st.targets if isinstance(st, ast.Assign) else [st.target]):
                    for e_ in ([t] if not isinstance(t, (ast.Tuple, ast.List)) else t.elts):
                        if isinstance(e_, ast.Name):
                            mutable_globals[m].add(e_.id)       # every module-level name (a rebound constant is state too)

        def reg(node, cls, prefix):
            qual = prefix + ((cls + ".") if cls else "") + node.name
            fn = Fn(m, qual, node, cls)
            fns[(m, qual)] = fn
            if cls:
                by_method.setdefault(node.name, []).append((m, qual))
                if fn.is_property:
                    properties.add(node.name)
            elif not prefix:
                by_modfunc[(m, node.name)] = (m, qual)
            for sub in ast.walk(node):
                if sub is not node and isinstance(sub, (ast.FunctionDef, ast.AsyncFunctionDef)) and SS.ModuleScan._direct_child_func(node, sub):
                    reg(sub, None, qual + ".<locals>.")
                    fn.calls_bare.add(("local", qual + ".<locals>." + sub.name))
        for st in tree.body:
            if isinstance(st, (ast.FunctionDef, ast.AsyncFunctionDef)):
                reg(st, None, "")
            elif isinstance(st, ast.ClassDef):
                class_bases[st.name] = [SS.dotted(b_) or "" for b_ in st.bases]
                for b in st.body:
                    if isinstance(b, (ast.FunctionDef, ast.AsyncFunctionDef)):
                        reg(b, st.name, "")
    # (pickle.dumps is not listed: it delegates to __reduce_ex__ of the objects - ThriftObject serialises at C level under the GIL;
    #  whether a pickled object is a plain dict is not visible in the ast.  The iter_race schedules cover pickling dynamically.)
    DEEP = {"copy.deepcopy", "deepcopy", "json.dumps", "json.dump"}

    def arg_shared(fn, arg):
        """False when the ast gives away that the walked object was built in this function (a literal, dict(...) / list(...) of something)"""
        n = arg
        while isinstance(n, (ast.Attribute, ast.Subscript)):
            n = n.value
        if isinstance(n, (ast.Dict, ast.List, ast.Tuple, ast.Set, ast.Constant, ast.ListComp, ast.DictComp)):
            return False
        if isinstance(n, ast.Name) and n is arg:
            vals = [x.value for x in ast.walk(fn.node) if isinstance(x, ast.Assign) and any(isinstance(t, ast.Name) and t.id == n.id for t in x.targets)]
            if vals and all(isinstance(v, (ast.Dict, ast.List, ast.DictComp, ast.ListComp)) or
                            (isinstance(v, ast.Call) and (SS.dotted(v.func) or "") in ("dict", "list", "OrderedDict", "copy.deepcopy", "deepcopy")) for v in vals):
                return False
        return True

    def slot_name(node):
        n = node
        if isinstance(n, ast.Call):
            n = n.func
        if isinstance(n, ast.Attribute):
            return n.attr
        if isinstance(n, ast.Subscript) and isinstance(n.slice, ast.Constant) and isinstance(n.slice.value, str):
            return n.slice.value
        if isinstance(n, ast.Name):
            return n.id
        return "?"
    # per function: reads and calls
    for (m, qual), fn in fns.items():
        for n in ast.walk(fn.node):
            if isinstance(n, ast.Call):
                cn = SS.dotted(n.func) or ""
                if cn in DEEP and n.args:
                    fn.deep_iters.append([n.lineno, cn, SS.unparse(n.args[0])[:60], arg_shared(fn, n.args[0])])
                if isinstance(n.func, ast.Attribute) and n.func.attr in ("items", "keys", "values") and receiver_kind(n.func.value, fn, m) != "external":
                    fn.keyset_reads.add(slot_name(n.func.value))
                if isinstance(n.func, ast.Name) and n.func.id in ("dict", "list", "sorted", "tuple", "set", "frozenset") and len(n.args) == 1 \
                        and isinstance(n.args[0], (ast.Name, ast.Attribute, ast.Subscript)) and receiver_kind(n.args[0], fn, m) != "external":
                    fn.keyset_reads.add(slot_name(n.args[0]))
        callee_nodes = set()
        for n in ast.walk(fn.node):
            if isinstance(n, ast.Call):
                f = n.func
                callee_nodes.add(id(f))
                if isinstance(f, ast.Name):
                    fn.calls_meth.update({"len": ("__len__",), "str": ("__str__", "__repr__"), "repr": ("__repr__",), "bool": ("__bool__", "__len__"),
                                          "iter": ("__iter__",), "next": ("__next__",), "hash": ("__hash__",), "copy": ("__copy__", "copy"),
                                          "deepcopy": ("__deepcopy__",), "getattr": ("__getattr__",), "setattr": ("__setattr__",),
                                          "dir": ("__dir__",), "list": ("__iter__", "__len__"), "dict": ("__iter__", "keys", "__getitem__"),
                                          "print": ("__str__", "__repr__")}.get(f.id, ()))
                    if f.id in ("hasattr", "getattr") and len(n.args) >= 2 and isinstance(n.args[1], ast.Constant):
                        fn.reads.add(str(n.args[1].value))
                    fn.calls_bare.add(("name", f.id))
                elif isinstance(f, ast.Attribute):
                    if isinstance(f.value, ast.Name) and imports[m].get(f.value.id, (None,))[0] == "mod":
                        fn.calls_mod.add((imports[m][f.value.id][1], f.attr))
                    elif receiver_kind(f.value, fn, m) == "external":
                        pass                                    # np.x.y(...), "".join(...), [..].append(...): not a package object
                    elif receiver_kind(f.value, fn, m) == "self":
                        fn.calls_self.add(f.attr)               # self.m(...): the own class (and its relatives)
                    else:
                        fn.calls_meth.add(f.attr)
                        fn.calls_meth.update({"copy": ("__copy__",), "deepcopy": ("__deepcopy__",), "dumps": ("__getstate__", "__reduce_ex__"),
                                              "loads": ("__setstate__",), "format": ("__str__", "__repr__", "__format__")}.get(f.attr, ()))
        for n in ast.walk(fn.node):
            if isinstance(n, ast.Attribute) and isinstance(n.ctx, ast.Load):
                # every attribute load counts as a read, also the callee of `x.m(...)` (the bytecode does not always tell them
                # apart: calls on import-bound names use a plain LOAD_ATTR)
                if isinstance(n.value, ast.Name) and imports[m].get(n.value.id, (None,))[0] == "mod":
                    if n.attr in mutable_globals.get(imports[m][n.value.id][1], ()):
                        fn.reads.add(n.attr + "[*]")
                fn.reads.add(n.attr)
                if id(n) not in callee_nodes and n.attr not in properties and receiver_kind(n.value, fn, m) != "external":
                    fn.value_meths.add(n.attr)      # a bound method taken as a value (codec().loads) may be called later
                if n.attr in properties and id(n) not in callee_nodes:
                    rk = receiver_kind(n.value, fn, m)
                    if rk == "self":
                        fn.calls_self.add(n.attr)
                    elif rk != "external":
                        fn.calls_meth.add(n.attr)
            elif isinstance(n, ast.Subscript) and isinstance(n.ctx, ast.Load):
                if receiver_kind(n.value, fn, m) != "external":
                    fn.calls_meth.add("__getitem__")        # implicit dispatch: x[i] may be a package class's __getitem__
                if isinstance(n.slice, ast.Constant) and isinstance(n.slice.value, str) and n.slice.value.isidentifier():
                    fn.reads.add(n.slice.value)
            elif isinstance(n, ast.Subscript):
                fn.calls_meth.add("__setitem__" if isinstance(n.ctx, ast.Store) else "__delitem__")
            elif isinstance(n, ast.Compare):
                for o_ in n.ops:
                    fn.calls_meth.add({ast.Eq: "__eq__", ast.NotEq: "__ne__", ast.In: "__contains__", ast.NotIn: "__contains__"}.get(type(o_), "__lt__"))
            elif isinstance(n, (ast.For, ast.comprehension)):
                fn.calls_meth.update(("__iter__", "__next__", "__len__"))
            elif isinstance(n, (ast.If, ast.While, ast.IfExp, ast.BoolOp)) or (isinstance(n, ast.UnaryOp) and isinstance(n.op, ast.Not)):
                fn.calls_meth.update(("__bool__", "__len__"))
            elif isinstance(n, (ast.JoinedStr, ast.FormattedValue)):
                fn.calls_meth.update(("__str__", "__repr__", "__format__"))
            elif isinstance(n, ast.Name) and isinstance(n.ctx, ast.Load):
                if n.id in mutable_globals[m]:
                    fn.reads.add(n.id + "[*]")
                imp_ = imports[m].get(n.id)
                if imp_ and imp_[0] == "func" and imp_[2] in mutable_globals.get(imp_[1], ()):
                    fn.reads.add(imp_[2] + "[*]")           # from .util import ops: a load of `ops` reads util.ops
                fn.calls_bare.add(("value", n.id))       # a function used as a value (table entry, callback) may be called
    scan.class_bases = class_bases
    return fns, by_method, by_modfunc, imports


def slot_of_site(s):
    t = s["target"]
    if s["pattern"] == "mutcall" and s.get("detail") in ("pop", "__delitem__", "setdefault", "__setitem__") and s.get("key"):
        return s["key"]             # d.pop("k") / d.setdefault("k", v): the slot is the constant key
    if s["base"] == "global" and "[" in t:
        return t.split("[")[0].split(".")[-1] + "[*]"
    if s["base"] == "global" and "." not in t and "[" not in t:
        return t + "[*]"
    last = t.rsplit(".", 1)[-1]
    if last.isidentifier() and "." in t:
        return last
    if s["base"] == "global":
        return s["base_name"].split(".")[-1] + "[*]"
    return None             # element of a local / parameter container: not an attribute-named slot


def build(repo, inv=None):
    inv = inv or SS.scan_package(repo)
    fns, by_method, by_modfunc, imports = scan(repo)
    writes = {}
    for s in inv["sites"]:
        if s["import_time"] or s["base"] not in SHARED_BASES:
            continue
        slot = slot_of_site(s)
        if slot is None:
            continue
        writes.setdefault((s["module"], s["func"]), []).append({"slot": slot, "pattern": s["pattern"], "base": s["base"], "line": s["line"], "file": s["file"]})

    bases = scan.class_bases

    def related_classes(cls):
        """the class, its package-local ancestors and descendants"""
        fam, todo = set(), [cls]
        while todo:
            c = todo.pop()
            if c in fam or c is None:
                continue
            fam.add(c)
            todo += [b_.split(".")[-1] for b_ in bases.get(c, [])]
            todo += [k_ for k_, bs in bases.items() if c in [b_.split(".")[-1] for b_ in bs]]
        return fam

    def callees(key):
        fn = fns[key]
        out = set()
        for kind, name in fn.calls_bare:
            if kind == "local":
                if (fn.module, name) in fns:
                    out.add((fn.module, name))
            else:
                if (fn.module, name) in by_modfunc:
                    out.add(by_modfunc[(fn.module, name)])
                imp = imports[fn.module].get(name)
                if imp and imp[0] == "func" and (imp[1], imp[2]) in by_modfunc:
                    out.add(by_modfunc[(imp[1], imp[2])])
                # a class CALLED by name: its constructor (a class used as a value - object.__new__(C) - runs no constructor)
                if kind == "name":
                    for cand in by_method.get("__init__", []):
                        if cand[1] == name + ".__init__":
                            out.add(cand)
        for mname in fn.calls_meth:
            out.update(by_method.get(mname, []))
        if fn.calls_self:
            fam = related_classes(fn.cls)
            for mname in fn.calls_self:
                cands = [c for c in by_method.get(mname, []) if c[1].rsplit(".", 1)[0] in fam]
                out.update(cands if cands else by_method.get(mname, []))     # not found in the family: fall back to every class
        for mod, name in fn.calls_mod:
            if (mod, name) in by_modfunc:
                out.add(by_modfunc[(mod, name)])
            for cand in by_method.get("__init__", []):          # mod.Class(...): the constructor
                if cand == (mod, name + ".__init__"):
                    out.add(cand)
        for mname in fn.value_meths:
            if not mname.startswith("__"):
                out.update(by_method.get(mname, []))
        return out
    rows = []
    for op, entries in ENTRIES.items():
        seen, stack = set(), [e for e in entries if e in fns]
        missing = [e for e in entries if e not in fns]
        while stack:
            k = stack.pop()
            if k in seen:
                continue
            seen.add(k)
            stack.extend(callees(k) - seen)
        reads, ws = set(), []
        deep, keysets = [], set()
        for k in seen:
            reads |= fns[k].reads
            ws += writes.get(k, [])
            deep += [["%s.py" % k[0], k[1]] + d_ for d_ in fns[k].deep_iters]
            keysets |= fns[k].keyset_reads
        rows.append({"op": op, "functions": len(seen), "reads": sorted(reads), "writes": ws, "missing_entries": missing,
                     "deep_iterations": deep, "keyset_reads": sorted(keysets),
                     "reach": sorted("%s:%s" % k for k in seen)})
    slots = sorted(set(s for r in rows for s in r["reads"]) | set(w["slot"] for r in rows for w in r["writes"]))
    ranges = {}
    for (m_, q_), fn in fns.items():
        ranges.setdefault(m_ + ".py", []).append([fn.node.lineno, getattr(fn.node, "end_lineno", fn.node.lineno), "%s:%s" % (m_, q_)])
    return {"rows": rows, "slots": slots, "func_ranges": ranges}


def offenders(tab):
    """(reader op, writer op, slot, write site) for every slot read by some operation and written non-idempotently by some"""
    bad = []
    refuted = ("augmented", "rmw", "set_restore", "multi_store", "delete", "mutcall")
    for b in tab["rows"]:
        for w in b["writes"]:
            if w["pattern"] in refuted:
                for a in tab["rows"]:
                    if w["slot"] in a["reads"]:
                        bad.append({"reader": a["op"], "writer": b["op"], "slot": w["slot"], "site": "%s:%d" % (w["file"], w["line"]), "pattern": w["pattern"]})
    return bad


def iteration_conflicts(tab):
    """An operation that hands an object it did not build itself to library code walking every nested container (copy.deepcopy,
    pickle / json in Python) iterates the KEY SETS of everything reachable from it; an operation with a check-then-act store
    publishes a NEW key into a shared container.  The publication is confluent for readers of the key, not for iterators of the
    container (C20_iter_vs_new_key_refuted) -> [(iterating op, site, publishing op, slot)]"""
    pubs = {}
    for r in tab["rows"]:
        for w in r["writes"]:
            if w["pattern"] == "check_then_act":
                pubs.setdefault(r["op"], set()).add(w["slot"])
    out = []
    for r in tab["rows"]:
        for file_, func_, line_, callee_, arg_, shared_ in r.get("deep_iterations", []):
            if not shared_:
                continue
            for op2, slots in sorted(pubs.items()):
                out.append({"iterating_op": r["op"], "site": "%s:%d" % (file_, line_), "call": "%s(%s)" % (callee_, arg_), "func": func_,
                            "publishing_op": op2, "new_keys": sorted(slots)[:6]})
                break
    return out


def to_gallina(tab):
    sid = {s: i for i, s in enumerate(tab["slots"])}
    out = ["(* GENERATED by translators/opreads.py from the fastparquet sources of this run - do not edit *)",
           "From Coq Require Import NArith List String Bool.",
           "From Pq Require Import Conc.Footprint Conc.OpTable.",
           "Import ListNotations.",
           "Open Scope string_scope.", "",
           "Definition slot_names : list (N * string) :=", "  ["]
    out.append(";\n".join('   (%d%%N, "%s")' % (i, s.replace('"', "'")) for s, i in sorted(sid.items(), key=lambda kv: kv[1])))
    out.append("  ].")
    out.append("")
    out.append("Definition op_rows : list oprow :=")
    out.append("  [")
    rows = []
    for r in tab["rows"]:
        reads = "; ".join("%d%%N" % sid[s] for s in r["reads"])
        seenw = set()
        ws = []
        for w in r["writes"]:
            k = (sid[w["slot"]], w["pattern"])
            if k in seenw:
                continue
            seenw.add(k)
            ws.append("(%d%%N, %s)" % (k[0], SS.PAT_CTOR[w["pattern"]]))
        rows.append('   mkRow "%s" [%s] [%s]' % (r["op"], reads, "; ".join(ws)))
    out.append(";\n".join(rows))
    out.append("  ].")
    return "\n".join(out) + "\n"


def run(repo, gen_dir, inv=None):
    try:
        tab = build(repo, inv)
        os.makedirs(gen_dir, exist_ok=True)
        path = os.path.join(gen_dir, "OpReads.v")
        with open(path, "w") as f:
            f.write(to_gallina(tab))
        return {"status": "ok", "table": tab, "file": path, "offenders": offenders(tab), "iteration_conflicts": iteration_conflicts(tab)}
    except Exception as e:          # noqa (fail closed)
        import traceback
        return {"status": "translator_fallback", "reason": "%s: %s" % (type(e).__name__, e), "tb": traceback.format_exc()[-1500:]}


if __name__ == "__main__":
    import sys
    tab = build(sys.argv[1])
    for r in tab["rows"]:
        print("%-12s fns=%3d reads=%3d writes=%s %s" % (r["op"], r["functions"], len(r["reads"]),
              sorted(set((w["slot"], w["pattern"]) for w in r["writes"])), r["missing_entries"] or ""))
    print(len(tab["slots"]), "slots")
    for o in offenders(tab)[:40]:
        print("OFFENDER", o)
