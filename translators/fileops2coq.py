#!/usr/bin/env python3
"""fileops2coq: the file arithmetic of
     fastparquet.api.ParquetFile._parse_header           (which bytes are handed to the thrift parser)      [C10]
     fastparquet.writer.update_file_custom_metadata      (where the new footer / length / magic are written) [C16]
(Python ast) -> Gallina over the file-object prelude Impl/PyFile.v.  Fails closed (exit status 2 + source location).

Supported subset
  statements:  f.seek(e[, w]) | f.write(e) | f.truncate() | name = e | self.attr = e | assert e | pass | docstrings
               if <flag>: ... [else: ...]        flag: a boolean parameter name, `not flag`, or the `_metadata` file-name test
               if <comparison>: ... [else: ...]  < <= > >= == != on integers, == != on bytes (operands may read the cursor)
               try: <stmts> except ...: raise ...   (every exception is one outcome: None)
               with open(path, mode) as f: <stmts>
               a, b = helper(f, ...) | x = helper(f, ...)   a module-level function of writer.py / util.py whose first parameter is the
                                                 file object: INLINED (locals renamed, defaults bound, `return` = continuation)
               x = from_buffer(e, ..)            x stands for the bytes it was parsed from
               update_custom_metadata(x, ..)     x := thrift x   (thrift : bytes -> bytes = serialise o update o parse, opaque)
  expressions: ints, bytes literals, names, module-level integer constants, + - unary -, min/max, len(e), e[a:b],
               comparisons, f.read([n]), f.seek(..), f.tell(),
               f.write(e), write_thrift(f, x) (= f.write(x)), struct.unpack('<I', e)[0], struct.pack('<I', e),
               int.from_bytes(e, 'little')
Effects inside expressions are sequenced left to right (continuation passing); an `if` duplicates its continuation.
"""
import ast
import copy
import os
import sys


class Unsupported(Exception):
    pass


def fail(node, msg, fn="?"):
    raise Unsupported("%s:%d:%d: %s" % (fn, getattr(node, "lineno", 0), getattr(node, "col_offset", 0), msg))


class Tr:
    def __init__(self, fname, fvar, flags, consts=None):
        self.fname, self.f, self.flags = fname, fvar, flags
        self.consts = consts or {}
        self.n = 0
        self.helpers = {}       # name -> (FunctionDef, integer constants of its module): helpers taking the file object, inlined at the call
        self.n_inl = 0
        self.ret_k = None
        self.stop = None

    # ---- static types of expressions: 'int' | 'bytes' | 'bool' ------------------------------------------------------
    def typeof(self, e, env):
        if isinstance(e, ast.Constant):
            return {bool: "bool", int: "int", bytes: "bytes"}.get(type(e.value))
        if isinstance(e, ast.Name):
            return env.get(e.id) or ("int" if e.id in self.consts else None)
        if isinstance(e, ast.Attribute) and isinstance(e.value, ast.Name) and e.value.id == "self":
            return env.get("self_" + e.attr)
        if isinstance(e, ast.UnaryOp):
            return "bool" if isinstance(e.op, ast.Not) else "int"
        if isinstance(e, ast.BinOp):
            return "int"
        if isinstance(e, ast.Compare):
            return "bool"
        if isinstance(e, ast.Subscript):
            return "bytes" if isinstance(e.slice, ast.Slice) else "int"
        if isinstance(e, ast.Call):
            if self.is_f(e, "read"):
                return "bytes"
            if isinstance(e.func, ast.Name):
                return {"len": "int", "min": "int", "max": "int", "write_thrift": "int", "from_buffer": "bytes"}.get(e.func.id)
            if isinstance(e.func, ast.Attribute):
                return {"seek": "int", "tell": "int", "write": "int", "from_bytes": "int", "pack": "bytes"}.get(e.func.attr)
        return None

    def tmp(self):
        self.n += 1
        return "t%d" % self.n

    def bail(self, node, msg):
        fail(node, msg, self.fname)

    # ---- expressions (CPS: k receives the Gallina term of the value) -----------------------------------------------
    def is_f(self, e, meth):
        return isinstance(e, ast.Call) and isinstance(e.func, ast.Attribute) and e.func.attr == meth \
            and isinstance(e.func.value, ast.Name) and e.func.value.id == self.f

    def exprs(self, es, env, k, acc=()):
        if not es:
            return k(list(acc))
        return self.expr(es[0], env, lambda v: self.exprs(es[1:], env, k, acc + (v,)))

    def expr(self, e, env, k):
        f = self.f
        if isinstance(e, ast.Constant):
            if isinstance(e.value, bool):
                return k("true" if e.value else "false")
            if isinstance(e.value, int):
                return k("(%d)%%Z" % e.value)
            if isinstance(e.value, bytes):
                return k("([%s]%%N : bytes)" % "; ".join(str(b) for b in e.value))
            self.bail(e, "unsupported constant %r" % (e.value,))
        if isinstance(e, ast.Name):
            if e.id not in env:
                if e.id in self.consts:
                    return k("(%d)%%Z" % self.consts[e.id])
                self.bail(e, "unknown name %s" % e.id)
            return k(e.id)
        if isinstance(e, ast.Attribute) and isinstance(e.value, ast.Name) and e.value.id == "self" and ("self_" + e.attr) in env:
            return k("self_" + e.attr)
        if isinstance(e, ast.UnaryOp) and isinstance(e.op, ast.USub):
            return self.expr(e.operand, env, lambda v: k("(Z.opp %s)" % v))
        if isinstance(e, ast.BinOp) and isinstance(e.op, (ast.Add, ast.Sub)):
            op = "Z.add" if isinstance(e.op, ast.Add) else "Z.sub"
            return self.exprs([e.left, e.right], env, lambda vs: k("(%s %s %s)" % (op, vs[0], vs[1])))
        if isinstance(e, ast.Compare) and len(e.ops) == 1:
            op, tl, tr_ = e.ops[0], self.typeof(e.left, env), self.typeof(e.comparators[0], env)
            if tl == tr_ == "bytes" and isinstance(op, (ast.Eq, ast.NotEq)):
                fmt = "(bytes_eqb %s %s)" if isinstance(op, ast.Eq) else "(negb (bytes_eqb %s %s))"
                return self.exprs([e.left, e.comparators[0]], env, lambda vs: k(fmt % (vs[0], vs[1])))
            if tl == tr_ == "int":
                fmt = {ast.Lt: "(Z.ltb %s %s)", ast.LtE: "(Z.leb %s %s)", ast.Gt: "(Z.ltb %s %s)", ast.GtE: "(Z.leb %s %s)",
                       ast.Eq: "(Z.eqb %s %s)", ast.NotEq: "(negb (Z.eqb %s %s))"}.get(type(op))
                if fmt:
                    swap = isinstance(op, (ast.Gt, ast.GtE))
                    return self.exprs([e.left, e.comparators[0]], env,
                                      lambda vs: k(fmt % ((vs[1], vs[0]) if swap else (vs[0], vs[1]))))
            self.bail(e, "unsupported comparison (operand types %s, %s)" % (tl, tr_))
        if isinstance(e, ast.Call) and isinstance(e.func, ast.Name) and e.func.id in ("min", "max") and len(e.args) == 2 and not e.keywords \
                and all(self.typeof(a, env) == "int" for a in e.args):
            return self.exprs(list(e.args), env, lambda vs: k("(Z.%s %s %s)" % (e.func.id, vs[0], vs[1])))
        if self.is_f(e, "read") and not e.keywords and len(e.args) <= 1:
            t = self.tmp()
            if e.args:
                return self.expr(e.args[0], env, lambda n: "let '(%s, %s) := f_read %s (Some %s) in %s" % (f, t, f, n, k(t)))
            return "let '(%s, %s) := f_read %s None in %s" % (f, t, f, k(t))
        if self.is_f(e, "seek") and not e.keywords and 1 <= len(e.args) <= 2:
            t = self.tmp()
            args = list(e.args) + ([ast.Constant(value=0)] if len(e.args) == 1 else [])
            return self.exprs(args, env, lambda vs: "match f_seek %s %s %s with None => None | Some (%s, %s) => %s end" % (
                f, vs[0], vs[1], f, t, k(t)))
        if self.is_f(e, "tell") and not e.args:
            return k("(f_tell %s)" % f)
        if self.is_f(e, "write") and len(e.args) == 1:
            t = self.tmp()
            return self.expr(e.args[0], env, lambda v: "let '(%s, %s) := f_write %s %s in %s" % (f, t, f, v, k(t)))
        if isinstance(e, ast.Call) and isinstance(e.func, ast.Name) and e.func.id == "write_thrift" and len(e.args) == 2 \
                and isinstance(e.args[0], ast.Name) and e.args[0].id == f:
            t = self.tmp()
            return self.expr(e.args[1], env, lambda v: "let '(%s, %s) := f_write %s %s in %s" % (f, t, f, v, k(t)))
        if isinstance(e, ast.Call) and isinstance(e.func, ast.Name) and e.func.id == "len" and len(e.args) == 1:
            return self.expr(e.args[0], env, lambda v: k("(py_len %s)" % v))
        if isinstance(e, ast.Call) and isinstance(e.func, ast.Name) and e.func.id == "from_buffer" and len(e.args) >= 1:
            return self.expr(e.args[0], env, k)
        if isinstance(e, ast.Call) and isinstance(e.func, ast.Attribute) and isinstance(e.func.value, ast.Name):
            mod, meth = e.func.value.id, e.func.attr
            if (mod, meth) == ("int", "from_bytes") and len(e.args) == 2 and isinstance(e.args[1], ast.Constant) and e.args[1].value == "little":
                return self.expr(e.args[0], env, lambda v: k("(int_from_le %s)" % v))
            if (mod, meth) == ("struct", "pack") and len(e.args) == 2 and isinstance(e.args[0], ast.Constant) and e.args[0].value in ("<I", b"<I"):
                t = self.tmp()
                return self.expr(e.args[1], env, lambda v: "match pack_I %s with None => None | Some %s => %s end" % (v, t, k(t)))
        if isinstance(e, ast.Subscript):
            if isinstance(e.slice, ast.Slice) and e.slice.step is None:
                parts = [p for p in (e.slice.lower, e.slice.upper) if p is not None]

                def done(vs):
                    vs = list(vs)
                    base = vs.pop(0)
                    lo = "(Some %s)" % vs.pop(0) if e.slice.lower is not None else "None"
                    hi = "(Some %s)" % vs.pop(0) if e.slice.upper is not None else "None"
                    return k("(py_slice %s %s %s)" % (lo, hi, base))
                return self.exprs([e.value] + parts, env, done)
            v = e.value
            if isinstance(e.slice, ast.Constant) and e.slice.value == 0 and isinstance(v, ast.Call) and isinstance(v.func, ast.Attribute) \
                    and isinstance(v.func.value, ast.Name) and (v.func.value.id, v.func.attr) == ("struct", "unpack") and len(v.args) == 2 \
                    and isinstance(v.args[0], ast.Constant) and v.args[0].value in ("<I", b"<I"):
                t = self.tmp()
                return self.expr(v.args[1], env, lambda x: "match unpack_I %s with None => None | Some %s => %s end" % (x, t, k(t)))
        self.bail(e, "unsupported expression %s" % ast.dump(e)[:100])

    # ---- helper functions taking the file object: inlined ---------------------------------------------------------------
    def inline(self, call, env, after):
        fn, consts = self.helpers[call.func.id]
        if call.keywords and any(k.arg is None for k in call.keywords):
            self.bail(call, "unsupported call of helper %s" % fn.name)
        params = [a.arg for a in fn.args.args]
        if not params or not call.args or not (isinstance(call.args[0], ast.Name) and call.args[0].id == self.f):
            self.bail(call, "helper %s must be given the file object first" % fn.name)
        self.n_inl += 1
        pre = "h%d_" % self.n_inl
        local = set(params[1:])
        for n in ast.walk(fn):
            if isinstance(n, ast.Name) and isinstance(n.ctx, ast.Store):
                local.add(n.id)
        fparam, fvar = params[0], self.f

        class Ren(ast.NodeTransformer):
            def visit_Name(self, node):
                if node.id == fparam:
                    return ast.copy_location(ast.Name(id=fvar, ctx=node.ctx), node)
                if node.id in local:
                    return ast.copy_location(ast.Name(id=pre + node.id, ctx=node.ctx), node)
                return node
        body = [Ren().visit(copy.deepcopy(st)) for st in fn.body]
        # bind the parameters: positional, keyword, default
        given = dict(zip(params[1:], call.args[1:]))
        given.update({k.arg: k.value for k in call.keywords})
        defaults = dict(zip(params[len(params) - len(fn.args.defaults):], fn.args.defaults))
        old_consts, old_ret = self.consts, self.ret_k
        self.consts = {**consts, **old_consts}
        try:
            binds, e2 = [], dict(env)
            for pname in params[1:]:
                src = given.get(pname, defaults.get(pname))
                if src is None:
                    self.bail(call, "helper %s: parameter %s not given" % (fn.name, pname))
                binds.append((pre + pname, src))

            def bind(i, envb):
                if i == len(binds):
                    self.ret_k = after
                    return self.block(body, envb, lambda e3: self.bail(fn, "helper %s may fall off its end" % fn.name))
                nm, src = binds[i]
                ty = self.typeof(src, envb)
                return self.expr(src, envb, lambda v: "let %s := %s in %s" % (nm, v, bind(i + 1, {**envb, nm: ty})))
            return bind(0, e2)
        finally:
            self.consts, self.ret_k = old_consts, old_ret

    # ---- conditions of `if` ------------------------------------------------------------------------------------------
    def is_flag_test(self, t):
        return any(isinstance(n, ast.Constant) and n.value == "_metadata" for n in ast.walk(t))

    def flag(self, t):
        if isinstance(t, ast.Name) and t.id in self.flags:
            return self.flags[t.id]
        if isinstance(t, ast.UnaryOp) and isinstance(t.op, ast.Not):
            return "(negb %s)" % self.flag(t.operand)
        if "is_md" in self.flags.values() and any(isinstance(n, ast.Constant) and n.value == "_metadata" for n in ast.walk(t)) \
                and any(isinstance(n, ast.Attribute) and n.attr == "endswith" for n in ast.walk(t)):
            return "is_md"
        self.bail(t, "unsupported condition %s" % ast.dump(t)[:100])

    # ---- statements --------------------------------------------------------------------------------------------------
    def block(self, stmts, env, k):
        if not stmts:
            return k(env)
        s, rest = stmts[0], stmts[1:]

        def cont(env2):
            return self.block(rest, env2, k)
        if isinstance(s, ast.Pass) or (isinstance(s, ast.Expr) and isinstance(s.value, ast.Constant)):
            return cont(env)
        if self.stop is not None and self.stop(s):
            return k(env)
        if isinstance(s, ast.Expr) and self.is_f(s.value, "truncate") and not s.value.args:
            return "let %s := f_truncate %s in %s" % (self.f, self.f, cont(env))
        if isinstance(s, ast.Expr) and isinstance(s.value, ast.Call) and isinstance(s.value.func, ast.Name) \
                and s.value.func.id == "update_custom_metadata" and len(s.value.args) == 2 and isinstance(s.value.args[0], ast.Name):
            x = s.value.args[0].id
            if x not in env:
                self.bail(s, "unknown name %s" % x)
            return "let %s := thrift %s in %s" % (x, x, cont(env))
        if isinstance(s, ast.Expr):
            return self.expr(s.value, env, lambda v: cont(env))
        if isinstance(s, ast.Return) and self.ret_k is not None:
            vals = list(s.value.elts) if isinstance(s.value, ast.Tuple) else [s.value]
            tys = [self.typeof(v, env) for v in vals]
            rk = self.ret_k
            return self.exprs(vals, env, lambda vs: rk(vs, tys, env))
        if isinstance(s, ast.Assign) and len(s.targets) == 1 and isinstance(s.value, ast.Call) and isinstance(s.value.func, ast.Name) \
                and s.value.func.id in self.helpers:
            t = s.targets[0]
            names = [e.id for e in t.elts] if (isinstance(t, ast.Tuple) and all(isinstance(e, ast.Name) for e in t.elts)) else \
                ([t.id] if isinstance(t, ast.Name) else None)
            if names is None:
                self.bail(s, "unsupported target of a helper call")

            def after(vs, tys, env2):
                if len(vs) != len(names):
                    self.bail(s, "helper returns %d values, %d expected" % (len(vs), len(names)))
                e3 = dict(env2)
                out = ""
                for nm, v, ty in zip(names, vs, tys):
                    out += "let %s := %s in " % (nm, v)
                    e3[nm] = ty
                return out + cont(e3)
            return self.inline(s.value, env, after)
        if isinstance(s, ast.Assign) and len(s.targets) == 1:
            t = s.targets[0]
            if isinstance(t, ast.Name):
                name = t.id
            elif isinstance(t, ast.Attribute) and isinstance(t.value, ast.Name) and t.value.id == "self":
                name = "self_" + t.attr
            else:
                self.bail(s, "unsupported assignment target")
            ty = self.typeof(s.value, env)
            return self.expr(s.value, env, lambda v: "let %s := %s in %s" % (name, v, cont({**env, name: ty})))
        if isinstance(s, ast.Assert):
            return self.expr(s.test, env, lambda v: "if %s then %s else None" % (v, cont(env)))
        if isinstance(s, ast.If):
            if isinstance(s.test, ast.Compare) and self.typeof(s.test, env) == "bool" and not self.is_flag_test(s.test):
                return self.expr(s.test, env, lambda c: "if %s then %s else %s" % (
                    c, self.block(s.body + rest, env, k), self.block(s.orelse + rest, env, k)))
            c = self.flag(s.test)
            return "if %s then %s else %s" % (c, self.block(s.body + rest, env, k), self.block(s.orelse + rest, env, k))
        if isinstance(s, ast.Try):
            if s.orelse or s.finalbody or not all(len(h.body) == 1 and isinstance(h.body[0], ast.Raise) for h in s.handlers):
                self.bail(s, "only try/except whose handlers re-raise")
            return self.block(s.body + rest, env, k)
        if isinstance(s, ast.With) and len(s.items) == 1 and isinstance(s.items[0].optional_vars, ast.Name) \
                and s.items[0].optional_vars.id == self.f and isinstance(s.items[0].context_expr, ast.Call) \
                and isinstance(s.items[0].context_expr.func, ast.Name) and s.items[0].context_expr.func.id == "open":
            return self.block(s.body + rest, env, k)
        self.bail(s, "unsupported statement %s" % type(s).__name__)


def int_consts(mod):
    """module-level NAME = <integer expression of literals> (e.g. FOOTER_READ_SIZE = 2**16)"""
    out = {}

    def ev(e):
        if isinstance(e, ast.Constant) and isinstance(e.value, int) and not isinstance(e.value, bool):
            return e.value
        if isinstance(e, ast.BinOp):
            a, b = ev(e.left), ev(e.right)
            if a is None or b is None:
                return None
            if isinstance(e.op, ast.Add):
                return a + b
            if isinstance(e.op, ast.Sub):
                return a - b
            if isinstance(e.op, ast.Mult):
                return a * b
            if isinstance(e.op, ast.Pow) and 0 <= b <= 64:
                return a ** b
            if isinstance(e.op, ast.LShift) and 0 <= b <= 64:
                return a << b
        return None
    for s in mod.body:
        if isinstance(s, ast.Assign) and len(s.targets) == 1 and isinstance(s.targets[0], ast.Name):
            v = ev(s.value)
            if v is not None:
                out[s.targets[0].id] = v
    return out


def find(mod, name, cls=None):
    for n in ast.walk(mod):
        if isinstance(n, ast.FunctionDef) and n.name == name:
            return n
    raise Unsupported("function %s not found" % name)


def has_call(node, fname):
    return any(isinstance(n, ast.Call) and isinstance(n.func, ast.Name) and n.func.id == fname for n in ast.walk(node))


def translate_parse_header(api_path):
    mod = ast.parse(open(api_path).read())
    fn = find(mod, "_parse_header")
    args = [a.arg for a in fn.args.args]
    if args[:2] != ["self", "f"] or "verify" not in args:
        fail(fn, "unexpected signature", "api.py")
    tr = Tr("api.py", "f", {"verify": "verify", "__md__": "is_md"}, int_consts(mod))
    tr.stop = lambda s: has_call(s, "from_buffer")

    def result(env):
        if "data" not in env or "self__head_size" not in env:
            fail(fn, "the names `data` / `self._head_size` are not bound on every path to from_buffer", "api.py")
        return "Some (data, self__head_size)"
    # the parser must be handed `data`
    calls = [n for n in ast.walk(fn) if isinstance(n, ast.Call) and isinstance(n.func, ast.Name) and n.func.id == "from_buffer"]
    if len(calls) != 1 or not (isinstance(calls[0].args[0], ast.Name) and calls[0].args[0].id == "data"):
        fail(fn, "expected exactly one from_buffer(data, ...)", "api.py")
    body = tr.block(fn.body, {"f": "file", "verify": "bool"}, result)
    return ("Definition parse_header_gen (is_md verify : bool) (file : bytes) : option (bytes * Z) :=\n"
            "  let f := f_open file in\n  %s.\n" % body)


def translate_update_file(writer_path):
    mod = ast.parse(open(writer_path).read())
    fn = find(mod, "update_file_custom_metadata")
    flagname = "is_metadata_file"
    if flagname not in [a.arg for a in fn.args.args]:
        fail(fn, "unexpected signature", "writer.py")
    body = [s for s in fn.body if not (isinstance(s, ast.Expr) and isinstance(s.value, ast.Constant))]
    # preamble: `if is_metadata_file is None: <derive it from the file name>` - the flag is a parameter of the model
    if body and isinstance(body[0], ast.If) and isinstance(body[0].test, ast.Compare) and isinstance(body[0].test.left, ast.Name) \
            and body[0].test.left.id == flagname and isinstance(body[0].test.ops[0], ast.Is) \
            and all(isinstance(n, (ast.If, ast.Assign, ast.Compare, ast.Name, ast.Constant, ast.Subscript, ast.Slice, ast.UnaryOp, ast.USub,
                                   ast.Load, ast.Store, ast.Eq, ast.Is, ast.expr_context)) for n in ast.walk(body[0])):
        body = body[1:]
    if len(body) != 1 or not isinstance(body[0], ast.With):
        fail(fn, "expected the body to be one `with open(...) as f:` block", "writer.py")
    fvar = body[0].items[0].optional_vars.id if isinstance(body[0].items[0].optional_vars, ast.Name) else None
    tr = Tr("writer.py", fvar, {flagname: flagname}, int_consts(mod))
    tr.stop = None
    # helpers: module-level functions of writer.py and of util.py (next to it)
    mods = [mod]
    upath = os.path.join(os.path.dirname(os.path.abspath(writer_path)), "util.py")
    if os.path.exists(upath):
        mods.append(ast.parse(open(upath).read()))
    for m in mods:
        c = int_consts(m)
        for st in m.body:
            if isinstance(st, ast.FunctionDef) and st.args.args and st.name != "update_file_custom_metadata":
                tr.helpers.setdefault(st.name, (st, c))
    for builtin in ("from_buffer", "update_custom_metadata", "write_thrift", "len", "min", "max"):
        tr.helpers.pop(builtin, None)
    txt = tr.block(body, {fvar: "file"}, lambda env: "Some (content %s)" % fvar)
    return ("Definition update_file_gen (%s : bool) (thrift : bytes -> bytes) (file : bytes) : option bytes :=\n"
            "  let %s := f_open file in\n  %s.\n" % (flagname, fvar, txt))


HEADER = ("(* GENERATED by translators/fileops2coq.py from fastparquet/%s (%s); do not edit. *)\n"
          "From Coq Require Import NArith ZArith List Bool.\nFrom Pq Require Import Base.Bytes Impl.PyFile.\nImport ListNotations.\n\n")


if __name__ == "__main__":
    try:
        if sys.argv[1] == "parse_header":
            sys.stdout.write(HEADER % ("api.py", "ParquetFile._parse_header") + translate_parse_header(sys.argv[2]))
        elif sys.argv[1] == "update_file":
            sys.stdout.write(HEADER % ("writer.py", "update_file_custom_metadata") + translate_update_file(sys.argv[2]))
        else:
            raise Unsupported("usage: fileops2coq.py parse_header api.py | update_file writer.py")
    except Unsupported as e:
        sys.stderr.write(str(e) + "\n")
        sys.exit(2)
